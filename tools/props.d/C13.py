import os, subprocess


def _unicode_tables_current(ctx):
    """coq/Model/GcsUnicode.v must be what harness/cmd/gcsunicode prints for the Go toolchain in use."""
    import __main__ as chk
    verif = os.path.dirname(os.path.dirname(os.path.dirname(os.path.abspath(__file__))))
    exe = os.path.join(verif, "harness", "bin", "gcsunicode")
    p = subprocess.run([exe], stdout=subprocess.PIPE, stderr=subprocess.STDOUT, timeout=300)
    have = open(os.path.join(verif, "coq", "Model", "GcsUnicode.v")).read()
    if p.returncode != 0 or p.stdout.decode() != have:
        raise chk.Violation("translator", "coq/Model/GcsUnicode.v differs from the unicode tables of the Go toolchain "
                            "(regenerate: harness/bin/gcsunicode > coq/Model/GcsUnicode.v)", p.stdout.decode()[-2000:], True)
    ctx.notes.append("GcsUnicode.v equals the output of harness/cmd/gcsunicode (unicode.IsLetter / unicode.IsDigit tables)")


CONFIG = {
    "id": "C13",
    "coq_targets": ["Props/C13.v", "Model/GcsCheck.v"],
    "prop_files": ["Props/C13.v"],
    "gen": [],
    "extra_bins": ["gcsunicode"],
    "pre": [_unicode_tables_current],
    "components": [{
        "name": "gcstotal",
        "modules": ["Model.GcsAst", "Model.GcsLex", "Model.GcsParse", "Model.GcsCheck"],
        "check": "check_case", "monitor": "monitor_total", "model_out": "model_out",
        "case_type": "case",
        "ops_path": [1],            # the list of source chunks: shrinking drops chunks
        "n_quick": 640, "n_thorough": 24000, "shard": 80,
    }],
    "rule": "byte strings given as chunk lists: grammar-generated programs in random layouts, single-token deletions, "
            "byte flips/deletions, token soup without separators, sign or dot followed by a digit/letter/number of every "
            "Unicode kind or by an invalid UTF-8 sequence, unterminated strings and comments, deep nesting (moderate and "
            "up to 64 KiB), raw random bytes; 4 inputs of about 64 KiB per 160 cases; each run in a sacrificial child "
            "process; a case is non-trivial when distinct as an input term",
    "trusted": ["the Go runtime and scheduler are not modelled: the lexing goroutine is the producer state machine of "
                "Model/GcsLex.v (pending tokens, registers, next state function; closed; dead); goroutine count and wall "
                "time are measured on the real code, the proved surrogates are the fuel bounds and the Closed producer",
                "utf8.DecodeRuneInString is transcribed (Model/GcsLex.v decode) and unicode.IsLetter/IsDigit are the generated "
                "tables of Model/GcsUnicode.v (compared with the toolchain on every run); strconv.ParseInt/ParseFloat are "
                "modelled exactly on the lexemes the lexer can produce (Model/GcsNum.v); all tied by exact correspondence",
                "the text of error messages (ItemError token values, parse errors) is not modelled"],
    "assumptions": ["bytes are 0..255 (the model takes them mod 256)",
                    "Parse is called once on a Parser created by New (the deferred drain runs when Parse returns)"],
    "manifest": {
        "level_text": "Kernel-checked theorems over executable Gallina models of the gcs lexer (state functions over a byte "
                      "string with Go's UTF-8 decoding, Z cursors so that every slice/index can panic, the token channel as "
                      "an explicit producer state) and of the Pratt parser pulling from it: for every byte string no "
                      "panic, linear fuel never exhausted, a program or an error is returned, and the producer is Closed when "
                      "Parse returns; tied to the Go code by exact correspondence (outcome, full token stream, tokens pulled, "
                      "cursor, goroutines left) with the real parser run in a sacrificial child process.",
        "level_note": "Coq kernel; hand-written models Model/GcsLex.v, GcsParse.v, GcsNum.v, generated GcsUnicode.v; "
                      "partial: wall-clock time and the Go scheduler are measured, not modelled.",
        "technique": "Coq proof (invariant 0<=start<=pos<=len, potential functions for lexer steps and parser tokens, "
                     "mutual induction on fuel) + model/implementation correspondence in a child process",
        "design_ref": "DESIGN.md section 7, C13",
    },
}
