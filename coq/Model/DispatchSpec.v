(* The ROLE TABLE of the modifier callbacks, as the doc comments of modifier.Listeners state it:
   for every callback (not: for every handler function, which is how listener.go and Model/Dispatch.v
   are organised) the event that triggers it, the role whose modifiers receive it, and its gates.
   Definitions only; they are used by the statements in Proofs/DispatchProofs.v and, evaluated on
   what the implementation did, by the monitor in Model/DispatchCheck.v. *)
From Coq Require Import List ZArith Bool.
From SR Require Import Model.Dispatch.
Import ListNotations.
Open Scope Z_scope.

Inductive ekind :=
  | KActionStart | KActionEnd | KHPChange | KLimbo | KTargetDeath | KEnergyChange | KStanceChange
  | KStanceBreak | KStanceReset | KBreakExtend | KShieldAdded | KShieldRemoved
  | KAttackStart | KAttackEnd | KHitStart | KHitEnd | KHealStart | KHealEnd
  | KPhase1 | KPhase2 | KOtherPhase
  | KNever.                                  (* not reached from an engine event *)

Definition ekind_code (k : ekind) : Z :=
  match k with
  | KActionStart => 0 | KActionEnd => 1 | KHPChange => 2 | KLimbo => 3 | KTargetDeath => 4
  | KEnergyChange => 5 | KStanceChange => 6 | KStanceBreak => 7 | KStanceReset => 8
  | KBreakExtend => 9 | KShieldAdded => 10 | KShieldRemoved => 11
  | KAttackStart => 12 | KAttackEnd => 13 | KHitStart => 14 | KHitEnd => 15
  | KHealStart => 16 | KHealEnd => 17 | KPhase1 => 18 | KPhase2 => 19 | KOtherPhase => 20
  | KNever => 21
  end.
Definition ekind_eqb (a b : ekind) : bool := ekind_code a =? ekind_code b.

Definition kind_of (e : event) : ekind :=
  match e with
  | EActionStart _ => KActionStart
  | EActionEnd _ _ => KActionEnd
  | EHPChange _ => KHPChange
  | ELimbo _ _ => KLimbo
  | ETargetDeath _ _ => KTargetDeath
  | EEnergyChange _ _ => KEnergyChange
  | EStanceChange _ _ => KStanceChange
  | EStanceBreak _ _ => KStanceBreak
  | EStanceReset _ => KStanceReset
  | EBreakExtend _ => KBreakExtend
  | EShieldAdded _ _ => KShieldAdded
  | EShieldRemoved _ => KShieldRemoved
  | EAttackStart _ _ _ => KAttackStart
  | EAttackEnd _ _ _ => KAttackEnd
  | EHitStart _ _ _ _ _ => KHitStart
  | EHitEnd _ _ _ _ => KHitEnd
  | EHealStart _ _ _ _ => KHealStart
  | EHealEnd _ _ _ => KHealEnd
  | ETick _ p => if p =? 3 then KPhase1 else if p =? 8 then KPhase2 else KOtherPhase
  end.

(* who, in an event, the callback is for *)
Inductive role :=
  | RSubject      (* "the attached target": the unit the event is about (owner of the action, unit whose
                     HP / energy / stance / shield changed, the dying unit, the RECEIVER of a heal) *)
  | RAttacker | RTargets | RDefender
  | RHealer
  | RKiller
  | RSource.      (* the unit that caused the break *)

(* the doc comments of modifier.Listeners, field by field: triggering event and role *)
Definition cb_when (k : cb) : ekind * role :=
  match k with
  | OnAdd | OnRemove | OnDispel | OnExtendDuration | OnExtendCount | OnPropertyChange => (KNever, RSubject)
  | OnPhase1 => (KPhase1, RSubject)
  | OnPhase2 => (KPhase2, RSubject)
  | OnHPChange => (KHPChange, RSubject)
  | OnLimboWaitHeal => (KLimbo, RSubject)
  | OnBeforeDying => (KTargetDeath, RSubject)
  | OnTriggerDeath => (KTargetDeath, RKiller)
  | OnEnergyChange => (KEnergyChange, RSubject)
  | OnStanceChange => (KStanceChange, RSubject)
  | OnBeforeBeingBreak => (KStanceBreak, RSubject)
  | OnTriggerBreak => (KStanceBreak, RSource)
  | OnBeingBreak => (KStanceBreak, RSubject)
  | OnEndBreak => (KStanceReset, RSubject)
  | OnBreakExtend => (KBreakExtend, RSubject)
  | OnShieldAdded => (KShieldAdded, RSubject)
  | OnShieldRemoved => (KShieldRemoved, RSubject)
  | OnBeforeAttack => (KAttackStart, RAttacker)
  | OnBeforeBeingAttacked => (KAttackStart, RTargets)
  | OnAfterAttack => (KAttackEnd, RAttacker)
  | OnAfterBeingAttacked => (KAttackEnd, RTargets)
  | OnBeforeHitAll | OnBeforeHit => (KHitStart, RAttacker)
  | OnBeforeBeingHitAll | OnBeforeBeingHit => (KHitStart, RDefender)
  | OnAfterHitAll | OnAfterHit => (KHitEnd, RAttacker)
  | OnAfterBeingHitAll | OnAfterBeingHit => (KHitEnd, RDefender)
  | OnBeforeDealHeal => (KHealStart, RHealer)
  | OnBeforeBeingHeal => (KHealStart, RSubject)
  | OnAfterDealHeal => (KHealEnd, RHealer)
  | OnAfterBeingHeal => (KHealEnd, RSubject)
  | OnBeforeAction => (KActionStart, RSubject)
  | OnAfterAction => (KActionEnd, RSubject)
  end.
Definition cb_event (k : cb) : ekind := fst (cb_when k).
Definition cb_role (k : cb) : role := snd (cb_when k).

(* "Qualified hit means it is not of AttackType DOT, PURSUED, or ELEMENT_DAMAGE": the non-All variants *)
Definition qualified_only (k : cb) : bool :=
  match k with
  | OnBeforeHit | OnBeforeBeingHit | OnAfterHit | OnAfterBeingHit => true
  | _ => false
  end.

(* the units playing a role in an event, in the order the event lists them (a unit listed twice as a
   target plays the role twice) *)
Definition role_units (e : event) (r : role) : list Z :=
  match r, e with
  | RSubject, (EActionStart u | EActionEnd u _ | EHPChange u | ELimbo u _ | ETargetDeath u _
              | EEnergyChange u _ | EStanceChange u _ | EStanceBreak u _ | EStanceReset u
              | EBreakExtend u | EShieldAdded u _ | EShieldRemoved u
              | EHealStart _ u _ _ | EHealEnd _ u _ | ETick u _) => [u]
  | RAttacker, (EAttackStart u _ _ | EAttackEnd u _ _ | EHitStart u _ _ _ _ | EHitEnd u _ _ _) => [u]
  | RTargets, (EAttackStart _ ts _ | EAttackEnd _ ts _) => ts
  | RDefender, (EHitStart _ u _ _ _ | EHitEnd _ u _ _) => [u]
  | RHealer, (EHealStart u _ _ _ | EHealEnd u _ _) => [u]
  | RKiller, ETargetDeath _ u => [u]
  | RSource, EStanceBreak _ u => [u]
  | _, _ => []
  end.

(* "Attacks and Heals can execute in a snapshot state. In this state, the modifier listeners will not
   be called by default. Can be overwritten by setting [CanModifySnapshot]" *)
Definition snapshot_of (e : event) : bool :=
  match e with
  | EHitStart _ _ _ sn _ | EHitEnd _ _ _ sn | EHealStart _ _ sn _ | EHealEnd _ _ sn => sn
  | _ => false
  end.
Definition qualified_of (e : event) : bool :=
  match e with
  | EHitStart _ _ ty _ _ | EHitEnd _ _ ty _ => is_qualified ty
  | _ => true
  end.
(* "The given target ID is the target that has been killed" / broken *)
Definition arg_of (e : event) (k : cb) : Z :=
  match k, e with
  | OnTriggerDeath, ETargetDeath t _ => t
  | OnTriggerBreak, EStanceBreak t _ => t
  | _, _ => 0
  end.

(* does instance i receive callback k of event e (given that its unit plays the role) *)
Definition eligible (e : event) (k : cb) (i : inst) : bool :=
  has i k && (negb (snapshot_of e) || c_snap (i_cfg i)) && (negb (qualified_only k) || qualified_of e).

(* the calls of one callback kind (of a kind and its twin) within a call sequence *)
Definition proj (k : cb) (cs : list call) : list call := filter (fun c => cb_eqb (c_cb c) k) cs.
Definition projp (k k' : cb) (cs : list call) : list call :=
  filter (fun c => cb_eqb (c_cb c) k || cb_eqb (c_cb c) k') cs.
(* the calls that come from the event dispatch (not from the manager's attach / detach bookkeeping) *)
Definition external (cs : list call) : list call := filter (fun c => negb (internal (c_cb c))) cs.

(* THE TABLE: all invocations of callback k that event e owes to world w, in order: role order of the
   units, attachment order within a unit *)
Definition expected (w : world) (e : event) (k : cb) : list call :=
  if ekind_eqb (kind_of e) (cb_event k)
  then flat_map (fun u => map (mk_call k (arg_of e k)) (filter (eligible e k) (attached w u)))
                (role_units e (cb_role k))
  else [].

(* order across the callbacks of one event: the rank of the role in the event's protocol *)
Definition rank (k : cb) : nat :=
  match k with
  | OnTriggerDeath | OnTriggerBreak => 1
  | OnBeingBreak => 2
  | OnBeforeBeingAttacked | OnAfterBeingAttacked => 1
  | OnBeforeBeingHitAll | OnBeforeBeingHit | OnAfterBeingHitAll | OnAfterBeingHit => 1
  | OnBeforeBeingHeal | OnAfterBeingHeal => 1
  | _ => 0
  end.

(* the qualified variant is called right after the All variant ON THE SAME INSTANCE *)
Definition twin (k : cb) : option cb :=
  match k with
  | OnBeforeHitAll => Some OnBeforeHit
  | OnBeforeBeingHitAll => Some OnBeforeBeingHit
  | OnAfterHitAll => Some OnAfterHit
  | OnAfterBeingHitAll => Some OnAfterBeingHit
  | _ => None
  end.
Definition opt_call (e : event) (k : cb) (i : inst) : list call :=
  if eligible e k i then [mk_call k (arg_of e k) i] else [].
Definition expected_pair (w : world) (e : event) (k k' : cb) : list call :=
  if ekind_eqb (kind_of e) (cb_event k)
  then flat_map (fun u => flat_map (fun i => opt_call e k i ++ opt_call e k' i) (attached w u))
                (role_units e (cb_role k))
  else [].

(* LimboWaitHeal: the walk ends with the first callback that answers true; the verdict of the event is
   the disjunction of the answers given *)
Fixpoint upto_first (yes : list Z) (l : list inst) : list inst :=
  match l with
  | [] => []
  | i :: r => if existsb (Z.eqb (i_id i)) yes then [i] else i :: upto_first yes r
  end.
Definition limbo_candidates (w : world) (t : Z) : list inst :=
  filter (fun i => has i OnLimboWaitHeal) (attached w t).
Definition expected_limbo (w : world) (t : Z) (yes : list Z) : list call :=
  map (mk_call OnLimboWaitHeal 0) (upto_first yes (limbo_candidates w t)).
Definition expected_verdict (w : world) (t : Z) (yes : list Z) : bool :=
  existsb (fun i => existsb (Z.eqb (i_id i)) yes) (limbo_candidates w t).

(* a world whose callbacks only record (no script changes the attached lists) *)
Definition quiet_cfg (c : cfg) : bool := forallb (fun p => match snd p with [] => true | _ => false end) (c_script c).
Definition quiet_list (l : list inst) : bool := forallb (fun i => quiet_cfg (i_cfg i)) l.
Definition quiet (w : world) : bool := forallb (fun p => quiet_list (snd p)) (w_att w).
