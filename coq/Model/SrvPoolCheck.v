(* Checker for the harness component `srvpool` (C15 and C19, harness/cmd/corr/srvpool.go): the REAL
   worker pool and sample endpoint of the HTTP server mode (pkg/servermode: pool.go
   workerpool.run / iter, run.go, handler.go latest, sample.go generateLogs), driven in the harness
   process through the server's own router.

   A case is one run description plus (iterations N, workers, flush interval, settings.iterations of
   the configuration, the seed K the process-wide math/rand source is given, whether a FAILING
   sample request precedes the pool).  The harness seeds the source with K, draws the N job seeds
   the pool is going to draw, computes the reference (every job run ALONE with a fresh evaluator,
   aggregated with InitializeAggregators (N, cfg) / Add / Flush), seeds the source with K again,
   posts the run request and polls the results endpoint.  Reported: the status, one flag per
   statistic of the final report (as for `clipool`: exact for count / min / max / quartiles /
   histograms / series length, 1e-9 relative for mean and SD), whether every progress report had a
   count that never decreased, never exceeded N and equalled the sum of its damage-per-cycle
   histogram, whether the final count is N, and whether the sample endpoint returned, before and
   after the pool, exactly the log of that run alone.

   What the model says about it.  C15: a job of the pool is a run of the system of Model/Runs.v;
   theorem C15_interleaving_invariance gives that every job ends where it ends alone, in every
   schedule and after any number of other runs (the sample runs included), so the pool's
   aggregators receive the multiset of the alone results.  C19: Model/Agg.v, theorems
   C19_flush_depends_on_multiset / histogram conservation: the flushed statistics are those of
   the multiset added so far and every histogram's counts sum to the number of values added - at
   EVERY flush, the intermediate ones of the pool's flush interval included.  check_case is the
   executable form: status 0 and every flag true. *)
From Coq Require Import List ZArith Bool String.
From SR Require Import Base.CaseLib Base.GlobalTypes Model.RunSpec Model.CliPoolCheck.
Import ListNotations.
Open Scope Z_scope.

Inductive srv_in :=
  SrvIn (run : runspec) (iterations workers flush_interval cfg_iterations : nat) (rand_seed : Z)
        (failing_sample_first : bool).

Inductive srv_out :=
| Srv (status : Z) (flags : list flag) (progress_ok final_count_ok sample_before_ok sample_after_ok : bool)
| SrvSkip (why : string)
| SrvHung
| HarnessPanic (msg : string).

Definition case := (srv_in * srv_out)%type.

Definition model_out (c : case) : srv_out := Srv 0 all_true true true true true.

Definition out_eqb (a b : srv_out) : bool :=
  match a, b with
  | Srv s f p c s1 s2, Srv s' f' p' c' s1' s2' =>
      (s =? s') && list_eqb flag_eqb f f' && Bool.eqb p p' && Bool.eqb c c' && Bool.eqb s1 s1' && Bool.eqb s2 s2'
  | _, _ => false
  end.

Definition check_case (c : case) : bool :=
  match snd c with
  | SrvSkip _ => true
  | o => out_eqb o (model_out c)
  end.

Definition monitor_case (c : case) : bool :=
  match snd c with
  | Srv s f p cnt s1 s2 => run_ok s f && p && cnt && s1 && s2
  | SrvSkip _ => true
  | SrvHung => false
  | HarnessPanic _ => false
  end.
