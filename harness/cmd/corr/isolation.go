package main

// C15 isolation search on the implementation.
//
// Input  IsoIn [RS ...] [order: indices into the run list] workers mode
// Output IsoOut alone1 alone2 seq conc
//
//	alone1/alone2  every run of the list executed ALONE, each in its own fresh child process
//	               (twice: a run whose two fresh executions already differ is not deterministic
//	               by itself -- property C01's subject -- and is not compared)
//	seq            the runs executed one after the other, in `order`, in THIS process (which has
//	               usually executed many other runs before: all earlier cases)
//	conc           the same jobs pushed through a worker pool shaped like cmd/srsim/execute.go and
//	               pkg/servermode/pool.go: `workers` goroutines take jobs from a channel and call
//	               simulation.Run; jobs of the same run share one *model.SimConfig and one parsed
//	               program, as the real pools do
//
// Each observation is Obs status events loghash reshash lastEvent message (content.go): the
// hash covers every field of every event.
//
// Loggers in the concurrent part: simulation.Run installs its loggers in the package-level
// logging.loggers (known finding: concurrent runs log into each other's loggers).  mode 0
// therefore passes ONE demultiplexing logger to every run; it routes an event to the run that
// owns the emitting goroutine, so that any OTHER interference between runs still shows up as a
// difference.  mode 1 gives every run its own logger, as cmd/srsim and the server do, and
// forces the bad interleaving with a gate (run 0 is held inside its first Log call until run 1
// has installed its loggers): it exists to replay the finding.
//
// Built with -race as harness/bin/corr_race and run with ISO_RACE=1 (child processes skipped)
// the same pool is the race-detector part of the check.

import (
	"bytes"
	"encoding/json"
	"fmt"
	"os"
	"os/exec"
	"runtime"
	"strconv"
	"sync"
	"time"

	"github.com/simimpact/srsim/pkg/engine/logging"
	"github.com/simimpact/srsim/pkg/logic/gcs"
	"github.com/simimpact/srsim/pkg/model"

	"verif/harness/term"
)

const isoEventLimit = 60000

// ---- child process: one run alone ----

func init() {
	if os.Getenv("CORR_ISO_CHILD") != "1" {
		return
	}
	var buf bytes.Buffer
	if _, err := buf.ReadFrom(os.Stdin); err != nil {
		fmt.Fprintln(os.Stderr, "iso child:", err)
		os.Exit(3)
	}
	t, err := term.Decode(buf.Bytes())
	if err != nil {
		fmt.Fprintln(os.Stderr, "iso child:", err)
		os.Exit(3)
	}
	o := runAloneHere(t)
	b, _ := json.Marshal(obsTerm(o))
	os.Stdout.Write(b)
	os.Exit(0)
}

func runAloneHere(spec term.T) runObs {
	s := decodeSpec(spec)
	list, err := parseScript(s.script)
	if err != nil {
		return runObs{status: 4, msg: err.Error()}
	}
	rec := newRecLogger(false, isoEventLimit)
	return runReal(s.cfg, list, s.seed, rec, []logging.Logger{rec})
}

func runInChild(spec term.T) term.T {
	b, _ := json.Marshal(spec)
	cmd := exec.Command(os.Args[0])
	cmd.Env = append(os.Environ(), "CORR_ISO_CHILD=1")
	cmd.Stdin = bytes.NewReader(b)
	var out, errb bytes.Buffer
	cmd.Stdout, cmd.Stderr = &out, &errb
	if err := cmd.Run(); err != nil {
		return obsTerm(runObs{status: 2, msg: "child process died: " + err.Error() + " " + lastLine(errb.String())})
	}
	t, err := term.Decode(out.Bytes())
	if err != nil {
		return obsTerm(runObs{status: 2, msg: "child output unreadable: " + err.Error()})
	}
	return t
}

func lastLine(s string) string {
	if len(s) > 200 {
		s = s[len(s)-200:]
	}
	return s
}

// ---- demultiplexing logger ----

func goid() int64 {
	var buf [64]byte
	n := runtime.Stack(buf[:], false)
	// "goroutine 123 ["
	s := buf[10:n]
	i := 0
	for i < len(s) && s[i] >= '0' && s[i] <= '9' {
		i++
	}
	id, _ := strconv.ParseInt(string(s[:i]), 10, 64)
	return id
}

type demuxLogger struct {
	mu   sync.RWMutex
	byG  map[int64]*recLogger
	lost int
}

func (d *demuxLogger) bind(r *recLogger) {
	d.mu.Lock()
	d.byG[goid()] = r
	d.mu.Unlock()
}
func (d *demuxLogger) unbind() {
	d.mu.Lock()
	delete(d.byG, goid())
	d.mu.Unlock()
}
func (d *demuxLogger) Log(e any) {
	d.mu.RLock()
	r := d.byG[goid()]
	d.mu.RUnlock()
	if r == nil {
		d.mu.Lock()
		d.lost++
		d.mu.Unlock()
		return
	}
	r.Log(e)
}

// gated logger for mode 1
var gatedMu sync.Mutex // in mode 1 one logger ends up receiving the events of several runs

type gatedLogger struct {
	rec   *recLogger
	first bool
	wait  chan struct{} // run 0: blocks here in its first Log
	began chan struct{} // run 0: closes this when it has reached its first Log
	sig   chan struct{} // run 1: closes this in its first Log
	once  *sync.Once
}

func (g *gatedLogger) Log(e any) {
	gatedMu.Lock()
	g.rec.Log(e)
	gatedMu.Unlock()
	if !g.first {
		g.first = true
		if g.sig != nil {
			g.once.Do(func() { close(g.sig) })
		}
		if g.began != nil {
			close(g.began)
		}
		if g.wait != nil {
			select {
			case <-g.wait:
			case <-time.After(3 * time.Second): // no second run came along
			}
		}
	}
}

// ---- the pool ----

type isoJob struct {
	pos  int
	cfg  *model.SimConfig
	list *gcs.ActionList
	seed int64
	bad  *runObs
}

type isoRes struct {
	pos int
	obs runObs
}

func runPool(jobs []isoJob, workers int, mode int) []runObs {
	out := make([]runObs, len(jobs))
	work := make(chan isoJob)
	resp := make(chan isoRes)
	d := &demuxLogger{byG: map[int64]*recLogger{}}
	gate := make(chan struct{})
	began := make(chan struct{})
	var once sync.Once
	for w := 0; w < workers; w++ {
		go func() {
			for j := range work {
				if j.bad != nil {
					resp <- isoRes{j.pos, *j.bad}
					continue
				}
				rec := newRecLogger(false, isoEventLimit)
				var o runObs
				if mode == 1 {
					g := &gatedLogger{rec: rec, once: &once}
					if j.pos == 0 && len(jobs) > 1 {
						g.wait, g.began = gate, began
					} else if j.pos == 0 {
						// a single job: nothing to interleave with
					} else {
						g.sig = gate
						// start only when run 0 sits in its first Log call
						select {
						case <-began:
						case <-time.After(5 * time.Second):
						}
					}
					o = runReal(j.cfg, j.list, j.seed, rec, []logging.Logger{g})
					// a run that was never gated must not leave run 0 blocked
					once.Do(func() { close(gate) })
				} else {
					d.bind(rec)
					o = runReal(j.cfg, j.list, j.seed, rec, []logging.Logger{d})
					d.unbind()
				}
				resp <- isoRes{j.pos, o}
			}
		}()
	}
	go func() {
		for _, j := range jobs {
			work <- j
		}
		close(work)
	}()
	for range jobs {
		r := <-resp
		out[r.pos] = r.obs
	}
	return out
}

// ---- component ----

func isoGen(r *term.Rng, idx int) term.T {
	r = reseed(r, idx)
	nruns := r.Range(1, 3)
	runs := []term.T{}
	for i := 0; i < nruns; i++ {
		runs = append(runs, genSpec(r, genOpts{maxChars: 3, maxCycles: 3}))
	}
	// order: every run at least once, some twice (the suite never repeats a configuration)
	order := []term.T{}
	for i := 0; i < nruns; i++ {
		order = append(order, term.Nat(i))
	}
	for i, extra := 0, r.Range(1, 3); i < extra; i++ {
		order = append(order, term.Nat(r.Intn(nruns)))
	}
	for i := len(order) - 1; i > 0; i-- {
		j := r.Intn(i + 1)
		order[i], order[j] = order[j], order[i]
	}
	return term.C("IsoIn", term.L(runs...), term.L(order...), term.Nat(r.Range(2, 4)), term.I(0))
}

func isoRun(in term.T) term.T {
	_, a := term.Ctor(in)
	runs := term.List(a[0])
	order := term.List(a[1])
	workers := int(term.Int(a[2]))
	mode := int(term.Int(a[3]))
	if workers < 1 {
		workers = 1
	}
	if mode == 1 && workers < 2 {
		workers = 2 // the gate needs two runs in flight
	}
	raceOnly := os.Getenv("ISO_RACE") == "1"

	// alone, in fresh processes (two per run, in parallel)
	alone1 := make([]term.T, len(runs))
	alone2 := make([]term.T, len(runs))
	if !raceOnly {
		var wg sync.WaitGroup
		for i := range runs {
			wg.Add(2)
			go func(i int) { defer wg.Done(); alone1[i] = runInChild(runs[i]) }(i)
			go func(i int) { defer wg.Done(); alone2[i] = runInChild(runs[i]) }(i)
		}
		wg.Wait()
	} else {
		for i := range runs {
			alone1[i] = obsTerm(runObs{})
			alone2[i] = obsTerm(runObs{})
		}
	}

	// decode once per run: jobs of the same run share config and program
	type prepared struct {
		s    runSpec
		list *gcs.ActionList
		bad  *runObs
	}
	prep := make([]prepared, len(runs))
	for i, t := range runs {
		s := decodeSpec(t)
		list, err := parseScript(s.script)
		prep[i] = prepared{s: s, list: list}
		if err != nil {
			prep[i].bad = &runObs{status: 4, msg: err.Error()}
		}
	}
	idx := func(t term.T) int {
		i := int(term.Int(t))
		if i < 0 || i >= len(runs) {
			panic("order index out of range")
		}
		return i
	}

	runSeq := func() []term.T {
		out := []term.T{}
		for _, ot := range order {
			p := prep[idx(ot)]
			if p.bad != nil {
				out = append(out, obsTerm(*p.bad))
				continue
			}
			rec := newRecLogger(false, isoEventLimit)
			out = append(out, obsTerm(runReal(p.s.cfg, p.list, p.s.seed, rec, []logging.Logger{rec})))
		}
		return out
	}
	runConc := func() []term.T {
		jobs := []isoJob{}
		for pos, ot := range order {
			p := prep[idx(ot)]
			jobs = append(jobs, isoJob{pos: pos, cfg: p.s.cfg, list: p.list, seed: p.s.seed, bad: p.bad})
		}
		out := []term.T{}
		for _, o := range runPool(jobs, workers, mode) {
			out = append(out, obsTerm(o))
		}
		return out
	}

	// sequential, in this process
	seq := []term.T{}
	if !raceOnly {
		seq = runSeq()
	} else {
		for range order {
			seq = append(seq, obsTerm(runObs{}))
		}
	}

	// concurrent
	conc := runConc()

	// A difference between a job and the alone execution of its run is only meaningful when
	// the run is deterministic.  Two alone samples can agree by luck (Go map iteration order
	// is skewed: for a two-entry map one order has probability 1/8; property C01), so before a
	// difference is reported (1) the run is executed alone in ten more fresh processes and
	// (2) the job list is executed twice more: a leak through package-level state shows
	// again, a map-order coincidence does not.  A run found non-deterministic gets the
	// differing sample in alone2, which makes the checker skip it.
	if !raceOnly && mode == 0 {
		suspect := map[int]bool{}
		for pos, ot := range order {
			i := idx(ot)
			if !sameObs(alone1[i], alone2[i]) {
				continue
			}
			if !sameObs(seq[pos], alone1[i]) || !sameObs(conc[pos], alone1[i]) {
				suspect[i] = true
			}
		}
		if len(suspect) > 0 {
			for i := range suspect {
				extra := make([]term.T, 10)
				var wg sync.WaitGroup
				for k := range extra {
					wg.Add(1)
					go func(k int) { defer wg.Done(); extra[k] = runInChild(runs[i]) }(k)
				}
				wg.Wait()
				for _, e := range extra {
					if !sameObs(e, alone1[i]) {
						alone2[i] = e
						delete(suspect, i)
						break
					}
				}
			}
		}
		if len(suspect) > 0 {
			stillSeq := map[int]bool{}
			stillConc := map[int]bool{}
			for pos, ot := range order {
				i := idx(ot)
				stillSeq[pos] = suspect[i] && !sameObs(seq[pos], alone1[i])
				stillConc[pos] = suspect[i] && !sameObs(conc[pos], alone1[i])
			}
			for rep := 0; rep < 2; rep++ {
				s2, c2 := runSeq(), runConc()
				for pos, ot := range order {
					i := idx(ot)
					if sameObs(s2[pos], alone1[i]) {
						stillSeq[pos] = false
					}
					if sameObs(c2[pos], alone1[i]) {
						stillConc[pos] = false
					}
				}
			}
			for pos, ot := range order {
				i := idx(ot)
				if !suspect[i] {
					continue
				}
				if !sameObs(seq[pos], alone1[i]) && !stillSeq[pos] {
					alone2[i] = seq[pos] // not reproducible: the run is not deterministic
				}
				if !sameObs(conc[pos], alone1[i]) && !stillConc[pos] {
					alone2[i] = conc[pos]
				}
			}
		}
	}
	lastIsoNondet = 0
	for i := range runs {
		if !raceOnly && !sameObs(alone1[i], alone2[i]) {
			lastIsoNondet++
		}
	}
	return term.C("IsoOut", term.L(alone1...), term.L(alone2...), term.L(seq...), term.L(conc...))
}

// number of runs of the case just executed that were not deterministic alone (main.go calls
// kinds right after run; the orchestrator bounds the share of skipped runs)
var lastIsoNondet int

// sameObs: equality of what Model/RunSpec.obs_eqb compares (everything but the message)
func sameObs(a, b term.T) bool {
	_, x := term.Ctor(a)
	_, y := term.Ctor(b)
	for k := 0; k < 4; k++ {
		if term.Int(x[k]) != term.Int(y[k]) {
			return false
		}
	}
	return term.Str(x[4]) == term.Str(y[4])
}

func isoKinds(in term.T) map[string]int {
	_, a := term.Ctor(in)
	out := map[string]int{}
	out["runs"] = len(term.List(a[0]))
	out["runs_not_deterministic_alone"] = lastIsoNondet
	out["jobs"] = len(term.List(a[1]))
	for _, rt := range term.List(a[0]) {
		for _, k := range specTeam(rt) {
			out["char:"+k]++
		}
	}
	return out
}

func init() {
	register("isolation", component{gen: isoGen, run: isoRun, kinds: isoKinds})
}
