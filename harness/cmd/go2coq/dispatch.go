package main

// DispatchTable: the source-to-Coq translator for the modifier manager's LISTENER DISPATCH
// (pkg/engine/modifier/listener.go) — the "way 1" tie of DESIGN.md section 2 for the functions the
// manager subscribes to the engine's events.
//
//	go2coq DispatchTable -repo <path>  > coq/Gen/DispatchTable.v      (`go2coq Dispatch` is the same)
//
// The output is a first-order DESCRIPTION (types in coq/Model/DispatchInterp.v), not Gallina code:
//
//	subscriptions   the body of the one function that calls `events.X.Subscribe(mgr.f [, prio])`:
//	                (event field of event.System, method, priority or none), in source order
//	h_<method>      for every subscribed method of *Manager: the path of `qualified := e...IsQualified()`
//	                and of `snapshot := e...` when present, the list of WALKS in source order
//	                    role       e.A.B | e.A.ID()   (REvField)   |   for _, t := range e.A { ...itr(t)... }  (REachOf)
//	                    snapshot gate present (`if snapshot && !mod.modifySnapshot { continue }` first in the body)
//	                    calls in source order: Listeners field, gate (f != nil | f != nil && qualified),
//	                    argument besides mod (none | e | e.A.B), what is done with the result
//	                    (nothing | `result := f(mod); if result { return true }`)
//	                and the final `return <bool literal>` of a bool function
//	listeners_fields  every field of modifier.Listeners, in declaration order
//
// coq/Model/DispatchInterp.v interprets a description over the world / call / event types of
// coq/Model/Dispatch.v; coq/Proofs/DispatchTableProofs.v proves, for every world and every event
// of listener.go, that the interpretation of THIS table is what the hand-written model computes.
//
// THE RECOGNISED SHAPES (anything else: exit 1 naming file:line; no statement of a translated
// function is ever skipped):
//
//	func (mgr *Manager) subscribe() {                      (the only function of the package calling Subscribe;
//	    events := mgr.engine.Events()                       called exactly once in the package)
//	    events.X.Subscribe(mgr.f)  |  events.X.Subscribe(mgr.f, <int constant>)
//	}
//	func (mgr *Manager) f(e event.X | e *event.X) [bool] {
//	    [qualified := e.<path>.IsQualified()]               (model.AttackType.IsQualified)
//	    [snapshot := e.<path>]                              (a bool field)
//	    WALK*
//	    [return true|false]                                  (exactly when f returns bool)
//	}
//	WALK  = for _, mod := range mgr.itr(ROLE) { BODY }
//	      | for _, t := range e.<path> { for _, mod := range mgr.itr(t) { BODY } }
//	ROLE  = e.<path> | e.<path>.ID()                         (of type key.TargetID)
//	BODY  = [if snapshot && !mod.modifySnapshot { continue }]  CALL+
//	CALL  = f := mod.listeners.K      (`:=` for the first call of a body, `=` afterwards)
//	        if f != nil [&& qualified] { f(mod [, e | e.<path>]) }
//	      | if f != nil { r := f(mod); if r { return true } }          (only in a bool function)
//	func (mgr *Manager) itr(target key.TargetID) activeModifiers       (must be, verbatim, make + copy + return:
//	                                                                    a walk ranges over a COPY of the attached list)
//
// NOT TRANSLATED (hand-written in Model/Dispatch.v, tied by correspondence only): what a callback does
// (callbacks are data: harness scripts), the manager's own emitters emitAdd / emitRemove / emitDispel /
// emitExtendDuration / emitExtendCount / emitPropertyChange (the model only records OnAdd / OnRemove as
// the consequence of a script's attach / detach; it has no event for them), the listener walks of
// tick.go (OnPhase1 / OnPhase2), the event system that delivers the events.

import (
	"fmt"
	"go/ast"
	"go/constant"
	"go/token"
	"go/types"
	"strings"

	"golang.org/x/tools/go/packages"
)

type dCall struct {
	cb, gate, arg, res string
}

type dWalk struct {
	role  string
	snap  bool
	calls []dCall
	pos   string
}

type dHandler struct {
	name, event string
	ptr         bool
	qualified   string // Coq option (list string)
	snapshot    string
	walks       []dWalk
	final       string // Coq option bool
	pos         string
}

type dSub struct {
	event, method, prio, pos string
}

type dgen struct {
	src  *fsrc
	pkg  *packages.Package
	info *types.Info
	mgr  *types.Named // modifier.Manager
	lis  *types.Struct
	itr  types.Object
}

func (g *dgen) fail(n ast.Node, f string, a ...any) {
	die("DispatchTable: %s: %s\n  (pkg/engine/modifier/listener.go left the shapes the dispatch translator recognises; see the head of harness/cmd/go2coq/dispatch.go)",
		g.src.pos(n), fmt.Sprintf(f, a...))
}

const itrBody = "{ out := make(activeModifiers, len(mgr.targets[target])) copy(out, mgr.targets[target]) return out }"

func genDispatch(root string) string {
	src := loadFormulas(root, "./pkg/engine/modifier")
	p := src.pkg("pkg/engine/modifier")
	g := &dgen{src: src, pkg: p, info: p.TypesInfo}

	mobj := p.Types.Scope().Lookup("Manager")
	if mobj == nil {
		die("DispatchTable: type modifier.Manager not found")
	}
	g.mgr, _ = mobj.Type().(*types.Named)
	lobj := p.Types.Scope().Lookup("Listeners")
	if lobj == nil {
		die("DispatchTable: type modifier.Listeners not found")
	}
	g.lis, _ = lobj.Type().Underlying().(*types.Struct)
	if g.mgr == nil || g.lis == nil {
		die("DispatchTable: modifier.Manager / modifier.Listeners are not the named struct types they used to be")
	}
	for i := 0; i < g.mgr.NumMethods(); i++ {
		if g.mgr.Method(i).Name() == "itr" {
			g.itr = g.mgr.Method(i)
		}
	}
	if g.itr == nil {
		die("DispatchTable: method (*Manager).itr not found")
	}

	// every method of *Manager, by name
	methods := map[string]*ast.FuncDecl{}
	var all []*ast.FuncDecl
	for _, f := range p.Syntax {
		for _, d := range f.Decls {
			fd, ok := d.(*ast.FuncDecl)
			if !ok || fd.Body == nil {
				continue
			}
			all = append(all, fd)
			if g.isMgrMethod(fd) {
				methods[fd.Name.Name] = fd
			}
		}
	}

	// mgr.itr is a copy of the attached list
	if fd := methods["itr"]; fd == nil {
		die("DispatchTable: method (*Manager).itr has no body in the package")
	} else if got := nodeText(src.fset, fd.Body); got != itrBody {
		g.fail(fd, "(*Manager).itr is no longer `make; copy; return` (a walk must range over a COPY of the attached list): %s", got)
	} else if len(fd.Type.Params.List) != 1 || len(fd.Type.Params.List[0].Names) != 1 || fd.Type.Params.List[0].Names[0].Name != "target" ||
		fd.Recv.List[0].Names[0].Name != "mgr" {
		g.fail(fd, "(*Manager).itr changed its signature")
	}

	// the function that wires the events: the only one calling Subscribe
	var subFn *ast.FuncDecl
	for _, fd := range all {
		has := false
		ast.Inspect(fd.Body, func(n ast.Node) bool {
			if c, ok := n.(*ast.CallExpr); ok {
				if s, ok := c.Fun.(*ast.SelectorExpr); ok && s.Sel.Name == "Subscribe" {
					has = true
				}
			}
			return true
		})
		if has {
			if subFn != nil {
				g.fail(fd, "a second function of the package calls Subscribe (%s and %s)", subFn.Name.Name, fd.Name.Name)
			}
			subFn = fd
		}
	}
	if subFn == nil {
		die("DispatchTable: no function of pkg/engine/modifier calls Subscribe")
	}
	if !g.isMgrMethod(subFn) || subFn.Type.Params.NumFields() != 0 || subFn.Type.Results.NumFields() != 0 {
		g.fail(subFn, "the function calling Subscribe is not a parameterless method of *Manager")
	}
	// ... and it is called exactly once, unconditionally at the top level of a function body
	ncalls := 0
	for _, fd := range all {
		ast.Inspect(fd.Body, func(n ast.Node) bool {
			if c, ok := n.(*ast.CallExpr); ok {
				if s, ok := c.Fun.(*ast.SelectorExpr); ok && g.info.Uses[s.Sel] != nil && g.info.Uses[s.Sel] == g.info.Defs[subFn.Name] {
					ncalls++
					top := false
					for _, st := range fd.Body.List {
						if es, ok := st.(*ast.ExprStmt); ok && es.X == c {
							top = true
						}
					}
					if !top {
						g.fail(c, "%s is called conditionally / inside another statement", subFn.Name.Name)
					}
				}
			}
			return true
		})
	}
	if ncalls != 1 {
		g.fail(subFn, "%s is called %d times in the package (expected exactly once, from NewManager)", subFn.Name.Name, ncalls)
	}

	subs := g.subscriptions(subFn)
	var handlers []*dHandler
	seen := map[string]bool{}
	for _, s := range subs {
		if seen[s.method] {
			continue
		}
		seen[s.method] = true
		fd := methods[s.method]
		if fd == nil {
			die("DispatchTable: %s: subscribed method %s is not a method of *Manager with a body", s.pos, s.method)
		}
		handlers = append(handlers, g.handler(fd))
	}

	var b strings.Builder
	b.WriteString("(* GENERATED by harness/cmd/go2coq DispatchTable from pkg/engine/modifier/listener.go of the repository under\n" +
		"   verification.  Do not edit: tools/check.py and tools/setup.sh regenerate this file on every run.\n" +
		"   A first-order description of the modifier manager's listener dispatch (types and interpreter:\n" +
		"   Model/DispatchInterp.v); Proofs/DispatchTableProofs.v proves that its interpretation is the hand-written\n" +
		"   model Model/Dispatch.v for every world and every event. *)\n" +
		"From Coq Require Import List ZArith Bool String.\n" +
		"From SR Require Import Model.Dispatch Model.DispatchInterp.\n" +
		"Import ListNotations.\nOpen Scope Z_scope.\nOpen Scope string_scope.\n\n")
	fmt.Fprintf(&b, "(* %s: func Manager.%s - the only function of the package that calls Subscribe; called once *)\n",
		src.pos(subFn), subFn.Name.Name)
	b.WriteString("Definition subscriptions : list sub :=\n  [ ")
	for i, s := range subs {
		if i > 0 {
			b.WriteString(";\n    ")
		}
		fmt.Fprintf(&b, "mkSub %q %q %s", s.event, s.method, s.prio)
	}
	b.WriteString(" ].\n\n")
	for _, h := range handlers {
		fmt.Fprintf(&b, "(* %s: func Manager.%s(e %s) *)\n", h.pos, h.name, map[bool]string{true: "*", false: ""}[h.ptr]+"event."+h.event)
		fmt.Fprintf(&b, "Definition h_%s : handler :=\n  mkHandler %q %q %v\n    %s\n    %s\n    [ ", h.name, h.name, h.event, h.ptr, h.qualified, h.snapshot)
		for i, w := range h.walks {
			if i > 0 {
				b.WriteString(";\n      ")
			}
			fmt.Fprintf(&b, "mkTWalk (%s) %v\n        [ ", w.role, w.snap)
			for j, c := range w.calls {
				if j > 0 {
					b.WriteString(";\n          ")
				}
				fmt.Fprintf(&b, "mkTCall %s %s %s %s", c.cb, c.gate, c.arg, c.res)
			}
			b.WriteString(" ]")
		}
		fmt.Fprintf(&b, " ]\n    %s.\n\n", h.final)
	}
	b.WriteString("Definition handlers : list handler :=\n  [ ")
	for i, h := range handlers {
		if i > 0 {
			b.WriteString("; ")
		}
		b.WriteString("h_" + h.name)
	}
	b.WriteString(" ].\n\n")
	b.WriteString("Definition table : dtable := mkTable subscriptions handlers.\n\n")
	b.WriteString("(* every field of modifier.Listeners, in declaration order *)\nDefinition listeners_fields : list cb :=\n  [ ")
	for i := 0; i < g.lis.NumFields(); i++ {
		if i > 0 && i%6 == 0 {
			b.WriteString(";\n    ")
		} else if i > 0 {
			b.WriteString("; ")
		}
		b.WriteString(g.lis.Field(i).Name())
	}
	b.WriteString(" ].\n")
	return b.String()
}

func (g *dgen) isMgrMethod(fd *ast.FuncDecl) bool {
	if fd.Recv == nil || len(fd.Recv.List) != 1 || len(fd.Recv.List[0].Names) != 1 {
		return false
	}
	obj := g.info.Defs[fd.Recv.List[0].Names[0]]
	if obj == nil {
		return false
	}
	pt, ok := obj.Type().(*types.Pointer)
	return ok && types.Identical(pt.Elem(), g.mgr)
}

func coqStrList(p []string) string {
	q := make([]string, len(p))
	for i, s := range p {
		q[i] = fmt.Sprintf("%q", s)
	}
	return "[" + strings.Join(q, "; ") + "]"
}

// ---------------------------------------------------------------------------------------
// subscribe()

func (g *dgen) subscriptions(fd *ast.FuncDecl) []dSub {
	recv := g.info.Defs[fd.Recv.List[0].Names[0]]
	if len(fd.Body.List) == 0 {
		g.fail(fd, "empty body")
	}
	// events := mgr.engine.Events()
	as, ok := fd.Body.List[0].(*ast.AssignStmt)
	if !ok || as.Tok != token.DEFINE || len(as.Lhs) != 1 || len(as.Rhs) != 1 {
		g.fail(fd.Body.List[0], "expected `events := mgr.engine.Events()`")
	}
	evIdent, ok := as.Lhs[0].(*ast.Ident)
	if !ok || nodeText(g.src.fset, as.Rhs[0]) != recv.Name()+".engine.Events()" {
		g.fail(as, "expected `events := mgr.engine.Events()`")
	}
	evObj := g.info.Defs[evIdent]
	if evObj == nil || !strings.HasSuffix(evObj.Type().String(), "engine/event.System") {
		g.fail(as, "`%s` is not the engine's *event.System", evIdent.Name)
	}
	var out []dSub
	seenEv := map[string]bool{}
	for _, st := range fd.Body.List[1:] {
		es, ok := st.(*ast.ExprStmt)
		if !ok {
			g.fail(st, "statement is not `events.X.Subscribe(mgr.f [, priority])`")
		}
		c, ok := es.X.(*ast.CallExpr)
		if !ok {
			g.fail(st, "statement is not `events.X.Subscribe(mgr.f [, priority])`")
		}
		sel, ok := c.Fun.(*ast.SelectorExpr)
		if !ok || sel.Sel.Name != "Subscribe" {
			g.fail(st, "statement is not `events.X.Subscribe(mgr.f [, priority])`")
		}
		fld, ok := sel.X.(*ast.SelectorExpr)
		if !ok {
			g.fail(st, "Subscribe is not called on a field of `events`")
		}
		root, ok := fld.X.(*ast.Ident)
		if !ok || g.info.Uses[root] != evObj {
			g.fail(st, "Subscribe is not called on a field of `events`")
		}
		if len(c.Args) < 1 || len(c.Args) > 2 {
			g.fail(st, "Subscribe takes a method value and at most a priority")
		}
		mv, ok := c.Args[0].(*ast.SelectorExpr)
		if !ok {
			g.fail(c.Args[0], "the listener is not a method value `mgr.f`")
		}
		mr, ok := mv.X.(*ast.Ident)
		if !ok || g.info.Uses[mr] != recv {
			g.fail(c.Args[0], "the listener is not a method value of the receiver")
		}
		if s := g.info.Selections[mv]; s == nil || s.Kind() != types.MethodVal {
			g.fail(c.Args[0], "the listener is not a method value `mgr.f`")
		}
		prio := "None"
		if len(c.Args) == 2 {
			tv := g.info.Types[c.Args[1]]
			if tv.Value == nil || tv.Value.Kind() != constant.Int {
				g.fail(c.Args[1], "the priority is not an integer constant")
			}
			v, exact := constant.Int64Val(tv.Value)
			if !exact {
				g.fail(c.Args[1], "the priority does not fit 64 bits")
			}
			if v < 0 {
				prio = fmt.Sprintf("(Some (%d))", v)
			} else {
				prio = fmt.Sprintf("(Some %d)", v)
			}
		}
		if seenEv[fld.Sel.Name] {
			g.fail(st, "event %s is subscribed twice", fld.Sel.Name)
		}
		seenEv[fld.Sel.Name] = true
		out = append(out, dSub{event: fld.Sel.Name, method: mv.Sel.Name, prio: prio, pos: g.src.pos(st)})
	}
	if len(out) == 0 {
		g.fail(fd, "no Subscribe call")
	}
	return out
}

// ---------------------------------------------------------------------------------------
// one handler

type hctx struct {
	g         *dgen
	fd        *ast.FuncDecl
	recv, ev  types.Object
	qualified types.Object
	snapshot  types.Object
	retBool   bool
}

func (g *dgen) handler(fd *ast.FuncDecl) *dHandler {
	h := &dHandler{name: fd.Name.Name, pos: g.src.pos(fd), qualified: "None", snapshot: "None", final: "None"}
	c := &hctx{g: g, fd: fd, recv: g.info.Defs[fd.Recv.List[0].Names[0]]}
	if fd.Type.TypeParams != nil || fd.Type.Params.NumFields() != 1 || len(fd.Type.Params.List[0].Names) != 1 {
		g.fail(fd, "a handler takes exactly one named parameter (the event)")
	}
	c.ev = g.info.Defs[fd.Type.Params.List[0].Names[0]]
	et := c.ev.Type()
	if pt, ok := et.(*types.Pointer); ok {
		h.ptr = true
		et = pt.Elem()
	}
	nt, ok := et.(*types.Named)
	if !ok || nt.Obj().Pkg() == nil || !strings.HasSuffix(nt.Obj().Pkg().Path(), "pkg/engine/event") {
		g.fail(fd, "the parameter is not an event of pkg/engine/event")
	}
	h.event = nt.Obj().Name()
	switch fd.Type.Results.NumFields() {
	case 0:
	case 1:
		if len(fd.Type.Results.List[0].Names) != 0 || !types.Identical(g.info.TypeOf(fd.Type.Results.List[0].Type), types.Typ[types.Bool]) {
			g.fail(fd, "a handler returns nothing or one unnamed bool")
		}
		c.retBool = true
	default:
		g.fail(fd, "a handler returns nothing or one unnamed bool")
	}

	stmts := fd.Body.List
	// prelude
	for len(stmts) > 0 {
		as, ok := stmts[0].(*ast.AssignStmt)
		if !ok {
			break
		}
		if as.Tok != token.DEFINE || len(as.Lhs) != 1 || len(as.Rhs) != 1 {
			g.fail(as, "unrecognised assignment before the walks")
		}
		id, ok := as.Lhs[0].(*ast.Ident)
		if !ok {
			g.fail(as, "unrecognised assignment before the walks")
		}
		switch id.Name {
		case "qualified":
			if c.qualified != nil {
				g.fail(as, "`qualified` defined twice")
			}
			call, ok := as.Rhs[0].(*ast.CallExpr)
			if !ok || len(call.Args) != 0 {
				g.fail(as, "expected `qualified := e.<path>.IsQualified()`")
			}
			sel, ok := call.Fun.(*ast.SelectorExpr)
			if !ok || sel.Sel.Name != "IsQualified" {
				g.fail(as, "expected `qualified := e.<path>.IsQualified()`")
			}
			if m := g.info.Uses[sel.Sel]; m == nil || m.Pkg() == nil || !strings.HasSuffix(m.Pkg().Path(), "pkg/model") ||
				!strings.HasSuffix(g.info.TypeOf(sel.X).String(), "pkg/model.AttackType") {
				g.fail(as, "IsQualified is not model.AttackType.IsQualified")
			}
			h.qualified = "(Some " + coqStrList(c.path(as.Rhs[0])) + ")"
			c.qualified = g.info.Defs[id]
		case "snapshot":
			if c.snapshot != nil {
				g.fail(as, "`snapshot` defined twice")
			}
			if _, isCall := as.Rhs[0].(*ast.CallExpr); isCall {
				g.fail(as, "expected `snapshot := e.<path>` (a field)")
			}
			if !types.Identical(g.info.TypeOf(as.Rhs[0]), types.Typ[types.Bool]) {
				g.fail(as, "`snapshot` is not a bool field of the event")
			}
			h.snapshot = "(Some " + coqStrList(c.path(as.Rhs[0])) + ")"
			c.snapshot = g.info.Defs[id]
		default:
			g.fail(as, "unrecognised local %q before the walks (only `qualified` and `snapshot`)", id.Name)
		}
		stmts = stmts[1:]
	}
	// walks
	for len(stmts) > 0 {
		rs, ok := stmts[0].(*ast.RangeStmt)
		if !ok {
			break
		}
		h.walks = append(h.walks, c.walk(rs))
		stmts = stmts[1:]
	}
	if len(h.walks) == 0 {
		g.fail(fd, "no walk `for _, mod := range mgr.itr(...)`")
	}
	// final return
	if c.retBool {
		if len(stmts) != 1 {
			g.fail(fd, "a bool handler must end with exactly one `return true|false` after the walks")
		}
		rt, ok := stmts[0].(*ast.ReturnStmt)
		if !ok || len(rt.Results) != 1 {
			g.fail(stmts[0], "expected `return true|false`")
		}
		h.final = "(Some " + c.boolLit(rt.Results[0]) + ")"
	} else if len(stmts) != 0 {
		g.fail(stmts[0], "statement outside the recognised shapes (after the walks)")
	}
	return h
}

func (c *hctx) boolLit(e ast.Expr) string {
	id, ok := e.(*ast.Ident)
	if !ok || (id.Name != "true" && id.Name != "false") {
		c.g.fail(e, "expected the literal true or false")
	}
	if _, isConst := c.g.info.Uses[id].(*types.Const); !isConst || c.g.info.Uses[id].Pkg() != nil {
		c.g.fail(e, "true / false is shadowed")
	}
	return id.Name
}

// path of a selector chain rooted at the event parameter: e.A.B -> [A B]; a trailing or inner
// niladic method call is written "M()"
func (c *hctx) path(e ast.Expr) []string {
	switch x := e.(type) {
	case *ast.Ident:
		if c.g.info.Uses[x] != c.ev {
			c.g.fail(e, "expression is not rooted at the event parameter")
		}
		return []string{}
	case *ast.SelectorExpr:
		return append(c.path(x.X), x.Sel.Name)
	case *ast.CallExpr:
		sel, ok := x.Fun.(*ast.SelectorExpr)
		if !ok || len(x.Args) != 0 {
			c.g.fail(e, "only niladic method calls on event fields are recognised")
		}
		if s := c.g.info.Selections[sel]; s == nil || s.Kind() != types.MethodVal {
			c.g.fail(e, "only niladic method calls on event fields are recognised")
		}
		return append(c.path(sel.X), sel.Sel.Name+"()")
	case *ast.ParenExpr:
		return c.path(x.X)
	}
	c.g.fail(e, "expression is not a field path of the event")
	return nil
}

func isTargetID(t types.Type) bool {
	return t != nil && strings.HasSuffix(t.String(), "pkg/key.TargetID")
}

// `for _, mod := range mgr.itr(X)`: returns X and the object of mod
func (c *hctx) itrRange(rs *ast.RangeStmt) (ast.Expr, types.Object) {
	g := c.g
	k, ok := rs.Key.(*ast.Ident)
	if !ok || k.Name != "_" || rs.Tok != token.DEFINE {
		g.fail(rs, "expected `for _, mod := range mgr.itr(...)`")
	}
	v, ok := rs.Value.(*ast.Ident)
	if !ok || v.Name == "_" {
		g.fail(rs, "expected `for _, mod := range mgr.itr(...)`")
	}
	call, ok := rs.X.(*ast.CallExpr)
	if !ok || len(call.Args) != 1 {
		g.fail(rs, "the walk does not range over mgr.itr(<unit>)")
	}
	sel, ok := call.Fun.(*ast.SelectorExpr)
	if !ok || g.info.Uses[sel.Sel] != g.itr {
		g.fail(rs, "the walk does not range over mgr.itr(<unit>) (a copy of the attached list)")
	}
	if r, ok := sel.X.(*ast.Ident); !ok || g.info.Uses[r] != c.recv {
		g.fail(rs, "itr is not called on the receiver")
	}
	return call.Args[0], g.info.Defs[v]
}

func (c *hctx) walk(rs *ast.RangeStmt) dWalk {
	g := c.g
	w := dWalk{pos: g.src.pos(rs)}
	if call, ok := rs.X.(*ast.CallExpr); ok && len(call.Args) == 1 {
		// for _, mod := range mgr.itr(ROLE)
		unit, mod := c.itrRange(rs)
		if !isTargetID(g.info.TypeOf(unit)) {
			g.fail(unit, "the unit of the walk is not a key.TargetID")
		}
		w.role = "REvField " + coqStrList(c.path(unit))
		c.body(&w, rs.Body, mod)
		return w
	}
	// for _, t := range e.<path> { for _, mod := range mgr.itr(t) { ... } }
	k, ok := rs.Key.(*ast.Ident)
	if !ok || k.Name != "_" || rs.Tok != token.DEFINE {
		g.fail(rs, "expected `for _, t := range e.<targets>`")
	}
	tv, ok := rs.Value.(*ast.Ident)
	if !ok || tv.Name == "_" {
		g.fail(rs, "expected `for _, t := range e.<targets>`")
	}
	sl, ok := g.info.TypeOf(rs.X).Underlying().(*types.Slice)
	if !ok || !isTargetID(sl.Elem()) {
		g.fail(rs, "the outer loop does not range over a []key.TargetID field of the event")
	}
	if _, isCall := rs.X.(*ast.CallExpr); isCall {
		g.fail(rs, "the outer loop does not range over a field of the event")
	}
	w.role = "REachOf " + coqStrList(c.path(rs.X))
	if len(rs.Body.List) != 1 {
		g.fail(rs, "the loop over the targets must contain exactly one walk")
	}
	inner, ok := rs.Body.List[0].(*ast.RangeStmt)
	if !ok {
		g.fail(rs.Body.List[0], "the loop over the targets must contain exactly one walk")
	}
	unit, mod := c.itrRange(inner)
	if id, ok := unit.(*ast.Ident); !ok || g.info.Uses[id] != g.info.Defs[tv] {
		g.fail(unit, "the inner walk is not over the loop variable of the target loop")
	}
	c.body(&w, inner.Body, mod)
	return w
}

func (c *hctx) isObj(e ast.Expr, o types.Object) bool {
	id, ok := e.(*ast.Ident)
	return ok && o != nil && c.g.info.Uses[id] == o
}

func (c *hctx) body(w *dWalk, b *ast.BlockStmt, mod types.Object) {
	g := c.g
	stmts := b.List
	// if snapshot && !mod.modifySnapshot { continue }
	if len(stmts) > 0 {
		if is, ok := stmts[0].(*ast.IfStmt); ok {
			good := is.Init == nil && is.Else == nil && len(is.Body.List) == 1
			if good {
				br, ok := is.Body.List[0].(*ast.BranchStmt)
				good = ok && br.Tok == token.CONTINUE && br.Label == nil
			}
			if good {
				be, ok := is.Cond.(*ast.BinaryExpr)
				good = ok && be.Op == token.LAND && c.isObj(be.X, c.snapshot)
				if good {
					ue, ok := be.Y.(*ast.UnaryExpr)
					good = ok && ue.Op == token.NOT
					if good {
						se, ok := ue.X.(*ast.SelectorExpr)
						good = ok && c.isObj(se.X, mod) && se.Sel.Name == "modifySnapshot"
					}
				}
			}
			if !good {
				g.fail(is, "expected `if snapshot && !mod.modifySnapshot { continue }` (or a callback fetch) at the head of the walk body")
			}
			w.snap = true
			stmts = stmts[1:]
		}
	}
	var fobj types.Object
	if len(stmts) == 0 {
		g.fail(b, "walk without a callback")
	}
	for len(stmts) > 0 {
		if len(stmts) < 2 {
			g.fail(stmts[0], "expected `f := mod.listeners.K` followed by `if f != nil ... { f(mod ...) }`")
		}
		// f := mod.listeners.K   |   f = mod.listeners.K
		as, ok := stmts[0].(*ast.AssignStmt)
		if !ok || len(as.Lhs) != 1 || len(as.Rhs) != 1 {
			g.fail(stmts[0], "expected `f := mod.listeners.K`")
		}
		fid, ok := as.Lhs[0].(*ast.Ident)
		if !ok {
			g.fail(as, "expected `f := mod.listeners.K`")
		}
		if fobj == nil {
			if as.Tok != token.DEFINE {
				g.fail(as, "the first callback fetch of a walk body must define f")
			}
			fobj = g.info.Defs[fid]
		} else if as.Tok != token.ASSIGN || g.info.Uses[fid] != fobj {
			g.fail(as, "a later callback fetch must assign the same variable")
		}
		ks, ok := as.Rhs[0].(*ast.SelectorExpr)
		if !ok {
			g.fail(as, "expected `f := mod.listeners.K`")
		}
		ls, ok := ks.X.(*ast.SelectorExpr)
		if !ok || ls.Sel.Name != "listeners" || !c.isObj(ls.X, mod) {
			g.fail(as, "the callback is not read from mod.listeners of the instance being visited")
		}
		fieldObj := g.info.Uses[ks.Sel]
		found := false
		for i := 0; i < g.lis.NumFields(); i++ {
			if g.lis.Field(i) == fieldObj {
				found = true
			}
		}
		if !found {
			g.fail(as, "%s is not a field of modifier.Listeners", ks.Sel.Name)
		}
		call := dCall{cb: ks.Sel.Name, gate: "Always", arg: "ArgNone", res: "ResIgnored"}

		// if f != nil [&& qualified] { ... }
		is, ok := stmts[1].(*ast.IfStmt)
		if !ok || is.Init != nil || is.Else != nil {
			g.fail(stmts[1], "expected `if f != nil [&& qualified] { f(mod ...) }`")
		}
		cond := is.Cond
		if be, ok := cond.(*ast.BinaryExpr); ok && be.Op == token.LAND {
			if !c.isObj(be.Y, c.qualified) {
				g.fail(cond, "the only recognised extra gate is `&& qualified`")
			}
			call.gate = "Qualified"
			cond = be.X
		}
		nb, ok := cond.(*ast.BinaryExpr)
		if !ok || nb.Op != token.NEQ || !c.isObj(nb.X, fobj) {
			g.fail(is.Cond, "expected the nil check `f != nil`")
		}
		if nid, ok := nb.Y.(*ast.Ident); !ok || nid.Name != "nil" || g.info.Uses[nid] != types.Universe.Lookup("nil") {
			g.fail(is.Cond, "expected the nil check `f != nil`")
		}
		parseCall := func(e ast.Expr) {
			ce, ok := e.(*ast.CallExpr)
			if !ok || !c.isObj(ce.Fun, fobj) || len(ce.Args) < 1 || len(ce.Args) > 2 || !c.isObj(ce.Args[0], mod) || ce.Ellipsis.IsValid() {
				g.fail(e, "expected the call `f(mod [, e | e.<field>])`")
			}
			if len(ce.Args) == 2 {
				p := c.path(ce.Args[1])
				if len(p) == 0 {
					call.arg = "ArgEvent"
				} else {
					call.arg = "(ArgEvField " + coqStrList(p) + ")"
				}
			}
		}
		switch len(is.Body.List) {
		case 1:
			es, ok := is.Body.List[0].(*ast.ExprStmt)
			if !ok {
				g.fail(is.Body.List[0], "expected the call `f(mod ...)`")
			}
			parseCall(es.X)
		case 2:
			// r := f(mod); if r { return true }
			if !c.retBool || call.gate != "Always" {
				g.fail(is, "a result-using call is only recognised ungated in a bool handler")
			}
			ra, ok := is.Body.List[0].(*ast.AssignStmt)
			if !ok || ra.Tok != token.DEFINE || len(ra.Lhs) != 1 || len(ra.Rhs) != 1 {
				g.fail(is.Body.List[0], "expected `result := f(mod)`")
			}
			rid, ok := ra.Lhs[0].(*ast.Ident)
			if !ok {
				g.fail(ra, "expected `result := f(mod)`")
			}
			parseCall(ra.Rhs[0])
			ri, ok := is.Body.List[1].(*ast.IfStmt)
			if !ok || ri.Init != nil || ri.Else != nil || !c.isObj(ri.Cond, g.info.Defs[rid]) || len(ri.Body.List) != 1 {
				g.fail(is.Body.List[1], "expected `if result { return true }`")
			}
			rt, ok := ri.Body.List[0].(*ast.ReturnStmt)
			if !ok || len(rt.Results) != 1 || c.boolLit(rt.Results[0]) != "true" {
				g.fail(ri.Body.List[0], "expected `return true`")
			}
			call.res = "ResReturnTrueIfTrue"
		default:
			g.fail(is, "the guarded block is not a single call (or `result := f(mod); if result { return true }`)")
		}
		w.calls = append(w.calls, call)
		stmts = stmts[2:]
	}
}
