(* Go maps and `range` over a map, for property C01.

   A Go map is an association list with pairwise distinct keys.  Go does not specify the order
   in which `range m` visits the entries (the runtime randomises it at every range statement),
   so a modelled `range` takes an explicit ORDER: any permutation of the entries.  A loop is
   order independent when its result is the same for every two orders.

   Only definitions live here (all computable); the schema theorems are in
   Proofs/MapIterProofs.v. *)
From Coq Require Import List ZArith Bool Permutation.
Import ListNotations.

Section AMap.
  Context {K V : Type}.
  Variable keqb : K -> K -> bool.

  Definition amap := list (K * V).
  Definition keys (m : amap) : list K := map fst m.
  (* well formed: no key occurs twice *)
  Definition wf (m : amap) : Prop := NoDup (keys m).

  Fixpoint lookup (k : K) (m : amap) : option V :=
    match m with
    | [] => None
    | (k', v) :: r => if keqb k k' then Some v else lookup k r
    end.

  Fixpoint del (k : K) (m : amap) : amap :=
    match m with
    | [] => []
    | (k', v) :: r => if keqb k k' then del k r else (k', v) :: del k r
    end.

  (* m[k] = v *)
  Definition set (k : K) (v : V) (m : amap) : amap := (k, v) :: del k m.

  (* the most general per-key statement: the entry of k is replaced by a function of its old
     content (None = absent); covers m[k] = v, m[k] += x, m[k].f = append(m[k].f, x),
     delete(m, k), and any conditional combination of them *)
  Definition alter (k : K) (f : option V -> option V) (m : amap) : amap :=
    match f (lookup k m) with
    | Some v => set k v m
    | None => del k m
    end.

  (* "the same map": the same finite function *)
  Definition same_map (m1 m2 : amap) : Prop := forall k, lookup k m1 = lookup k m2.
End AMap.

(* `for k, v := range m { s = body(s, k, v) }` under the iteration order [order];
   [is_order m order] says that the oracle picked a legal order *)
Definition is_order {K V : Type} (m order : list (K * V)) : Prop := Permutation m order.
Definition range {S K V : Type} (body : S -> K * V -> S) (order : list (K * V)) (s : S) : S :=
  fold_left body order s.

(* a program whose map iterations are all resolved by an oracle: a list of steps, each either
   deterministic or a range loop over a map computed from the state.  The oracle is asked at
   every loop (it gets the loop's position in the run and the entries) and is legal when it
   always answers with a permutation of the entries. *)
Inductive step (S K V : Type) :=
| Det (f : S -> S)
| Range (m : S -> list (K * V)) (body : S -> K * V -> S).
Arguments Det {S K V} f.
Arguments Range {S K V} m body.

Definition oracle (K V : Type) := nat -> list (K * V) -> list (K * V).
Definition legal {K V : Type} (o : oracle K V) : Prop := forall n m, Permutation m (o n m).

Fixpoint run_prog {S K V : Type} (o : oracle K V) (n : nat) (p : list (step S K V)) (s : S) : S :=
  match p with
  | [] => s
  | Det f :: r => run_prog o (Datatypes.S n) r (f s)
  | Range m body :: r => run_prog o (Datatypes.S n) r (range body (o n (m s)) s)
  end.

(* canonical form of a Z-keyed collection: insertion sort by key (used for "collect, then
   sort": sort.Slice / sort.Strings / slices.Sorted after the loop) *)
Section Sort.
  Context {A : Type}.
  Variable kf : A -> Z.
  Fixpoint insert_by (x : A) (l : list A) : list A :=
    match l with
    | [] => [x]
    | y :: r => if (kf x <=? kf y)%Z then x :: l else y :: insert_by x r
    end.
  Fixpoint isort (l : list A) : list A :=
    match l with
    | [] => []
    | x :: r => insert_by x (isort r)
    end.
End Sort.
