(* C14: the rejection clause at source level - soundness (Proofs/GcsSound.v) composed with the layout
   theorem (Proofs/GcsLayout.v, GcsLayoutParse.v) and the round trip (Proofs/GcsMapFn.v). *)
From Coq Require Import List ZArith Bool String Ascii Lia Floats.
From SR Require Import Base.CaseLib Model.GcsAst Model.GcsLex Model.GcsNum Model.GcsParse Model.GcsSpec
  Proofs.GcsLexProofs Proofs.GcsRoundTrip Proofs.GcsC14Proofs Proofs.GcsMapFn Proofs.GcsLayout
  Proofs.GcsLayoutParse Proofs.GcsSound.
Import ListNotations.
Open Scope Z_scope.

(* every layout of every well-formed program is a sentence of the grammar [DP], with that program
   as its tree: the grammar contains the canonical side *)
Definition C14_canonical_derivable_statement : Prop :=
  forall nodes items f, xwf_program nodes -> spells (flat_map unparse_node nodes) (map snd items) ->
    layout_ok items f = true ->
    exists ts teof, lex_all (mk_input (render items f)) = Ok (ts ++ [teof]) /\ lt_typ teof = ItemEOF /\
                    map lx_of ts = map snd items /\ DP nodes ts.
Theorem C14_canonical_derivable_holds : C14_canonical_derivable_statement.
Proof.
  intros nodes items f Hwf Hsp Hlay.
  pose proof (C14_layout_parse_holds nodes items f Hwf Hsp Hlay) as Hp.
  destruct (C14_sound_holds _ _ Hp) as (ts & teof & HL & Ht & HD).
  destruct (C14_layout_holds items f Hlay (unparse_balanced nodes _ Hwf Hsp)) as (ts2 & teof2 & HL2 & Em & _).
  rewrite HL in HL2. inversion HL2 as [E]. apply app_inj_tail in E. destruct E as [-> ->].
  exists ts2, teof2. repeat split; assumption.
Qed.

Lemma map_lx_same : forall a b, map lx_of a = map lx_of b -> Forall2 same_tok a b.
Proof.
  induction a as [|x a IH]; intros [|y b] H; try discriminate; [constructor|].
  cbn [map] in H. inversion H as [[H1 H2 H3]]. constructor; [split; assumption|apply IH; exact H3].
Qed.
Lemma map_split3 : forall (ts : list ltoken) pre x post, map lx_of ts = pre ++ x :: post ->
  exists tpre t tpost, ts = tpre ++ t :: tpost /\ map lx_of tpre = pre /\ lx_of t = x /\ map lx_of tpost = post.
Proof.
  intros ts pre. revert ts. induction pre as [|p pre IH]; intros ts x post H.
  - destruct ts as [|t ts]; [discriminate|]. cbn [map app] in H. inversion H; subst.
    exists [], t, ts. repeat split.
  - destruct ts as [|t ts]; [discriminate|]. cbn [map app] in H. inversion H as [[H1 H2]].
    destruct (IH ts x post H2) as (tpre & t' & tpost & -> & E1 & E2 & E3).
    exists (t :: tpre), t', tpost. cbn [map app]. rewrite E1. repeat split; assumption.
Qed.

(* A PROGRAM WITH A MISSING BRACKET IS REJECTED.  Take any well-formed program, any spelling and
   layout of it, and leave out one bracket token ( ) [ ] { } - at any position, with any layout of
   what remains (that the lexer still reads as those tokens): Parse returns an error. *)
Definition C14_deleted_bracket_statement : Prop :=
  forall nodes items f items' f' pre x post,
    xwf_program nodes -> spells (flat_map unparse_node nodes) (map snd items) -> layout_ok items f = true ->
    map snd items = pre ++ x :: post -> is_bracket (lx_typ x) ->
    map snd items' = pre ++ post -> layout_ok items' f' = true -> depth_ok (0, 0, 0) (pre ++ post) = true ->
    r_out (parse_bytes (render items' f')) = OError.
Theorem C14_deleted_bracket_holds : C14_deleted_bracket_statement.
Proof.
  intros nodes items f items' f' pre x post Hwf Hsp Hlay Esplit Hbr Edel Hlay' Hdep'.
  pose proof (C14_layout_parse_holds nodes items f Hwf Hsp Hlay) as Hp.
  destruct (C14_layout_holds items f Hlay (unparse_balanced nodes _ Hwf Hsp)) as (ts & teof & HL & Em & _).
  rewrite <- Edel in Hdep'.
  destruct (C14_layout_holds items' f' Hlay' Hdep') as (ts' & teof' & HL' & Em' & _).
  rewrite Esplit in Em. destruct (map_split3 ts pre x post Em) as (tpre & t & tpost & Ets & E1 & E2 & E3).
  apply (C14_missing_bracket_holds (render items f) (render items' f') (Block nodes) ts teof ts' teof' tpre t tpost
           Hp HL HL' Ets).
  - rewrite <- E2 in Hbr. exact Hbr.
  - apply map_lx_same. rewrite Em', Edel, map_app, E1, E3. reflexivity.
Qed.

(* ---- non-vacuity: the demo program of GcsLayoutParse.v without the ']' that closes its map literal ---- *)
Definition demoL_del_items : list (list litem * lexeme) := firstn 25 demoL_items ++ skipn 26 demoL_items.

Lemma demoL_del_rejected : r_out (parse_bytes (render demoL_del_items demoL_tail)) = OError.
Proof.
  apply (C14_deleted_bracket_holds demoL_nodes demoL_items demoL_tail demoL_del_items demoL_tail
           (map snd (firstn 25 demoL_items)) (LX ItemRightSquareParen "]") (map snd (skipn 26 demoL_items))).
  - apply demoL_wf.
  - apply demoL_spells.
  - apply demoL_layout.
  - reflexivity.
  - right. right. right. left. reflexivity.
  - unfold demoL_del_items. rewrite map_app. reflexivity.
  - vm_compute. reflexivity.
  - vm_compute. reflexivity.
Qed.

(* ---- a second default / a repeated field name ---- *)
(* Before the repairs "fix: gcs parser rejects a second default in a switch" and "fix: gcs parser
   rejects a repeated field name in a map literal" the parser accepted these two sources and kept
   only the LAST default / value: the statements of the first default, resp. the first value,
   appeared nowhere in the returned tree (found while proving soundness; the strict recogniser
   [derives_b] of Model/GcsSpec.v, the run-time monitor, rejected those trees).  The grammar [DP] is
   strict now (Proofs/GcsSound.v: [C14_duplicate_default_holds], [C14_duplicate_field_holds]) and
   Parse accepts exactly [DP] (Proofs/GcsComplete.v); so both sources are rejected. *)
Definition dup_default_src : list Z := string_bytes "switch x { default : a ; default : b ; }".
Definition dup_key_src : list Z := string_bytes "x = [ a = 1 , a = 2 ] ;".

Theorem C14_duplicates_rejected :
  r_out (parse_bytes dup_default_src) = OError /\ r_out (parse_bytes dup_key_src) = OError.
Proof. split; vm_compute; reflexivity. Qed.

