(* C07 — HP, energy, toughness and skill points stay in range; every change is reported.
   Only statements, [exact] and [Print Assumptions] live here.  All statements are about
   binary64 values (Coq's primitive floats), not about real numbers. *)
From Coq Require Import List ZArith.
From SR Require Import Model.Attr Proofs.AttrProofs Proofs.AttrReProofs.
From SR Require Proofs.FormulasAttrProofs.
Import ListNotations.

(* ==== A. One call without interference (listeners only record: the flat model [step] / [run]) ==== *)

(* For every list of valid calls (finite amounts / ratios / floors, positive finite max HP,
   finite energy regen and stance bonus, units registered with attributes in range):
   ranges after the list; every further call reports exactly its changes (one event per
   changed quantity with old = before and new = after, none when unchanged; StanceBreak iff
   the stance reaches 0 from a positive value, StanceReset iff it leaves 0; one SPChange iff
   the SP changed); the events of each unit and quantity chain. *)
Theorem C07_ranges_and_reports : C07_statement.
Proof. exact C07_holds. Qed.
Print Assumptions C07_ranges_and_reports.

Theorem C07_ranges_in_every_intermediate_state :
  forall pre post, Forall op_ok (pre ++ post) -> in_range (reach pre).
Proof. exact C07_ranges_every_prefix. Qed.
Print Assumptions C07_ranges_in_every_intermediate_state.

Theorem C07_first_event_reports_the_registered_value :
  forall s ops q id u, state_ok s -> Forall op_ok ops -> find_unit id (units s) = Some u ->
    head_is (qval q u) (q_evs q id (all_events s ops)).
Proof. exact C07_first_event_old. Qed.
Print Assumptions C07_first_event_reports_the_registered_value.

(* ==== B. Histories WITH re-entrant listeners (the model [rrun]: per event of the service a queue
   of scripts; the listener of an event runs the next script - calls of the service itself - at the
   point where the Go code calls Emit, then the outer call continues as the Go code does) ==== *)

(* without listener scripts the re-entrant model is the flat model of part A, call by call and over
   whole histories (up to the readings / return codes the recording listener adds): part A is the
   clause "a single call without interference" of part B *)
Theorem C07_no_listeners_is_one_call_without_interference :
  forall fuel s o, exists evs,
    rstep fuel s no_lsn o = Some (fst (fst (step s o)), no_lsn, evs, snd (step s o)) /\
    strip_evs evs = snd (fst (step s o)).
Proof. exact rstep_no_listeners. Qed.
Print Assumptions C07_no_listeners_is_one_call_without_interference.

Theorem C07_no_listeners_history :
  forall fuel ops s, exists rs,
    rrun fuel s no_lsn ops = Some (fst (run s ops), no_lsn, rs) /\
    map (fun r => mkRes (strip_evs (r_evs r)) (r_err r) (r_snap r)) rs = snd (run s ops).
Proof. exact rrun_no_listeners. Qed.
Print Assumptions C07_no_listeners_history.

(* The property text at FULL strength for every start in range, all valid top-level calls, all tables
   of listener scripts, all fuel (out of fuel excluded: the hypothesis [rrun ... = Some _]) is FALSE
   of the faithful model of today's SetStance: StanceBreak / StanceReset are emitted before the new
   stance is stored and StanceChange has no old <> new guard.  Witnesses (replayed on the Go code
   through the harness: corpus/C07/attr/reentrant_break_listener_sets_zero.json,
   reentrant_reset_listener_raises.json): a StanceBreak listener that sets the same unit's stance to
   zero - events Break, Break, StanceChange 60 -> 0, StanceChange 0 -> 0; a StanceReset listener that
   raises it - Reset, Reset, StanceChange 0 -> 30, StanceChange 30 -> 60. *)
Theorem C07_reentrant_full_refuted : ~ C07_re_full_statement.
Proof. exact C07_re_full_refuted. Qed.
Print Assumptions C07_reentrant_full_refuted.

Theorem C07_reentrant_refutation_witnesses : C07_re_refutation.
Proof. exact C07_re_refutation_holds. Qed.

(* the break / reset clause alone, on a history whose StanceChange events all report changes *)
Theorem C07_reentrant_reset_clause_refuted :
  exists fuel L ops s' L' rs, Forall op_ok ops /\ lsn_ok L /\ rrun fuel init L ops = Some (s', L', rs) /\
    stance_strict (revents rs) /\ ~ announced_exactly (revents rs).
Proof. exact C07_re_reset_clause_refuted. Qed.
Print Assumptions C07_reentrant_reset_clause_refuted.

(* The strongest statement that holds, for every start in range, all valid top-level calls, all
   listener scripts, all fuel, out of fuel excluded ([C07_re_conclusion false]): ranges in the final
   state and in every reading taken when an event reaches its listeners; per unit and quantity the
   change events lead from the value before the history to the value after it (old_(i+1) == new_i,
   first old == start, last new == end) and the new value of an event is the stored value when the
   event reaches its listeners; the same for the skill points; every HPChange / EnergyChange /
   SPChange has old <> new; one StanceBreak per StanceChange that ends at zero, at least one
   StanceReset per StanceChange that leaves zero, at least one StanceBreak per StanceChange that
   reaches zero from a positive value; and the FULL text (every StanceChange has old <> new, breaks
   and resets exactly) whenever no listener reacts to StanceBreak / StanceReset - whatever the
   listeners of HPChange, LimboWaitHeal, StanceChange, EnergyChange, SPChange do. *)
Theorem C07_reentrant_partial : C07_re_partial_statement.
Proof. exact C07_re_partial. Qed.
Print Assumptions C07_reentrant_partial.

(* the same per call (top level or issued by a listener), from any state in range: what the call and
   everything nested in it recorded leads from the values before the call to the values after it *)
Theorem C07_reentrant_call : C07_re_call_statement.
Proof. exact C07_re_call. Qed.
Print Assumptions C07_reentrant_call.

(* out of fuel is unreachable with fuel >= the number of queued scripts (the correspondence runs the
   model with one more) *)
Theorem C07_fuel_suffices :
  forall fuel ops s L, (n_scripts L <= fuel)%nat -> rrun fuel s L ops <> None.
Proof. exact fuel_suffices. Qed.
Print Assumptions C07_fuel_suffices.

(* non-vacuity of part B: a valid history that re-enters three levels deep on the same unit (an
   HPChange listener heals the unit being damaged; StanceChange -> energy -> EnergyChange -> skill
   points -> SPChange -> SetStance of the unit whose ModifyStance is still running), no listener on
   StanceBreak / StanceReset, 8 events, out of fuel with fuel 2 *)
Theorem C07_reentrant_nonvacuous : redemo_statement.
Proof. exact redemo_holds. Qed.

(* the monitor evaluated on every implementation output accepts the witnesses (today's code), the
   monitor of the full property text rejects them; both accept the history above *)
Theorem C07_monitors_on_the_witnesses : monitors_on_witnesses.
Proof. exact monitors_on_witnesses_hold. Qed.

(* the clamp used by every mutator lands in [0, hi] for every non-NaN input *)
Theorem C07_clamp_in_range : clamp_statement.
Proof. exact clampTo_range. Qed.
Print Assumptions C07_clamp_in_range.

(* The translator tie: the clamps and updates of AddTarget, SetHP, ModifyHPByAmount, ModifyHPByRatio,
   SetStance, ModifyStance, SetEnergy, ModifyEnergy, ModifyEnergyFixed, ModifySP and the initial skill
   points are EQUAL, at binary64, to the definitions go2coq generates from attribute/add.go,
   attribute/modify.go and attribute/attribute.go (Gen/FormulasAttr.v; the conjunction is spelled
   out in Proofs/FormulasAttrProofs.v, C07_formulas_statement). *)
Theorem C07_model_formulas_are_the_source : FormulasAttrProofs.C07_formulas_statement.
Proof. exact FormulasAttrProofs.C07_formulas_hold. Qed.
Print Assumptions C07_model_formulas_are_the_source.

(* non-vacuity of part A: a valid history with a floor crossing, a death, a break, a no-op, a reset, clamped energy
   and clamped skill points: 10 events, HP events (1 -> 0.5), (0.5 -> 0), one break, one reset *)
Theorem C07_nonvacuous : demo_statement.
Proof. exact (conj demo_valid demo_runs). Qed.
