(* Shared by the correspondence checkers of the "heal" (C17) and "hit" (C04) components:
   bit-exact comparison of trace items at the binary64 instance, the observed-output type,
   and helpers to cut a trace into per-operation segments. *)
From Coq Require Import List ZArith Bool String Floats.
From SR Require Import Base.CaseLib Model.CombatCore.
Import ListNotations.
Open Scope Z_scope.

Notation F := FloatNum.

Definition fl_eqb : list float -> list float -> bool := list_eqb feqb_bits.
Definition zl_eqb : list Z -> list Z -> bool := list_eqb Z.eqb.
Definition pm_eqb (a b : list (Z * float)) : bool :=
  list_eqb (fun x y => (fst x =? fst y) && feqb_bits (snd x) (snd y)) a b.

Definition item_eqb (a b : item F) : bool :=
  match a, b with
  | IHealStart k t h ts hs tm fl s, IHealStart k' t' h' ts' hs' tm' fl' s' =>
      (k =? k') && (t =? t') && (h =? h') && fl_eqb ts ts' && fl_eqb hs hs' && pm_eqb tm tm' &&
      feqb_bits fl fl' && Bool.eqb s s'
  | IHealEnd k t h a o s, IHealEnd k' t' h' a' o' s' =>
      (k =? k') && (t =? t') && (h =? h') && feqb_bits a a' && feqb_bits o o' && Bool.eqb s s'
  | IHPChange k t r1 r2 h1 h2 d, IHPChange k' t' r1' r2' h1' h2' d' =>
      (k =? k') && (t =? t') && feqb_bits r1 r1' && feqb_bits r2 r2' && feqb_bits h1 h1' &&
      feqb_bits h2 h2' && Bool.eqb d d'
  | ILimbo t c, ILimbo t' c' => (t =? t') && Bool.eqb c c'
  | IStanceChange k t s o n, IStanceChange k' t' s' o' n' =>
      (k =? k') && (t =? t') && (s =? s') && feqb_bits o o' && feqb_bits n n'
  | IStanceBreak k t s, IStanceBreak k' t' s' => (k =? k') && (t =? t') && (s =? s')
  | IStanceReset k t, IStanceReset k' t' => (k =? k') && (t =? t')
  | IEnergyChange k t s o n, IEnergyChange k' t' s' o' n' =>
      (k =? k') && (t =? t') && (s =? s') && feqb_bits o o' && feqb_bits n n'
  | IShieldRemoved s t, IShieldRemoved s' t' => (s =? s') && (t =? t')
  | IShieldChange t s n o i u, IShieldChange t' s' n' o' i' u' =>
      (t =? t') && (s =? s') && feqb_bits n n' && feqb_bits o o' && feqb_bits i i' && feqb_bits u u'
  | IAttackStart k a ts at_ dt, IAttackStart k' a' ts' at' dt' =>
      (k =? k') && (a =? a') && zl_eqb ts ts' && (at_ =? at') && (dt =? dt')
  | IAttackEnd k a ts at_ dt, IAttackEnd k' a' ts' at' dt' =>
      (k =? k') && (a =? a') && zl_eqb ts ts' && (at_ =? at') && (dt =? dt')
  | IDraw d, IDraw d' => feqb_bits d d'
  | IHitStart k i a d at_ dt tm vs p s, IHitStart k' i' a' d' at' dt' tm' vs' p' s' =>
      (k =? k') && (i =? i') && (a =? a') && (d =? d') && (at_ =? at') && (dt =? dt') &&
      pm_eqb tm tm' && fl_eqb vs vs' && Bool.eqb p p' && Bool.eqb s s'
  | IHitEnd k i a d at_ dt vs c s, IHitEnd k' i' a' d' at' dt' vs' c' s' =>
      (k =? k') && (i =? i') && (a =? a') && (d =? d') && (at_ =? at') && (dt =? dt') &&
      fl_eqb vs vs' && Bool.eqb c c' && Bool.eqb s s'
  | IUnit i r e s st l sh ms, IUnit i' r' e' s' st' l' sh' ms' =>
      (i =? i') && feqb_bits r r' && feqb_bits e e' && feqb_bits s s' && (st =? st') && (l =? l') &&
      zl_eqb sh sh' && feqb_bits ms ms'
  | _, _ => false
  end.

(* what the harness observed: the trace, or a Go panic caught by the harness *)
Inductive obs := Ok (tr : list (item F)) | HarnessPanic (msg : string).

Definition is_unit_item (it : item F) : bool := match it with IUnit _ _ _ _ _ _ _ _ => true | _ => false end.

(* split the trace into per-operation segments: events, then one IUnit per unit *)
Fixpoint take_while {A} (p : A -> bool) (l : list A) : list A * list A :=
  match l with
  | [] => ([], [])
  | x :: r => if p x then let '(a, b) := take_while p r in (x :: a, b) else ([], l)
  end.

Definition unit_state (units : list (item F)) (id : Z) : Z :=
  fold_right (fun it acc => match it with IUnit i _ _ _ st _ _ _ => if i =? id then st else acc | _ => acc end)
             stInvalid units.

Definition initial_units (us : list (uspec F)) (limbo : list Z) : list (item F) :=
  map (unit_item F) (w_units F (init_world F us limbo [])).

