(* Binary64 order facts used by the run-level statements of C09 and C11: <= is transitive on all
   values (a NaN operand makes a premise false), < followed by <= is <, and adding a non-negative
   value to a non-negative value does not decrease it (rounding is monotone; an overflow gives
   +infinity).  Built on Flocq.IEEE754.PrimFloat and Base/FloatFactsAttr.v. *)
From Coq Require Import ZArith Bool Reals Lia Lra.
From Flocq Require Import Core IEEE754.BinarySingleNaN IEEE754.PrimFloat.
From Coq Require Import Floats.
From SR Require Import Base.FloatFactsAttr.

Local Existing Instance Hprec.
Local Existing Instance Hmax.
Local Notation B := (binary_float prec emax).
Local Notation Bnan := (@BinarySingleNaN.is_nan prec emax).
Local Notation Bfin := (@BinarySingleNaN.is_finite prec emax).

Lemma Bleb_trans_all (x y z : B) : Bleb x y = true -> Bleb y z = true -> Bleb x z = true.
Proof.
  destruct (Bfin x) eqn:Fx; destruct (Bfin y) eqn:Fy; destruct (Bfin z) eqn:Fz.
  1: { rewrite (Bleb_correct _ _ _ _ Fx Fy), (Bleb_correct _ _ _ _ Fy Fz), (Bleb_correct _ _ _ _ Fx Fz).
       intros H1 H2.
       destruct (Rle_bool_spec (B2R x) (B2R y)); [|discriminate].
       destruct (Rle_bool_spec (B2R y) (B2R z)); [|discriminate].
       apply Rle_bool_true. lra. }
  all: destruct x as [sx|[]| |[] mx ex Hx]; destruct y as [sy|[]| |[] my ey Hy]; destruct z as [sz|[]| |[] mz ez Hz];
    try discriminate; cbn; intros; try discriminate; try reflexivity.
Qed.

Lemma Bltb_leb_trans (x y z : B) : Bltb x y = true -> Bleb y z = true -> Bltb x z = true.
Proof.
  destruct (Bfin x) eqn:Fx; destruct (Bfin y) eqn:Fy; destruct (Bfin z) eqn:Fz.
  1: { rewrite (Bltb_correct _ _ _ _ Fx Fy), (Bleb_correct _ _ _ _ Fy Fz), (Bltb_correct _ _ _ _ Fx Fz).
       intros H1 H2.
       destruct (Rlt_bool_spec (B2R x) (B2R y)); [|discriminate].
       destruct (Rle_bool_spec (B2R y) (B2R z)); [|discriminate].
       apply Rlt_bool_true. lra. }
  all: destruct x as [sx|[]| |[] mx ex Hx]; destruct y as [sy|[]| |[] my ey Hy]; destruct z as [sz|[]| |[] mz ez Hz];
    try discriminate; cbn; intros; try discriminate; try reflexivity.
Qed.

Lemma leb_trans_nn x y z : leb x y = true -> leb y z = true -> leb x z = true.
Proof. rewrite !leb_equiv. apply Bleb_trans_all. Qed.

Lemma ltb_leb_trans x y z : ltb x y = true -> leb y z = true -> ltb x z = true.
Proof. rewrite !ltb_equiv, leb_equiv. apply Bltb_leb_trans. Qed.

Local Notation fexp := (SpecFloat.fexp prec emax).

Lemma nonneg_finite_R (x : B) : Bfin x = true -> Bleb (B754_zero false) x = true -> (0 <= B2R x)%R.
Proof.
  intros Fx. rewrite (Bleb_correct prec emax (B754_zero false) x eq_refl Fx). cbn [B2R].
  destruct (Rle_bool_spec 0 (B2R x)); [auto|discriminate].
Qed.

Lemma Bplus_nonneg_le (x d : B) :
  Bleb (B754_zero false) x = true -> Bleb (B754_zero false) d = true -> Bleb x (Bplus mode_NE x d) = true.
Proof.
  intros Hx Hd.
  destruct (Bfin x) eqn:Fx; destruct (Bfin d) eqn:Fd.
  - pose proof (nonneg_finite_R x Fx Hx) as Rx. pose proof (nonneg_finite_R d Fd Hd) as Rd.
    generalize (Bplus_correct prec emax Hprec Hmax mode_NE x d Fx Fd).
    destruct (Rlt_bool _ _) eqn:EL.
    + intros (V & F & _). rewrite (Bleb_correct _ _ _ _ Fx F), V. apply Rle_bool_true.
      apply round_ge_generic; [typeclasses eauto|typeclasses eauto|apply generic_format_B2R|lra].
    + intros (O & S).
      (* overflow: the sum is positive, so the result is +infinity *)
      assert (Sx : Bsign x = false).
      { destruct (Bsign x) eqn:E; [|reflexivity]. exfalso.
        assert (B2R x = 0%R).
        { destruct x as [sx| | |sx mx ex Hxx]; try discriminate; [reflexivity|].
          cbn [Bsign] in E. subst sx. cbn in Hx. discriminate. }
        assert (B2R d = 0%R).
        { destruct d as [sd| | |sd md ed Hdd]; try discriminate; [reflexivity|].
          cbn [Bsign] in S. subst sd. cbn in Hd. discriminate. }
        rewrite H, H0, Rplus_0_l in EL. cbn [round_mode] in EL. rewrite round_0 in EL by typeclasses eauto.
        rewrite Rabs_R0 in EL. rewrite Rlt_bool_true in EL; [discriminate|apply bpow_gt_0]. }
      rewrite Sx in O. destruct (Bplus mode_NE x d) as [s|s| |s m e Hm]; cbn in O; try discriminate.
      inversion O; subst. destruct x as [sx|sx| |sx mx ex Hxx]; try discriminate; reflexivity.
  - destruct x as [sx|[]| |[] mx ex Hxx]; destruct d as [sd|[]| |[] md ed Hdd]; try discriminate; reflexivity.
  - destruct x as [sx|[]| |[] mx ex Hxx]; destruct d as [sd|[]| |[] md ed Hdd]; try discriminate; reflexivity.
  - destruct x as [sx|[]| |[] mx ex Hxx]; destruct d as [sd|[]| |[] md ed Hdd]; try discriminate; reflexivity.
Qed.

Lemma add_nonneg_le x d : leb 0 x = true -> leb 0 d = true -> leb x (x + d) = true.
Proof. rewrite !leb_equiv, add_equiv, Prim2B_zero. apply Bplus_nonneg_le. Qed.
