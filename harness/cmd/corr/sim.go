package main

// Whole-simulation correspondence: scripted characters, enemies, a light cone and flag
// modifiers are registered through the exported Register functions; the REAL
// simulation.Simulation runs them; every event of the kinds the model tracks, every decision
// asked of the script callbacks and every content call is recorded in one trace.

import (
	"fmt"
	"os"
	"runtime/debug"
	"sync"

	"github.com/simimpact/srsim/pkg/engine"
	"github.com/simimpact/srsim/pkg/engine/equip/lightcone"
	"github.com/simimpact/srsim/pkg/engine/event"
	"github.com/simimpact/srsim/pkg/engine/info"
	"github.com/simimpact/srsim/pkg/engine/logging"
	"github.com/simimpact/srsim/pkg/engine/modifier"
	"github.com/simimpact/srsim/pkg/engine/target/character"
	"github.com/simimpact/srsim/pkg/engine/target/enemy"
	"github.com/simimpact/srsim/pkg/key"
	"github.com/simimpact/srsim/pkg/logic"
	"github.com/simimpact/srsim/pkg/model"
	"github.com/simimpact/srsim/pkg/simulation"

	"verif/harness/term"
)

type charKind struct {
	spd, hp, maxEnergy float64
	spNeed, spAdd      int
	ttA, ttS, ttU      model.TargetType
	skillCheck         bool // registers a Skill.CanUse of its own (answers scripted per unit)
	ultCheck           bool // registers an Ult.CanUse of its own
}

var charKinds = []charKind{
	{100, 1000, 100, 1, 1, model.TargetType_ENEMIES, model.TargetType_ENEMIES, model.TargetType_ENEMIES, false, false},
	{120, 800, 120, 1, 1, model.TargetType_ENEMIES, model.TargetType_ALLIES, model.TargetType_ALLIES, false, false},
	{90, 1200, 80, 2, 2, model.TargetType_ENEMIES, model.TargetType_SELF, model.TargetType_SELF, false, false},
	{100, 1000, 100, 3, 0, model.TargetType_ENEMIES, model.TargetType_ENEMIES, model.TargetType_ENEMIES, false, false},
	{110, 900, 100, 1, 1, model.TargetType_ENEMIES, model.TargetType_ENEMIES, model.TargetType_ENEMIES, true, false},
	{95, 1100, 100, 1, 1, model.TargetType_ENEMIES, model.TargetType_ENEMIES, model.TargetType_ENEMIES, false, true},
	// skill and ultimate aim at different sides (as for 9 of the registered characters)
	{105, 950, 100, 1, 1, model.TargetType_ENEMIES, model.TargetType_ALLIES, model.TargetType_ENEMIES, false, false},
	{98, 1050, 90, 1, 1, model.TargetType_ENEMIES, model.TargetType_ENEMIES, model.TargetType_ALLIES, false, false},
	{102, 1000, 100, 2, 1, model.TargetType_ENEMIES, model.TargetType_SELF, model.TargetType_ENEMIES, true, true},
}

var simFlags = []int{1, 3, 100}

// ---- per-run state shared by the registered content ----
type simRun struct {
	sim     *simulation.Simulation
	scripts [][]term.T
	acts    map[key.TargetID][]int
	next    map[key.TargetID][]term.T
	skchk   map[key.TargetID][]bool
	ultchk  map[key.TargetID][]bool
	ults    [][]term.T
	lBattle []int
	lAction []int
	lHit    []int
	lDeath  []int
	lHP     []int
	lPh1    []int
	lPh2    []int
	lAtk    []int
	budget  int
	rev     map[key.TargetID]bool
	trace   []term.T
	subbed  bool
	preRan  bool // the BattleStart script was already run before the battle (insert-only script)
	nevents int
}

var curSim *simRun
var simOnce sync.Once

func (r *simRun) rec(t term.T) { r.trace = append(r.trace, t) }

func ttTerm(t model.TargetType) term.T {
	switch t {
	case model.TargetType_ALLIES:
		return term.C("TAllies")
	case model.TargetType_ENEMIES:
		return term.C("TEnemies")
	case model.TargetType_SELF:
		return term.C("TSelf")
	}
	return term.C("TInvalidType")
}

func idsTerm(ids []key.TargetID) term.T {
	out := []term.T{}
	for _, i := range ids {
		out = append(out, term.I(int64(i)))
	}
	return term.L(out...)
}

// ---- scripted content ----
type vchar struct {
	eng engine.Engine
	id  key.TargetID
}

func (c *vchar) run(kind int, target key.TargetID) {
	r := curSim
	r.rec(term.C("VCall", term.I(int64(kind)), term.I(int64(c.id)), term.I(int64(target))))
	r.execOps(r.popAct(c.id), c.id, target)
}
func (c *vchar) Attack(t key.TargetID, _ info.ActionState)    { c.run(0, t) }
func (c *vchar) Skill(t key.TargetID, _ info.ActionState)     { c.run(1, t) }
func (c *vchar) Ult(t key.TargetID, _ info.ActionState)       { c.run(2, t) }
func (c *vchar) Technique(t key.TargetID, _ info.ActionState) {}

type venemy struct {
	eng engine.Engine
	id  key.TargetID
}

func (e *venemy) Action(t key.TargetID, _ info.ActionState) {
	r := curSim
	r.rec(term.C("VCall", term.I(3), term.I(int64(e.id)), term.I(0)))
	r.execOps(r.popAct(e.id), e.id, 0)
}

func (r *simRun) popAct(id key.TargetID) []term.T {
	q := r.acts[id]
	if len(q) == 0 {
		return nil
	}
	r.acts[id] = q[1:]
	return r.script(q[0])
}

func (r *simRun) script(i int) []term.T {
	if i < 0 || i >= len(r.scripts) {
		return nil
	}
	return r.scripts[i]
}

func (r *simRun) resolve(t term.T, self, primary key.TargetID) key.TargetID {
	n, a := term.Ctor(t)
	switch n {
	case "TId":
		return key.TargetID(term.Int(a[0]))
	case "TSelfSel":
		return self
	case "TPrimary":
		return primary
	}
	panic("bad tsel")
}

func (r *simRun) popSlot(q *[]int) (int, bool) {
	if len(*q) == 0 {
		return 0, false
	}
	x := (*q)[0]
	*q = (*q)[1:]
	return x, true
}

// subscribe the content's listeners (once, from the first character's Create)
func (r *simRun) subscribe(eng engine.Engine) {
	if r.subbed {
		return
	}
	r.subbed = true
	ev := eng.Events()
	ev.BattleStart.Subscribe(func(e event.BattleStart) {
		// every unit carries the content's tick modifier: its OnPhase1 / OnPhase2 listeners are
		// called by Modifier.Tick(active, ModifierPhase1 / ModifierPhase2)
		for _, id := range append(append([]key.TargetID{}, eng.Characters()...), eng.Enemies()...) {
			eng.AddModifier(id, info.Modifier{Name: "verif_tick", Source: id, Duration: -1})
		}
		if i, ok := r.popSlot(&r.lBattle); ok && !r.preRan {
			r.execOps(r.script(i), 0, 0)
		}
	})
	// A BattleStart script that only queues insert abilities is issued BEFORE the battle starts, when the
	// characters have been added (content may queue from its constructor, a startup hook or a CharactersAdded
	// listener).  Queueing is not observable and the model drains the queue for the first time after BattleStart,
	// so the predicted trace is the same: startBattle must hand the pending inserts over to the first drain.
	ev.CharactersAdded.Subscribe(func(e event.CharactersAdded) {
		if len(r.lBattle) == 0 {
			return
		}
		ops := r.script(r.lBattle[0])
		if len(ops) == 0 {
			return
		}
		for _, o := range ops {
			if n, _ := term.Ctor(o); n != "SInsertAbility" {
				return
			}
		}
		r.preRan = true
		r.execOps(ops, 0, 0)
	})
	ev.AttackStart.Subscribe(func(e event.AttackStart) {
		if i, ok := r.popSlot(&r.lAtk); ok {
			self := e.Attacker
			if len(e.Targets) > 0 {
				self = e.Targets[0]
			}
			r.execOps(r.script(i), self, e.Attacker)
		}
	})
	ev.ActionEnd.Subscribe(func(e event.ActionEnd) {
		if i, ok := r.popSlot(&r.lAction); ok {
			r.execOps(r.script(i), e.Owner, e.Owner)
		}
	})
	ev.HitEnd.Subscribe(func(e event.HitEnd) {
		if i, ok := r.popSlot(&r.lHit); ok {
			r.execOps(r.script(i), e.Defender, e.Attacker)
		}
	})
	ev.TargetDeath.Subscribe(func(e event.TargetDeath) {
		r.rec(term.C("VDeathSeen", term.I(int64(e.Target)), term.I(int64(e.Killer))))
		if i, ok := r.popSlot(&r.lDeath); ok {
			r.execOps(r.script(i), e.Target, e.Killer)
		}
	})
	ev.HPChange.Subscribe(func(e event.HPChange) {
		r.rec(term.C("VHPSeen", term.I(int64(e.Target)), term.B(e.IsHPChangeByDamage)))
		if i, ok := r.popSlot(&r.lHP); ok {
			r.execOps(r.script(i), e.Target, e.Target)
		}
	})
	ev.LimboWaitHeal.Subscribe(func(e event.LimboWaitHeal) bool { return r.rev[e.Target] }, 0)
}

func (r *simRun) execOps(ops []term.T, self, primary key.TargetID) {
	eng := engine.Engine(r.sim)
	for _, o := range ops {
		n, a := term.Ctor(o)
		switch n {
		case "SAttack":
			targets := []key.TargetID{}
			for _, t := range term.List(a[1]) {
				targets = append(targets, r.resolve(t, self, primary))
			}
			at := model.AttackType_NORMAL
			if !term.Bool(a[2]) {
				at = model.AttackType_PURSUED
			}
			eng.Attack(info.Attack{
				Key:         key.Attack(fmt.Sprintf("k%d", term.Int(a[0]))),
				Targets:     targets,
				Source:      self,
				AttackType:  at,
				DamageType:  model.DamageType_PHYSICAL,
				BaseDamage:  info.DamageMap{},
				DamageValue: term.Float(a[3]),
			})
		case "SEndAttack":
			eng.EndAttack()
		case "SSetHP":
			id := r.resolve(a[0], self, primary)
			if !eng.IsValid(id) {
				continue
			}
			eng.SetHP(info.ModifyAttribute{Key: "v", Target: id, Source: self, Amount: term.Float(a[1]) * eng.Stats(id).MaxHP()})
		case "SInsertAbility":
			if r.budget <= 0 {
				continue
			}
			r.budget--
			body := int(term.Int(a[4]))
			src := r.resolve(a[2], self, primary)
			flags := []model.BehaviorFlag{}
			for _, f := range term.List(a[3]) {
				flags = append(flags, model.BehaviorFlag(term.Int(f)))
			}
			eng.InsertAbility(info.Insert{
				Key:        key.Insert(fmt.Sprintf("i%d", term.Int(a[0]))),
				Execute:    func() { r.execOps(r.script(body), src, src) },
				Source:     src,
				AbortFlags: flags,
				Priority:   info.InsertPriority(term.Int(a[1])),
			})
		case "SInsertAction":
			if r.budget <= 0 {
				continue
			}
			r.budget--
			eng.InsertAction(r.resolve(a[0], self, primary))
		case "SModEnergy":
			eng.ModifyEnergyFixed(info.ModifyAttribute{Key: "v", Target: r.resolve(a[0], self, primary), Source: self, Amount: term.Float(a[1])})
		case "SModSP":
			eng.ModifySP(info.ModifySP{Key: "v", Source: self, Amount: int(term.Int(a[0]))})
		case "SAddFlag":
			id := r.resolve(a[0], self, primary)
			if !eng.IsValid(id) {
				continue
			}
			eng.AddModifier(id, info.Modifier{Name: key.Modifier(fmt.Sprintf("verif_flag_%d", term.Int(a[1]))), Source: id, Duration: -1})
		case "SRemoveFlag":
			id := r.resolve(a[0], self, primary)
			if !eng.IsValid(id) {
				continue
			}
			eng.RemoveModifier(id, key.Modifier(fmt.Sprintf("verif_flag_%d", term.Int(a[1]))))
		case "SGaugeNorm":
			eng.ModifyGaugeNormalized(info.ModifyAttribute{Key: "v", Target: r.resolve(a[0], self, primary), Source: self, Amount: term.Float(a[1])})
		case "SSetRevivable":
			id := r.resolve(a[0], self, primary)
			if eng.IsValid(id) {
				r.rev[id] = term.Bool(a[1])
			}
		case "SHeal":
			targets := []key.TargetID{}
			for _, t := range term.List(a[0]) {
				if id := r.resolve(t, self, primary); eng.IsValid(id) {
					targets = append(targets, id)
				}
			}
			eng.Heal(info.Heal{
				Key:       "h",
				Targets:   targets,
				Source:    self,
				BaseHeal:  info.HealMap{},
				HealValue: term.Float(a[1]),
			})
		case "SSample":
			cs, es, to := eng.Characters(), eng.Enemies(), r.sim.Turn.TurnOrder()
			r.rec(term.C("VSample", idsTerm(cs), idsTerm(es), idsTerm(to)))
			// the lists handed out belong to the caller (content filters, shuffles and truncates them in place,
			// e.g. through Retarget): whatever it does to them must not reach the simulation's own lists
			for _, l := range [][]key.TargetID{cs, es, to} {
				for i, j := 0, len(l)-1; i < j; i, j = i+1, j-1 {
					l[i], l[j] = l[j], l[i]
				}
				if len(l) > 0 {
					l[0] = 97
				}
				_ = append(l[:0], 98)
			}
		default:
			panic("unknown sop " + n)
		}
	}
}

// ---- decisions ----
type vEval struct{ r *simRun }

func (e *vEval) Init(engine.Engine) error { return nil }
func actType(code int64) logic.ActionType {
	switch code {
	case 0:
		return logic.ActionAttack
	case 1:
		return logic.ActionSkill
	case 3:
		return logic.ActionUlt
	}
	return logic.ActionUltAttack
}
func (e *vEval) NextAction(id key.TargetID) (logic.Action, error) {
	q := e.r.next[id]
	typ, evl := int64(0), int64(100)
	if len(q) > 0 {
		_, a := term.Ctor(q[0])
		typ, evl = term.Int(a[0]), term.Int(a[1])
		e.r.next[id] = q[1:]
	}
	e.r.rec(term.C("VNextAction", term.I(int64(id)), term.I(typ), term.I(evl)))
	return logic.Action{Type: actType(typ), Target: id, TargetEvaluator: key.TargetEvaluator(evl)}, nil
}
func (e *vEval) DefaultAction(id key.TargetID) (logic.Action, error) {
	e.r.rec(term.C("VDefaultAction", term.I(int64(id))))
	return logic.Action{Type: logic.ActionAttack, Target: id, TargetEvaluator: 100}, nil
}
func (e *vEval) UltCheck() ([]logic.Action, error) {
	var reqs []term.T
	if len(e.r.ults) > 0 {
		reqs = e.r.ults[0]
		e.r.ults = e.r.ults[1:]
	}
	out := []logic.Action{}
	rec := []term.T{}
	for _, q := range reqs {
		_, a := term.Ctor(q)
		out = append(out, logic.Action{Type: actType(term.Int(a[1])), Target: key.TargetID(term.Int(a[0])), TargetEvaluator: key.TargetEvaluator(term.Int(a[2]))})
		rec = append(rec, term.Tup(term.I(term.Int(a[0])), term.I(term.Int(a[1])), term.I(term.Int(a[2]))))
	}
	e.r.rec(term.C("VUltCheck", term.L(rec...)))
	return out, nil
}

// ---- event logger ----
type simLogger struct{ r *simRun }

func simPairs(st []event.TurnStatus) term.T {
	out := []term.T{}
	for _, s := range st {
		out = append(out, term.Tup(term.I(int64(s.ID)), term.I(s.Gauge)))
	}
	return term.L(out...)
}

func statIDs(ss []*info.Stats) term.T {
	out := []term.T{}
	for _, s := range ss {
		out = append(out, term.I(int64(s.ID())))
	}
	return term.L(out...)
}

func (l *simLogger) Log(e any) {
	r := l.r
	r.nevents++
	if r.nevents > 20000 {
		panic("event watchdog: more than 20000 events")
	}
	I := func(x key.TargetID) term.T { return term.I(int64(x)) }
	keyNum := func(s string) term.T {
		var n int64
		fmt.Sscanf(s[1:], "%d", &n)
		return term.I(n)
	}
	switch v := e.(type) {
	case event.Initialize:
		r.rec(term.C("VInitialize"))
	case event.CharactersAdded:
		ids := []term.T{}
		for _, c := range v.Characters {
			ids = append(ids, I(c.ID))
		}
		r.rec(term.C("VCharactersAdded", term.L(ids...)))
	case event.EnemiesAdded:
		ids := []term.T{}
		for _, c := range v.Enemies {
			ids = append(ids, I(c.ID))
		}
		r.rec(term.C("VEnemiesAdded", term.L(ids...)))
	case event.TurnTargetsAdded:
		ids := []term.T{}
		for _, s := range v.TurnOrder {
			ids = append(ids, I(s.ID))
		}
		r.rec(term.C("VTurnTargetsAdded", term.L(ids...)))
	case event.BattleStart:
		r.rec(term.C("VBattleStart"))
	case event.TurnStart:
		r.rec(term.C("VTurnStart", I(v.Active), term.F(v.DeltaAV), term.F(v.TotalAV), simPairs(v.TurnOrder)))
	case event.Phase1Start:
		r.rec(term.C("VPhase1Start"))
	case event.Phase1End:
		r.rec(term.C("VPhase1End"))
	case event.Phase2Start:
		r.rec(term.C("VPhase2Start"))
	case event.Phase2End:
		r.rec(term.C("VPhase2End"))
	case event.TurnEnd:
		r.rec(term.C("VTurnEnd", statIDs(v.Characters), statIDs(v.Enemies)))
	case event.TurnReset:
		r.rec(term.C("VTurnReset", I(v.ResetTarget), simPairs(v.TurnOrder)))
	case event.ActionStart:
		r.rec(term.C("VActionStart", I(v.Owner), term.I(int64(v.AttackType)), term.B(v.IsInsert)))
	case event.ActionEnd:
		r.rec(term.C("VActionEnd", I(v.Owner), term.I(int64(v.AttackType)), term.B(v.IsInsert)))
	case event.InsertStart:
		r.rec(term.C("VInsertStart", keyNum(string(v.Key)), I(v.Owner), term.I(int64(v.Priority))))
	case event.InsertEnd:
		r.rec(term.C("VInsertEnd", keyNum(string(v.Key)), I(v.Owner), term.I(int64(v.Priority))))
	case event.AttackStart:
		r.rec(term.C("VAttackStart", keyNum(string(v.Key)), I(v.Attacker)))
	case event.AttackEnd:
		r.rec(term.C("VAttackEnd", keyNum(string(v.Key)), I(v.Attacker)))
	case event.HitStart:
		r.rec(term.C("VHitStart", I(v.Attacker), I(v.Defender)))
	case event.HitEnd:
		r.rec(term.C("VHitEnd", I(v.Attacker), I(v.Defender), term.F(v.TotalDamage), term.F(v.HPRatioRemaining)))
	case event.HPChange:
		r.rec(term.C("VHPChange", I(v.Target), term.F(v.OldHPRatio), term.F(v.NewHPRatio)))
	case event.LimboWaitHeal:
		r.rec(term.C("VLimbo", I(v.Target), term.B(v.IsCancelled)))
	case event.TargetDeath:
		r.rec(term.C("VTargetDeath", I(v.Target), I(v.Killer)))
	case event.SPChange:
		r.rec(term.C("VSPChange", term.I(int64(v.OldSP)), term.I(int64(v.NewSP))))
	case event.EnergyChange:
		r.rec(term.C("VEnergyChange", I(v.Target), term.F(v.OldEnergy), term.F(v.NewEnergy)))
	case event.GaugeChange:
		r.rec(term.C("VGaugeChange", I(v.Target), term.I(v.OldGauge), term.I(v.NewGauge)))
	case event.BreakExtend:
		r.rec(term.C("VBreakExtend", I(v.Target)))
	case event.Termination:
		r.rec(term.C("VTermination", term.I(int64(v.Reason)), term.F(v.TotalAV)))
	}
}

func registerSimContent() {
	for i, k := range charKinds {
		k := k
		character.Register(key.Character(fmt.Sprintf("verif_c%d", i)), character.Config{
			Create: func(eng engine.Engine, id key.TargetID, _ info.Character) info.CharInstance {
				curSim.subscribe(eng)
				return &vchar{eng: eng, id: id}
			},
			Promotions: []character.PromotionData{{MaxLevel: 80, HPBase: k.hp, SPD: k.spd, Aggro: 100}},
			Rarity:     4,
			Element:    model.DamageType_PHYSICAL,
			Path:       model.Path_HUNT,
			MaxEnergy:  k.maxEnergy,
			SkillInfo: func() character.SkillInfo {
				si := character.SkillInfo{
					Attack: character.Attack{SPAdd: k.spAdd, TargetType: k.ttA},
					Skill:  character.Skill{SPNeed: k.spNeed, TargetType: k.ttS},
					Ult:    character.Ult{TargetType: k.ttU},
				}
				// the character's own checks answer from the unit's scripted list, indexed by the number
				// of action scripts the unit has left (true beyond the list)
				answer := func(l []bool, id key.TargetID) bool {
					i := len(curSim.acts[id])
					if i < len(l) {
						return l[i]
					}
					return true
				}
				if k.skillCheck {
					si.Skill.CanUse = func(_ engine.Engine, c info.CharInstance) bool {
						id := c.(*vchar).id
						return answer(curSim.skchk[id], id)
					}
				}
				if k.ultCheck {
					si.Ult.CanUse = func(_ engine.Engine, c info.CharInstance) bool {
						id := c.(*vchar).id
						return answer(curSim.ultchk[id], id)
					}
				}
				return si
			}(),
		})
	}
	enemy.Register("verif_e", enemy.Config{
		Create: func(eng engine.Engine, id key.TargetID, _ info.Enemy) info.EnemyInstance {
			return &venemy{eng: eng, id: id}
		},
		Rank:  model.EnemyRank_ELITE,
		Curve: enemy.Curve1,
		Base:  enemy.BaseStats{HP: 100, SPD: 100},
	})
	lightcone.Register("verif_lc", lightcone.Config{
		CreatePassive: func(engine.Engine, key.TargetID, info.LightCone) {},
		Promotions:    []lightcone.PromotionData{{MaxLevel: 80}},
		Rarity:        3,
		Path:          model.Path_PRESERVATION,
	})
	modifier.Register("verif_tick", modifier.Config{
		Stacking: modifier.Unique,
		Listeners: modifier.Listeners{
			OnPhase1: func(mod *modifier.Instance) {
				r := curSim
				if i, ok := r.popSlot(&r.lPh1); ok {
					r.execOps(r.script(i), mod.Owner(), mod.Owner())
				}
			},
			OnPhase2: func(mod *modifier.Instance) {
				r := curSim
				if i, ok := r.popSlot(&r.lPh2); ok {
					r.execOps(r.script(i), mod.Owner(), mod.Owner())
				}
			},
		},
	})
	for _, f := range simFlags {
		modifier.Register(key.Modifier(fmt.Sprintf("verif_flag_%d", f)), modifier.Config{
			Stacking:      modifier.Unique,
			BehaviorFlags: []model.BehaviorFlag{model.BehaviorFlag(f)},
		})
	}
}

func intList(t term.T) []int {
	out := []int{}
	for _, x := range term.List(t) {
		out = append(out, int(term.Int(x)))
	}
	return out
}

func runSim(in term.T) term.T {
	simOnce.Do(registerSimContent)
	_, a := term.Ctor(in) // mkCfg units scripts next ults lb la lh ld lhp lph1 lph2 latk limit budget
	r := &simRun{acts: map[key.TargetID][]int{}, next: map[key.TargetID][]term.T{}, rev: map[key.TargetID]bool{},
		skchk: map[key.TargetID][]bool{}, ultchk: map[key.TargetID][]bool{}}
	curSim = r
	cfg := &model.SimConfig{Settings: &model.SimulatorSettings{CycleLimit: uint32(term.Int(a[12]))}}
	allWeak := []model.DamageType{}
	for i := 1; i < len(model.DamageType_name); i++ {
		allWeak = append(allWeak, model.DamageType(i))
	}
	hpScale := enemy.Curve(enemy.Curve1)[1].HPScaling
	for i, u := range term.List(a[0]) {
		_, f := term.Ctor(u) // mkUD kind char spd maxhp maxen en0 spneed spadd tta tts ttu acts skchk ultchk
		id := key.TargetID(i + 1)
		r.acts[id] = intList(f[11])
		for _, b := range term.List(f[12]) {
			r.skchk[id] = append(r.skchk[id], term.Bool(b))
		}
		for _, b := range term.List(f[13]) {
			r.ultchk[id] = append(r.ultchk[id], term.Bool(b))
		}
		kind := int(term.Int(f[0]))
		if term.Bool(f[1]) {
			k := charKinds[kind]
			if (len(r.skchk[id]) > 0) != k.skillCheck || (len(r.ultchk[id]) > 0) != k.ultCheck {
				panic("inconsistent character description (own checks)")
			}
			if term.Float(f[2]) != k.spd || term.Float(f[3]) != k.hp || term.Float(f[4]) != k.maxEnergy {
				panic("inconsistent character description")
			}
			cfg.Characters = append(cfg.Characters, &model.Character{
				Key: fmt.Sprintf("verif_c%d", kind), Level: 1, MaxLevel: 20,
				LightCone:   &model.LightCone{Key: "verif_lc", Level: 1, MaxLevel: 20},
				StartEnergy: term.Float(f[5]),
			})
		} else {
			hp := float64(kind) // for enemies d_kind carries the configured base HP
			if hp*hpScale != term.Float(f[3]) {
				panic("inconsistent enemy description")
			}
			cfg.Enemies = append(cfg.Enemies, &model.Enemy{
				Key: "verif_e", Level: 1, Weaknesses: allWeak,
				BaseStats: &model.BaseStats{Hp: hp, Spd: term.Float(f[2])},
			})
		}
	}
	for _, s := range term.List(a[1]) {
		r.scripts = append(r.scripts, term.List(s))
	}
	for _, kv := range term.List(a[2]) {
		it := term.TupleItems(kv)
		r.next[key.TargetID(term.Int(it[0]))] = term.List(it[1])
	}
	for _, u := range term.List(a[3]) {
		r.ults = append(r.ults, term.List(u))
	}
	r.lBattle, r.lAction, r.lHit, r.lDeath, r.lHP = intList(a[4]), intList(a[5]), intList(a[6]), intList(a[7]), intList(a[8])
	r.lPh1, r.lPh2, r.lAtk = intList(a[9]), intList(a[10]), intList(a[11])
	r.budget = int(term.Int(a[13]))

	r.sim = simulation.NewSimulation(cfg, &vEval{r: r}, 7)
	logging.InitLoggers(&simLogger{r: r})
	defer logging.InitLoggers()
	var res *model.IterationResult
	var err error
	crashed := false
	func() {
		defer func() {
			if p := recover(); p != nil {
				crashed = true
				r.rec(term.C("VSample", term.L(), term.L(), term.L())) // marker never produced by the model
				if os.Getenv("VERIF_DEBUG") != "" {
					fmt.Fprintf(os.Stderr, "panic: %v\n%s\n", p, debug.Stack())
				}
			}
		}()
		res, err = r.sim.Run()
	}()
	status := term.C("RFinished")
	fl := func(xs []float64) term.T {
		out := []term.T{}
		for _, x := range xs {
			out = append(out, term.F(x))
		}
		return term.L(out...)
	}
	resT := term.C("mkRes", term.F(0), term.F(0), term.L(), term.L())
	totalAV := term.F(0)
	switch {
	case crashed:
		status = term.C("RCrashed")
	case err != nil:
		status = term.C("RError")
	default:
		resT = term.C("mkRes", term.F(res.TotalDamageDealt), term.F(res.TotalDamageTaken),
			fl(res.CumulativeDamageDealtByCycle), fl(res.CumulativeDamageTakenByCycle))
		totalAV = term.F(res.TotalAv)
	}
	return term.Tup(status, term.L(r.trace...), resT, totalAV)
}

func init() {
	register("sim", component{gen: genSim, run: runSim, kinds: kindsSim})
}
