(* Model of pkg/engine/turn/{turn,modify}.go (the turn manager), parametric in the number
   system (Base/NumOps.v).  Executable; no proofs here.

   Speeds are what attr.Stats(id).SPD() returns at the time of each call: a table the
   history may change between operations (OSetSpeed).  Unknown ids have speed 100. *)
From Coq Require Import List ZArith Bool.
From SR Require Import Base.NumOps.
Import ListNotations.
Open Scope Z_scope.

Definition BaseGauge : Z := 10000.

Section Turn.
  Variable N : NumOps.
  Notation T := (num N).

  Record unit := mkU { u_id : Z; u_gauge : Z }.

  Record tstate := mkT {
    order : list unit;
    cost : T;               (* gaugeCost *)
    active : bool;          (* activeTurn *)
    atarget : Z;            (* activeTarget *)
    total : T;              (* totalAV *)
    speeds : list (Z * T) }.

  Definition init : tstate := mkT [] (nofZ N 1) false 0 (nofZ N 0) [].

  Fixpoint lookup (tbl : list (Z * T)) (id : Z) : T :=
    match tbl with
    | [] => nofZ N 100
    | (k, v) :: r => if k =? id then v else lookup r id
    end.
  Definition spd (s : tstate) (id : Z) : T := lookup (speeds s) id.

  Definition av_of (s : tstate) (u : unit) : T := ndiv N (nofZ N (u_gauge u)) (spd s (u_id u)).

  (* sort.Stable with Less(i,j) = av(i) < av(j): for a strict weak order the stable sorted
     permutation is unique, so insertion sort is an exact model *)
  Fixpoint insert_by (key : unit -> T) (x : unit) (l : list unit) : list unit :=
    match l with
    | [] => [x]
    | y :: r => if nltb N (key y) (key x) then y :: insert_by key x r else x :: l
    end.
  Fixpoint sort_by (key : unit -> T) (l : list unit) : list unit :=
    match l with
    | [] => []
    | x :: r => insert_by key x (sort_by key r)
    end.
  Definition resort (s : tstate) (l : list unit) : list unit := sort_by (av_of s) l.

  (* observable turn status: (id, gauge, av) in order *)
  Definition status (s : tstate) : list (Z * Z * T) :=
    map (fun u => (u_id u, u_gauge u, av_of s u)) (order s).

  Inductive out :=
  | EAdded (ids : list Z) (st : list (Z * Z * T))
  | EStart (id : Z) (av : T) (st : list (Z * Z * T)) (tot : T)     (* StartTurn's return *)
  | EReset (id : Z) (c : T) (st : list (Z * Z * T))
  | EGauge (id : Z) (old new : Z) (st : list (Z * Z * T))
  | ECost (old new : T)
  | EErr                                                            (* an error return *)
  | EPanic                                                          (* Go would panic *)
  | EConvUndefined.                                                 (* int64(x) undefined *)

  Inductive op :=
  | OAdd (ids : list (Z * T))          (* AddTargets; each id comes with its speed *)
  | ORemove (id : Z)
  | OStart
  | OReset
  | OSetGauge (id : Z) (amt : T)
  | OModNorm (id : Z) (amt : T)        (* ModifyGaugeNormalized *)
  | OModAV (id : Z) (amt : T)          (* ModifyGaugeAV *)
  | OSetCost (amt : T)
  | OModCost (amt : T)
  | OSetSpeed (id : Z) (s : T).

  Definition set_order (s : tstate) (o : list unit) : tstate :=
    mkT o (cost s) (active s) (atarget s) (total s) (speeds s).

  Fixpoint find (l : list unit) (id : Z) : option unit :=
    match l with
    | [] => None
    | u :: r => if u_id u =? id then Some u else find r id
    end.
  (* remove the first unit with this id *)
  Fixpoint remove_id (l : list unit) (id : Z) : list unit :=
    match l with
    | [] => []
    | u :: r => if u_id u =? id then r else u :: remove_id r id
    end.
  Fixpoint index_of (l : list unit) (id : Z) : nat :=
    match l with
    | [] => O
    | u :: r => if u_id u =? id then O else S (index_of r id)
    end.
  (* Go updates through a pointer: every entry with this id that is the same object; ids are
     unique in the order (the engine never adds an id twice), so "first" is exact *)
  Fixpoint set_gauge_of (l : list unit) (id g : Z) : list unit :=
    match l with
    | [] => []
    | u :: r => if u_id u =? id then mkU id g :: r else u :: set_gauge_of r id g
    end.

  Definition set_speed (s : tstate) (id : Z) (v : T) : tstate :=
    mkT (order s) (cost s) (active s) (atarget s) (total s) ((id, v) :: speeds s).

  (* the SetGauge core after the amount has been computed *)
  Definition do_set_gauge (s : tstate) (id : Z) (amt : T) : tstate * list out :=
    match find (order s) id with
    | None => (s, [EErr])
    | Some u =>
        if negb (ntoZ_ok N amt) then (s, [EConvUndefined]) else
        let g := Z.max 0 (ntoZ N amt) in
        if u_gauge u =? g then (s, [])
        else
          let idx := index_of (order s) id in
          let start := if active s && negb (Nat.eqb idx 0) then 1%nat else 0%nat in
          let rest := remove_id (order s) id in
          let moved := firstn start rest ++ mkU id g :: skipn start rest in
          let s' := set_order s (resort s moved) in
          (s', [EGauge id (u_gauge u) g (status s')])
    end.

  Definition do_set_cost (s : tstate) (amt : T) : tstate * list out :=
    if neqb N (cost s) amt then (s, [])
    else (mkT (order s) amt (active s) (atarget s) (total s) (speeds s), [ECost (cost s) amt]).

  Definition step (s : tstate) (o : op) : tstate * list out :=
    match o with
    | OSetSpeed id v => (set_speed s id v, [])
    | OAdd ids =>
        let s1 := fold_left (fun st iv => set_speed st (fst iv) (snd iv)) ids s in
        let s2 := set_order s1 (resort s1 (order s1 ++ map (fun iv => mkU (fst iv) BaseGauge) ids)) in
        (s2, [EAdded (map fst ids) (status s2)])
    | ORemove id =>
        match find (order s) id with
        | None => (s, [EErr])
        | Some _ => (set_order s (remove_id (order s) id), [])
        end
    | OStart =>
        if active s then (s, [EErr]) else
        match resort s (order s) with
        | [] => (s, [EPanic])                       (* turnOrder[0] on an empty slice *)
        | (hd :: _) as sorted =>
            let a := av_of s hd in
            if negb (forallb (fun u => ntoZ_ok N (nmul N a (spd s (u_id u)))) sorted)
            then (s, [EConvUndefined]) else
            let dec := map (fun u => mkU (u_id u) (u_gauge u - ntoZ N (nmul N a (spd s (u_id u))))) sorted in
            (* the acting unit has used up its whole gauge *)
            let dec' := set_gauge_of dec (u_id hd) 0 in
            let s' := mkT dec' (nofZ N 1) true (u_id hd) (nadd N (total s) a) (speeds s) in
            (s', [EStart (u_id hd) a (status s') (total s')])
        end
    | OReset =>
        if negb (active s) then (s, [EErr]) else
        let s0 := mkT (order s) (cost s) false (atarget s) (total s) (speeds s) in
        match find (order s) (atarget s) with
        | None => (s0, [EReset (atarget s) (cost s) (status s0)])   (* acting unit already removed *)
        | Some _ =>
            let x := nmul N (nofZ N BaseGauge) (cost s) in
            if negb (ntoZ_ok N x) then (s, [EConvUndefined]) else
            let g := Z.max 0 (ntoZ N x) in
            let moved := remove_id (order s) (atarget s) ++ [mkU (atarget s) g] in
            let s' := set_order s0 (resort s0 moved) in
            (s', [EReset (atarget s) (cost s) (status s')])
        end
    | OSetGauge id amt => do_set_gauge s id amt
    | OModNorm id amt =>
        match find (order s) id with
        | None => (s, [EErr])
        | Some u => do_set_gauge s id (nadd N (nofZ N (u_gauge u)) (nmul N amt (nofZ N BaseGauge)))
        end
    | OModAV id amt =>
        match find (order s) id with
        | None => (s, [EErr])
        | Some u => do_set_gauge s id (nadd N (nofZ N (u_gauge u)) (nmul N (spd s id) amt))
        end
    | OSetCost amt => do_set_cost s amt
    | OModCost amt => do_set_cost s (nadd N (cost s) amt)
    end.

  Fixpoint run (s : tstate) (ops : list op) : tstate * list (list out) :=
    match ops with
    | [] => (s, [])
    | o :: r =>
        let (s1, e) := step s o in
        let (s2, es) := run s1 r in
        (s2, e :: es)
    end.
End Turn.

Arguments OAdd {N}. Arguments ORemove {N}. Arguments OStart {N}. Arguments OReset {N}.
Arguments OSetGauge {N}. Arguments OModNorm {N}. Arguments OModAV {N}. Arguments OSetCost {N}.
Arguments OModCost {N}. Arguments OSetSpeed {N}.
Arguments EAdded {N}. Arguments EStart {N}. Arguments EReset {N}. Arguments EGauge {N}.
Arguments ECost {N}. Arguments EErr {N}. Arguments EPanic {N}. Arguments EConvUndefined {N}.
Arguments order {N}. Arguments cost {N}. Arguments active {N}. Arguments atarget {N}.
Arguments total {N}. Arguments speeds {N}.
