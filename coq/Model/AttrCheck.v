(* Correspondence checker and property monitor for Model/Attr.v. *)
From Coq Require Import List ZArith Bool String Floats.
From SR Require Import Base.CaseLib Model.Attr.
Import ListNotations.
Open Scope Z_scope.

Inductive observed :=
| Obs (rs : list res) (final : list snap)
| HarnessPanic (msg : string).

Definition case := (list op * observed)%type.

Definition lstate_eqb (a b : lstate) : bool :=
  match a, b with
  | Invalid, Invalid | Dead, Dead | Limbo, Limbo | Alive, Alive => true
  | _, _ => false
  end.

Definition ev_eqb (a b : ev) : bool :=
  match a, b with
  | EHP k t o n oh nh d, EHP k' t' o' n' oh' nh' d' =>
      (k =? k') && (t =? t') && feqb_bits o o' && feqb_bits n n' && feqb_bits oh oh' &&
      feqb_bits nh nh' && Bool.eqb d d'
  | ELimbo t, ELimbo t' => t =? t'
  | EEnergy k t s o n, EEnergy k' t' s' o' n' =>
      (k =? k') && (t =? t') && (s =? s') && feqb_bits o o' && feqb_bits n n'
  | EStance k t s o n, EStance k' t' s' o' n' =>
      (k =? k') && (t =? t') && (s =? s') && feqb_bits o o' && feqb_bits n n'
  | EBreak k t s, EBreak k' t' s' => (k =? k') && (t =? t') && (s =? s')
  | EReset k t, EReset k' t' => (k =? k') && (t =? t')
  | ESP k s o n, ESP k' s' o' n' => (k =? k') && (s =? s') && (o =? o') && (n =? n')
  | _, _ => false
  end.

Definition snap_eqb (a b : snap) : bool :=
  feqb_bits (g_hp a) (g_hp b) && feqb_bits (g_energy a) (g_energy b) &&
  feqb_bits (g_maxEnergy a) (g_maxEnergy b) && feqb_bits (g_stance a) (g_stance b) &&
  feqb_bits (g_maxStance a) (g_maxStance b) && lstate_eqb (g_state a) (g_state b) &&
  (g_last a =? g_last b) && (g_sp a =? g_sp b).

Definition res_eqb (a b : res) : bool :=
  list_eqb ev_eqb (r_evs a) (r_evs b) && (r_err a =? r_err b) && snap_eqb (r_snap a) (r_snap b).

Definition model_out (c : case) : observed :=
  let (s, rs) := run init (fst c) in Obs rs (dump s).

Definition check_case (c : case) : bool :=
  match model_out c, snd c with
  | Obs rs fin, Obs rs' fin' => list_eqb res_eqb rs rs' && list_eqb snap_eqb fin fin'
  | _, _ => false
  end.

(* ------------------------------------------------------------------------------------ *)
(* The property's own predicate, evaluated on what the IMPLEMENTATION reported (events,  *)
(* getters), never on the model's run.                                                   *)
(* ------------------------------------------------------------------------------------ *)

Definition fin (x : float) : bool := negb (PrimFloat.is_nan x) && negb (PrimFloat.is_infinity x).

(* the hypotheses of the property: a valid start and finite amounts / stats *)
Definition env_okb (e : env) : bool :=
  fin (e_maxHP e) && ltb 0 (e_maxHP e) && fin (e_regen e) && fin (e_bonus e).

Definition op_okb (o : op) : bool :=
  match o with
  | OAdd _ hp en me stc ms =>
      leb hp 1 && leb 0 en && leb 0 me && fin me && leb 0 stc && leb stc ms && fin ms
  | OSetHP c a _ | OModHPAmount c a _ | OSetStance c a | OModStance c a
  | OSetEnergy c a | OModEnergy c a | OModEnergyFixed c a => env_okb (c_env c) && fin a
  | OModHPRatio c r _ f _ => env_okb (c_env c) && fin r && fin f
  | OModSP _ _ _ => true
  end.

Definition snap_in_range (g : snap) : bool :=
  match g_state g with
  | Invalid => true            (* not a registered unit: the getters return defaults *)
  | _ =>
      leb 0 (g_hp g) && leb (g_hp g) 1 &&
      leb 0 (g_energy g) && leb (g_energy g) (g_maxEnergy g) &&
      leb 0 (g_stance g) && leb (g_stance g) (g_maxStance g)
  end && (0 <=? g_sp g) && (g_sp g <=? 5).

(* what was last read for each id *)
Fixpoint known_get (id : Z) (kn : list (Z * snap)) : option snap :=
  match kn with
  | [] => None
  | (k, g) :: r => if k =? id then Some g else known_get id r
  end.
Definition known_put (id : Z) (g : snap) (kn : list (Z * snap)) : list (Z * snap) :=
  (id, g) :: kn.

Definition ev_target (e : ev) : option Z :=
  match e with
  | EHP _ t _ _ _ _ _ | ELimbo t | EEnergy _ t _ _ _ | EStance _ t _ _ _ | EBreak _ t _ | EReset _ t => Some t
  | ESP _ _ _ _ => None
  end.

Definition count {A} (p : A -> bool) (l : list A) : nat := List.length (filter p l).

Definition is_hp e := match e with EHP _ _ _ _ _ _ _ => true | _ => false end.
Definition is_energy e := match e with EEnergy _ _ _ _ _ => true | _ => false end.
Definition is_stance e := match e with EStance _ _ _ _ _ => true | _ => false end.
Definition is_break e := match e with EBreak _ _ _ => true | _ => false end.
Definition is_reset e := match e with EReset _ _ => true | _ => false end.
Definition is_sp e := match e with ESP _ _ _ _ => true | _ => false end.

Definition b2n (b : bool) : nat := if b then 1%nat else 0%nat.

(* one call: [before]/[after] are the getters of the call's target before and after it;
   the events of the call must report exactly the changes between the two *)
Definition call_ok (o : op) (before after : snap) (evs : list ev) : bool :=
  let t := op_target o in
  let maxHP := match o with
               | OSetHP c _ _ | OModHPAmount c _ _ | OModHPRatio c _ _ _ _ => e_maxHP (c_env c)
               | _ => 0%float end in
  let hp_changed := negb (eqb (g_hp before) (g_hp after)) in
  let en_changed := negb (eqb (g_energy before) (g_energy after)) in
  let st_changed := negb (eqb (g_stance before) (g_stance after)) in
  let sp_changed := negb (g_sp before =? g_sp after) in
  (* every unit event names the call's target *)
  forallb (fun e => match ev_target e with Some t' => t' =? t | None => true end) evs &&
  (* exactly one event per changed quantity, none for an unchanged one *)
  Nat.eqb (count is_hp evs) (b2n hp_changed) &&
  Nat.eqb (count is_energy evs) (b2n en_changed) &&
  Nat.eqb (count is_stance evs) (b2n st_changed) &&
  Nat.eqb (count is_sp evs) (b2n sp_changed) &&
  (* old = value before the call, new = value after it *)
  forallb (fun e =>
    match e with
    | EHP _ _ o' n' oh nh _ =>
        feqb_bits o' (g_hp before) && feqb_bits n' (g_hp after) &&
        feqb_bits oh (maxHP * o') && feqb_bits nh (maxHP * n')
    | EEnergy _ _ _ o' n' => feqb_bits o' (g_energy before) && feqb_bits n' (g_energy after)
    | EStance _ _ _ o' n' => feqb_bits o' (g_stance before) && feqb_bits n' (g_stance after)
    | ESP _ _ o' n' => (o' =? g_sp before) && (n' =? g_sp after)
    | _ => true
    end) evs &&
  (* break announced exactly when the stance reaches zero, reset exactly when it leaves zero *)
  Nat.eqb (count is_break evs) (b2n (st_changed && eqb (g_stance after) 0)) &&
  Nat.eqb (count is_reset evs) (b2n (st_changed && eqb (g_stance before) 0)).

(* chain, directly on the events: per unit and quantity, the old value of an event equals
   the new value of the previous event for that unit *)
Definition chain_step (last : list (Z * Z * float)) (e : ev) : bool * list (Z * Z * float) :=
  let look q t :=
    (fix go (l : list (Z * Z * float)) : option float :=
       match l with
       | [] => None
       | (q', t', v) :: r => if (q' =? q) && (t' =? t) then Some v else go r
       end) last in
  let upd q t (o n : float) :=
    (match look q t with Some v => eqb v o | None => true end, (q, t, n) :: last) in
  match e with
  | EHP _ t o n _ _ _ => upd 0 t o n
  | EEnergy _ t _ o n => upd 1 t o n
  | EStance _ t _ o n => upd 2 t o n
  | _ => (true, last)
  end.

Fixpoint chain_ok (last : list (Z * Z * float)) (evs : list ev) : bool :=
  match evs with
  | [] => true
  | e :: r => let (ok, last') := chain_step last e in ok && chain_ok last' r
  end.

Fixpoint sp_chain_ok (last : option Z) (evs : list ev) : bool :=
  match evs with
  | [] => true
  | ESP _ _ o n :: r => match last with Some v => v =? o | None => o =? 3 end && sp_chain_ok (Some n) r
  | _ :: r => sp_chain_ok last r
  end.

Fixpoint calls_ok (kn : list (Z * snap)) (sp0 : Z) (ops : list op) (rs : list res) : bool * list (Z * snap) * Z :=
  match ops, rs with
  | o :: ops', r :: rs' =>
      let t := op_target o in
      let after := r_snap r in
      let ok :=
        match o, known_get t kn with
        | OAdd _ _ _ _ _ _, None =>
            (* registration: no events; the unit starts alive *)
            match r_evs r with [] => true | _ => false end && (g_sp after =? sp0)
        | OModSP _ _ _, None =>
            (* the source need not be a registered unit: only the SP part is meaningful *)
            call_ok o (mkSnap (g_hp after) (g_energy after) (g_maxEnergy after) (g_stance after)
                              (g_maxStance after) (g_state after) (g_last after) sp0) after (r_evs r)
        | _, Some before =>
            call_ok o (mkSnap (g_hp before) (g_energy before) (g_maxEnergy before) (g_stance before)
                              (g_maxStance before) (g_state before) (g_last before) sp0) after (r_evs r)
        | _, None =>
            (* unknown target: nothing happens *)
            match r_evs r with [] => true | _ => false end && (g_sp after =? sp0)
        end in
      let kn' := match g_state after with Invalid => kn | _ => known_put t after kn end in
      let '(ok', kn'', sp') := calls_ok kn' (g_sp after) ops' rs' in
      (ok && snap_in_range after && ok', kn'', sp')
  | [], [] => (true, kn, sp0)
  | _, _ => (false, kn, sp0)
  end.

(* nothing changed behind the back of the calls: the final dump equals what was last read *)
Definition final_ok (kn : list (Z * snap)) (spf : Z) (final : list snap) : bool :=
  (Nat.eqb (List.length final) (List.length dump_ids)) &&
  forallb (fun p : Z * snap =>
    let (id, g) := p in
    snap_in_range g && (g_sp g =? spf) &&
    match known_get id kn with
    | Some k =>
        feqb_bits (g_hp g) (g_hp k) && feqb_bits (g_energy g) (g_energy k) &&
        feqb_bits (g_stance g) (g_stance k) && lstate_eqb (g_state g) (g_state k) &&
        (g_last g =? g_last k)
    | None => lstate_eqb (g_state g) Invalid
    end) (combine dump_ids final).

Definition monitor_case (c : case) : bool :=
  let (ops, obs) := c in
  if forallb op_okb ops then
    match obs with
    | Obs rs final =>
        let '(ok, kn, spf) := calls_ok [] 3 ops rs in
        let evs := flat_map r_evs rs in
        ok && final_ok kn spf final && chain_ok [] evs && sp_chain_ok None evs
    | HarnessPanic _ => false
    end
  else true.
