(* Interpreter of the stacking description (Gen/StackingTable.v, types Model/SimSkeleton.v) over the model's own types.
   (1) COUNT: the steps of `stackCount` are run over an environment of integers (the previous count, the incoming
       instance's count and maxCount, the local `count`).
   (2) LOOKUP / COUNT / DURATION / SURVIVOR / EMIT ORDER of the seven helpers and the `switch config.Stacking` of
       AddModifier, over Modifier.st (second half of this file): interp_stack.
   Expression and guard texts are mapped through the finite denotation tables below; an unknown text or step shape is
   Stuck (answer None).  Proofs/StackingTableProofs.v:
     interp_stack_count StackingTable.table new prev = Some (Modifier.stack_count new prev)
     interp_stack w X (interp_stack_count StackingTable.table) StackingTable.table s t k tag = Some (Modifier.stack w X s t k tag)
   for every world, listener runner, state, unit, stacking behaviour and instance.  NOT interpreted (pinned only):
   attemptResist, the head and tail of AddModifier around the switch, remove.go, tick.go.  No proofs here. *)
From Coq Require Import List ZArith String Bool.
From SR Require Import Model.SimSkeleton Model.Modifier.
Import ListNotations.
Open Scope string_scope.
Open Scope Z_scope.
Local Notation "a == b" := (String.eqb a b) (at level 70).

Definition one (l : list string) : option string := match l with [x] => Some x | _ => None end.
Definition slist_eqb (a b : list string) : bool :=
  (fix go a b := match a, b with
                 | [], [] => true
                 | x :: a', y :: b' => String.eqb x y && go a' b'
                 | _, _ => false
                 end) a b.

(* prevCount, mod.count, mod.maxCount (float64 in Go; integral values below 2^53, see the trusted list of C05) and the
   local `count` (unbound until `count := ...`) *)
Record scenv := mkSc { sc_prev : Z; sc_cnt : Z; sc_max : Z; sc_local : option Z }.
Inductive scres := ScRet (v : Z) | ScCont (e : scenv) | ScStuck.

Definition sc_atom (e : string) (env : scenv) : option Z :=
  if e == "prevCount" then Some (sc_prev env)
  else if e == "mod.count" then Some (sc_cnt env)
  else if e == "mod.maxCount" then Some (sc_max env)
  else if e == "count" then sc_local env
  else if e == "0" then Some 0
  else None.

(* "a + b" | atom *)
Definition sc_expr (e : string) (env : scenv) : option Z :=
  match sc_atom e env with
  | Some v => Some v
  | None =>
      if e == "prevCount + mod.count" then Some (sc_prev env + sc_cnt env) else None
  end.

(* comparisons "a < b" / "a > b" over atoms, joined by one "||" or "&&": the two guards of stackCount *)
Definition sc_cond (c : string) (env : scenv) : option bool :=
  if c == "prevCount < 0 || mod.count < 0" then Some ((sc_prev env <? 0) || (sc_cnt env <? 0))
  else if c == "mod.maxCount > 0 && count > mod.maxCount" then
    match sc_local env with Some k => Some ((0 <? sc_max env) && (sc_max env <? k)) | None => None end
  else None.

Fixpoint sc_step (st : SimSkeleton.step) (env : scenv) : scres :=
  let seq := fix seq (l : list SimSkeleton.step) (env : scenv) : scres :=
    match l with
    | [] => ScCont env
    | x :: r => match sc_step x env with ScCont e' => seq r e' | o => o end
    end in
  match st with
  | SkIf [] c thn els =>
      match sc_cond c env with
      | Some true => seq thn env
      | Some false => seq els env
      | None => ScStuck
      end
  | SkAssign lhs tok rhs =>
      if slist_eqb lhs ["count"] && ((tok == ":=") || (tok == "=")) then
        match one rhs with
        | Some e => match sc_expr e env with
                    | Some v => ScCont (mkSc (sc_prev env) (sc_cnt env) (sc_max env) (Some v))
                    | None => ScStuck end
        | None => ScStuck
        end
      else ScStuck
  | SkReturn vals =>
      match one vals with
      | Some e => match sc_expr e env with Some v => ScRet v | None => ScStuck end
      | None => ScStuck
      end
  | _ => ScStuck
  end.

Fixpoint sc_steps (l : list SimSkeleton.step) (env : scenv) : scres :=
  match l with
  | [] => ScCont env
  | x :: r => match sc_step x env with ScCont e' => sc_steps r e' | o => o end
  end.

(* stackCount(mod, prevCount) of the table [tbl] on the incoming instance [new] and the previous count [prev] *)
Definition interp_stack_count (tbl : list fn) (new : inst) (prev : Z) : option Z :=
  match find_fn tbl "stackCount" with
  | Some f =>
      if slist_eqb (fn_params f) ["mod *Instance"; "prevCount float64"] && slist_eqb (fn_results f) ["float64"] then
        match sc_steps (fn_body f) (mkSc prev (i_cnt new) (i_max new) None) with
        | ScRet v => Some v
        | _ => None
        end
      else None
  | None => None
  end.

(* ================= the seven stacking helpers and the AddModifier switch, over the model's state =================
   The helpers of add.go have one of two shapes, checked structurally:
     (A)  for _|i, mod := range mgr.targets[target] { if <lookup guard> { <matched steps ending in return> } }
          mgr.targets[target] = append(mgr.targets[target], instance); return <instance ...>
     (B)  mgr.targets[target] = append(mgr.targets[target], instance); return <instance ...>            (multiple)
   Because the guarded branch always returns (a branch that falls through is Stuck), the loop is "the first attached
   instance satisfying the guard": Modifier.find_first with the predicate the guard text denotes.  The matched steps
   are run over the model state: [m] the matched instance (`mod`), [tag] the incoming one (`instance`), s0 the state at
   the lookup (for the slot index `i` of `mgr.targets[target][i] = instance`).  [sc] is stackCount (instantiated with
   interp_stack_count of the same table). *)
Section Helpers.
  Variable w : world.
  Variable X : runner.
  Variable sc : inst -> Z -> option Z.
  Variable tbl : list fn.

  Definition denote_lookup (c : string) (new : inst) : option (inst -> bool) :=
    if c == "mod.name == instance.name" then Some (by_name (i_name new))
    else if c == "mod.name == instance.name && mod.source == instance.source" then Some (by_name_src (i_name new) (i_src new))
    else None.

  (* HRet: state, returned instance, the bool returned with it (None for the one-result helpers) *)
  Inductive hres := HRet (s : st) (r : Z) (fl : option bool) | HCont (s : st) (old : option Z) | HStuck.

  Definition denote_ret (vals : list string) (m tag : Z) : option (Z * option bool) :=
    if slist_eqb vals ["mod"; "false"] then Some (m, Some false)
    else if slist_eqb vals ["mod"; "true"] then Some (m, Some true)
    else if slist_eqb vals ["instance"; "true"] then Some (tag, Some true)
    else if slist_eqb vals ["instance"; "false"] then Some (tag, Some false)
    else if slist_eqb vals ["mod"] then Some (m, None)
    else if slist_eqb vals ["instance"] then Some (tag, None)
    else None.

  Section Matched.
    Variable s0 : st.
    Variable p : inst -> bool.
    Variable t m tag : Z.

    Definition h_assign (lhs : list string) (tok : string) (rhs : list string) (s : st) (old : option Z) : hres :=
      if slist_eqb lhs ["old"] && (tok == ":=") && slist_eqb rhs ["mod.duration"] then HCont s (Some (i_dur (heap s m)))
      else if slist_eqb lhs ["mod.duration"] && (tok == "=") && slist_eqb rhs ["instance.duration"] then
        HCont (upd s m (w_dur (i_dur (heap s tag)))) old
      else if slist_eqb lhs ["mod.duration"] && (tok == "+=") && slist_eqb rhs ["instance.duration"] then
        HCont (upd s m (w_dur (i_dur (heap s m) + i_dur (heap s tag)))) old
      else if slist_eqb lhs ["mgr.targets[target][i]"] && (tok == "=") && slist_eqb rhs ["instance"] then
        HCont (setl s t (replace_first (heap s0) p tag (tg s0 t))) old
      else HStuck.

    Definition h_bind (lhs : list string) (tok f : string) (args : list string) (s : st) (old : option Z) : hres :=
      if (tok == "=") && (f == "stackCount") && slist_eqb args ["instance"; "mod.count"] then
        match sc (heap s tag) (i_cnt (heap s m)) with
        | Some c =>
            if slist_eqb lhs ["instance.count"] then HCont (upd s tag (w_cnt c)) old
            else if slist_eqb lhs ["mod.count"] then HCont (upd s m (w_cnt c)) old
            else HStuck
        | None => HStuck
        end
      else HStuck.

    Definition h_call (f : string) (args : list string) (s : st) (old : option Z) : hres :=
      if (f == "mgr.emitExtendDuration") && slist_eqb args ["target"; "mod"; "old"] then
        match old with Some o => HCont (emit_extdur w X s t m o) old | None => HStuck end
      else HStuck.

    Definition h_cond (c : string) (s : st) : option bool :=
      if c == "instance.duration > mod.duration" then Some (i_dur (heap s m) <? i_dur (heap s tag)) else None.

    Fixpoint h_step (x : SimSkeleton.step) (s : st) (old : option Z) : hres :=
      let seq := fix seq (l : list SimSkeleton.step) (s : st) (old : option Z) : hres :=
        match l with
        | [] => HCont s old
        | y :: r => match h_step y s old with HCont s' o' => seq r s' o' | o => o end
        end in
      match x with
      | SkAssign lhs tok rhs => h_assign lhs tok rhs s old
      | SkBind lhs tok f args => h_bind lhs tok f args s old
      | SkCall f args => h_call f args s old
      | SkIf [] c thn els =>
          match h_cond c s with
          | Some true => seq thn s old
          | Some false => seq els s old
          | None => HStuck
          end
      | SkReturn vals => match denote_ret vals m tag with Some (r, fl) => HRet s r fl | None => HStuck end
      | _ => HStuck
      end.

    Fixpoint h_steps (l : list SimSkeleton.step) (s : st) (old : option Z) : hres :=
      match l with
      | [] => HCont s old
      | y :: r => match h_step y s old with HCont s' o' => h_steps r s' o' | o => o end
      end.
  End Matched.

  Definition is_append (lhs : list string) (tok f : string) (args : list string) : bool :=
    slist_eqb lhs ["mgr.targets[target]"] && (tok == "=") && (f == "append") &&
    slist_eqb args ["mgr.targets[target]"; "instance"].

  Definition no_match (rv : list string) (s : st) (t tag : Z) : option (st * Z * option bool) :=
    match denote_ret rv tag tag with
    | Some (r, fl) => if slist_eqb rv ["instance"] || slist_eqb rv ["instance"; "true"] then Some (append s t tag, r, fl) else None
    | None => None
    end.

  Definition interp_helper (name : string) (s : st) (t tag : Z) : option (st * Z * option bool) :=
    match find_fn tbl name with
    | Some f =>
        if slist_eqb (fn_params f) ["target key.TargetID"; "instance *Instance"] then
          match fn_body f with
          | [SkRange kv tok over [SkIf [] c thn []]; SkBind lhs tok2 f2 args; SkReturn rv] =>
              if (slist_eqb kv ["_"; "mod"] || slist_eqb kv ["i"; "mod"]) && (tok == ":=") &&
                 (over == "mgr.targets[target]") && is_append lhs tok2 f2 args then
                match denote_lookup c (heap s tag) with
                | Some p =>
                    match find_first (heap s) p (tg s t) with
                    | Some m =>
                        match h_steps s p t m tag thn s None with
                        | HRet s' r fl => Some (s', r, fl)
                        | _ => None
                        end
                    | None => no_match rv s t tag
                    end
                | None => None
                end
              else None
          | [SkBind lhs tok2 f2 args; SkReturn rv] =>
              if is_append lhs tok2 f2 args then no_match rv s t tag else None
          | _ => None
          end
        else None
    | None => None
    end.

  Definition stacking_name (k : stacking) : string :=
    match k with
    | Unique => "Unique" | ReplaceBySource => "ReplaceBySource" | Replace => "Replace" | Multiple => "Multiple"
    | Refresh => "Refresh" | Prolong => "Prolong" | Merge => "Merge"
    end.

  Fixpoint find_switch (tag : string) (l : list SimSkeleton.step) : option (list (list string * list SimSkeleton.step)) :=
    match l with
    | [] => None
    | SkSwitch tg cases :: r => if tg == tag then Some cases else find_switch tag r
    | _ :: r => find_switch tag r
    end.

  Fixpoint find_case (lab : string) (cs : list (list string * list SimSkeleton.step)) : option (list SimSkeleton.step) :=
    match cs with
    | [] => None
    | (labs, body) :: r => if slist_eqb labs [lab] then Some body else find_case lab r
    end.

  Definition strip_mgr (f : string) : option string :=
    if String.prefix "mgr." f then Some (String.substring 4 (String.length f - 4) f) else None.

  (* the `switch config.Stacking` of AddModifier: which helper, and where `newInstance` comes from *)
  Definition interp_stack (s : st) (t : Z) (k : stacking) (tag : Z) : option (st * Z * bool) :=
    match find_fn tbl "AddModifier" with
    | Some f =>
        match find_switch "config.Stacking" (fn_body f) with
        | Some cases =>
            match find_case (stacking_name k) cases with
            | Some [SkBind lhs tok h args] =>
                if slist_eqb lhs ["result"; "newInstance"] && (tok == "=") && slist_eqb args ["target"; "instance"] then
                  match strip_mgr h with
                  | Some name => match interp_helper name s t tag with
                                 | Some (s', r, Some fl) => Some (s', r, fl)
                                 | _ => None end
                  | None => None
                  end
                else None
            | Some [SkBind lhs tok h args; SkAssign l2 tok2 r2] =>
                if slist_eqb lhs ["result"] && (tok == "=") && slist_eqb args ["target"; "instance"] &&
                   slist_eqb l2 ["newInstance"] && (tok2 == "=") && slist_eqb r2 ["true"] then
                  match strip_mgr h with
                  | Some name => match interp_helper name s t tag with
                                 | Some (s', r, None) => Some (s', r, true)
                                 | _ => None end
                  | None => None
                  end
                else None
            | _ => None
            end
        | None => None
        end
    | None => None
    end.
End Helpers.
