CONFIG = {
    "id": "C04",
    "coq_targets": ["Props/C04.v", "Model/HitCheck.v", "Model/HitTerms.v"],
    "prop_files": ["Props/C04.v"],
    "gen": [],
    "components": [{
        "name": "hit",
        # HitTerms last: it gives the case files the constructors at the binary64 instance
        "modules": ["Model.CombatCore", "Model.CombatCheck", "Model.Hit", "Model.HitCheck", "Model.HitTerms"],
        "check": "hit_check_case", "monitor": "hit_monitor_case", "model_out": "hit_model_out",
        "case_type": "hcase",
        "ops_path": [3],
        "n_quick": 808, "n_thorough": 40400, "shard": 202,
    }],
    "rule": "2-4 units (id pool 1..4 plus one unregistered id; characters and enemies) with generated HP/ATK/DEF "
            "base/percent/flat/convert, crit chance/damage, damage bonuses, RES and PEN per element, damage taken per element, "
            "damage reduction, fatigue, break effect, energy regeneration, toughness-damage bonus, level (every row of the break "
            "table in each shard, and levels outside it), stance/max stance, energy/max energy, weaknesses; 2-7 operations: "
            "attacks (1-3 targets incl. repeated, dead and unknown ones; all attack and damage types incl. invalid ones; 0-4 "
            "formula terms; flat damage; pure flag; hit ratio incl. 0 and negative; 0-3 HitStart listener adjustments of either "
            "snapshot / formula map / flat damage / map replacement), EndAttack, shields (strength aimed at the total of the next "
            "hit: equal, one ulp either side, half, double; several shields; same key replaced), direct HP changes; the crit draw "
            "is scripted (multiples of 2^-53 from a small pool, crit chances equal to / one ulp either side of the draws); half of "
            "the property values come from a boundary pool (every literal of damage.go/hit.go/heal.go and the clamp bounds with "
            "their two binary64 neighbours, zero, negatives); all randomness from one splitmix64 state; a case is non-trivial when "
            "distinct as an input term",
    "trusted": [
        "the Go map of formula terms is traversed in the model in ascending key order: the generator keeps at most two float "
        "addends after the initial 0 (order independent in binary64), or, in the 'dyadic' third of the cases, up to four terms "
        "whose partial sums are all exact; over the reals the sum is proved order independent (baseDamage_perm)",
        "clauses (d)-(f) of C04_statement are about the same Gallina definitions instantiated at the real numbers (RNum): IEEE "
        "rounding between the two instances is not covered by a theorem, the binary64 instance is compared bit for bit",
        "math/rand: Float64 = float64(Int63())/2^63 of a scripted Source; the property needs only which draw is used and how many",
        "the modifier evaluation (property vector of a unit) and engine.Target.IsCharacter are harness fakes; the attribute "
        "service, the shield manager, the event system and the combat manager are the real ones; the break table is transcribed "
        "into Model/Hit.v (every row is exercised in each shard)",
        "the toughness-damage bonus and the energy regeneration are read by the attribute service from the CURRENT stats of "
        "the attacker / receiver, not from the hit's (listener-adjustable) snapshot; the model says so",
    ],
    "assumptions": [
        "stat vectors are finite binary64 values; HitStart listeners adjust the hit through Stats.AddProperty, the formula "
        "map and the flat damage (they do not start further attacks from inside the listener)",
    ],
    "manifest": {
        "level_text": "Kernel-checked theorems over an executable Gallina model of damage.go, performHit/newHit, Attack/EndAttack, "
                      "the attribute service's HP/stance/energy updates and shield absorption (party and crit clauses at every "
                      "arithmetic instance, clamps at the binary64 level, factor formulas / products / splits at the real "
                      "instance), tied to the Go code by exact bit-for-bit trace correspondence and an independent monitor.",
        "level_note": "Coq kernel; hand-written model Model/CombatCore.v + Model/Hit.v; correspondence harness against the real "
                      "combat manager, attribute service, shield manager and event system; reals vs binary64 gap named in trusted.",
        "technique": "Coq proof (case analysis, lra over the reals, induction over shields and formula terms) + "
                     "model/implementation correspondence + trace monitor",
        "design_ref": "DESIGN.md section 7, C04",
    },
}
