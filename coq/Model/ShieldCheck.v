(* Correspondence checker and property monitor for Model/Shield.v (float instance). *)
From Coq Require Import List ZArith Bool Floats String.
From SR Require Import Base.CaseLib Model.Shield.
Import ListNotations.
Open Scope Z_scope.

Inductive observed := Ok (l : list (obs float)) | HarnessPanic (msg : string).

(* input: unit pool size, key pool size, operations; output: one record per operation *)
Definition case := (nat * nat * list (op float) * observed)%type.

Definition optZ_eqb := option_eqb Z.eqb.

Definition event_eqb (a b : event float) : bool :=
  match a, b with
  | EAdded k s t f h, EAdded k' s' t' f' h' =>
      (k =? k') && (s =? s') && (t =? t') && feqb_bits f f' && feqb_bits h h'
  | ERemoved k t, ERemoved k' t' => (k =? k') && (t =? t')
  | EChange t m n o i u, EChange t' m' n' o' i' u' =>
      (t =? t') && optZ_eqb m m' && feqb_bits n n' && feqb_bits o o' && feqb_bits i i' && feqb_bits u u'
  | _, _ => false
  end.

Definition uprobe_eqb (a b : uprobe float) : bool :=
  let '(s, m, hs) := a in let '(s', m', hs') := b in
  Bool.eqb s s' && feqb_bits m m' && list_eqb Bool.eqb hs hs'.

Definition obs_eqb (a b : obs float) : bool :=
  list_eqb event_eqb (o_evs a) (o_evs b) && option_eqb feqb_bits (o_ret a) (o_ret b) &&
  list_eqb uprobe_eqb (o_probe a) (o_probe b).

Definition model_out (c : case) : list (obs float) :=
  let '(nu, nk, ops, _) := c in run FOps nu nk (init (N := float)) ops.

Definition check_case (c : case) : bool :=
  let '(_, _, _, o) := c in
  match o with
  | Ok l => list_eqb obs_eqb (model_out c) l
  | HarnessPanic _ => false
  end.

(* ------------------------------------------------------------------------------------ *)
(* Monitor: the property's own predicate on what the implementation reported.  It keeps only
   what an observer of the real manager knows: the stat vectors it served (from the input),
   and the previous probe (IsShielded / MaxShield / HasShield per unit).  Hidden shield
   strengths are never reconstructed from the model run. *)

Definition fin (x : float) : bool := negb (PrimFloat.is_nan x) && negb (PrimFloat.is_infinity x).

Definition fdim := dim FOps.
Definition fmaxf (a b : float) : float := if PrimFloat.ltb a b then b else a.

Definition nth_probe (p : list (uprobe float)) (u : Z) : option (uprobe float) :=
  if u <? 0 then None else nth_error p (Z.to_nat u).
Definition nth_flag (hs : list bool) (k : Z) : option bool :=
  if k <? 0 then None else nth_error hs (Z.to_nat k).

(* all probes except unit u are unchanged *)
Fixpoint others_same (i : Z) (u : Z) (p q : list (uprobe float)) : bool :=
  match p, q with
  | [], [] => true
  | a :: p', b :: q' => ((i =? u) || uprobe_eqb a b) && others_same (i + 1) u p' q'
  | _, _ => false
  end.
(* all flags except key k are unchanged *)
Fixpoint flags_same (i : Z) (k : Z) (p q : list bool) : bool :=
  match p, q with
  | [], [] => true
  | a :: p', b :: q' => ((i =? k) || Bool.eqb a b) && flags_same (i + 1) k p' q'
  | _, _ => false
  end.
(* keys whose flag went from true to false; flags never go from false to true *)
Fixpoint vanished (i : Z) (p q : list bool) : option (list Z) :=
  match p, q with
  | [], [] => Some []
  | a :: p', b :: q' =>
      match vanished (i + 1) p' q' with
      | None => None
      | Some r => if a && negb b then Some (i :: r) else if Bool.eqb a b then Some r else None
      end
  | _, _ => None
  end.
Definition count_true (l : list bool) : nat := List.length (filter (fun b => b) l).
Fixpoint zmem (k : Z) (l : list Z) : bool :=
  match l with [] => false | x :: r => (x =? k) || zmem k r end.
Fixpoint znodup (l : list Z) : bool :=
  match l with [] => true | x :: r => negb (zmem x r) && znodup r end.
Definition same_set (a b : list Z) : bool :=
  znodup a && Nat.eqb (List.length a) (List.length b) && forallb (fun x => zmem x b) a.

Definition removed_keys (tgt : Z) (evs : list (event float)) : option (list Z * event float) :=
  (* evs must be ERemoved* for tgt followed by exactly one EChange *)
  let fix go (l : list (event float)) (acc : list Z) :=
    match l with
    | [EChange t m n o i u] => Some (rev acc, EChange t m n o i u)
    | ERemoved k t :: r => if t =? tgt then go r (k :: acc) else None
    | _ => None
    end in go evs [].

Definition mon_step (st : list (Z * stats float)) (prev : list (uprobe float))
           (o : op float) (ob : obs float) : bool :=
  let cur := o_probe ob in
  match o with
  | OStats _ _ =>
      match o_evs ob, o_ret ob with [], None => list_eqb uprobe_eqb prev cur | _, _ => false end
  | OAdd key src tgt f flat =>
      match nth_probe prev tgt, nth_probe cur tgt, nth_probe prev src with
      | Some (sh0, mx0, hs0), Some (sh1, mx1, hs1), Some (_, mxsrc, _) =>
          let w := mkW [] st in
          let ssrc := get_st FOps w src in
          let stgt := get_st FOps w tgt in
          let base := base_hp FOps f flat ssrc stgt mxsrc in
          let s := strength FOps f flat ssrc stgt mxsrc in
          (match o_evs ob, o_ret ob with
           | [EAdded k' s' t' f' h'], None =>
               (k' =? key) && (s' =? src) && (t' =? tgt) && feqb_bits f' flat && feqb_bits h' base
           | _, _ => false
           end) &&
          others_same 0 tgt prev cur && sh1 && flags_same 0 key hs0 hs1 &&
          match nth_flag hs0 key, nth_flag hs1 key with
          | Some had, Some has =>
              has &&
              (if negb had then feqb_bits mx1 (fmaxf mx0 s)          (* a new shield joins *)
               else if Nat.eqb (count_true hs0) 1 then feqb_bits mx1 (fmaxf 0 s)  (* the only one is replaced *)
               else true)
          | _, _ => true
          end
      | _, _, _ => true
      end
  | ORemove key tgt =>
      match nth_probe prev tgt, nth_probe cur tgt with
      | Some (sh0, mx0, hs0), Some (sh1, mx1, hs1) =>
          match nth_flag hs0 key with
          | Some true =>
              (match o_evs ob, o_ret ob with
               | [ERemoved k t], None => (k =? key) && (t =? tgt)
               | _, _ => false
               end) &&
              others_same 0 tgt prev cur && flags_same 0 key hs0 hs1 &&
              (match nth_flag hs1 key with Some b => negb b | None => false end) &&
              Bool.eqb sh1 (existsb (fun b => b) hs1) && negb (PrimFloat.ltb mx0 mx1)
          | Some false =>
              (match o_evs ob, o_ret ob with [], None => true | _, _ => false end) &&
              list_eqb uprobe_eqb prev cur
          | None => true
          end
      | _, _ => true
      end
  | OAbsorb tgt d =>
      match nth_probe prev tgt, nth_probe cur tgt with
      | Some (sh0, mx0, hs0), Some (sh1, mx1, hs1) =>
          if negb sh0 || PrimFloat.leb d 0 then
            (* unshielded or non-positive damage: passed through unchanged, nothing happens *)
            (match o_evs ob, o_ret ob with
             | [], Some r => feqb_bits r d
             | _, _ => false
             end) && list_eqb uprobe_eqb prev cur
          else
            match o_ret ob, removed_keys tgt (o_evs ob), vanished 0 hs0 hs1 with
            | Some r, Some (gone, EChange t mid nw old din dout), Some van =>
                (t =? tgt) && feqb_bits din d && feqb_bits dout r && feqb_bits old mx0 &&
                feqb_bits nw mx1 && others_same 0 tgt prev cur &&
                same_set gone van &&                              (* removed = announced, once each *)
                Bool.eqb sh1 (existsb (fun b => b) hs1) &&
                negb (PrimFloat.ltb r 0) && negb (PrimFloat.ltb mx1 0) &&
                (if fin d && fin mx0 then
                   feqb_bits r (fdim d mx0) &&                    (* what exceeds the strongest shield *)
                   feqb_bits mx1 (fdim mx0 d) &&                  (* the strongest loses d, not below 0 *)
                   (negb sh1 || PrimFloat.ltb 0 mx1)              (* survivors are strictly positive *)
                 else true) &&
                (match mid with
                 | Some k => match nth_flag hs1 k with Some b => b | None => true end
                 | None => negb sh1 || negb (PrimFloat.ltb 0 mx1)
                 end)
            | _, _, _ => false
            end
      | _, _ => true
      end
  end.

Definition upd_stats (st : list (Z * stats float)) (o : op float) : list (Z * stats float) :=
  match o with OStats u s => aset st u s | _ => st end.

Fixpoint mon_run (st : list (Z * stats float)) (prev : list (uprobe float))
         (ops : list (op float)) (l : list (obs float)) : bool :=
  match ops, l with
  | [], [] => true
  | o :: ops', ob :: l' =>
      let st' := upd_stats st o in
      mon_step st' prev o ob && mon_run st' (o_probe ob) ops' l'
  | _, _ => false
  end.

Definition monitor_case (c : case) : bool :=
  let '(nu, nk, ops, o) := c in
  match o with
  | Ok l => mon_run [] (probe FOps nu nk (init (N := float))) ops l
  | HarnessPanic _ => false
  end.
