#!/usr/bin/env python3
"""Writes coq/_CoqProject from the files present (only when the content changes)."""
import glob, os
COQ = os.path.join(os.path.dirname(os.path.dirname(os.path.abspath(__file__))), "coq")
hdr = ["-Q . SR",
       "-arg -w -arg -notation-overridden,-deprecated-hint-without-locality,-deprecated-instance-without-locality"]
files = []
for d in ("Base", "Gen", "Model", "Proofs", "Props"):
    files += sorted(os.path.relpath(f, COQ) for f in glob.glob(os.path.join(COQ, d, "*.v")))
text = "\n".join(hdr + files) + "\n"
p = os.path.join(COQ, "_CoqProject")
if not os.path.exists(p) or open(p).read() != text:
    open(p, "w").write(text)
