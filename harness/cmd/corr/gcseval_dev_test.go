package main

import (
	"encoding/json"
	"fmt"
	"os"
	"testing"

	"verif/harness/term"
)

// Development helper: GCS_SRC='print(1);' [GCS_CALLS='N0 U D1'] go test -tags verif -run TestGcsSrc ./cmd/corr
// prints the case input (as JSON) and what the real evaluator did.
func TestGcsSrc(t *testing.T) {
	src := os.Getenv("GCS_SRC")
	if src == "" {
		t.Skip("GCS_SRC not set")
	}
	prog := blockToTerm(gcsParse(src))
	r := term.NewRng(7)
	eng := withEnumNames(genEngine(r), prog)
	var calls []term.T
	var kind byte
	for _, c := range os.Getenv("GCS_CALLS") {
		switch {
		case c == 'N' || c == 'D':
			kind = byte(c)
		case c == 'U':
			calls = append(calls, term.C("CUlt"))
		case c >= '0' && c <= '9':
			if kind == 'N' {
				calls = append(calls, term.C("CNext", term.I(int64(c-'0'))))
			} else {
				calls = append(calls, term.C("CDefault", term.I(int64(c-'0'))))
			}
		}
	}
	if os.Getenv("GCS_SIMPLE_ENG") != "" {
		// targets 1 (a character) and 3 (an enemy), both valid, with plain values
		mk := func(char, enemy bool) term.T {
			return term.C("mkT", term.B(true), term.B(char), term.B(enemy), term.B(true),
				term.F(60), term.F(120), term.F(0.5), term.F(0.75), term.F(30), term.F(90),
				term.B(false), term.L(), term.L(term.S("mod1")), term.L(), term.L(term.I(2)),
				term.Some(term.I(2)), term.Some(term.B(true)), term.L())
		}
		eng = withEnumNames(term.C("mkEng",
			term.L(term.Tup(term.I(1), mk(true, false)), term.Tup(term.I(3), mk(false, true))),
			term.I(3), term.L(term.Tup(term.I(1), term.S("alice"))), term.L(term.I(3)), term.L()), prog)
	}
	in := roundTrip(term.Tup(prog, eng, term.L(term.I(1<<62), term.I(12345)), term.L(calls...)))
	if out := os.Getenv("GCS_OUT"); out != "" {
		b, _ := json.MarshalIndent(map[string]any{"in": in, "note": os.Getenv("GCS_NOTE"), "source": src}, "", " ")
		if err := os.WriteFile(out, b, 0o644); err != nil {
			t.Fatal(err)
		}
	}
	out := safeRun(components["gcseval"], in)
	if os.Getenv("GCS_JSON") != "" {
		b, _ := json.Marshal(map[string]any{"in": in})
		fmt.Println(string(b))
	}
	b, _ := json.Marshal(out)
	fmt.Println("OUT:", string(b))
}
