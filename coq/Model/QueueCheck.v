(* Correspondence checker and property monitor for the raw insert queue (Model/Queue.v,
   pkg/engine/queue driven through its exported API). *)
From Coq Require Import List ZArith Bool String.
From SR Require Import Base.CaseLib Model.Queue Model.QueueHeap.
Import ListNotations.
Open Scope Z_scope.

Inductive observed := Ok (l : list qobs) | HarnessPanic (msg : string).
Definition case := (list qop * observed)%type.

Definition qobs_eqb (a b : qobs) : bool :=
  match a, b with
  | QInserted e, QInserted e' => Bool.eqb e e'
  | QPopped i p s f e, QPopped i' p' s' f' e' =>
      (i =? i') && (p =? p') && (s =? s') && list_eqb Z.eqb f f' && Bool.eqb e e'
  | QPanic, QPanic => true
  | _, _ => false
  end.

Definition model_out (c : case) : list qobs := rq_run rq_init (fst c).

(* the same machine over the array heap of Model/QueueHeap.v (what container/heap really does) *)
Record rawh := mkRH { rh_h : hqueue; rh_scripts : list (Z * list rins) }.
Definition rh_insert (s : rawh) (r : rins) : rawh :=
  match r with
  | RIns prio src flags script =>
      mkRH (h_insert (rh_h s) prio src flags (BAbility [])) ((h_counter (rh_h s), script) :: rh_scripts s)
  end.
Definition h_is_empty (h : hqueue) : bool := match h_arr h with [] => true | _ => false end.
Definition rh_step (s : rawh) (o : qop) : rawh * qobs :=
  match o with
  | QInsert r => let s' := rh_insert s r in (s', QInserted (h_is_empty (rh_h s')))
  | QPop ex =>
      match h_pop (rh_h s) with
      | None => (s, QPanic)
      | Some (t, h') =>
          let s1 := mkRH h' (rh_scripts s) in
          let s2 := if ex then fold_left rh_insert (script_of (rh_scripts s) (t_id t)) s1 else s1 in
          (s2, QPopped (t_id t) (t_prio t) (t_src t) (t_flags t) (h_is_empty (rh_h s2)))
      end
  end.
Fixpoint rh_run (s : rawh) (ops : list qop) : list qobs :=
  match ops with
  | [] => []
  | o :: r => let (s', ob) := rh_step s o in ob :: rh_run s' r
  end.

(* both the abstract queue and the array heap must reproduce the implementation *)
Definition check_case (c : case) : bool :=
  match snd c with
  | Ok l => list_eqb qobs_eqb (model_out c) l &&
            list_eqb qobs_eqb (rh_run (mkRH h_empty []) (fst c)) l
  | HarnessPanic _ => false
  end.

(* ------------------------------------------------------------------------------------ *)
(* Monitor: follows the pending set using the ids the implementation reported (never the
   model's choice) and checks at every Pop that the reported task is pending, carries what
   was inserted under that id, and that no pending task has a smaller priority, nor an equal
   priority and a smaller id; ids are handed out in insertion order. *)
Record mtask := mkM { m_id : Z; m_prio : Z; m_src : Z; m_flags : list Z; m_script : list rins }.

Definition m_insert (st : list mtask * Z) (r : rins) : list mtask * Z :=
  match r with RIns p s f sc => (fst st ++ [mkM (snd st) p s f sc], snd st + 1) end.

Definition lex_le (p i p' i' : Z) : bool := (p <? p') || ((p =? p') && (i <=? i')).

Fixpoint m_find (i : Z) (l : list mtask) : option (mtask * list mtask) :=
  match l with
  | [] => None
  | t :: r => if m_id t =? i then Some (t, r)
              else match m_find i r with Some (x, r') => Some (x, t :: r') | None => None end
  end.

Fixpoint mon_run (st : list mtask * Z) (ops : list qop) (l : list qobs) : bool :=
  match ops, l with
  | [], [] => true
  | QInsert r :: ops', QInserted e :: l' =>
      let st' := m_insert st r in negb e && mon_run st' ops' l'
  | QPop ex :: ops', QPanic :: l' =>
      (match fst st with [] => true | _ => false end) && mon_run st ops' l'
  | QPop ex :: ops', QPopped i p s f e :: l' =>
      match m_find i (fst st) with
      | None => false                                   (* not pending: executed twice or never queued *)
      | Some (t, rest) =>
          (m_prio t =? p) && (m_src t =? s) && list_eqb Z.eqb (m_flags t) f &&
          forallb (fun t' => lex_le p i (m_prio t') (m_id t')) rest &&
          let st1 := (rest, snd st) in
          let st2 := if ex then fold_left m_insert (m_script t) st1 else st1 in
          Bool.eqb e (match fst st2 with [] => true | _ => false end) &&
          mon_run st2 ops' l'
      end
  | _, _ => false
  end.

Definition monitor_case (c : case) : bool :=
  match snd c with
  | Ok l => mon_run ([], 0) (fst c) l
  | HarnessPanic _ => false
  end.
