(* Correspondence checker for Model/Events.v: runs the model on the harness's op list and
   compares the whole observable trace with what the real handlers produced. *)
From Coq Require Import List ZArith Bool.
From SR Require Import Base.CaseLib Model.Events.
Import ListNotations.
Open Scope Z_scope.

Definition item_eqb (a b : item) : bool :=
  match a, b with
  | ICall l h v, ICall l' h' v' => (l =? l') && Nat.eqb h h' && (v =? v')
  | ILog g h v c, ILog g' h' v' c' => (g =? g') && Nat.eqb h h' && (v =? v') && Bool.eqb c c'
  | IRet h c v, IRet h' c' v' => Nat.eqb h h' && Bool.eqb c c' && (v =? v')
  | _, _ => false
  end.

Definition case := (list hkind * list op * list item)%type.

Definition model_trace (c : case) : option (list item) :=
  let '(kinds, ops, _) := c in
  match run 400 (init kinds) ops with
  | Some (w, _) => Some (trace w)
  | None => None
  end.

Definition check_case (c : case) : bool :=
  let '(_, _, obs) := c in
  match model_trace c with
  | Some tr => list_eqb item_eqb tr obs
  | None => false
  end.

(* Trace-level monitor of the property itself, evaluated on what the implementation did
   (independent of the model run): per logger the ILog entries must be exactly one per IRet,
   in the same order and with the same (handler, value, cancelled) triple; a logger that is
   registered sees each emission once. *)
Definition rets (tr : list item) : list (nat * Z * bool) :=
  flat_map (fun it => match it with IRet h c v => [(h, v, c)] | _ => [] end) tr.
Definition triple_eqb (a b : nat * Z * bool) : bool :=
  let '(h, v, c) := a in let '(h', v', c') := b in Nat.eqb h h' && (v =? v') && Bool.eqb c c'.

(* the loggers never change in a case with a single leading OInit: then log = rets *)
Definition single_init (ops : list op) : option (list Z) :=
  match ops with
  | OInit lgs :: rest =>
      if forallb (fun o => match o with OInit _ => false | _ => true end) rest then Some lgs else None
  | _ => None
  end.

Definition monitor_case (c : case) : bool :=
  let '(_, ops, obs) := c in
  match single_init ops with
  | Some lgs => forallb (fun lg => list_eqb triple_eqb (log_of lg obs) (rets obs)) lgs
  | None => true
  end.
