package main

// Generator of gcs programs (as source text, parsed by the real parser) for the evaluator
// correspondence.  Every generated program terminates: loops are driven by counters with fresh
// names that nothing else assigns, function names are unique and never rebound, a function body
// only calls functions created before it (recursive templates carry their own guard and are only
// called with small literals), and calls through variables are only made outside function bodies.

import (
	"fmt"
	"math"
	"os"
	"sort"
	"strings"

	"github.com/simimpact/srsim/pkg/logic/gcs/ast"
	"github.com/simimpact/srsim/pkg/logic/gcs/parse"
	"github.com/simimpact/srsim/pkg/model"

	"verif/harness/term"
)

type gscope struct {
	vars map[string]string // name -> kind hint: num str map fun any
	fns  []gfn             // functions declared in this scope
}

type ggen struct {
	r        *term.Rng
	sb       strings.Builder
	scopes   []*gscope
	nextCtr  int
	nextFn   int
	regT     []int64 // targets a skill callback was registered for
	inFn     int     // nesting depth of function bodies
	loop     int     // nesting depth of loops
	sw       int     // nesting depth of switch cases
	budget   int
	faults   int    // remaining injected faults (ill-typed stream)
	cbs      bool   // registered callbacks
	cbParams string // parameter list of the callback being generated
	pureOnly int    // >0: no side effects (map literal fields)
}

type gfn struct {
	name   string
	arity  int
	rec    bool
	param0 string
}

var varPool = []string{"a", "b", "c", "d", "x", "y", "m", "n"}
var strPool = []string{"\"\"", "\"a\"", "\"hello\"", "\"x y\"", "\"q\\\"t\"", "\"mod1\"", "\"mod2\"", "\"sh1\""}
var intPool = []string{"0", "1", "2", "3", "5", "7", "10", "-1", "-2", "-7", "100", "255",
	"2147483647", "2147483648", "4294967297", "9007199254740992", "9007199254740993", "-9007199254740993",
	"4611686018427387904", "9223372036854775806", "9223372036854775807", "-9223372036854775808",
	"-9223372036854775807", "3037000500", "true", "false"}
var floatPool = []string{"0.0", "0.5", "1.5", "2.25", "-0.5", "-1.5", "0.1", "0.2", "0.3", "3.", ".5", "1.0", "( 0.0 / 0.0 )", "100.125",
	"9223372036854775808", "9223372036854775807.0", "-9223372036854775809", "18446744073709551616.0", "0.000001",
	"9007199254740993.0", "1000000000000000000000.0", "-0.0",
	// NaN and the infinities, as gcs programs can produce them (energy / max_energy with a zero maximum)
	"( 0.0 / 0.0 )", "( 1.0 / 0.0 )", "( -1.0 / 0.0 )", "( ( 1.0 / 0.0 ) - ( 1.0 / 0.0 ) )"}
var targetPool = []string{"0", "1", "2", "3", "4", "9"}

func (g *ggen) w(s string) { g.sb.WriteString(s); g.sb.WriteString(" ") }

func (g *ggen) push()        { g.scopes = append(g.scopes, &gscope{vars: map[string]string{}}) }
func (g *ggen) pop()         { g.scopes = g.scopes[:len(g.scopes)-1] }
func (g *ggen) top() *gscope { return g.scopes[len(g.scopes)-1] }

// functions visible here (declared in an enclosing scope, earlier in the text)
func (g *ggen) fns() []gfn {
	var out []gfn
	for _, s := range g.scopes {
		out = append(out, s.fns...)
	}
	return out
}

func (g *ggen) visible(kind string) []string {
	seen := map[string]string{}
	for _, s := range g.scopes {
		for k, v := range s.vars {
			seen[k] = v
		}
	}
	var out []string
	for k, v := range seen {
		if kind == "" || v == kind {
			out = append(out, k)
		}
	}
	sort.Strings(out)
	return out
}

func (g *ggen) fault() bool {
	if g.faults > 0 && g.r.Chance(1, 12) {
		g.faults--
		return true
	}
	return false
}

// ---- expressions -------------------------------------------------------------------------

func (g *ggen) numLit() string {
	switch g.r.Intn(10) {
	case 0, 1, 2, 3:
		return term.Pick(g.r, intPool[:12])
	case 4, 5:
		return term.Pick(g.r, intPool)
	case 6, 7:
		return term.Pick(g.r, floatPool[:14])
	case 8:
		if g.r.Chance(1, 3) {
			return term.Pick(g.r, floatPool[len(floatPool)-4:])
		}
		return term.Pick(g.r, floatPool)
	default:
		return fmt.Sprint(g.r.Range(-20, 60))
	}
}

var evalBinOps = []string{"+", "-", "*", "/", "<", "<=", ">", ">=", "==", "!=", "&&", "||", "+", "-", "*", "<", "=="}

func (g *ggen) num(depth int) string {
	if g.fault() {
		switch g.r.Intn(9) {
		case 7:
			// a function literal with omitted parts, called with the wrong number of arguments
			return "( fn ( a ) { " + term.Pick(g.r, []string{"switch { case a : return 1 ; }", "return 0 ;", "return a ;", "for { break ; } return a ;"}) + " } ) ( 1 , 2 )"
		case 8:
			return "( fn ( a ) { switch { case a : return 1 ; default : return 2 ; } } ) ( " + g.numLit() + " )"
		case 0:
			return "nosuch"
		case 1:
			return "( " + term.Pick(g.r, strPool) + " + " + g.numLit() + " )"
		case 2:
			return "( " + g.num(depth-1) + " / 0 )"
		case 3:
			return "( " + g.num(depth-1) + " / 0.0 )"
		case 4:
			return "len ( " + g.numLit() + " )"
		case 5:
			return "( " + g.numLit() + " ) ( 1 )"
		default:
			return "- " + term.Pick(g.r, strPool)
		}
	}
	if depth <= 0 || g.r.Chance(1, 3) {
		vs := g.visible("num")
		if len(vs) > 0 && g.r.Chance(3, 5) {
			return term.Pick(g.r, vs)
		}
		return g.numLit()
	}
	switch g.r.Intn(16) {
	case 0, 1, 2, 3, 4, 5, 6:
		op := term.Pick(g.r, evalBinOps)
		l, r := g.num(depth-1), g.num(depth-1)
		if op == "/" && g.r.Chance(2, 3) {
			r = term.Pick(g.r, []string{"2", "3", "-1", "2.5", "0.5", "7", "-2", "4.0"})
		}
		return "( " + l + " " + op + " " + r + " )"
	case 7:
		return "- " + g.atom(depth-1)
	case 8:
		return "! " + g.atom(depth-1)
	case 9:
		return g.callNum(depth - 1)
	case 10:
		return g.condBuiltin(depth - 1)
	case 11:
		ms := g.visible("map")
		if len(ms) > 0 {
			return "len ( " + term.Pick(g.r, ms) + " )"
		}
		return "len ( " + g.mapLit(depth-1) + " )"
	case 12:
		if g.pureOnly == 0 {
			if g.fault() {
				// surplus arguments to a parameterless builtin: wrong arity, reported as an error
				return term.Pick(g.r, []string{"rand ( 1 )", "rand ( nosuchname )", "rand ( 1 , 2 )"})
			}
			return "rand ( )"
		}
		return g.numLit()
	case 13:
		ms := g.visible("map")
		if len(ms) > 0 && g.inFn == 0 {
			p := term.Pick(g.r, []string{"v", "w", "a"})
			return "any ( " + term.Pick(g.r, ms) + " , fn ( " + p + " ) { return " + p + " " + term.Pick(g.r, []string{">", "<", "==", ">="}) + " " + g.numLit() + " ; } )"
		}
		return g.numLit()
	case 14:
		if g.pureOnly == 0 {
			// an immediately invoked function literal
			return "( fn ( a ) { return a " + term.Pick(g.r, []string{"+", "*", "-"}) + " " + g.numLit() + " ; } ) ( " + g.num(depth-1) + " )"
		}
		return g.numLit()
	default:
		return "( " + g.num(depth-1) + " )"
	}
}

func (g *ggen) atom(depth int) string {
	if depth <= 0 || g.r.Chance(1, 2) {
		vs := g.visible("num")
		if len(vs) > 0 && g.r.Bool() {
			return term.Pick(g.r, vs)
		}
		l := g.numLit()
		if strings.HasPrefix(l, "-") {
			return "( " + l + " )"
		}
		return l
	}
	return "( " + g.num(depth) + " )"
}

// a call of a user function that returns a number (or whatever it returns)
func (g *ggen) callNum(depth int) string {
	fns := g.fns()
	if g.pureOnly > 0 || len(fns) == 0 {
		return g.numLit()
	}
	f := term.Pick(g.r, fns)
	if f.rec {
		return f.name + " ( " + fmt.Sprint(g.r.Range(0, 4)) + " )"
	}
	n := f.arity
	if g.fault() {
		n = f.arity + 1 - 2*g.r.Intn(2)
		if n < 0 {
			n = 1
		}
	}
	args := make([]string, n)
	for i := range args {
		args[i] = g.num(depth - 1)
		if i > 0 && f.param0 != "" && g.r.Chance(1, 3) {
			// an argument naming the callee's first parameter: arguments are evaluated at the call site
			args[i] = f.param0
		}
	}
	return f.name + " ( " + strings.Join(args, " , ") + " )"
}

var condNum1 = []string{"energy", "max_energy", "hp_ratio", "stance", "max_stance", "ult_ready", "is_shielded",
	"skill_ready", "element", "is_valid", "is_alive", "is_character", "is_enemy", "weakness_broken"}

func (g *ggen) targetOf(class string) string {
	if g.r.Chance(1, 6) {
		return g.target()
	}
	switch class {
	case "char":
		return term.Pick(g.r, []string{"1", "2", "alice", "bob"})
	case "enemy":
		return term.Pick(g.r, []string{"3", "4"})
	}
	return term.Pick(g.r, []string{"1", "2", "3", "4"})
}

func (g *ggen) target() string {
	if g.r.Chance(1, 8) {
		return term.Pick(g.r, []string{"alice", "bob", "1.0", "1.5", "( 1 + 1 )", "( 0.5 + 0.5 )", "len ( [ 1 , 2 ] )", "-1", "4294967297"})
	}
	return term.Pick(g.r, targetPool)
}

func (g *ggen) condBuiltin(depth int) string {
	if g.pureOnly > 0 {
		return g.numLit()
	}
	switch g.r.Intn(9) {
	case 0:
		if g.fault() {
			return term.Pick(g.r, []string{"skill_points ( 1 )", "len ( enemies ( 1 ) )", "len ( characters ( nosuchname ) )"})
		}
		return "skill_points ( )"
	case 1:
		return "has_modifier ( " + g.targetOf("") + " , " + term.Pick(g.r, []string{"\"mod1\"", "\"mod2\"", "\"none\""}) + " )"
	case 2:
		return "modifier_count ( " + g.targetOf("") + " , " + term.Pick(g.r, []string{"STATUS_BUFF", "STATUS_DEBUFF", "UNKNOWN_STATUS", "1", "2", "4294967297", "2.0"}) + " )"
	case 3:
		return "has_weakness ( " + g.targetOf("enemy") + " , " + term.Pick(g.r, []string{"FIRE", "ICE", "PHYSICAL", "QUANTUM", "2", "4294967298", "9"}) + " )"
	case 4:
		return "has_shield ( " + g.targetOf("") + " , " + term.Pick(g.r, []string{"\"sh1\"", "\"sh2\""}) + " )"
	case 5:
		return "len ( " + term.Pick(g.r, []string{"enemies ( )", "characters ( )", "adjacent_to ( " + g.targetOf("") + " )"}) + " )"
	case 6:
		t := g.targetOf("")
		return "( energy ( " + t + " ) / max_energy ( " + t + " ) )"
	default:
		f := term.Pick(g.r, condNum1)
		class := ""
		switch f {
		case "ult_ready", "element":
			class = "char"
		case "stance", "max_stance", "weakness_broken":
			class = "enemy"
		}
		return f + " ( " + g.targetOf(class) + " )"
	}
}

func (g *ggen) mapLit(depth int) string {
	n := g.r.Intn(6)
	if g.r.Chance(1, 10) {
		n = g.r.Range(6, 12)
	}
	parts := []string{}
	for i := 0; i < n; i++ {
		if depth > 0 && g.r.Chance(1, 8) {
			parts = append(parts, g.anyExpr(depth-1))
		} else {
			parts = append(parts, g.num(min(depth, 1)))
		}
	}
	if g.r.Chance(1, 3) {
		k := g.r.Range(1, 3)
		keys := []string{"k", "p", "q", "zz"}
		for i := 0; i < k; i++ {
			// field expressions are evaluated in Go map order: keep them free of effects and errors
			g.pureOnly++
			saveF := g.faults
			g.faults = 0
			parts = append(parts, keys[i]+" = "+g.num(1))
			g.faults = saveF
			g.pureOnly--
		}
		// shuffle a little so fields and elements interleave
		if len(parts) > 1 && g.r.Bool() {
			i, j := g.r.Intn(len(parts)), g.r.Intn(len(parts))
			parts[i], parts[j] = parts[j], parts[i]
		}
	}
	if len(parts) == 0 {
		return "[ ]"
	}
	return "[ " + strings.Join(parts, " , ") + " ]"
}

func (g *ggen) anyExpr(depth int) string {
	switch g.r.Intn(12) {
	case 0:
		return term.Pick(g.r, strPool)
	case 1:
		return "null"
	case 2:
		return g.mapLit(depth)
	case 3:
		vs := g.visible("")
		if len(vs) > 0 {
			return term.Pick(g.r, vs)
		}
		return g.numLit()
	case 4:
		if g.pureOnly > 0 {
			return g.numLit()
		}
		return "type ( " + g.anyExpr(depth-1) + " )"
	case 5:
		ms := g.visible("map")
		if len(ms) > 0 {
			return "first ( " + term.Pick(g.r, ms) + " )"
		}
		return "first ( " + g.mapLit(depth-1) + " )"
	case 6:
		return term.Pick(g.r, []string{"attack", "skill", "ult", "ult_attack", "ult_skill"}) + " ( " +
			term.Pick(g.r, []string{"First", "LowestHP", "LowestHPRatio", "1", "2", "1.5"}) + " )"
	case 7:
		if fns := g.fns(); len(fns) > 0 && g.r.Bool() {
			return term.Pick(g.r, fns).name
		}
		return term.Pick(g.r, []string{"print", "len", "First", "FIRE"})
	default:
		return g.num(depth)
	}
}

// ---- statements --------------------------------------------------------------------------

func (g *ggen) freshVar() (string, bool) {
	// prefer a name not yet declared in the innermost scope
	for i := 0; i < 4; i++ {
		v := term.Pick(g.r, varPool)
		if _, dup := g.top().vars[v]; !dup {
			return v, true
		}
	}
	return term.Pick(g.r, varPool), false
}

func (g *ggen) stmtLet() {
	v, fresh := g.freshVar()
	if len(g.top().vars) > 0 && g.r.Chance(1, 14) {
		// a deliberate redeclaration in the same scope: an error
		var ks []string
		for k := range g.top().vars {
			ks = append(ks, k)
		}
		sort.Strings(ks)
		// the right-hand side is evaluated before the redeclaration is noticed
		rhs := term.Pick(g.r, []string{g.numLit(), g.numLit(), "nosuch", "len ( [ print ( 7 ) ] )", "( 1 / 0 )"})
		g.w("let " + term.Pick(g.r, ks) + " = " + rhs + " ;")
		return
	}
	if !fresh && !g.fault() && !g.r.Chance(1, 8) {
		// assign instead of an illegal redeclaration
		g.stmtAssignTo(v)
		return
	}
	kind := "num"
	var e string
	switch g.r.Intn(10) {
	case 0:
		e, kind = term.Pick(g.r, strPool), "str"
	case 1, 2:
		e, kind = g.mapLit(2), "map"
	case 3:
		e, kind = g.anyExpr(2), "any"
	case 4:
		if g.inFn == 0 {
			e, kind = g.fnLit(), "fun"
		} else {
			e = g.num(2)
		}
	default:
		e = g.num(3)
	}
	g.w("let " + v + " = " + e + " ;")
	g.top().vars[v] = kind
}

func (g *ggen) kindOf(v string) string {
	for i := len(g.scopes) - 1; i >= 0; i-- {
		if k, ok := g.scopes[i].vars[v]; ok {
			return k
		}
	}
	return "any"
}

func (g *ggen) isFnName(v string) bool {
	for _, f := range g.fns() {
		if f.name == v {
			return true
		}
	}
	return false
}

// assignments keep the kind of the variable (the generator's kind tracking is flow-insensitive),
// except now and then at the top level
func (g *ggen) stmtAssignTo(v string) {
	kind := g.kindOf(v)
	var e string
	if len(g.scopes) == 1 && g.loop == 0 && g.sw == 0 && g.r.Chance(1, 8) {
		kind = term.Pick(g.r, []string{"num", "any", "map", "str"})
	}
	switch kind {
	case "num":
		e = g.num(3)
	case "str":
		e = term.Pick(g.r, strPool)
	case "map":
		e = g.mapLit(2)
	case "fun":
		g.stmtPrint()
		return
	default:
		e = g.anyExpr(2)
	}
	g.w(v + " = " + e + " ;")
	for i := len(g.scopes) - 1; i >= 0; i-- {
		if _, ok := g.scopes[i].vars[v]; ok {
			g.scopes[i].vars[v] = kind
			break
		}
	}
}

func (g *ggen) stmtAssign() {
	vs := g.visible("")
	if len(vs) == 0 || g.fault() {
		if g.faults > 0 && g.r.Chance(1, 4) {
			g.faults--
			g.w("nosuch = " + g.num(1) + " ;")
			return
		}
		g.stmtLet()
		return
	}
	v := term.Pick(g.r, vs)
	if g.isFnName(v) {
		g.stmtPrint()
		return
	}
	g.stmtAssignTo(v)
}

func (g *ggen) stmtPrint() {
	n := g.r.Range(0, 3)
	args := []string{}
	for i := 0; i < n; i++ {
		if g.r.Chance(1, 4) {
			args = append(args, g.anyExpr(2))
		} else {
			args = append(args, g.num(2))
		}
	}
	g.w("print ( " + strings.Join(args, " , ") + " ) ;")
}

func (g *ggen) block(n int) {
	g.w("{")
	g.push()
	g.stmts(n)
	g.pop()
	g.w("}")
}

func (g *ggen) cond() string {
	if g.r.Chance(1, 10) {
		return term.Pick(g.r, []string{"null", "\"s\"", "[ 1 ]", "0.0", "0", "1", "-0.0"})
	}
	return g.num(2)
}

func (g *ggen) stmtIf() {
	g.w("if " + g.cond())
	g.block(g.r.Range(0, 3))
	for g.r.Chance(1, 3) {
		g.w("else if " + g.cond())
		g.block(g.r.Range(0, 2))
	}
	if g.r.Bool() {
		g.w("else")
		g.block(g.r.Range(0, 3))
	}
}

func (g *ggen) ctr() string { g.nextCtr++; return fmt.Sprintf("c%d", g.nextCtr) }

func (g *ggen) loopBody(n int) {
	g.loop++
	g.stmts(n)
	g.loop--
}

func (g *ggen) stmtWhile() {
	c := g.ctr()
	g.w("let " + c + " = 0 ;")
	g.w(fmt.Sprintf("while %s < %d {", c, g.r.Range(0, 4)))
	g.push()
	g.w(c + " = " + c + " + 1 ;")
	if g.r.Chance(1, 3) {
		g.w(fmt.Sprintf("if %s == %d { %s ; } print ( %s ) ;", c, g.r.Range(1, 3), term.Pick(g.r, []string{"continue", "continue", "break"}), c))
	}
	g.loopBody(g.r.Range(0, 4))
	g.pop()
	g.w("}")
}

func (g *ggen) stmtFor() {
	c := g.ctr()
	n := g.r.Range(0, 4)
	switch g.r.Intn(5) {
	case 0: // for { }
		g.w("let " + c + " = 0 ;")
		g.w("for {")
		g.push()
		g.w(fmt.Sprintf("%s = %s + 1 ; if %s > %d { break ; }", c, c, c, n))
		g.loopBody(g.r.Range(0, 3))
		g.pop()
		g.w("}")
	case 1: // no init
		g.w("let " + c + " = 0 ;")
		g.w(fmt.Sprintf("for %s < %d ; %s = %s + 1 {", c, n, c, c))
		g.push()
		g.loopBody(g.r.Range(0, 3))
		g.pop()
		g.w("}")
	case 2: // no post
		g.w(fmt.Sprintf("for let %s = 0 ; %s < %d {", c, c, n))
		g.push()
		g.w(c + " = " + c + " + 1 ;")
		g.loopBody(g.r.Range(0, 3))
		g.pop()
		g.w("}")
	case 3: // a faulty init or post next to a second, body-driven counter
		if g.faults > 0 {
			g.faults--
			k := g.ctr()
			g.w("let " + k + " = 0 ;")
			if g.r.Bool() {
				g.w(fmt.Sprintf("for let %s = nosuch ; %s < %d ; %s = 1 {", c, k, n, c))
			} else {
				g.w(fmt.Sprintf("for let %s = 0 ; %s < %d ; %s = nosuch {", c, k, n, c))
			}
			g.push()
			g.w(k + " = " + k + " + 1 ;")
			g.loopBody(g.r.Range(0, 2))
			g.pop()
			g.w("}")
			return
		}
		fallthrough
	default:
		g.w(fmt.Sprintf("for let %s = 0 ; %s < %d ; %s = %s + 1 {", c, c, n, c, c))
		g.push()
		g.loopBody(g.r.Range(0, 4))
		g.pop()
		g.w("}")
	}
}

func (g *ggen) stmtSwitch() {
	if g.r.Bool() {
		g.w("switch " + g.num(1) + " {")
	} else if g.r.Chance(1, 8) {
		g.w("switch null {")
	} else if g.fault() {
		g.w("switch " + term.Pick(g.r, []string{"\"s\"", "[ ]"}) + " {")
	} else {
		g.w("switch {")
	}
	nc := g.r.Range(0, 4)
	defAt := -1
	if g.r.Chance(2, 3) {
		defAt = g.r.Intn(nc + 1)
	}
	for i := 0; i <= nc; i++ {
		if i == defAt {
			g.w("default :")
			g.caseBody()
		}
		if i < nc {
			if g.fault() {
				g.w("case " + term.Pick(g.r, []string{"\"s\"", "null"}) + " :")
			} else {
				g.w("case " + g.num(1) + " :")
			}
			g.caseBody()
		}
	}
	g.w("}")
}

func (g *ggen) caseBody() {
	g.push()
	g.sw++
	g.stmts(g.r.Range(0, 2))
	g.sw--
	g.pop()
	switch g.r.Intn(6) {
	case 0, 1:
		g.w("fallthrough ;")
	case 2:
		g.w("break ;")
	}
}

func (g *ggen) fnBody(params []string, n int, mustReturn bool) {
	g.w("{")
	g.push()
	for _, p := range params {
		g.top().vars[p] = "num"
	}
	g.inFn++
	saveLoop, saveSw := g.loop, g.sw
	g.loop, g.sw = 0, 0
	g.stmts(n)
	if mustReturn || g.r.Chance(3, 4) {
		g.w("return " + g.num(2) + " ;")
	}
	g.loop, g.sw = saveLoop, saveSw
	g.inFn--
	g.pop()
	g.w("}")
}

func (g *ggen) params() []string {
	n := g.r.Intn(3)
	ps := []string{}
	pool := []string{"p", "q", "r", "a", "x"}
	for i := 0; i < n; i++ {
		ps = append(ps, pool[(i+g.r.Intn(2)*3)%len(pool)])
	}
	// no duplicates (the parser rejects them)
	seen := map[string]bool{}
	out := []string{}
	for _, p := range ps {
		if !seen[p] {
			seen[p] = true
			out = append(out, p)
		}
	}
	return out
}

func (g *ggen) fnLit() string {
	// rendered into a separate buffer
	save := g.sb
	g.sb = strings.Builder{}
	ps := g.params()
	g.w("fn ( " + strings.Join(ps, " , ") + " )")
	g.fnBody(ps, g.r.Range(0, 2), false)
	s := strings.TrimSpace(g.sb.String())
	g.sb = save
	return s
}

func (g *ggen) stmtFn() {
	g.nextFn++
	if g.r.Chance(1, 5) {
		name := fmt.Sprintf("r%d", g.nextFn)
		extra := ""
		if g.r.Bool() {
			extra = "print ( n ) ; "
		}
		g.w(fmt.Sprintf("fn %s ( n ) { %sif n <= 0 { return %s ; } return %s ( n - 1 ) %s n ; }", name, extra,
			term.Pick(g.r, []string{"0", "1", "0.5"}), name, term.Pick(g.r, []string{"+", "*"})))
		g.top().fns = append(g.top().fns, gfn{name: name, arity: 1, rec: true})
		g.top().vars[name] = "fun"
		return
	}
	name := fmt.Sprintf("f%d", g.nextFn)
	ps := g.params()
	g.w("fn " + name + " ( " + strings.Join(ps, " , ") + " )")
	g.fnBody(ps, g.r.Range(0, 4), false)
	// registered only after its body is generated: no self reference
	p0 := ""
	if len(ps) > 0 {
		p0 = ps[0]
	}
	g.top().fns = append(g.top().fns, gfn{name: name, arity: len(ps), param0: p0})
}

// a function that returns from inside a loop, through nested blocks, ifs and switches
func (g *ggen) stmtFnSearch() {
	g.nextFn++
	name := fmt.Sprintf("f%d", g.nextFn)
	c := g.ctr()
	n := g.r.Range(1, 4)
	hit := g.r.Range(0, n+1)
	val := term.Pick(g.r, []string{c + " * 10 + p", "p", c, "\"found\"", "[ " + c + " , p ]", "1.5"})
	var ret string
	switch g.r.Intn(5) {
	case 0:
		ret = fmt.Sprintf("if %s == %d { return %s ; }", c, hit, val)
	case 1:
		ret = fmt.Sprintf("switch %s { case %d : return %s ; }", c, hit, val)
	case 2:
		ret = fmt.Sprintf("if %s == %d { { { return %s ; } } }", c, hit, val)
	case 3:
		ret = fmt.Sprintf("switch { case %s < %d : print ( %s ) ; default : return %s ; }", c, hit, c, val)
	default:
		ret = fmt.Sprintf("if %s >= %d { if p { return %s ; } else { return - 1 ; } }", c, hit, val)
	}
	extra := ""
	if g.r.Bool() {
		extra = "print ( " + c + " ) ; "
	}
	tail := term.Pick(g.r, []string{"return - 1 ;", "return 0 ;", ""})
	switch g.r.Intn(4) {
	case 0:
		g.w(fmt.Sprintf("fn %s ( p ) { let %s = 0 ; while %s < %d { %s = %s + 1 ; %s%s } %s }", name, c, c, n, c, c, extra, ret, tail))
	case 1:
		g.w(fmt.Sprintf("fn %s ( p ) { for let %s = 0 ; %s < %d ; %s = %s + 1 { %s%s } %s }", name, c, c, n, c, c, extra, ret, tail))
	case 2:
		g.w(fmt.Sprintf("fn %s ( p ) { let %s = 0 ; for { %s = %s + 1 ; if %s > %d { break ; } %s%s } %s }", name, c, c, c, c, n, extra, ret, tail))
	default:
		c2 := g.ctr()
		g.w(fmt.Sprintf("fn %s ( p ) { let %s = 0 ; while %s < %d { %s = %s + 1 ; for let %s = 0 ; %s < 2 ; %s = %s + 1 { %s%s } } %s }",
			name, c, c, n, c, c, c2, c2, c2, c2, extra, ret, tail))
	}
	g.top().fns = append(g.top().fns, gfn{name: name, arity: 1})
	g.w("print ( " + name + " ( " + term.Pick(g.r, []string{"0", "1", "7", "0.5"}) + " ) ) ;")
}

func (g *ggen) stmtMapOps() {
	if g.r.Chance(1, 8) && g.inFn == 0 {
		// a long array (13-20 elements: beyond the 12-element insertion-sort bound of sort.Sort/sort.Slice)
		// of distinct values sorted by a callback under which many of them tie: the stable order shows
		if v, fresh := g.freshVar(); fresh {
			n := g.r.Range(13, 20)
			parts := []string{}
			for i := 0; i < n; i++ {
				parts = append(parts, fmt.Sprintf("%d", (i*7)%n))
			}
			g.w("let " + v + " = [ " + strings.Join(parts, " , ") + " ] ;")
			g.top().vars[v] = "map"
			cmp := term.Pick(g.r, []string{"( p / 4 ) < ( q / 4 )", "( p / 8 ) > ( q / 8 )", "0", "( p / 3 ) <= ( q / 3 )"})
			g.w("sort ( " + v + " , fn ( p , q ) { return " + cmp + " ; } ) ;")
			g.w("print ( " + v + " , first ( " + v + " ) ) ;")
			return
		}
	}
	ms := g.visible("map")
	if len(ms) == 0 {
		v, fresh := g.freshVar()
		if !fresh {
			return
		}
		g.w("let " + v + " = " + g.mapLit(1) + " ;")
		g.top().vars[v] = "map"
		ms = []string{v}
	}
	m := term.Pick(g.r, ms)
	switch g.r.Intn(6) {
	case 0, 1, 2:
		cmp := term.Pick(g.r, []string{"p < q", "p > q", "p <= q", "q < p", "p - q", "0", "1", "p < 3", "( p / 2 ) < ( q / 2 )"})
		body := "return " + cmp + " ;"
		if g.r.Chance(1, 4) {
			body = "print ( p , q ) ; " + body
		}
		if g.r.Chance(1, 10) {
			body = "p = p + 1 ; " + body
		}
		if g.r.Chance(1, 12) {
			body = "print ( " + m + " ) ; " + body
		}
		ps := "p , q"
		if g.fault() {
			ps = term.Pick(g.r, []string{"p", "p , q , r", ""})
		}
		if g.fault() {
			body = "p < q ;"
		}
		tgt := m
		if g.r.Chance(1, 5) && g.inFn == 0 {
			v, fresh := g.freshVar()
			if fresh {
				g.w("let " + v + " = sort ( " + m + " , fn ( " + ps + " ) { " + body + " } ) ;")
				g.top().vars[v] = "map"
				return
			}
		}
		g.w("sort ( " + tgt + " , fn ( " + ps + " ) { " + body + " } ) ;")
	case 3:
		g.w("print ( first ( " + m + " ) , len ( " + m + " ) ) ;")
	case 4:
		ps := "v"
		if g.fault() {
			ps = term.Pick(g.r, []string{"", "v , w"})
		}
		body := "return v " + term.Pick(g.r, []string{"<", ">", "=="}) + " " + g.numLit() + " ;"
		if g.r.Chance(1, 4) {
			body = "print ( v ) ; " + body
		}
		if g.r.Chance(1, 10) {
			body = "v = 0 ; " + body
		}
		if g.fault() {
			body = "v ;"
		}
		g.w("print ( any ( " + m + " , fn ( " + ps + " ) { " + body + " } ) ) ;")
	default:
		g.w("print ( " + m + " ) ;")
	}
}

func (g *ggen) cbBody(kind string) string {
	save := g.sb
	g.sb = strings.Builder{}
	g.w("{")
	g.push()
	if g.cbParams != "" {
		// a callback that declares parameters reads them: each registration has its own binding (the
		// character id, then the callback itself), whatever other callbacks or program variables are called
		g.w("print ( t , type ( t ) ) ;")
	}
	g.inFn++
	saveLoop, saveSw := g.loop, g.sw
	g.loop, g.sw = 0, 0
	if g.r.Chance(1, 3) {
		g.stmtPrint()
	}
	acts := []string{"attack", "skill"}
	if kind == "ult" {
		acts = []string{"ult", "ult_attack", "ult_skill"}
	}
	if g.fault() {
		acts = []string{"attack", "skill", "ult"}
	}
	ev := func() string { return term.Pick(g.r, []string{"First", "LowestHP", "LowestHPRatio", "1", "2"}) }
	ret := func() string {
		switch g.r.Intn(8) {
		case 0:
			return "return null ;"
		case 1:
			if g.fault() {
				return term.Pick(g.r, []string{"return 1 ;", "", "return 0 ;", "break ;"})
			}
		}
		return "return " + term.Pick(g.r, acts) + " ( " + ev() + " ) ;"
	}
	vs := g.visible("num")
	if len(vs) > 0 && g.r.Bool() {
		v := term.Pick(g.r, vs)
		g.w("if " + v + " { " + v + " = ! " + v + " ; " + ret() + " }")
		if g.r.Bool() {
			g.w(v + " = " + v + " + 1 ;")
		}
	}
	if kind == "ult" && g.r.Chance(2, 3) {
		g.w("if ult_ready ( " + term.Pick(g.r, []string{"1", "2", "alice", "bob"}) + " ) { " + ret() + " }")
	} else if g.r.Bool() {
		g.w("if " + g.condBuiltin(1) + " { " + ret() + " }")
	}
	if g.r.Chance(1, 4) {
		c := g.ctr()
		if g.r.Bool() {
			g.w(fmt.Sprintf("for let %s = 0 ; %s < 3 ; %s = %s + 1 { if %s == %d { %s } }", c, c, c, c, c, g.r.Range(0, 3), ret()))
		} else {
			g.w(fmt.Sprintf("let %s = 0 ; while %s < 3 { %s = %s + 1 ; if %s == %d { %s } }", c, c, c, c, c, g.r.Range(1, 4), ret()))
		}
	}
	g.w(ret())
	g.loop, g.sw = saveLoop, saveSw
	g.inFn--
	g.pop()
	g.w("}")
	s := strings.TrimSpace(g.sb.String())
	g.sb = save
	return s
}

// stmtRegisterLoop: callbacks registered from inside a loop body that read a `let` of that body:
// every iteration has its own block scope, so each callback keeps the value of ITS iteration.
func (g *ggen) stmtRegisterLoop() {
	g.cbs = true
	c, k := g.ctr(), g.ctr()
	n := g.r.Range(2, 3)
	pick := g.r.Range(0, n)
	var body string
	if g.r.Bool() {
		body = fmt.Sprintf("register_ult_cb ( %s , fn ( ) { print ( %s ) ; if %s == %d { return ult ( First ) ; } return null ; } ) ;",
			term.Pick(g.r, []string{"1", "2", k}), k, k, pick)
		g.regT = append(g.regT, 1)
	} else {
		body = fmt.Sprintf("register_skill_cb ( %s , fn ( ) { print ( %s ) ; if %s == %d { return skill ( First ) ; } return attack ( LowestHP ) ; } ) ;",
			k, k, k, pick)
		g.regT = append(g.regT, 0, 1, 2)
	}
	if g.r.Bool() {
		g.w(fmt.Sprintf("for let %s = 0 ; %s < %d ; %s = %s + 1 { let %s = %s ; %s }", c, c, n+1, c, c, k, c, body))
	} else {
		g.w(fmt.Sprintf("let %s = 0 ; while %s < %d { let %s = %s ; %s = %s + 1 ; %s }", c, c, n+1, k, c, c, c, body))
		g.top().vars[c] = "num"
	}
}

func (g *ggen) stmtRegister() {
	g.cbs = true
	if g.loop == 0 && g.sw == 0 && g.r.Chance(1, 5) {
		g.stmtRegisterLoop()
		return
	}
	t := term.Pick(g.r, []string{"0", "1", "2", "alice", "1.0"})
	g.regT = append(g.regT, map[string]int64{"0": 0, "1": 1, "2": 2, "alice": 1, "1.0": 0}[t])
	effectful := g.r.Chance(1, 6)
	if effectful {
		t = "len ( [ print ( " + t + " ) ] )" // target 1, and a line of output whenever the argument is evaluated
		g.regT[len(g.regT)-1] = 1
	}
	switch g.r.Intn(5) {
	case 0:
		a := "attack ( " + term.Pick(g.r, []string{"First", "LowestHP", "2"}) + " )"
		if g.fault() || g.r.Chance(1, 5) {
			a = term.Pick(g.r, []string{"skill ( First )", "ult ( 1 )", "1", "null"})
		}
		g.w("set_default_action ( " + t + " , " + a + " ) ;")
	case 1, 2:
		ps := ""
		if g.r.Chance(2, 5) || effectful {
			ps = term.Pick(g.r, []string{"t", "t , f"})
		}
		if g.fault() {
			ps = "t , f , u"
		}
		g.cbParams = ps
		if ps != "" && !g.fault() && g.r.Chance(1, 3) {
			// a program variable named like the parameter must not be touched by the registration
			g.w("let t = " + g.numLit() + " ;")
			g.top().vars["t"] = "num"
		}
		g.w("register_skill_cb ( " + t + " , fn ( " + ps + " ) " + g.cbBody("skill") + " ) ;")
		g.cbParams = ""
	default:
		ps := ""
		if g.r.Chance(2, 5) || effectful {
			ps = term.Pick(g.r, []string{"t", "t , f"})
		}
		if g.fault() {
			ps = "t , f , u"
		}
		g.cbParams = ps
		g.w("register_ult_cb ( " + t + " , fn ( " + ps + " ) " + g.cbBody("ult") + " ) ;")
		g.cbParams = ""
	}
}

func (g *ggen) stmtCallVar() {
	// calls through variables only outside function bodies
	if g.inFn > 0 {
		g.stmtPrint()
		return
	}
	vs := g.visible("fun")
	if len(vs) == 0 {
		g.stmtPrint()
		return
	}
	v := term.Pick(g.r, vs)
	if strings.HasPrefix(v, "r") && len(v) > 1 && v[1] >= '0' && v[1] <= '9' {
		g.w("print ( " + v + " ( " + fmt.Sprint(g.r.Range(0, 4)) + " ) ) ;")
		return
	}
	n := g.r.Intn(3)
	args := make([]string, n)
	for i := range args {
		args[i] = g.num(1)
	}
	g.w("print ( " + v + " ( " + strings.Join(args, " , ") + " ) ) ;")
}

func (g *ggen) stmt() {
	if g.budget <= 0 {
		return
	}
	g.budget--
	k := g.r.Intn(40)
	switch {
	case k < 6:
		g.stmtLet()
	case k < 10:
		g.stmtAssign()
	case k < 16:
		g.stmtPrint()
	case k < 19:
		g.stmtIf()
	case k < 21:
		g.stmtWhile()
	case k < 24:
		g.stmtFor()
	case k < 27:
		g.stmtSwitch()
	case k < 30:
		if g.r.Chance(1, 3) {
			g.stmtFnSearch()
		} else if g.inFn == 0 || g.r.Chance(1, 4) {
			g.stmtFn()
		} else {
			g.stmtPrint()
		}
	case k < 33:
		g.stmtMapOps()
	case k < 34:
		g.block(g.r.Range(0, 3))
	case k < 35:
		if g.loop > 0 || g.sw > 0 || g.fault() {
			if g.r.Bool() {
				g.w("if " + g.cond() + " { " + term.Pick(g.r, []string{"break", "continue"}) + " ; }")
			} else {
				g.w(term.Pick(g.r, []string{"break", "continue"}) + " ;")
			}
		} else {
			g.stmtPrint()
		}
	case k < 37:
		if g.inFn > 0 || g.fault() {
			if g.r.Bool() {
				g.w("if " + g.cond() + " { return " + g.num(1) + " ; }")
			} else {
				g.w("return " + g.anyExpr(1) + " ;")
			}
		} else {
			g.stmtCallVar()
		}
	case k < 38:
		if g.inFn == 0 {
			g.stmtRegister()
		} else {
			g.stmtPrint()
		}
	case k < 39:
		g.w(g.callNum(1) + " ;")
	default:
		if g.r.Chance(1, 3) {
			g.w("{ }") // an empty block (the parser no longer accepts an empty statement)
		} else {
			g.w(g.num(1) + " ;")
		}
	}
}

func (g *ggen) stmts(n int) {
	for i := 0; i < n; i++ {
		g.stmt()
	}
}

// ---- the engine state --------------------------------------------------------------------

var floatStatePool = []float64{0, 0.5, 1, 30, 60, 100, 120, 0.25, 1.0000000000000002, 0.9999999999999999, 90, 300, math.Inf(1)}

func genEngine(r *term.Rng) term.T {
	var targets []term.T
	chars := []term.T{}
	enemies := []term.T{}
	names := map[int]string{1: "alice", 2: "bob"}
	for id := 0; id <= 4; id++ {
		if r.Chance(1, 10) && id != 1 {
			continue // unknown to the engine
		}
		isChar := id == 1 || id == 2
		isEnemy := id == 3 || id == 4
		if r.Chance(1, 10) {
			isChar, isEnemy = r.Bool(), r.Bool()
		}
		maxE := term.Pick(r, floatStatePool)
		en := term.Pick(r, floatStatePool)
		ratio := term.Pick(r, floatStatePool)
		if r.Bool() {
			en = maxE
			ratio = 1
		}
		var mods, shields, counts, weak, adj []term.T
		for _, m := range []string{"mod1", "mod2"} {
			if r.Chance(1, 3) {
				mods = append(mods, term.S(m))
			}
		}
		if r.Chance(1, 3) {
			shields = append(shields, term.S("sh1"))
		}
		for _, k := range []int64{0, 1, 2} {
			if r.Bool() {
				counts = append(counts, term.Tup(term.I(k), term.I(int64(r.Intn(4)))))
			}
		}
		for _, k := range []int64{1, 2, 3, 6} {
			if r.Chance(1, 3) {
				weak = append(weak, term.I(k))
			}
		}
		for _, k := range []int64{1, 2, 3, 4} {
			if r.Chance(1, 4) {
				adj = append(adj, term.I(k))
			}
		}
		elem := term.None()
		if isChar && !r.Chance(1, 8) || id == 1 || id == 2 {
			elem = term.Some(term.I(int64(r.Range(0, 7))))
		}
		skill := term.None()
		if !r.Chance(1, 6) {
			skill = term.Some(term.B(r.Bool()))
		}
		st := r.Chance(1, 3)
		stance := term.Pick(r, floatStatePool)
		if st {
			stance = 0
		}
		targets = append(targets, term.Tup(term.I(int64(id)), term.C("mkT",
			term.B(!r.Chance(1, 12)), term.B(isChar), term.B(isEnemy), term.B(!r.Chance(1, 4)),
			term.F(en), term.F(maxE), term.F(ratio), term.F(term.Pick(r, floatStatePool)),
			term.F(stance), term.F(term.Pick(r, floatStatePool)),
			term.B(r.Chance(1, 3)), term.L(shields...), term.L(mods...), term.L(counts...), term.L(weak...),
			elem, skill, term.L(adj...))))
		if isChar && (id == 1 || id == 2) {
			chars = append(chars, term.Tup(term.I(int64(id)), term.S(names[id])))
		}
		if isEnemy {
			enemies = append(enemies, term.I(int64(id)))
		}
	}
	if r.Chance(1, 8) {
		enemies = []term.T{}
	}
	return term.C("mkEng", term.L(targets...), term.I(int64(r.Range(0, 5))), term.L(chars...), term.L(enemies...), term.L())
}

// enum names the evaluator installs when an engine is present
var gcsEnumNames = func() map[string]int64 {
	out := map[string]int64{}
	for _, m := range []map[string]int32{model.Property_value, model.StatusType_value, model.Path_value,
		model.DamageType_value, model.TargetType_value} {
		for k, v := range m {
			if old, dup := out[k]; dup && old != int64(v) {
				panic("gcseval: enum name " + k + " is bound twice with different values (map order decides)")
			}
			out[k] = int64(v)
		}
	}
	for _, k := range []string{"alice", "bob", "print", "First", "LowestHP", "LowestHPRatio"} {
		if _, dup := out[k]; dup {
			panic("gcseval: enum name collides with " + k)
		}
	}
	return out
}()

// identifiers occurring anywhere in a tree term
func collectIdents(t term.T, out map[string]bool) {
	switch v := t.(type) {
	case []term.T:
		for _, x := range v {
			collectIdents(x, out)
		}
	case map[string]any:
		if c, ok := v["c"].(string); ok {
			a := term.List(v["a"])
			if (c == "EIdent" || c == "Tok") && len(a) > 0 {
				out[termStr(a[len(a)-1])] = true
			}
			for _, x := range a {
				collectIdents(x, out)
			}
		} else if tt, ok := v["t"]; ok {
			collectIdents(tt, out)
		}
	}
}

func withEnumNames(eng term.T, prog term.T) term.T {
	ids := map[string]bool{}
	collectIdents(prog, ids)
	var ks []string
	for k := range ids {
		if _, ok := gcsEnumNames[k]; ok {
			ks = append(ks, k)
		}
	}
	sort.Strings(ks)
	var names []term.T
	for _, k := range ks {
		names = append(names, term.Tup(term.S(k), term.I(gcsEnumNames[k])))
	}
	_, a := term.Ctor(eng)
	return term.C("mkEng", a[0], a[1], a[2], a[3], term.L(names...))
}

// ---- entry points ------------------------------------------------------------------------

func gcsParse(src string) *ast.BlockStmt {
	res, err := parse.New(src).Parse()
	if err != nil {
		panic(fmt.Sprintf("gcseval: generated program does not parse: %v\n%s", err, src))
	}
	return res.Program
}

func gcsevalGen(r *term.Rng, idx int) term.T {
	// consecutive seeds of term.NewRng give the same stream shifted by one element, so the
	// per-case generators of neighbouring shards coincide; mixing the case index in separates them
	r = term.NewRng(r.U64() ^ (uint64(idx+1) * 0xD1342543DE82EF95))
	g := &ggen{r: r}
	g.push()
	g.budget = r.Range(4, 30)
	if r.Chance(1, 3) {
		g.faults = r.Range(1, 2)
	}
	n := g.budget
	if r.Chance(1, 3) {
		// a realistic action list: some state, then callback registrations
		for i, k := 0, r.Range(0, 2); i < k; i++ {
			g.stmtLet()
		}
		for i, k := 0, r.Range(1, 4); i < k; i++ {
			g.stmtRegister()
		}
	}
	g.stmts(n)
	// show the state at the end
	for _, v := range g.visible("") {
		if r.Chance(2, 3) {
			g.w("print ( " + v + " ) ;")
		}
	}
	src := g.sb.String()
	if os.Getenv("GCS_DUMP_SRC") != "" {
		fmt.Fprintf(os.Stderr, "SRC %d: %s\n", idx, src)
	}
	prog := blockToTerm(gcsParse(src))
	eng := withEnumNames(genEngine(r), prog)
	var draws []term.T
	for i, k := 0, r.Intn(8); i < k; i++ {
		switch r.Intn(6) {
		case 0:
			draws = append(draws, term.I(math.MaxInt64))
		case 1:
			draws = append(draws, term.I(0))
		case 2:
			draws = append(draws, term.I(math.MaxInt64-int64(r.Intn(2000))))
		default:
			draws = append(draws, term.I(int64(r.U64()>>1)))
		}
	}
	var calls []term.T
	if g.cbs || r.Chance(1, 6) {
		for i, k := 0, r.Range(1, 7); i < k; i++ {
			switch r.Intn(7) {
			case 0, 5:
				calls = append(calls, term.C("CUlt"))
			case 1:
				t := int64(r.Intn(3))
				if len(g.regT) > 0 && r.Chance(3, 4) {
					t = term.Pick(r, g.regT)
				}
				calls = append(calls, term.C("CDefault", term.I(t)))
			default:
				t := int64(r.Intn(3))
				if len(g.regT) > 0 && r.Chance(9, 10) {
					t = term.Pick(r, g.regT)
				}
				calls = append(calls, term.C("CNext", term.I(t)))
			}
		}
	}
	return term.Tup(prog, eng, term.L(draws...), term.L(calls...))
}

func gcsevalKinds(in term.T) map[string]int {
	out := map[string]int{}
	var walk func(t term.T)
	walk = func(t term.T) {
		switch v := t.(type) {
		case []term.T:
			for _, x := range v {
				walk(x)
			}
		case map[string]any:
			if c, ok := v["c"].(string); ok {
				if len(c) > 1 && (c[0] == 'E' || c[0] == 'S' || c[0] == 'C') && c != "Some" {
					out[c]++
				}
				walk(v["a"])
			} else if tt, ok := v["t"]; ok {
				walk(tt)
			}
		}
	}
	it := term.TupleItems(in)
	walk(it[0])
	walk(it[3])
	return out
}
