(* The REFERENCE semantics of the gcs scripting language (property C12): a fuel-based big-step
   interpreter over the syntax tree of Model/GcsAst.v.

   * a number is an integer OR a float, never both: [NInt z | NFloat f].  Integer arithmetic is
     int64 arithmetic (wrap-around written out with [wrap64], quotient truncated toward zero,
     division by zero an error); when an integer meets a float the integer is promoted
     ([Z2f], the correctly rounded int64 -> float64 conversion) and the result is a float;
     comparisons and logic yield the integers 0 / 1, two integers are compared exactly;
   * statements evaluate to a signal: normal completion, [SRet v] (a return travelling to the
     enclosing call from any depth of blocks, ifs, loops and switches) or [SCtl t] (break,
     continue, fallthrough travelling to the enclosing loop / switch);
   * lexical block scopes (a frame per block, per loop and per call), [let] declares in the
     innermost frame and may not redeclare there, assignment updates the nearest enclosing
     binding;
   * where the property is silent the semantics is that of the implementation: a function value
     carries no environment (free variables are looked up from the call site), both operands of
     && and || are evaluated, a break inside a switch case ends the switch, sort is
     the in-place insertion sort whose callback parameters alias the array slots, builtins read
     a float given as a target id as 0, registered callbacks keep the environment of the
     register call alive.
   The trace (printed values, engine calls, outcome of Init and of every callback invocation)
   is the observable result.  No proofs in this file. *)
From Coq Require Import List ZArith Bool String Floats.
From SR Require Import Base.CaseLib Model.GcsAst Model.GcsStore.
Import ListNotations.
Open Scope Z_scope.

Inductive snum := NInt (z : Z) | NFloat (f : float).

Notation val := (value snum) (only parsing).
Inductive sig := SNormal | SRet (v : val) | SCtl (t : ctrltyp).

(* ---- numbers ---- *)
Definition tof (x : snum) : float := match x with NInt z => Z2f z | NFloat f => f end.
Definition truthy_num (x : snum) : bool :=
  match x with NInt z => negb (z =? 0) | NFloat f => negb (PrimFloat.eqb f 0) end.
Definition truthy (v : val) : bool :=
  match v with VNum x => truthy_num x | VStr _ => true | _ => false end.
Definition of_bool (b : bool) : snum := NInt (if b then 1 else 0).

(* arithmetic: integer when both are integers, floating otherwise *)
Definition arith (iop : Z -> Z -> Z) (fop : float -> float -> float) (l r : snum) : snum :=
  match l, r with
  | NInt a, NInt b => NInt (wrap64 (iop a b))
  | _, _ => NFloat (fop (tof l) (tof r))
  end.
Definition sadd := arith Z.add PrimFloat.add.
Definition ssub := arith Z.sub PrimFloat.sub.
Definition smul := arith Z.mul PrimFloat.mul.
Definition sdiv (l r : snum) : res snum :=
  match l, r with
  | NInt a, NInt b => if b =? 0 then Fail (FErr EDivZero) else Ok (NInt (wrap64 (Z.quot a b)))
  | _, _ => Ok (NFloat (tof l / tof r))
  end.
(* comparisons: exact on integers, IEEE on floats (anything compared with a NaN is false,
   except != which is true) *)
Definition compare_num (icmp : Z -> Z -> bool) (fcmp : float -> float -> bool) (l r : snum) : snum :=
  match l, r with
  | NInt a, NInt b => of_bool (icmp a b)
  | _, _ => of_bool (fcmp (tof l) (tof r))
  end.
Definition slt := compare_num Z.ltb PrimFloat.ltb.
Definition slte := compare_num Z.leb PrimFloat.leb.
Definition sgt := compare_num (fun a b => Z.ltb b a) (fun a b => PrimFloat.ltb b a).
Definition sgte := compare_num (fun a b => Z.leb b a) (fun a b => PrimFloat.leb b a).
Definition seq := compare_num Z.eqb PrimFloat.eqb.
Definition sneq := compare_num (fun a b => negb (Z.eqb a b)) (fun a b => negb (PrimFloat.eqb a b)).
Definition sand (l r : snum) : snum := of_bool (truthy_num l && truthy_num r).
Definition sor (l r : snum) : snum := of_bool (truthy_num l || truthy_num r).

Definition sbinop (t : toktype) (a b : snum) : M snum val :=
  match t with
  | LogicAnd => ret (VNum (sand a b))
  | LogicOr => ret (VNum (sor a b))
  | ItemPlus => ret (VNum (sadd a b))
  | ItemMinus => ret (VNum (ssub a b))
  | ItemAsterisk => ret (VNum (smul a b))
  | ItemForwardSlash => match sdiv a b with Ok x => ret (VNum x) | Fail f => fail f end
  | OpGreaterThan => ret (VNum (sgt a b))
  | OpGreaterThanOrEqual => ret (VNum (sgte a b))
  | OpEqual => ret (VNum (seq a b))
  | OpNotEqual => ret (VNum (sneq a b))
  | OpLessThan => ret (VNum (slt a b))
  | OpLessThanOrEqual => ret (VNum (slte a b))
  | _ => ret VNull
  end.

(* !x is x == 0; -x is 0 - x (so -(0.0) is +0.0, as in the implementation) *)
Definition sunop (t : toktype) (x : snum) : val :=
  match t with
  | LogicNot => VNum (seq (NInt 0) x)
  | ItemMinus => VNum (ssub (NInt 0) x)
  | _ => VNull
  end.

(* a number used as a target id / enum value: the integer itself; a float reads as 0 *)
Definition to_id (x : snum) : Z := match x with NInt z => z | NFloat _ => 0 end.

Definition lit (i : Z) (f : float) (isfloat : bool) : snum := if isfloat then NFloat f else NInt i.

Definition of_raw (r : rawres) : M snum val :=
  match r with
  | RBool b => ret (VNum (of_bool b))
  | RInt z => ret (VNum (NInt z))
  | RFloat f => ret (VNum (NFloat f))
  | RIds l => a <- alloc_map (map (fun id => VNum (NInt id)) l) [] ;; ret (VMap a)
  end.

Fixpoint bind_vals (lf : nat) (ps : list string) (vs : list val) : M snum unit :=
  match ps, vs with
  | p :: ps', v :: vs' => set_local lf p (BVal v) ;;; bind_vals lf ps' vs'
  | _, _ => ret tt
  end.

Definition hd0 (l : list nat) : nat := match l with x :: _ => x | [] => O end.

Section WithEngine.
Variable eng : engine.

Fixpoint eval_expr (n : nat) (e : expr) (env : list nat) {struct n} : M snum val :=
  match n with
  | O => fail FFuel
  | S n' =>
    match e with
    | ENil => ret VNull
    | ENum i f b => ret (VNum (lit i f b))
    | EStr s => ret (VStr (trim_quotes s))
    | EBool _ => ret VNull
    | ENull => ret VNull
    | EFuncLit ps body => ret (VFun ps body)
    | EIdent x => get_var env x
    | EUnary op r =>
        v <- eval_expr n' r env ;;
        match v with
        | VNum x => ret (sunop (t_typ op) x)
        | _ => err EType
        end
    | EBinary l r op =>
        vl <- eval_expr n' l env ;;
        vr <- eval_expr n' r env ;;
        match vl, vr with
        | VNum a, VNum b => sbinop (t_typ op) a b
        | _, _ => err EType
        end
    | ECall f args =>
        fv <- eval_expr n' f env ;;
        match fv with
        | VBif b => call_bif n' b args env
        | VFun ps body =>
            if Nat.eqb (List.length args) (List.length ps) then
              local <- alloc_frame env ;;
              bind_params n' ps args env (hd0 local) ;;;
              r <- eval_block n' body local ;;
              match r with
              | SRet v => ret v
              | SNormal => ret VNull
              | SCtl _ => err EBadReturn
              end
            else err EArity
        | _ => err ENotCallable
        end
    | EMap arr flds =>
        vs <- eval_exprs n' arr env ;;
        fs <- eval_fields n' flds env ;;
        a <- alloc_map vs fs ;;
        ret (VMap a)
    end
  end

with eval_exprs (n : nat) (es : list expr) (env : list nat) {struct n} : M snum (list val) :=
  match n with
  | O => fail FFuel
  | S n' =>
    match es with
    | [] => ret []
    | e :: r => v <- eval_expr n' e env ;; vs <- eval_exprs n' r env ;; ret (v :: vs)
    end
  end

(* the fields of a map literal, in the canonical (sorted) order of the tree *)
with eval_fields (n : nat) (fs : list (string * expr)) (env : list nat) {struct n}
  : M snum (list (string * val)) :=
  match n with
  | O => fail FFuel
  | S n' =>
    match fs with
    | [] => ret []
    | (k, e) :: r => v <- eval_expr n' e env ;; vs <- eval_fields n' r env ;; ret ((k, v) :: vs)
    end
  end

(* the arguments of a call are evaluated at the call site, left to right, each into a fresh
   cell of the callee's frame *)
with bind_params (n : nat) (ps : list string) (args : list expr) (env : list nat) (lf : nat) {struct n}
  : M snum unit :=
  match n with
  | O => fail FFuel
  | S n' =>
    match ps, args with
    | p :: ps', a :: args' =>
        v <- eval_expr n' a env ;; set_local lf p (BVal v) ;;; bind_params n' ps' args' env lf
    | _, _ => ret tt
    end
  end

(* the arguments of a builtin: evaluated and type-checked one at a time *)
with validate_loop (n : nat) (args : list expr) (tys : list ty) (env : list nat) {struct n}
  : M snum (list val) :=
  match n with
  | O => fail FFuel
  | S n' =>
    match args, tys with
    | a :: args', t :: tys' =>
        v <- eval_expr n' a env ;;
        if ty_eqb (ty_of v) t then vs <- validate_loop n' args' tys' env ;; ret (v :: vs)
        else err EType
    | _, _ => ret []
    end
  end

with call_bif (n : nat) (b : bif) (args : list expr) (env : list nat) {struct n} : M snum val :=
  match n with
  | O => fail FFuel
  | S n' =>
    let validate (tys : list ty) : M snum (list val) :=
        if Nat.eqb (List.length args) (List.length tys) then validate_loop n' args tys env else err EArity in
    match b with
    | BPrint => vs <- eval_exprs n' args env ;; emit_print vs ;;; ret VNull
    | BType =>
        match args with
        | [a] => v <- eval_expr n' a env ;; ret (VStr (ty_name (ty_of v)))
        | _ => err EArity
        end
    | BRand => _ <- validate [] ;; f <- draw ;; ret (VNum (NFloat f))
    | BRandnorm => _ <- validate [] ;; fail FUnsupported
    | BSort =>
        vs <- validate [TyMap; TyFun] ;;
        match vs with
        | [VMap m; VFun ps body] =>
            match ps with
            | [p; q] =>
                local <- alloc_frame env ;;
                arr <- get_arr m ;;
                if Nat.ltb 20 (List.length arr) then fail FUnsupported
                else sort_outer n' m 1%nat (List.length arr) p q body local ;;; ret (VMap m)
            | _ => err EArity
            end
        | _ => fail (FPanic PTypeAssert)
        end
    | BFirst =>
        vs <- validate [TyMap] ;;
        match vs with
        | [VMap m] => arr <- get_arr m ;; ret (match arr with x :: _ => x | [] => VNull end)
        | _ => fail (FPanic PTypeAssert)
        end
    | BAny =>
        vs <- validate [TyMap; TyFun] ;;
        match vs with
        | [VMap m; VFun ps body] =>
            match ps with
            | [p] => local <- alloc_frame env ;; any_loop n' m O p body local
            | _ => err EArity
            end
        | _ => fail (FPanic PTypeAssert)
        end
    | BLen =>
        vs <- validate [TyMap] ;;
        match vs with
        | [VMap m] => arr <- get_arr m ;; ret (VNum (NInt (Z.of_nat (List.length arr))))
        | _ => fail (FPanic PTypeAssert)
        end
    | BRegSkill | BRegUlt =>
        vs <- validate [TyNum; TyFun] ;;
        match vs with
        | [VNum t; VFun ps body] =>
            if Nat.ltb 2 (List.length ps) then err EArity
            else
              local <- alloc_frame env ;;
              bind_vals (hd0 local) ps vs ;;;
              (match b with
               | BRegSkill => reg_skill (mkCb (to_id t) local body)
               | _ => reg_ult (mkCb (to_id t) local body)
               end) ;;;
              ret VNull
        | _ => fail (FPanic PTypeAssert)
        end
    | BSetDefault =>
        vs <- validate [TyNum; TyAct] ;;
        match vs with
        | [VNum t; VAct ty ev] =>
            if acttype_eqb ty AAttack then set_default (to_id t) (ty, ev) ;;; ret VNull
            else err EAction
        | _ => fail (FPanic PTypeAssert)
        end
    | BAction ty =>
        vs <- validate [TyNum] ;;
        match vs with
        | [VNum x] => ret (VAct ty (to_id x))
        | _ => fail (FPanic PTypeAssert)
        end
    | BEng q =>
        vs <- validate (sig_tys (engq_sig q)) ;;
        let id := match vs with VNum x :: _ => to_id x | _ => 0 end in
        let n2 := match vs with [_; VNum y] => to_id y | _ => 0 end in
        let s2 := match vs with [_; VStr s] => s | _ => EmptyString end in
        let (calls, r) := eng_query q eng id n2 s2 in
        emit_calls calls ;;;
        match r with Ok raw => of_raw raw | Fail f => fail f end
    end
  end

(* sort: the stable insertion sort  for i := 1..n-1 { for j := i; j > 0 && less(j, j-1); j-- { swap } } *)
with sort_outer (n : nat) (m : nat) (i len : nat) (p q : string) (body : block) (local : list nat)
  {struct n} : M snum unit :=
  match n with
  | O => fail FFuel
  | S n' =>
    if Nat.ltb i len then
      sort_inner n' m i p q body local ;;; sort_outer n' m (S i) len p q body local
    else ret tt
  end

with sort_inner (n : nat) (m : nat) (j : nat) (p q : string) (body : block) (local : list nat)
  {struct n} : M snum unit :=
  match n with
  | O => fail FFuel
  | S n' =>
    match j with
    | O => ret tt
    | S j' =>
        (* less(j, j-1): the parameters are bound to the array slots themselves *)
        set_local (hd0 local) p (BSlot m j) ;;;
        set_local (hd0 local) q (BSlot m j') ;;;
        r <- eval_block n' body local ;;
        match r with
        | SRet v => if truthy v then swap_arr m j j' ;;; sort_inner n' m j' p q body local else ret tt
        | _ => err ENoReturn
        end
    end
  end

(* any: the elements in order (read when reached), the parameter is a copy *)
with any_loop (n : nat) (m : nat) (i : nat) (p : string) (body : block) (local : list nat)
  {struct n} : M snum val :=
  match n with
  | O => fail FFuel
  | S n' =>
    arr <- get_arr m ;;
    match nth_error arr i with
    | None => ret (VNum (of_bool false))
    | Some v =>
        set_local (hd0 local) p (BVal v) ;;;
        r <- eval_block n' body local ;;
        match r with
        | SRet x => if truthy x then ret (VNum (of_bool true)) else any_loop n' m (S i) p body local
        | _ => err ENoReturn
        end
    end
  end

with eval_stmt (n : nat) (s : stmt) (env : list nat) {struct n} : M snum sig :=
  match n with
  | O => fail FFuel
  | S n' =>
    match s with
    | SNil => ret SNormal
    | SBlock b => eval_block n' b env
    | SAssign id e => v <- eval_expr n' e env ;; assign_var env (t_val id) v ;;; ret SNormal
    | SLet id e => v <- eval_expr n' e env ;; declare env (t_val id) v ;;; ret SNormal
    | SReturn e => v <- eval_expr n' e env ;; ret (SRet v)
    | SCtrl t => ret (SCtl t)
    | SIf c b els =>
        v <- eval_expr n' c env ;;
        if truthy v then eval_block n' b env
        else match els with SNil => ret SNormal | _ => eval_stmt n' els env end
    | SSwitch c cases def =>
        cv <- eval_expr n' c env ;;
        match cv with
        | VNull | VNum _ =>
            r <- eval_cases n' (match cv with VNum x => Some x | _ => None end) cases false false env ;;
            match r with
            | inl res => ret res
            | inr (ft, found) =>
                if negb found || ft then
                  match def with BNil => ret SNormal | _ => eval_block n' def env end
                else ret SNormal
            end
        | _ => err EType
        end
    | SCase _ => ret SNormal
    | SFn tok ps body => declare env (t_val tok) (VFun ps body) ;;; ret SNormal
    | SWhile c b => eval_while n' c b env
    | SFor init cond post body =>
        scope <- alloc_frame env ;;
        (match init with SNil => ret tt | _ => _ <- eval_stmt n' init scope ;; ret tt end) ;;;
        eval_for n' cond post body scope
    end
  end

(* the statements of a block, in the block's own scope *)
with eval_nodes (n : nat) (ns : list node) (scope : list nat) {struct n} : M snum sig :=
  match n with
  | O => fail FFuel
  | S n' =>
    match ns with
    | [] => ret SNormal
    | NExpr e :: r => _ <- eval_expr n' e scope ;; eval_nodes n' r scope
    | NStmt s :: r =>
        v <- eval_stmt n' s scope ;;
        match v with
        | SNormal => eval_nodes n' r scope
        | _ => ret v          (* a return or a break/continue/fallthrough leaves the block *)
        end
    end
  end

with eval_block (n : nat) (b : block) (env : list nat) {struct n} : M snum sig :=
  match n with
  | O => fail FFuel
  | S n' =>
    match b with
    | BNil => fail (FPanic PNilBlock)
    | Block l => scope <- alloc_frame env ;; eval_nodes n' l scope
    end
  end

with eval_while (n : nat) (c : expr) (b : block) (env : list nat) {struct n} : M snum sig :=
  match n with
  | O => fail FFuel
  | S n' =>
    v <- eval_expr n' c env ;;
    if truthy v then
      r <- eval_block n' b env ;;
      match r with
      | SRet _ => ret r                       (* return leaves the loop and the function *)
      | SCtl CtrlBreak => ret SNormal
      | _ => eval_while n' c b env            (* normal completion and continue: next iteration *)
      end
    else ret SNormal
  end

with eval_for (n : nat) (cond : expr) (post : stmt) (body : block) (scope : list nat) {struct n}
  : M snum sig :=
  match n with
  | O => fail FFuel
  | S n' =>
    go <- (match cond with ENil => ret true | _ => v <- eval_expr n' cond scope ;; ret (truthy v) end) ;;
    if go : bool then
      r <- eval_block n' body scope ;;
      match r with
      | SRet _ => ret r
      | SCtl CtrlBreak => ret SNormal
      | _ =>
          (match post with SNil => ret tt | _ => _ <- eval_stmt n' post scope ;; ret tt end) ;;;
          eval_for n' cond post body scope
      end
    else ret SNormal
  end

(* the loop over the cases of a switch: [inl r] the switch is done with r, [inr (ft, found)] fell
   out of the loop *)
with eval_cases (n : nat) (v : option snum) (cases : list casestmt) (ft found : bool) (env : list nat)
  {struct n} : M snum (sig + bool * bool) :=
  match n with
  | O => fail FFuel
  | S n' =>
    match cases with
    | [] => ret (inr (ft, found))
    | Case ce body :: rest =>
        cc <- eval_expr n' ce env ;;
        match cc with
        | VNum c =>
            let hit := match v with None => truthy_num c | Some x => truthy_num (seq c x) end in
            if hit || ft then
              r <- eval_block n' body env ;;
              match r with
              | SCtl CtrlFallthrough => eval_cases n' v rest true true env
              | SCtl CtrlBreak => ret (inl SNormal)
              | SCtl CtrlContinue => ret (inl r)      (* continue belongs to the enclosing loop *)
              | SCtl _ => eval_cases n' v rest ft true env
              | _ => ret (inl r)          (* normal completion or a return: the switch is done *)
              end
            else eval_cases n' v rest ft found env
        | _ => err EType
        end
    end
  end.

(* ---- callbacks: the decision a registered function returns ---- *)
Definition eval_target (n : nat) (node : cbnode) (check : list acttype) : M snum (acttype * Z) :=
  r <- eval_block n (cb_body node) (cb_env node) ;;
  match r with
  | SRet (VAct ty ev) =>
      if acttype_eqb ty AInvalid then ret (AInvalid, 0)
      else if existsb (acttype_eqb ty) check then ret (ty, ev) else err EAction
  | SRet VNull => ret (AInvalid, 0)
  | SRet _ => err EAction
  | _ => err ENoReturn
  end.

Definition default_action (t : Z) : M snum (list (acttype * Z * Z)) :=
  fun s => match zassoc t (st_defaults s) with
           | Some (ty, ev) => (Ok [(ty, t, ev)], s)
           | None => (Fail (FErr EAction), s)
           end.

Fixpoint ult_loop (n : nat) (nodes : list cbnode) (acc : list (acttype * Z * Z))
  : M snum (list (acttype * Z * Z)) :=
  match nodes with
  | [] => ret acc
  | node :: r =>
      a <- eval_target n node [AUlt; AUltAttack; AUltSkill] ;;
      if acttype_eqb (fst a) AInvalid then ult_loop n r acc
      else ult_loop n r (acc ++ [(fst a, cb_target node, snd a)])
  end.

Definition do_call (n : nat) (c : cbcall) : M snum (list (acttype * Z * Z)) :=
  match c with
  | CNext t =>
      fun s => match zassoc t (st_skill s) with
               | None => (Fail (FErr EAction), s)
               | Some node =>
                   (a <- eval_target n node [AAttack; ASkill] ;;
                    if acttype_eqb (fst a) AInvalid then default_action t
                    else ret [(fst a, t, snd a)]) s
               end
  | CDefault t => default_action t
  | CUlt => fun s => ult_loop n (st_ult s) [] s
  end.

Definition stops (f : failure) : bool :=
  match f with FErr _ => false | _ => true end.

Fixpoint run_calls (n : nat) (cs : list cbcall) (s : state snum) : state snum :=
  match cs with
  | [] => s
  | c :: r =>
      let (res, s') := do_call n c s in
      let s'' := upd_trace s' (GCall res :: st_trace s') in
      match res with
      | Fail f => if stops f then s'' else run_calls n r s''
      | Ok _ => run_calls n r s''
      end
  end.

End WithEngine.

(* the program, then the callback invocations: the chronological trace *)
Definition run_case (fuel : nat) (prog : block) (eng : engine) (draws : list Z) (calls : list cbcall)
  : list (gitem snum) :=
  let s0 := init_state NInt eng draws in
  let (r, s1) := eval_block eng fuel prog [O] s0 in
  let s2 := upd_trace s1 (GInit (match r with Ok _ => None | Fail f => Some f end) :: st_trace s1) in
  let s3 := match r with Ok _ => run_calls eng fuel calls s2 | Fail _ => s2 end in
  rev (st_trace s3).
