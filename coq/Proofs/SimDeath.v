(* C08 — death is final and the dead do not act: facts about the whole-simulation model. *)
From Coq Require Import List ZArith Bool Floats Lia.
From SR Require Import Base.CaseLib Base.NumOps Model.Turn Model.Sim Model.SimProtocol Proofs.SimProofs.
Import ListNotations.
Open Scope Z_scope.

(* ------------------------------------------------------------------ *)
(* The living lists change only in the death check, and only shrink     *)
(* ------------------------------------------------------------------ *)
Definition same_lists (s s' : sim) : Prop := chars s' = chars s /\ enemies s' = enemies s.

Lemma same_lists_refl s : same_lists s s. Proof. split; reflexivity. Qed.
Lemma same_lists_trans a b c : same_lists a b -> same_lists b c -> same_lists a c.
Proof. intros [A1 A2] [B1 B2]. split; congruence. Qed.

Ltac sl := (split; reflexivity).

Lemma sl_set_energy s id a : same_lists s (set_energy s id a).
Proof. unfold set_energy. destruct (get_unit _ _); [|sl]. destruct (PrimFloat.eqb _ _); sl. Qed.
Lemma sl_mod_energy s id a : same_lists s (mod_energy_fixed s id a).
Proof. unfold mod_energy_fixed. destruct (get_unit _ _); [apply sl_set_energy|sl]. Qed.
Lemma sl_mod_sp s a : same_lists s (mod_sp s a).
Proof. unfold mod_sp. destruct (_ =? _); sl. Qed.
Lemma sl_record_hit s d t : same_lists s (record_hit s d t).
Proof. unfold record_hit. destruct (get_unit _ _); sl. Qed.
Lemma sl_pop_slot s sl0 : same_lists s (snd (pop_slot s sl0)).
Proof. unfold pop_slot. destruct (nth (slot_ix sl0) (lslots s) []); sl. Qed.
Lemma sl_end_attack s : same_lists s (end_attack s).
Proof. unfold end_attack. destruct (in_attack s) as [[? ?]|]; sl. Qed.

Section Lists.
  Variable cfg : config.

  Definition sl_runner (R : runner) : Prop := forall s self p sc s', R s self p sc = Some s' -> same_lists s s'.


  Lemma sl_hp_change R (GR : sl_runner R) s u n d src s' : hp_change cfg R s u n d src = Some s' -> same_lists s s'.
  Proof.
    unfold hp_change. destruct (PrimFloat.eqb _ _); [intros H; inversion H; subst; apply same_lists_refl|].
    set (s0 := emit (upd_unit s _) _).
    destruct (pop_slot s0 LHP) as [sc s1] eqn:EP.
    assert (E1 : same_lists s s1).
    { eapply same_lists_trans; [|replace s1 with (snd (pop_slot s0 LHP)) by (rewrite EP; reflexivity); apply sl_pop_slot]. sl. }
    match goal with |- match ?r with _ => _ end = _ -> _ => destruct r as [s2|] eqn:ER; [|discriminate] end.
    assert (E2 : same_lists s s2).
    { destruct sc; [eapply same_lists_trans; [exact E1|eapply GR; exact ER]|inversion ER; subst; exact E1]. }
    destruct (get_unit (units (emit s2 _)) (uid u)) as [u'|]; [|intros H; inversion H; subst; eapply same_lists_trans; [exact E2|sl]].
    destruct (ust u'); try (intros H; inversion H; subst; (eapply same_lists_trans; [exact E2|sl]));
      (destruct (PrimFloat.ltb 0 n); intros H; inversion H; subst; (eapply same_lists_trans; [exact E2|sl])).
  Qed.
  Lemma sl_set_hp R (GR : sl_runner R) s id a s' : set_hp cfg R s id a = Some s' -> same_lists s s'.
  Proof. unfold set_hp. destruct (get_unit _ _); [apply sl_hp_change; exact GR|intros H; inversion H; subst; apply same_lists_refl]. Qed.
  Lemma sl_damage_hp R (GR : sl_runner R) s id src d s' : damage_hp cfg R s id src d = Some s' -> same_lists s s'.
  Proof. unfold damage_hp. destruct (get_unit _ _); [apply sl_hp_change; exact GR|intros H; inversion H; subst; apply same_lists_refl]. Qed.

  Lemma sl_heal_hp R (GR : sl_runner R) s id src a s' : heal_hp cfg R s id src a = Some s' -> same_lists s s'.
  Proof. unfold heal_hp. destruct (get_unit _ _); [apply sl_hp_change; exact GR|intros H; inversion H; subst; apply same_lists_refl]. Qed.
  Lemma sl_do_heals R (GR : sl_runner R) : forall ts s self a s', do_heals cfg R s self a ts = Some s' -> same_lists s s'.
  Proof.
    induction ts as [|t ts IH]; intros s self a s' H; cbn [do_heals] in H; [inversion H; subst; apply same_lists_refl|].
    destruct (heal_hp cfg R s t self a) as [s1|] eqn:E1; [|discriminate].
    eapply same_lists_trans; [eapply sl_heal_hp; eassumption|eapply IH; exact H].
  Qed.

  Lemma sl_do_hits R (GR : sl_runner R) : forall ts s self dmg s',
    do_hits cfg R s self dmg ts = Some s' -> same_lists s s'.
  Proof.
    induction ts as [|d ts IH]; intros s self dmg s' H; cbn [do_hits] in H.
    - inversion H; subst. apply same_lists_refl.
    - set (s2 := emit s [VHitStart self d]) in *.
      destruct (damage_hp cfg R s2 d self dmg) as [s3|] eqn:ED; [|discriminate].
      set (s4 := record_hit s3 d dmg) in *.
      destruct (pop_slot s4 LHitEnd) as [sc s5] eqn:EP.
      match type of H with match ?r with _ => _ end = _ => destruct r as [s6|] eqn:ER; [|discriminate] end.
      apply IH in H.
      assert (E5 : same_lists s s5).
      { assert (A : same_lists s s2) by sl.
        assert (B : same_lists s2 s3) by (eapply sl_damage_hp; eassumption).
        assert (C : same_lists s3 s4) by apply sl_record_hit.
        assert (D : same_lists s4 s5).
        { replace s5 with (snd (pop_slot s4 LHitEnd)) by (rewrite EP; reflexivity). apply sl_pop_slot. }
        eapply same_lists_trans; [exact A|]. eapply same_lists_trans; [exact B|].
        eapply same_lists_trans; [exact C|exact D]. }
      assert (E6 : same_lists s s6).
      { destruct sc; [eapply same_lists_trans; [exact E5|eapply GR; exact ER]|inversion ER; subst; exact E5]. }
      eapply same_lists_trans; [exact E6|]. eapply same_lists_trans; [|exact H]. sl.
  Qed.

  Lemma sl_exec_op R (GR : sl_runner R) lm s self p o s' :
    exec_op cfg R lm s self p o = Some s' -> same_lists s s'.
  Proof.
    intros H. destruct o; cbn [exec_op] in H.
    - match type of H with (if ?c then _ else _) = _ => destruct c end; [inversion H; subst; apply same_lists_refl|].
      destruct (in_attack s); [eapply sl_do_hits; eassumption|].
      destruct qualified; [|eapply sl_do_hits; eassumption].
      destruct lm; [discriminate|].
      destruct (pop_slot (set_attack s (Some (key, self))) LAttackStart) as [sc s1] eqn:EP.
      match type of H with match ?r with _ => _ end = _ => destruct r as [s2|] eqn:ER; [|discriminate] end.
      assert (E1 : same_lists s s1).
      { eapply same_lists_trans; [|replace s1 with (snd (pop_slot (set_attack s (Some (key, self))) LAttackStart)) by (rewrite EP; reflexivity); apply sl_pop_slot]. sl. }
      assert (E2 : same_lists s s2).
      { destruct sc; [eapply same_lists_trans; [exact E1|eapply GR; exact ER]|inversion ER; subst; exact E1]. }
      eapply same_lists_trans; [exact E2|]. eapply same_lists_trans; [|eapply sl_do_hits; eassumption]. sl.
    - destruct lm; [discriminate|]. inversion H; subst. apply sl_end_attack.
    - destruct (get_unit _ _); [eapply sl_set_hp; eassumption|inversion H; subst; sl].
    - destruct (_ <=? _); inversion H; subst; sl.
    - destruct (_ <=? _); inversion H; subst; sl.
    - inversion H; subst. apply sl_mod_energy.
    - inversion H; subst. apply sl_mod_sp.
    - destruct (get_unit _ _); [|inversion H; subst; sl]. destruct (existsb _ _); inversion H; subst; sl.
    - destruct (get_unit _ _); inversion H; subst; sl.
    - destruct (Turn.step _ _ _). inversion H; subst. sl.
    - destruct (get_unit _ _); inversion H; subst; sl.
    - inversion H; subst. sl.
    - match type of H with (if ?c then _ else _) = _ => destruct c end; [inversion H; subst; apply same_lists_refl|].
      eapply sl_do_heals; eassumption.
  Qed.

  Lemma sl_exec_list R (GR : sl_runner R) lm : forall ops s self p s',
    exec_list cfg R lm s self p ops = Some s' -> same_lists s s'.
  Proof.
    induction ops as [|o ops IH]; intros s self p s' H; cbn [exec_list] in H.
    - inversion H; subst. apply same_lists_refl.
    - destruct (exec_op cfg R lm s self p o) as [s1|] eqn:E; [|discriminate].
      eapply same_lists_trans; [eapply sl_exec_op; eassumption|eapply IH; exact H].
  Qed.

  Lemma sl_exec_ops : forall fuel lm, sl_runner (exec_ops cfg fuel lm).
  Proof.
    induction fuel as [|f IH]; intros lm s self p sc s' H; [discriminate|].
    cbn [exec_ops] in H. eapply sl_exec_list; [apply IH|exact H].
  Qed.

  Lemma sl_run_slot fuel s x self p s' : run_slot cfg fuel s x self p = Some s' -> same_lists s s'.
  Proof.
    unfold run_slot. destruct (pop_slot s x) as [sc s1] eqn:EP. intros H.
    assert (E1 : same_lists s s1) by (replace s1 with (snd (pop_slot s x)) by (rewrite EP; reflexivity); apply sl_pop_slot).
    destruct sc; [eapply same_lists_trans; [exact E1|eapply sl_exec_ops; exact H]|inversion H; subst; exact E1].
  Qed.

  (* the death check: the lists lose exactly the units to kill; everything it runs afterwards
     (the kill-energy hook, the content's death listeners) leaves the lists alone *)
  Lemma sl_announce fuel : forall ids s s', announce cfg fuel s ids = Some s' -> same_lists s s'.
  Proof.
    induction ids as [|id ids IH]; intros s s' H; cbn [announce] in H.
    - inversion H; subst. apply same_lists_refl.
    - destruct (Turn.step F (turn s) _) as [t' outs].
      match type of H with match run_slot _ _ ?x _ _ _ with _ => _ end = _ => destruct (run_slot cfg fuel x LDeath id) as [s3|] eqn:ER; [|discriminate] end.
      apply IH in H. apply sl_run_slot in ER.
      eapply same_lists_trans; [|eapply same_lists_trans; [exact ER|eapply same_lists_trans; [|exact H]; sl]].
      eapply same_lists_trans; [|apply sl_mod_energy]. sl.
  Qed.

  Theorem death_check_lists fuel s k s' : death_check cfg fuel s k = Some s' ->
    chars s' = filter (fun i => negb (should_kill s k i)) (chars s) /\
    enemies s' = filter (fun i => negb (should_kill s k i)) (enemies s).
  Proof.
    unfold death_check. intros H. apply sl_announce in H. destruct H as [H1 H2]. cbn in H1, H2. auto.
  Qed.

  (* a unit the check kills is gone from the living lists; a unit it spares stays *)
  Corollary death_check_removes fuel s k s' id : death_check cfg fuel s k = Some s' ->
    should_kill s k id = true -> ~ In id (chars s') /\ ~ In id (enemies s').
  Proof.
    intros H K. destruct (death_check_lists _ _ _ _ H) as [-> ->].
    split; intros Hin; apply filter_In in Hin; destruct Hin as [_ Hn]; rewrite K in Hn; discriminate.
  Qed.

  Corollary death_check_only_shrinks fuel s k s' : death_check cfg fuel s k = Some s' ->
    incl (chars s') (chars s) /\ incl (enemies s') (enemies s).
  Proof.
    intros H. destruct (death_check_lists _ _ _ _ H) as [-> ->].
    split; intros x Hx; apply filter_In in Hx; tauto.
  Qed.

  (* what decides a kill: dead always, limbo only at the turn-end check, alive never *)
  Theorem should_kill_spec s k id u : get_unit (units s) id = Some u ->
    should_kill s k id = match ust u with Dead => true | Limbo => k | Alive => false end.
  Proof. intros H. unfold should_kill, state_of. rewrite H. destruct (ust u); reflexivity. Qed.
End Lists.

(* ------------------------------------------------------------------ *)
(* Death is final in the attribute bookkeeping                          *)
(* ------------------------------------------------------------------ *)
Lemma get_put_same us u : (exists u0, get_unit us (uid u) = Some u0) -> get_unit (put_unit us u) (uid u) = Some u.
Proof.
  induction us as [|x us IH]; intros (u0 & H); cbn in *; [discriminate|].
  destruct (uid x =? uid u) eqn:E; cbn.
  - rewrite Z.eqb_refl. reflexivity.
  - rewrite E. apply IH. eauto.
Qed.

Lemma get_put_same' us u id : uid u = id -> (exists u0, get_unit us id = Some u0) ->
  get_unit (put_unit us u) id = Some u.
Proof. intros <-. apply get_put_same. Qed.

Lemma get_put_other us u id : id <> uid u -> get_unit (put_unit us u) id = get_unit us id.
Proof.
  intros Hne. induction us as [|x us IH]; cbn; [reflexivity|].
  destruct (uid x =? uid u) eqn:E; cbn.
  - apply Z.eqb_eq in E. destruct (uid u =? id) eqn:E1; [apply Z.eqb_eq in E1; congruence|].
    destruct (uid x =? id) eqn:E2; [apply Z.eqb_eq in E2; congruence|reflexivity].
  - destruct (uid x =? id); [reflexivity|exact IH].
Qed.

Lemma get_unit_id us id u : get_unit us id = Some u -> uid u = id.
Proof.
  induction us as [|x us IH]; cbn; [discriminate|].
  destruct (uid x =? id) eqn:E; [intros H; inversion H; subst; apply Z.eqb_eq; exact E|exact IH].
Qed.

(* no content can bring a dead unit back: every script, every listener nesting *)
Definition dead_mono (s s' : sim) : Prop := forall id, state_of s id = Some Dead -> state_of s' id = Some Dead.
Lemma dm_refl s : dead_mono s s. Proof. intros id H; exact H. Qed.
Lemma dm_trans a b c : dead_mono a b -> dead_mono b c -> dead_mono a c.
Proof. intros H1 H2 id H. apply H2, H1, H. Qed.

Lemma dm_units s s' : units s' = units s -> dead_mono s s'.
Proof. intros E id H. unfold state_of in *. rewrite E. exact H. Qed.

(* replacing a unit by one with the same id that is dead whenever the old one was *)
Lemma dm_upd s u : (forall u0, get_unit (units s) (uid u) = Some u0 -> ust u0 = Dead -> ust u = Dead) ->
  dead_mono s (upd_unit s u).
Proof.
  intros Hk id H. unfold state_of in *. cbn. destruct (Z.eq_dec id (uid u)) as [->|Hne].
  - destruct (get_unit (units s) (uid u)) as [u0|] eqn:E; [|discriminate].
    inversion H as [Hst]. rewrite (get_put_same' _ _ (uid u)) by eauto. rewrite (Hk u0 eq_refl Hst), Hst. reflexivity.
  - rewrite get_put_other by exact Hne. exact H.
Qed.

Lemma dm_set_energy s id a : dead_mono s (set_energy s id a).
Proof.
  unfold set_energy. destruct (get_unit (units s) id) as [u|] eqn:E; [|apply dm_refl].
  destruct (PrimFloat.eqb _ _); [apply dm_refl|].
  match goal with |- dead_mono _ (emit (upd_unit _ ?U) _) => eapply dm_trans; [apply (dm_upd s U)|apply dm_units; reflexivity] end.
  cbn. intros u0 H0 Hd. rewrite (get_unit_id _ _ _ E) in H0. congruence.
Qed.
Lemma dm_mod_energy s id a : dead_mono s (mod_energy_fixed s id a).
Proof. unfold mod_energy_fixed. destruct (get_unit _ _); [apply dm_set_energy|apply dm_refl]. Qed.
Lemma dm_mod_sp s a : dead_mono s (mod_sp s a).
Proof. unfold mod_sp. destruct (_ =? _); apply dm_units; reflexivity. Qed.
Lemma dm_record_hit s d t : dead_mono s (record_hit s d t).
Proof. unfold record_hit. destruct (get_unit _ _); apply dm_units; reflexivity. Qed.
Lemma dm_pop_slot s x : dead_mono s (snd (pop_slot s x)).
Proof. unfold pop_slot. destruct (nth _ _ _); apply dm_units; reflexivity. Qed.
Lemma dm_end_attack s : dead_mono s (end_attack s).
Proof. unfold end_attack. destruct (in_attack s) as [[? ?]|]; apply dm_units; reflexivity. Qed.

Section DeadFinal.
  Variable cfg : config.
  Definition dm_runner (R : runner) : Prop := forall s self p sc s', R s self p sc = Some s' -> dead_mono s s'.

  Lemma dm_hp_change R (GR : dm_runner R) s u n d src s' :
    get_unit (units s) (uid u) = Some u -> hp_change cfg R s u n d src = Some s' -> dead_mono s s'.
  Proof.
    intros Hu. unfold hp_change. destruct (PrimFloat.eqb _ _); [intros H; inversion H; subst; apply dm_refl|].
    set (u1 := with_hp u n (ust u) (if d then src else ulast u)).
    set (s0 := emit (upd_unit s u1) _).
    assert (E0 : dead_mono s s0).
    { eapply dm_trans; [apply (dm_upd s u1)|apply dm_units; reflexivity].
      cbn. intros u0 H0 Hd. rewrite Hu in H0. congruence. }
    destruct (pop_slot s0 LHP) as [sc s1] eqn:EP.
    assert (E1 : dead_mono s s1).
    { eapply dm_trans; [exact E0|]. replace s1 with (snd (pop_slot s0 LHP)) by (rewrite EP; reflexivity). apply dm_pop_slot. }
    match goal with |- match ?r with _ => _ end = _ -> _ => destruct r as [s2|] eqn:ER; [|discriminate] end.
    assert (E2 : dead_mono s s2).
    { destruct sc; [eapply dm_trans; [exact E1|eapply GR; exact ER]|inversion ER; subst; exact E1]. }
    set (s3 := emit s2 _).
    assert (E3 : dead_mono s s3) by (eapply dm_trans; [exact E2|apply dm_units; reflexivity]).
    destruct (get_unit (units s3) (uid u)) as [u'|] eqn:EU; [|intros H; inversion H; subst; exact E3].
    assert (EU' : get_unit (units s3) (uid u') = Some u') by (rewrite (get_unit_id _ _ _ EU); exact EU).
    assert (Hst : forall st, ust u' <> Dead -> dead_mono s3 (upd_unit s3 (with_state u' st))).
    { intros st Hn. apply dm_upd. intros u0 H0 Hd. change (uid (with_state u' st)) with (uid u') in H0.
      rewrite EU' in H0. inversion H0; subst. contradiction. }
    destruct (ust u') eqn:ES; try (intros H; inversion H; subst; exact E3);
      (destruct (PrimFloat.ltb 0 n); intros H; inversion H; subst; (eapply dm_trans; [exact E3|]);
       [apply Hst; congruence
       |eapply dm_trans; [apply Hst; congruence|apply dm_units; reflexivity]]).
  Qed.

  Lemma dm_set_hp R (GR : dm_runner R) s id a s' : set_hp cfg R s id a = Some s' -> dead_mono s s'.
  Proof.
    unfold set_hp. destruct (get_unit (units s) id) as [u|] eqn:E; [|intros H; inversion H; subst; apply dm_refl].
    apply dm_hp_change; [exact GR|]. rewrite (get_unit_id _ _ _ E). exact E.
  Qed.
  Lemma dm_damage_hp R (GR : dm_runner R) s id src d s' : damage_hp cfg R s id src d = Some s' -> dead_mono s s'.
  Proof.
    unfold damage_hp. destruct (get_unit (units s) id) as [u|] eqn:E; [|intros H; inversion H; subst; apply dm_refl].
    apply dm_hp_change; [exact GR|]. rewrite (get_unit_id _ _ _ E). exact E.
  Qed.

  Lemma dm_heal_hp R (GR : dm_runner R) s id src a s' : heal_hp cfg R s id src a = Some s' -> dead_mono s s'.
  Proof.
    unfold heal_hp. destruct (get_unit (units s) id) as [u|] eqn:E; [|intros H; inversion H; subst; apply dm_refl].
    apply dm_hp_change; [exact GR|]. rewrite (get_unit_id _ _ _ E). exact E.
  Qed.
  Lemma dm_do_heals R (GR : dm_runner R) : forall ts s self a s', do_heals cfg R s self a ts = Some s' -> dead_mono s s'.
  Proof.
    induction ts as [|t ts IH]; intros s self a s' H; cbn [do_heals] in H; [inversion H; subst; apply dm_refl|].
    destruct (heal_hp cfg R s t self a) as [s1|] eqn:E1; [|discriminate].
    eapply dm_trans; [eapply dm_heal_hp; eassumption|eapply IH; exact H].
  Qed.

  Lemma dm_do_hits R (GR : dm_runner R) : forall ts s self dmg s',
    do_hits cfg R s self dmg ts = Some s' -> dead_mono s s'.
  Proof.
    induction ts as [|d ts IH]; intros s self dmg s' H; cbn [do_hits] in H.
    - inversion H; subst. apply dm_refl.
    - set (s2 := emit s [VHitStart self d]) in *.
      destruct (damage_hp cfg R s2 d self dmg) as [s3|] eqn:ED; [|discriminate].
      set (s4 := record_hit s3 d dmg) in *.
      destruct (pop_slot s4 LHitEnd) as [sc s5] eqn:EP.
      match type of H with match ?r with _ => _ end = _ => destruct r as [s6|] eqn:ER; [|discriminate] end.
      apply IH in H.
      assert (E5 : dead_mono s s5).
      { eapply dm_trans; [apply (dm_units s s2); reflexivity|].
        eapply dm_trans; [eapply dm_damage_hp; eassumption|].
        eapply dm_trans; [apply dm_record_hit|].
        replace s5 with (snd (pop_slot s4 LHitEnd)) by (rewrite EP; reflexivity). apply dm_pop_slot. }
      assert (E6 : dead_mono s s6).
      { destruct sc; [eapply dm_trans; [exact E5|eapply GR; exact ER]|inversion ER; subst; exact E5]. }
      eapply dm_trans; [exact E6|]. eapply dm_trans; [|exact H]. apply dm_units; reflexivity.
  Qed.

  Lemma dm_exec_op R (GR : dm_runner R) lm s self p o s' :
    exec_op cfg R lm s self p o = Some s' -> dead_mono s s'.
  Proof.
    intros H. destruct o; cbn [exec_op] in H.
    - match type of H with (if ?c then _ else _) = _ => destruct c end; [inversion H; subst; apply dm_refl|].
      destruct (in_attack s); [eapply dm_do_hits; eassumption|].
      destruct qualified; [|eapply dm_do_hits; eassumption].
      destruct lm; [discriminate|].
      destruct (pop_slot (set_attack s (Some (key, self))) LAttackStart) as [sc s1] eqn:EP.
      match type of H with match ?r with _ => _ end = _ => destruct r as [s2|] eqn:ER; [|discriminate] end.
      assert (E1 : dead_mono s s1).
      { eapply dm_trans; [apply (dm_units s (set_attack s (Some (key, self)))); reflexivity|].
        replace s1 with (snd (pop_slot (set_attack s (Some (key, self))) LAttackStart)) by (rewrite EP; reflexivity). apply dm_pop_slot. }
      assert (E2 : dead_mono s s2).
      { destruct sc; [eapply dm_trans; [exact E1|eapply GR; exact ER]|inversion ER; subst; exact E1]. }
      eapply dm_trans; [exact E2|]. eapply dm_trans; [|eapply dm_do_hits; eassumption]. apply dm_units; reflexivity.
    - destruct lm; [discriminate|]. inversion H; subst. apply dm_end_attack.
    - destruct (get_unit _ _); [eapply dm_set_hp; eassumption|inversion H; subst; apply dm_refl].
    - destruct (_ <=? _); inversion H; subst; apply dm_units; reflexivity.
    - destruct (_ <=? _); inversion H; subst; apply dm_units; reflexivity.
    - inversion H; subst. apply dm_mod_energy.
    - inversion H; subst. apply dm_mod_sp.
    - destruct (get_unit (units s) _) as [u|] eqn:E; [|inversion H; subst; apply dm_refl].
      destruct (existsb _ _); inversion H; subst; [apply dm_refl|].
      apply dm_upd. cbn. intros u0 H0 Hd. rewrite (get_unit_id _ _ _ E) in H0. congruence.
    - destruct (get_unit (units s) _) as [u|] eqn:E; inversion H; subst; [|apply dm_refl].
      apply dm_upd. cbn. intros u0 H0 Hd. rewrite (get_unit_id _ _ _ E) in H0. congruence.
    - destruct (Turn.step _ _ _). inversion H; subst. apply dm_units; reflexivity.
    - destruct (get_unit (units s) _) as [u|] eqn:E; inversion H; subst; [|apply dm_refl].
      apply dm_upd. cbn. intros u0 H0 Hd. rewrite (get_unit_id _ _ _ E) in H0. congruence.
    - inversion H; subst. apply dm_units; reflexivity.
    - match type of H with (if ?c then _ else _) = _ => destruct c end; [inversion H; subst; apply dm_refl|].
      eapply dm_do_heals; eassumption.
  Qed.

  Lemma dm_exec_list R (GR : dm_runner R) lm : forall ops s self p s',
    exec_list cfg R lm s self p ops = Some s' -> dead_mono s s'.
  Proof.
    induction ops as [|o ops IH]; intros s self p s' H; cbn [exec_list] in H.
    - inversion H; subst. apply dm_refl.
    - destruct (exec_op cfg R lm s self p o) as [s1|] eqn:E; [|discriminate].
      eapply dm_trans; [eapply dm_exec_op; eassumption|eapply IH; exact H].
  Qed.

  Theorem dead_is_final : forall fuel lm, dm_runner (exec_ops cfg fuel lm).
  Proof.
    induction fuel as [|f IH]; intros lm s self p sc s' H; [discriminate|].
    cbn [exec_ops] in H. eapply dm_exec_list; [apply IH|exact H].
  Qed.
End DeadFinal.

(* ------------------------------------------------------------------ *)
(* The dead do not act                                                  *)
(* ------------------------------------------------------------------ *)
Section NoAct.
  Variable cfg : config.

  (* an action is only ever started by a unit whose state is Alive *)
  Theorem action_needs_alive fuel s id ins s' :
    execute_action cfg fuel s id ins = AOk s' ->
    (exists u, get_unit (units s) id = Some u /\ ust u = Alive) \/ s' = s.
  Proof.
    unfold execute_action. destruct (get_unit (units s) id) as [u|]; [|intros H; inversion H; auto].
    destruct (ust u) eqn:E; try (intros H; inversion H; auto; fail). intros _. left. eauto.
  Qed.

  (* one iteration of the queue drain: a task whose source is dead, off the field, or carries one
     of its abort flags is dropped without any event and without executing *)
  Definition droppable (s : sim) (t : task) : bool :=
    (match state_of s (t_src t) with Some Dead => true | _ => false end) ||
    negb (existsb (Z.eqb (t_src t)) (chars s ++ enemies s)) ||
    has_flag s (t_src t) (t_abort t).

  Theorem drain_drops fuel s t s1 :
    pop s = Some (t, s1) -> chars s <> [] -> enemies s <> [] ->
    droppable s1 t = true -> drain cfg (S fuel) s = drain cfg fuel s1.
  Proof.
    intros HP Hc He Hd. cbn [drain]. rewrite HP.
    destruct (chars s); [congruence|]. destruct (enemies s); [congruence|]. cbn [orb].
    unfold droppable in Hd.
    destruct (match state_of s1 (t_src t) with Some Dead => true | _ => false end); [reflexivity|].
    destruct (negb (existsb _ _)); [reflexivity|]. cbn [orb] in Hd. rewrite Hd. reflexivity.
  Qed.

  Theorem pop_keeps_rest s t s1 : pop s = Some (t, s1) ->
    trace s1 = trace s /\ units s1 = units s /\ chars s1 = chars s /\ enemies s1 = enemies s.
  Proof. unfold pop. destruct (queue s); [discriminate|]. intros H. inversion H; subst. repeat split. Qed.
End NoAct.
