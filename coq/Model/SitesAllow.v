(* Hand-written, reviewed tables for property C01 (never generated).

   [known_order_dependent]: map-iteration sites that match none of the proved schemas and are
   nevertheless accepted, each with the reason.  A site is keyed by (file, function, ordinal,
   body hash): a NEW map range, or an EDIT to the body of a listed one, is not in the table and
   breaks [all_map_sites_classified] until somebody classifies it again.  Every entry must be
   either a known finding (an order dependence that is still in the code, recorded in
   known_findings.json) or disappear together with the `fix:` commit that repairs the site.

   All order-dependent sites found so far have been repaired (see known_findings.json, status
   "fixed"), so the table is empty: every map iteration of the tree is an instance of a proved
   schema.

   [ambient_allow]: reviewed uses of ambient randomness / clock / environment / goroutines in
   code reachable from simulation.Run.  Empty: a run draws only from Simulation.Random. *)
From Coq Require Import List String ZArith.
From SR Require Import Base.SiteTypes.
Import ListNotations.
Open Scope string_scope.
Open Scope Z_scope.

Definition known_order_dependent : list (site_key * string) := [].

Definition ambient_allow : list (ambient_key * string) := [].
