(* Re-entrant listeners around Model/Turn.v (property C02).  Executable; no proofs here.

   Content code reacts INSIDE listeners of the turn manager's events: it calls the same manager
   again while the outer call is still suspended in [Emit].  Here that behaviour is DATA: each of
   the four events the manager emits (TurnTargetsAdded, TurnReset, GaugeChange,
   CurrentGaugeCostChange; TurnStart is emitted by the simulation, not by the manager) has a
   listener slot holding a queue of scripts; a script is a short list of the manager's own
   operations ([Turn.op]).  When the model emits an event it pops the next script of the event's
   slot (an exhausted queue = a listener that does nothing) and runs it to completion - every
   operation of it a full, possibly again re-entrant, call - and only then goes on with what the
   Go function does after that [Emit].

   Where the emissions sit in the Go code (pkg/engine/turn, read line by line):

   AddTargets (turn.go 133-148)   appends the new targets, sort.Stable, then the ONE emission
                           (TurnTargetsAdded; its TurnOrder field is EventTurnStatus(), a FRESH slice
                           built while the arguments of Emit are evaluated, i.e. before any listener
                           runs) is the last statement.  Nothing is read or written after it.
   ResetTurn (turn.go 202-232)    activeTurn = false, the acting unit (looked up by id) gets
                           int64(BaseGauge * gaugeCost) floored at 0, is moved to the end, sort.Stable;
                           then the ONE emission (TurnReset: activeTarget, gaugeCost and a fresh
                           EventTurnStatus(), all read before the listeners run); `return nil`.
   SetGauge (modify.go 18-68)     early returns without emission (unknown unit: error; unchanged
                           gauge: nil); else t.gauge is stored, the unit is moved to index 0 / 1,
                           sort.Stable; then the ONE emission (GaugeChange: OldGauge is the local
                           previousGauge, NewGauge and TurnOrder are read from the manager while the
                           arguments are evaluated); `return nil`.
   ModifyGaugeNormalized / ModifyGaugeAV (modify.go 70-88)  compute the amount from the stored
                           gauge (and the speed), then `return mgr.SetGauge(data)`.
   SetCurrentGaugeCost (modify.go 95-109)  prev is a local, gaugeCost is stored, early return when
                           unchanged; else the ONE emission (OldCost = prev, NewCost read back).
   ModifyCurrentGaugeCost (modify.go 90-93) amount from the stored cost, then SetCurrentGaugeCost.
   RemoveTarget, StartTurn        emit nothing (TurnStart is the simulation's event).

   So every call is: an atomic part that ends with the state stored ([Turn.step]: the committed
   state, and the event with its payload already fixed, or the return value), then at most one
   emission in TAIL position, on the committed state; the outer call reads and writes nothing
   afterwards.  That is what [call] below does.  A re-entrant listener therefore sees - and
   changes - the committed state, and the state a call leaves behind when it RETURNS is the
   state its listeners' calls left.

   Legal use: StartTurn, ResetTurn and AddTargets belong to the run loop (simulation/run.go);
   a listener script that contains one of them ends the model run with the distinct outcome
   [Illegal].  Fuel bounds the nesting depth; [OutOfFuel] is a distinct outcome.  Every nested
   call consumes an operation of a popped script, so fuel above the number of operations in all
   scripts is always enough (Proofs/TurnReProofs.v, [fuel_enough]). *)
From Coq Require Import List ZArith Bool.
From SR Require Import Base.NumOps Model.Turn.
Import ListNotations.
Open Scope Z_scope.

Inductive outcome (A : Type) := Done (a : A) | OutOfFuel | Illegal.
Arguments Done {A}. Arguments OutOfFuel {A}. Arguments Illegal {A}.

Section Re.
  Variable N : NumOps.
  Notation T := (num N).

  Definition script := list (op N).

  (* the four listener slots: queues of scripts, one popped per delivery *)
  Record slots := mkQ {
    q_added : list script;      (* TurnTargetsAdded *)
    q_reset : list script;      (* TurnReset *)
    q_gauge : list script;      (* GaugeChange *)
    q_cost : list script }.     (* CurrentGaugeCostChange *)

  (* what the harness can see of the manager from outside: EventTurnStatus() ids and gauges in
     stored order, and TotalAV() *)
  Definition probe := (list (Z * Z) * T)%type.
  Definition probe_of (s : tstate N) : probe :=
    (map (fun u => (u_id u, u_gauge u)) (order s), total s).

  (* what the harness records, in time order: a call is entered; a listener is invoked with an
     event; a call returns (its return value: the non-event outputs of [Turn.step], i.e. the error
     / StartTurn's results / nothing) with the probe right after the return *)
  Inductive titem :=
  | TCall (o : op N)
  | TEv (e : out N)
  | TRet (r : list (out N)) (p : probe).

  (* the outputs of [Turn.step] that are emissions (delivered to listeners); the others are what
     the call returns *)
  Definition is_event (e : out N) : bool :=
    match e with
    | EAdded _ _ | EReset _ _ _ | EGauge _ _ _ _ | ECost _ _ => true
    | _ => false
    end.
  Definition events_of (l : list (out N)) : list (out N) := filter is_event l.
  Definition returns_of (l : list (out N)) : list (out N) := filter (fun e => negb (is_event e)) l.

  Definition pop (l : list script) : script * list script :=
    match l with [] => ([], []) | s :: r => (s, r) end.

  Definition pop_slot (q : slots) (e : out N) : script * slots :=
    match e with
    | EAdded _ _ => let (s, r) := pop (q_added q) in (s, mkQ r (q_reset q) (q_gauge q) (q_cost q))
    | EReset _ _ _ => let (s, r) := pop (q_reset q) in (s, mkQ (q_added q) r (q_gauge q) (q_cost q))
    | EGauge _ _ _ _ => let (s, r) := pop (q_gauge q) in (s, mkQ (q_added q) (q_reset q) r (q_cost q))
    | ECost _ _ => let (s, r) := pop (q_cost q) in (s, mkQ (q_added q) (q_reset q) (q_gauge q) r)
    | _ => ([], q)
    end.

  (* the operations a listener may issue: everything but the run loop's three *)
  Definition listener_legal (o : op N) : bool :=
    match o with
    | OAdd _ | OStart | OReset => false
    | _ => true
    end.

  Definition result := outcome (tstate N * slots * list titem).
  Definition caller := slots -> tstate N -> op N -> result.

  (* a script ([nested] = true) or the top-level history ([nested] = false): its operations one
     after the other, each a full call *)
  Fixpoint run_ops (C : caller) (nested : bool) (q : slots) (s : tstate N) (ops : list (op N)) : result :=
    match ops with
    | [] => Done (s, q, [])
    | o :: r =>
        if nested && negb (listener_legal o) then Illegal else
        match C q s o with
        | Done (s1, q1, t1) =>
            match run_ops C nested q1 s1 r with
            | Done (s2, q2, t2) => Done (s2, q2, t1 ++ t2)
            | OutOfFuel => OutOfFuel
            | Illegal => Illegal
            end
        | OutOfFuel => OutOfFuel
        | Illegal => Illegal
        end
    end.

  (* the emissions of one call, in order (the Go code has at most one per call): the listener is
     invoked on the current state, pops its script and runs it *)
  Fixpoint emit_all (C : caller) (q : slots) (s : tstate N) (evs : list (out N)) : result :=
    match evs with
    | [] => Done (s, q, [])
    | e :: r =>
        let (sc, q1) := pop_slot q e in
        match run_ops C true q1 s sc with
        | Done (s1, q2, t1) =>
            match emit_all C q2 s1 r with
            | Done (s2, q3, t2) => Done (s2, q3, TEv e :: t1 ++ t2)
            | OutOfFuel => OutOfFuel
            | Illegal => Illegal
            end
        | OutOfFuel => OutOfFuel
        | Illegal => Illegal
        end
    end.

  (* one call of the manager: the atomic part up to the stored state ([Turn.step]), then the
     emission; what it returns was fixed in the atomic part *)
  Fixpoint call (fuel : nat) : caller :=
    match fuel with
    | 0%nat => fun _ _ _ => OutOfFuel
    | S f => fun q s o =>
        let (s1, outs) := step N s o in
        match emit_all (call f) q s1 (events_of outs) with
        | Done (s2, q2, t) => Done (s2, q2, TCall o :: t ++ [TRet (returns_of outs) (probe_of s2)])
        | OutOfFuel => OutOfFuel
        | Illegal => Illegal
        end
    end.

  Definition runL (fuel : nat) (q : slots) (s : tstate N) (ops : list (op N)) : result :=
    run_ops (call fuel) false q s ops.

  (* number of operations in all scripts: fuel above it is always enough *)
  Definition script_ops (l : list script) : nat :=
    fold_right (fun s n => (length s + n)%nat) 0%nat l.
  Definition total_ops (q : slots) : nat :=
    (script_ops (q_added q) + script_ops (q_reset q) + script_ops (q_gauge q) + script_ops (q_cost q))%nat.

  (* every operation of every script is one a listener may issue *)
  Definition scripts_legal (q : slots) : bool :=
    forallb (forallb listener_legal) (q_added q) && forallb (forallb listener_legal) (q_reset q) &&
    forallb (forallb listener_legal) (q_gauge q) && forallb (forallb listener_legal) (q_cost q).
End Re.

Arguments mkQ {N}. Arguments q_added {N}. Arguments q_reset {N}. Arguments q_gauge {N}. Arguments q_cost {N}.
Arguments TCall {N}. Arguments TEv {N}. Arguments TRet {N}.
