(* C19 — Aggregated statistics describe exactly the iterations that ran.
   Only statements, [exact] and [Print Assumptions] live here.

   The model (Model/Agg.v) is the model of the REPAIRED code:
     fix: ToOverviewStats panics on an empty sample (cycle no iteration reached, zero iterations)
     fix: flushed DescriptiveStats alias the live StreamStats min/max
   (corpus/C19/agg/*.json are the minimized inputs on which the unrepaired code failed). *)
From Coq Require Import List ZArith Permutation Reals.
From Coq Require Floats.
From SR Require Import Model.Agg Proofs.AggProofs.
Import ListNotations.

Theorem C19_aggregated_statistics : C19_statement.
Proof. exact C19_holds. Qed.
Print Assumptions C19_aggregated_statistics.

(* sorting forgets the arrival order: a list of floats that are neither NaN nor -0 has exactly
   one sorted arrangement (this is what makes every OverviewStats field order-independent) *)
Theorem C19_sorted_sample_is_order_independent :
  forall pows l l', Permutation l l' -> Forall ford l -> isort (fops pows) l = isort (fops pows) l'.
Proof. exact F_isort_permutation_invariant. Qed.
Print Assumptions C19_sorted_sample_is_order_independent.

(* Welford's streaming recurrences compute the two-pass mean and sum of squared deviations *)
Theorem C19_welford_is_two_pass :
  forall cbrt l, l <> [] ->
    let s := stream_of (rops cbrt) l in
    let mu := (rsum l / IZR (zlen l))%R in
    s_mean s = mu /\ s_m2 s = rsum (map (fun x => (x - mu) * (x - mu))%R l).
Proof. exact welford_is_two_pass. Qed.
Print Assumptions C19_welford_is_two_pass.

(* every histogram the code can return adds up, for any arithmetic *)
Theorem C19_histograms_add_up :
  forall T (NO : NumOps T) xs o, overview NO xs = ROk o ->
    zsum (o_hist o) = zlen xs /\ (1 <= zlen (o_hist o))%Z /\ Forall (fun c => (0 <= c)%Z) (o_hist o).
Proof. intros T NO. exact (overview_hist NO). Qed.
Print Assumptions C19_histograms_add_up.

(* non-vacuity: a batch of 8 results with series of lengths 1..3 under a cycle limit of 4
   satisfies the guard, Flush returns, histograms have several bins, the last cycle (reached by
   nobody) reports the single empty bin, and the reversed arrival order reports the same *)
Theorem C19_nonvacuous : Forall (fresult_ok demo_pows) demo_rs /\ exists rep,
  report_of (fops demo_pows) 4 demo_rs = ROk rep /\ r_iters rep = 8%Z /\
  o_hist (r_dpc rep) = [7; 1]%Z /\
  map (@o_hist PrimFloat.float) (r_cd rep) = [[7; 1]; [4; 1]; [3]; [0]]%Z /\
  map (@o_hist PrimFloat.float) (r_ct rep) = [[5; 3]; [1; 4]; [3]; [0]]%Z /\
  res_map exact_part (report_of (fops demo_pows) 4 (rev demo_rs)) = ROk (exact_part rep).
Proof. exact (conj demo_ok demo_reports). Qed.
