(* The array heap behind pkg/engine/queue: container/heap's Push/Pop with their up/down loops
   (Go 1.23 source) over queue.go's Len/Less/Swap/Push/Pop.  Executable; no proofs here.
   Proofs/QueueHeapProofs.v shows that it refines the abstract queue of Model/Queue.v. *)
From Coq Require Import List ZArith Bool Arith.
From SR Require Import Model.Queue.
Import ListNotations.
Local Open Scope nat_scope.

(* i := (j - 1) / 2   (Go's integer division truncates, so the parent of 0 is 0) *)
Definition parent (j : nat) : nat := (j - 1) / 2.

Fixpoint hset (a : list task) (i : nat) (x : task) : list task :=
  match a, i with
  | [], _ => []
  | _ :: r, O => x :: r
  | y :: r, S i' => y :: hset r i' x
  end.

(* minHeap.Swap *)
Definition hswap (d : task) (a : list task) (i j : nat) : list task :=
  hset (hset a i (nth j a d)) j (nth i a d).

(* heap.up: for { i := (j-1)/2; if i == j || !h.Less(j, i) { break }; h.Swap(i, j); j = i } *)
Fixpoint up (fuel : nat) (d : task) (a : list task) (j : nat) : list task :=
  match fuel with
  | O => a
  | S f =>
      let i := parent j in
      if Nat.eqb i j || negb (less (nth j a d) (nth i a d)) then a
      else up f d (hswap d a i j) i
  end.

(* heap.down(i0, n): for { j1 := 2*i+1; if j1 >= n { break }; j := j1;
     if j2 := j1+1; j2 < n && h.Less(j2, j1) { j = j2 }; if !h.Less(j, i) { break };
     h.Swap(i, j); i = j } *)
Fixpoint down (fuel : nat) (d : task) (a : list task) (i n : nat) : list task :=
  match fuel with
  | O => a
  | S f =>
      let j1 := 2 * i + 1 in
      if n <=? j1 then a
      else
        let j := if (j1 + 1 <? n) && less (nth (j1 + 1) a d) (nth j1 a d) then j1 + 1 else j1 in
        if negb (less (nth j a d) (nth i a d)) then a
        else down f d (hswap d a i j) j n
  end.

Record hqueue := mkHQ { h_arr : list task; h_counter : Z }.
Definition h_empty : hqueue := mkHQ [] 0%Z.

(* Handler.Insert: t.id = counter; heap.Push = append, up(len-1); counter++ *)
Definition h_insert (h : hqueue) (prio src : Z) (flags : list Z) (b : body) : hqueue :=
  let t := mkT (h_counter h) prio src flags b in
  let a := h_arr h ++ [t] in
  mkHQ (up (length a) t a (length (h_arr h))) (h_counter h + 1)%Z.

(* Handler.Pop = heap.Pop: n := len-1; Swap(0, n); down(0, n); remove and return the last *)
Definition h_pop (h : hqueue) : option (task * hqueue) :=
  match h_arr h with
  | [] => None
  | d :: _ =>
      let n := length (h_arr h) - 1 in
      let a1 := hswap d (h_arr h) 0 n in
      let a2 := down (length (h_arr h)) d a1 0 n in
      Some (nth n a2 d, mkHQ (firstn n a2) (h_counter h))
  end.
