(* C11, run level: for every configuration, content, decision sequence and fuel, the trace of a
   terminated run of the whole-simulation model is accepted by the decision monitor [decision_ok] of
   Model/SimProtocol.v (the predicate evaluated on every real trace): after the script's answer
   (VNextAction) the content call (VCall) is a skill exactly when a skill was decided and the engine
   did not fall back to the default attack, the fallback (VDefaultAction) only follows a decided
   skill, the primary target is a unit of the class the ability's target type asks for and has not
   been announced dead; an ultimate's primary target likewise.

   Shape of the proof (as for C08 in SimDeathTrace.v): content scripts only log events the monitor
   does not look at and never change a unit's static fields (frame principle of SimFrame2.v); the
   segments of the run loop other than actions contain no decision event at all; an action's segment
   is checked against the state it was decided in, whose living lists hold only units that have not
   been announced (invariant [DI] of SimDeathTrace.v). *)
From Coq Require Import List ZArith Bool Floats Lia Permutation.
From SR Require Import Base.CaseLib Base.NumOps Base.FloatFactsAttr Model.Turn Model.Sim Model.SimProtocol
  Proofs.TurnProofs Proofs.SimProofs Proofs.SimDeath Proofs.SimFrame2 Proofs.SimDeathTrace Proofs.SimDecision
  Proofs.SimFloat.
Import ListNotations.
Open Scope Z_scope.

(* ------------------------------------------------------------------ *)
(* The monitor without its unused skill-point argument                  *)
(* ------------------------------------------------------------------ *)
Definition pend : Type := option (Z * Z * bool).

Fixpoint dec_ok (c : config) (dead : list Z) (p : pend) (tr : list ev) : bool :=
  match tr with
  | [] => true
  | e :: r =>
      match e with
      | VTargetDeath t _ => dec_ok c (t :: dead) p r
      | VNextAction id typ _ => dec_ok c dead (Some (id, typ, false)) r
      | VDefaultAction id =>
          match p with
          | Some (id', typ, _) => (id =? id') && (typ =? 1) && dec_ok c dead (Some (id', typ, true)) r
          | None => false
          end
      | VCall k id q =>
          if k =? 3 then dec_ok c dead None r
          else if k =? 2 then
            match desc_of c id with
            | Some d => class_ok c id (d_tt_ult d) q && negb (zin q dead) && dec_ok c dead p r
            | None => false
            end
          else
            match p, desc_of c id with
            | Some (id', typ, fb), Some d =>
                (id =? id') &&
                Bool.eqb (k =? 1) ((typ =? 1) && negb fb) &&
                class_ok c id (if k =? 1 then d_tt_skill d else d_tt_attack d) q &&
                negb (zin q dead) &&
                dec_ok c dead None r
            | _, _ => false
            end
      | _ => dec_ok c dead p r
      end
  end.

Lemma dec_ok_eq c : forall tr D p sp, decision_ok_from c D p sp tr = dec_ok c D p tr.
Proof.
  induction tr as [|e tr IH]; intros D p sp; [reflexivity|].
  destruct e; cbn [decision_ok_from dec_ok]; try apply IH.
  - destruct p as [[[i t] b]|]; [rewrite IH|]; reflexivity.
  - destruct (kind =? 3); [apply IH|]. destruct (kind =? 2).
    + destruct (desc_of c id); [rewrite IH|]; reflexivity.
    + destruct p as [[[i t] b]|]; [|reflexivity]. destruct (desc_of c id); [rewrite IH|]; reflexivity.
Qed.

(* the pending decision after an event *)
Definition pstep (p : pend) (e : ev) : pend :=
  match e with
  | VNextAction id typ _ => Some (id, typ, false)
  | VDefaultAction _ => match p with Some (id', typ, _) => Some (id', typ, true) | None => None end
  | VCall k _ _ => if k =? 3 then None else if k =? 2 then p else None
  | _ => p
  end.
Definition pend_after (p : pend) (tr : list ev) : pend := fold_left pstep tr p.

Lemma dec_ok_app c : forall a D p b,
  dec_ok c D p (a ++ b) = dec_ok c D p a && dec_ok c (dead_after D a) (pend_after p a) b.
Proof.
  induction a as [|e a IH]; intros D p b; [reflexivity|].
  unfold dead_after, pend_after in *.
  destruct e; cbn [app dec_ok ann fold_left pstep]; try apply IH.
  - (* VTargetDeath *) rewrite IH. cbn [rev]. rewrite <- app_assoc. reflexivity.
  - (* VDefaultAction *) destruct p as [[[i t] bb]|]; [|reflexivity]. rewrite IH, !andb_assoc. reflexivity.
  - (* VCall *) destruct (kind =? 3); [apply IH|]. destruct (kind =? 2).
    + destruct (desc_of c id); [|reflexivity]. rewrite IH, !andb_assoc. reflexivity.
    + destruct p as [[[i t] bb]|]; [|reflexivity]. destruct (desc_of c id); [|reflexivity].
      rewrite IH, !andb_assoc. reflexivity.
Qed.

(* events that are no decision events; [dquiet] moreover excludes the death announcement *)
Definition dcalm (e : ev) : bool :=
  match e with VNextAction _ _ _ | VDefaultAction _ | VCall _ _ _ => false | _ => true end.
Definition dquiet (e : ev) : bool :=
  match e with VNextAction _ _ _ | VDefaultAction _ | VCall _ _ _ | VTargetDeath _ _ => false | _ => true end.

Lemma dquiet_dcalm l : forallb dquiet l = true -> forallb dcalm l = true.
Proof.
  induction l as [|e l IH]; [reflexivity|]. cbn [forallb]. intros H. apply andb_prop in H. destruct H as [He Hl].
  rewrite (IH Hl), andb_true_r. destruct e; try discriminate; reflexivity.
Qed.

Lemma dec_ok_calm c : forall l D p, forallb dcalm l = true -> dec_ok c D p l = true.
Proof.
  induction l as [|e l IH]; intros D p H; [reflexivity|]. cbn [forallb] in H. apply andb_prop in H. destruct H as [He Hl].
  destruct e; try discriminate; cbn [dec_ok]; apply IH; exact Hl.
Qed.

Lemma dquiet_after l : forallb dquiet l = true -> forall D p, dead_after D l = D /\ pend_after p l = p.
Proof.
  unfold dead_after, pend_after.
  induction l as [|e l IH]; intros H D p; [split; reflexivity|]. cbn [forallb] in H. apply andb_prop in H. destruct H as [He Hl].
  destruct e; try discriminate; cbn [ann fold_left pstep]; apply IH; exact Hl.
Qed.

(* a quiet prefix is invisible to the monitor *)
Lemma dec_ok_quiet_app c a b D p : forallb dquiet a = true -> dec_ok c D p (a ++ b) = dec_ok c D p b.
Proof.
  intros H. rewrite dec_ok_app, (dec_ok_calm c a D p (dquiet_dcalm a H)).
  destruct (dquiet_after a H D p) as [-> ->]. reflexivity.
Qed.

Lemma app_cons_assoc {A} (a : list A) x b c : a ++ x :: b ++ c = (a ++ x :: b) ++ c.
Proof. rewrite <- app_assoc. reflexivity. Qed.

Lemma content_ev_dquiet l : forallb content_ev l = true -> forallb dquiet l = true.
Proof.
  induction l as [|e l IH]; [reflexivity|]. cbn [forallb]. intros H. apply andb_prop in H. destruct H as [He Hl].
  rewrite (IH Hl), andb_true_r. destruct e; try discriminate; reflexivity.
Qed.

(* ------------------------------------------------------------------ *)
(* Static description of the units; the content-level relation          *)
(* ------------------------------------------------------------------ *)
Definition stat (s : sim) (id : Z) : option (Z * bool * (float * float) * (Z * Z) * (ttype * ttype * ttype)) :=
  match get_unit (units s) id with Some u => Some (static u) | None => None end.

Definition keepc (s s' : sim) : Prop := forall id, stat s' id = stat s id.

Lemma keepc_refl s : keepc s s. Proof. intros id. reflexivity. Qed.
Lemma keepc_trans a b c : keepc a b -> keepc b c -> keepc a c.
Proof. intros H1 H2 id. rewrite H2. apply H1. Qed.
Lemma keepc_units s s' : units s' = units s -> keepc s s'.
Proof. intros E id. unfold stat. rewrite E. reflexivity. Qed.

Lemma keepc_upd s u u0 : get_unit (units s) (uid u) = Some u0 -> static u = static u0 -> keepc s (upd_unit s u).
Proof.
  intros G St id. unfold stat. cbn [units upd_unit set_units].
  destruct (Z.eq_dec id (uid u)) as [->|Hne].
  - rewrite (get_put_same (units s) u) by (eexists; exact G). rewrite G, St. reflexivity.
  - rewrite (get_put_other _ _ _ Hne). reflexivity.
Qed.

(* content: static fields kept, only events the monitor does not look at *)
Definition Qd (s s' : sim) : Prop :=
  keepc s s' /\ exists seg, trace s' = trace s ++ seg /\ forallb dquiet seg = true.

Lemma Qd_refl s : Qd s s.
Proof. split; [apply keepc_refl|]. exists []. rewrite app_nil_r. split; reflexivity. Qed.

Lemma Qd_trans a b c : Qd a b -> Qd b c -> Qd a c.
Proof.
  intros [K1 (x & Tx & Px)] [K2 (y & Ty & Py)]. split; [eapply keepc_trans; eassumption|].
  exists (x ++ y). split; [rewrite Ty, Tx, app_assoc; reflexivity|]. rewrite forallb_app, Px, Py. reflexivity.
Qed.

Lemma Qd_emit_quiet s l : forallb dquiet l = true -> Qd s (emit s l).
Proof. intros H. split; [apply keepc_units; reflexivity|]. exists l. split; [reflexivity|exact H]. Qed.

Lemma Qd_plain s s' : units s' = units s -> trace s' = trace s -> Qd s s'.
Proof. intros U T. split; [apply keepc_units; exact U|]. exists []. rewrite app_nil_r. split; [exact T|reflexivity]. Qed.

Lemma Qd_emit s l : forallb content_ev l = true -> Qd s (emit s l).
Proof. intros H. apply Qd_emit_quiet, content_ev_dquiet, H. Qed.
Lemma Qd_sample s : Qd s (emit s [VSample (chars s) (enemies s) (turn_ids s)]).
Proof. apply Qd_emit_quiet. reflexivity. Qed.
Lemma Qd_upd s u u0 : get_unit (units s) (uid u) = Some u0 -> static u = static u0 ->
  (ust u0 = Dead -> ust u = Dead) -> Qd s (upd_unit s u).
Proof.
  intros G St _. split; [apply (keepc_upd s u u0 G St)|]. exists []. rewrite app_nil_r. split; reflexivity.
Qed.
Lemma Qd_same s s' : units s' = units s -> chars s' = chars s -> enemies s' = enemies s ->
  turn s' = turn s -> trace s' = trace s -> res s' = res s -> lslots s' = lslots s -> Qd s s'.
Proof. intros U _ _ _ T _ _. apply Qd_plain; assumption. Qed.
Lemma Qd_slot s x : Qd s (snd (pop_slot s x)).
Proof. unfold pop_slot. destruct (nth (slot_ix x) (lslots s) []); [apply Qd_refl|apply Qd_plain; reflexivity]. Qed.
Lemma Qd_gauge s id amt : Qd s (set_turn s (fst (Turn.step F (turn s) (@OModNorm F id amt)))).
Proof. apply Qd_plain; reflexivity. Qed.
Lemma Qd_record_hit s d t : Qd s (record_hit s d t).
Proof. unfold record_hit. destruct (get_unit (units s) d); [apply Qd_plain; reflexivity|apply Qd_refl]. Qed.
Lemma Qd_hit s s' a d t h : Qd (record_hit s d t) s' -> Qd s (emit s' [VHitEnd a d t h]).
Proof.
  intros H. eapply Qd_trans; [apply Qd_record_hit|]. eapply Qd_trans; [exact H|]. apply Qd_emit_quiet. reflexivity.
Qed.
Definition Qd_hit_none := hit_none_of_coarse Qd Qd_slot Qd_hit.
Definition Qd_hit_some := hit_some_of_coarse Qd Qd_trans Qd_slot Qd_hit.

(* ------------------------------------------------------------------ *)
(* The invariant tying the units to the configuration                   *)
(* ------------------------------------------------------------------ *)
Section Decision.
  Variable cfg : config.

  (* every unit record carries the side and the target types of its description *)
  Definition SL (s : sim) : Prop := forall id u, get_unit (units s) id = Some u ->
    exists d, desc_of cfg id = Some d /\ uchar u = d_char d /\
              utt_a u = d_tt_attack d /\ utt_s u = d_tt_skill d /\ utt_u u = d_tt_ult d.
  (* the living lists hold units of their side *)
  Definition LT (s : sim) : Prop :=
    (forall id, In id (chars s) -> exists u, get_unit (units s) id = Some u /\ uchar u = true) /\
    (forall id, In id (enemies s) -> exists u, get_unit (units s) id = Some u /\ uchar u = false).
  Definition INV (s : sim) : Prop := SL s /\ LT s.

  Lemma stat_get s s' id u : keepc s s' -> get_unit (units s') id = Some u ->
    exists u0, get_unit (units s) id = Some u0 /\ static u = static u0.
  Proof.
    intros K G. specialize (K id). unfold stat in K. rewrite G in K.
    destruct (get_unit (units s) id) as [u0|]; [|discriminate]. exists u0. split; [reflexivity|congruence].
  Qed.
  Lemma stat_get' s s' id u0 : keepc s s' -> get_unit (units s) id = Some u0 ->
    exists u, get_unit (units s') id = Some u /\ static u = static u0.
  Proof.
    intros K G. specialize (K id). unfold stat in K. rewrite G in K.
    destruct (get_unit (units s') id) as [u|]; [|discriminate]. exists u. split; [reflexivity|congruence].
  Qed.

  Lemma INV_keep s s' : keepc s s' -> incl (chars s') (chars s) -> incl (enemies s') (enemies s) -> INV s -> INV s'.
  Proof.
    intros K Ic Ie [HS [Hc He]]. split.
    - intros id u G. destruct (stat_get _ _ _ _ K G) as (u0 & G0 & St). destruct (HS id u0 G0) as (d & Hd & A & B & C & D).
      exists d. unfold static in St. inversion St. split; [exact Hd|]. repeat split; congruence.
    - split; intros id Hin.
      + destruct (Hc id (Ic id Hin)) as (u0 & G0 & C0). destruct (stat_get' _ _ _ _ K G0) as (u & G & St).
        exists u. split; [exact G|]. unfold static in St. inversion St. congruence.
      + destruct (He id (Ie id Hin)) as (u0 & G0 & C0). destruct (stat_get' _ _ _ _ K G0) as (u & G & St).
        exists u. split; [exact G|]. unfold static in St. inversion St. congruence.
  Qed.

  (* ---- the target evaluator picks a unit of the class asked for, on the field (or the source) ---- *)
  Lemma evaluate_class s src u evl tt p : INV s -> get_unit (units s) src = Some u -> uchar u = true ->
    evaluate s src evl tt = Some p ->
    class_ok cfg src tt p = true /\ (In p (chars s ++ enemies s) \/ p = src).
  Proof.
    intros [HS [Hc He]] Gs Cs EV. pose proof (evaluate_rule _ _ _ _ _ EV) as R. unfold rule_ok in R.
    destruct (HS src u Gs) as (ds & Dsrc & Cds & _).
    assert (NE : is_enemy s src = false) by (unfold is_enemy; rewrite Gs, Cs; reflexivity).
    unfold class_ok. rewrite Dsrc.
    destruct ((evl =? 100) || (evl =? 101) || (evl =? 102)).
    - unfold candidates in R. rewrite NE in R. destruct tt; try contradiction; destruct R as [Hin _].
      + destruct (Hc p Hin) as (up & Gp & Cp). destruct (HS p up Gp) as (dp & Dp & Cdp & _). rewrite Dp.
        split; [rewrite <- Cdp, <- Cds, Cp, Cs; reflexivity|left; apply in_or_app; left; exact Hin].
      + destruct (He p Hin) as (up & Gp & Cp). destruct (HS p up Gp) as (dp & Dp & Cdp & _). rewrite Dp.
        split; [rewrite <- Cdp, <- Cds, Cp, Cs; reflexivity|left; apply in_or_app; right; exact Hin].
      + destruct Hin as [<-|[]]. rewrite Dsrc. split; [apply Z.eqb_refl|right; reflexivity].
    - destruct R as (-> & Al & Fld & Cl).
      assert (Gp : exists up, get_unit (units s) evl = Some up).
      { unfold is_alive, state_of in Al. destruct (get_unit (units s) evl) as [up|]; [eauto|discriminate]. }
      destruct Gp as (up & Gp). destruct (HS evl up Gp) as (dp & Dp & Cdp & _). rewrite Dp.
      split; [|left; exact Fld].
      destruct tt; try contradiction.
      + unfold is_char in Cl. rewrite Gp in Cl. rewrite <- Cdp, <- Cds, Cl, Cs. reflexivity.
      + unfold is_enemy in Cl. rewrite Gp in Cl. apply negb_true_iff in Cl. rewrite <- Cdp, <- Cds, Cl, Cs. reflexivity.
      + subst. apply Z.eqb_refl.
  Qed.

  (* ---- content and the pieces of the loop without decision events ---- *)
  Definition Qd_exec_ops := Q2_exec_ops cfg Qd Qd_refl Qd_trans Qd_emit Qd_sample Qd_upd Qd_same Qd_slot Qd_gauge Qd_hit_none Qd_hit_some.
  Definition Qd_run_slot := Q2_run_slot cfg Qd Qd_refl Qd_trans Qd_emit Qd_sample Qd_upd Qd_same Qd_slot Qd_gauge Qd_hit_none Qd_hit_some.
  Definition Qd_run_body := Q2_run_body cfg Qd Qd_refl Qd_trans Qd_emit Qd_sample Qd_upd Qd_same Qd_slot Qd_gauge Qd_hit_none Qd_hit_some.
  Definition Qd_pop_act := Q2_pop_act cfg Qd Qd_refl Qd_upd.
  Definition Qd_mod_sp := Q2_mod_sp Qd Qd_refl Qd_trans Qd_emit Qd_same.
  Definition Qd_mod_energy := Q2_mod_energy Qd Qd_refl Qd_trans Qd_emit Qd_upd.
  Definition Qd_set_energy := Q2_set_energy Qd Qd_refl Qd_trans Qd_emit Qd_upd.

  Definition Calm (s s' : sim) : Prop :=
    keepc s s' /\ exists seg, trace s' = trace s ++ seg /\ forallb dcalm seg = true.

  Lemma Calm_refl s : Calm s s.
  Proof. split; [apply keepc_refl|]. exists []. rewrite app_nil_r. split; reflexivity. Qed.
  Lemma Calm_trans a b c : Calm a b -> Calm b c -> Calm a c.
  Proof.
    intros [K1 (x & Tx & Px)] [K2 (y & Ty & Py)]. split; [eapply keepc_trans; eassumption|].
    exists (x ++ y). split; [rewrite Ty, Tx, app_assoc; reflexivity|]. rewrite forallb_app, Px, Py. reflexivity.
  Qed.
  Lemma Calm_Qd s s' : Qd s s' -> Calm s s'.
  Proof. intros [K (x & T & P)]. split; [exact K|]. exists x. split; [exact T|apply dquiet_dcalm, P]. Qed.
  Lemma Calm_emit s l : forallb dcalm l = true -> Calm s (emit s l).
  Proof. intros H. split; [apply keepc_units; reflexivity|]. exists l. split; [reflexivity|exact H]. Qed.
  Lemma Calm_plain s s' : units s' = units s -> trace s' = trace s -> Calm s s'.
  Proof. intros U T. apply Calm_Qd, Qd_plain; assumption. Qed.

  Lemma announce_calm fuel : forall ids s s', announce cfg fuel s ids = Some s' -> Calm s s'.
  Proof.
    induction ids as [|id ids IH]; intros s s' H; cbn [announce] in H.
    - inversion H; subst. apply Calm_refl.
    - destruct (Turn.step F (turn s) (@ORemove F id)) as [t' outs].
      match type of H with match run_slot _ _ (emit ?x ?e) _ _ _ with _ => _ end = _ => set (s2 := x) in *; set (ds := e) in * end.
      destruct (run_slot cfg fuel (emit s2 ds) LDeath id _) as [s3|] eqn:ER; [|discriminate].
      eapply Calm_trans; [apply (Calm_plain s (set_turn s t')); reflexivity|].
      eapply Calm_trans; [apply Calm_Qd, Qd_mod_energy|].
      eapply Calm_trans; [apply (Calm_emit s2 ds); reflexivity|].
      eapply Calm_trans; [eapply Calm_Qd, Qd_run_slot; exact ER|].
      eapply Calm_trans; [|eapply IH; exact H]. apply Calm_emit. reflexivity.
  Qed.

  Lemma death_check_calm fuel s k s' : death_check cfg fuel s k = Some s' -> Calm s s'.
  Proof.
    unfold death_check. intros H. eapply Calm_trans; [|eapply announce_calm; exact H]. apply Calm_plain; reflexivity.
  Qed.

  Lemma ult_reqs_calm : forall reqs s,
    match ult_reqs s reqs with Ok s' | Err s' | Stop s' => Calm s s' | OutOfFuel => True end.
  Proof.
    induction reqs as [|r reqs IH]; intros s; cbn [ult_reqs]; [apply Calm_refl|].
    destruct (get_unit (units s) (ur_target r)) as [u|]; [|apply Calm_refl].
    destruct (negb (uchar u)); [apply Calm_refl|].
    destruct (can_ult u); [|apply IH].
    set (m0 := enqueue s PRIO_CHAR_ACTION (ur_target r) [FLAG_STAT_CTRL; FLAG_DISABLE_ACTION] (KUlt r)).
    set (m := set_energy m0 (ur_target r) 0).
    assert (E : Calm s m) by (apply Calm_trans with m0; [apply Calm_plain; reflexivity|apply Calm_Qd, Qd_set_energy]).
    pose proof (IH m) as H. destruct (ult_reqs m reqs); auto; eapply Calm_trans; eassumption.
  Qed.

  Lemma ult_check_calm s :
    match ult_check s with Ok s' | Err s' | Stop s' => Calm s s' | OutOfFuel => True end.
  Proof.
    unfold ult_check.
    destruct (ults_q s) as [|x r];
      (match goal with |- match ult_reqs (emit ?m ?e) ?q with _ => _ end =>
         pose proof (ult_reqs_calm q (emit m e)) as H; destruct (ult_reqs (emit m e) q); auto;
         (apply Calm_trans with m; [apply Calm_plain; reflexivity|]);
         (apply Calm_trans with (emit m e); [apply Calm_emit; reflexivity|exact H]) end).
  Qed.

  Lemma exit_check_calm s : match exit_check cfg s with Ok s' | Stop s' | Err s' => Calm s s' | OutOfFuel => True end.
  Proof.
    destruct (exit_check_cases cfg s) as [E|(r & E)]; rewrite E; [apply Calm_refl|]. apply Calm_emit. reflexivity.
  Qed.

  (* ---- acceptance of a segment from every dead set compatible with its start state ---- *)
  Definition accN (n : list Z) (s s' : sim) : Prop :=
    forall seg, trace s' = trace s ++ seg -> INV s -> forall D p, DI s D -> (forall i, In i n -> ~ In i D) ->
    dec_ok cfg D p seg = true.

  Lemma accN_calm n s s' : Calm s s' -> accN n s s'.
  Proof.
    intros [_ (x & T & P)] seg Ts _ D p _ _. rewrite T in Ts. apply app_inv_head in Ts. subst seg.
    apply dec_ok_calm. exact P.
  Qed.

  Lemma accN_weaken n s s' : accN [] s s' -> accN n s s'.
  Proof. intros H seg T I D p HD _. apply (H seg T I D p HD). intros i []. Qed.

  Lemma not_dead_on_field s D p : DI s D -> In p (chars s ++ enemies s) -> ~ In p D.
  Proof. intros HD Hin Hd. destruct (HD p Hd) as (H1 & H2 & _). apply in_app_or in Hin. tauto. Qed.

  (* the checked part of an action's segment *)
  Lemma call_ok D id typ fb k p d tailq body :
    desc_of cfg id = Some d -> (k =? 3) = false -> (k =? 2) = false ->
    Bool.eqb (k =? 1) ((typ =? 1) && negb fb) = true ->
    class_ok cfg id (if k =? 1 then d_tt_skill d else d_tt_attack d) p = true ->
    ~ In p D -> forallb dquiet tailq = true -> forallb dquiet body = true ->
    dec_ok cfg D (Some (id, typ, fb)) (tailq ++ VCall k id p :: body) = true.
  Proof.
    intros Hd K3 K2 Hk Hc Hp Q1 Q2. rewrite (dec_ok_quiet_app cfg tailq _ D _ Q1).
    cbn [dec_ok]. rewrite K3, K2, Hd, Z.eqb_refl, Hk, Hc. cbn [andb].
    rewrite (proj2 (zin_false D p) Hp). cbn [negb andb]. apply dec_ok_calm, dquiet_dcalm, Q2.
  Qed.

  Lemma ult_call_ok D pe id p d tailq body :
    desc_of cfg id = Some d -> class_ok cfg id (d_tt_ult d) p = true -> ~ In p D ->
    forallb dquiet tailq = true -> forallb dquiet body = true ->
    dec_ok cfg D pe (tailq ++ VCall 2 id p :: body) = true.
  Proof.
    intros Hd Hc Hp Q1 Q2. rewrite (dec_ok_quiet_app cfg tailq _ D _ Q1).
    cbn [dec_ok]. change (2 =? 3) with false. change (2 =? 2) with true. cbn iota. rewrite Hd, Hc.
    rewrite (proj2 (zin_false D p) Hp). cbn [negb andb]. apply dec_ok_calm, dquiet_dcalm, Q2.
  Qed.

  Lemma enemy_call_ok D pe id p tailq body :
    forallb dquiet tailq = true -> forallb dquiet body = true ->
    dec_ok cfg D pe (tailq ++ VCall 3 id p :: body) = true.
  Proof.
    intros Q1 Q2. rewrite (dec_ok_quiet_app cfg tailq _ D _ Q1).
    cbn [dec_ok]. change (3 =? 3) with true. cbn iota. apply dec_ok_calm, dquiet_dcalm, Q2.
  Qed.

  (* ActionStart, the content call marker, the body, the end event *)
  Lemma action_tail_dec fuel s0 id atype ins k p sc s4 s' endev :
    dquiet endev = true ->
    pop_act cfg (emit s0 [VActionStart id atype ins]) id = (sc, s4) ->
    run_body cfg fuel (emit s4 [VCall k id p]) id p sc endev (Some LActionEnd) = Some s' ->
    keepc s0 s' /\ exists q4 body, trace s' = trace s0 ++ (VActionStart id atype ins :: q4) ++ VCall k id p :: body /\
      forallb dquiet q4 = true /\ forallb dquiet body = true.
  Proof.
    intros Hend EPA EB.
    assert (Q4 : Qd (emit s0 [VActionStart id atype ins]) s4).
    { replace s4 with (snd (pop_act cfg (emit s0 [VActionStart id atype ins]) id)) by (rewrite EPA; reflexivity).
      apply Qd_pop_act. }
    destruct Q4 as [K4 (q4 & T4 & P4)]. cbn [trace emit] in T4.
    destruct (Qd_run_body _ _ _ _ _ _ _ _ EB) as (s1 & [K1 (b & T1 & P1)] & ->). cbn [trace emit] in T1.
    split.
    { eapply keepc_trans; [|eapply keepc_trans; [exact K1|apply keepc_units; reflexivity]].
      eapply keepc_trans; [|eapply keepc_trans; [exact K4|apply keepc_units; reflexivity]]. apply keepc_units. reflexivity. }
    exists q4, (b ++ [endev]). split.
    { cbn [trace emit]. rewrite T1, T4. rewrite <- !app_assoc. cbn [app]. reflexivity. }
    split; [exact P4|]. rewrite forallb_app, P1. cbn [forallb]. rewrite Hend. reflexivity.
  Qed.

  Lemma execute_action_dec fuel s id ins :
    match execute_action cfg fuel s id ins with
    | AOk s' => keepc s s' /\ accN [id] s s'
    | AErr s' | ACrash s' => keepc s s' /\ accN [] s s'
    | AFuel => True
    end.
  Proof.
    unfold execute_action.
    destruct (get_unit (units s) id) as [u|] eqn:GU; [|split; [apply keepc_refl|apply accN_calm, Calm_refl]].
    destruct (ust u); try (split; [apply keepc_refl|apply accN_calm, Calm_refl]).
    destruct (uchar u) eqn:CU.
    - destruct (pop_next (next_q s) id) as [d q] eqn:EN.
      set (s1 := emit (set_next s q) [VNextAction id (dc_type d) (dc_eval d)]) in *.
      destruct ((dc_type d =? 1) && negb (can_skill u s1)) eqn:ED.
      + (* the skill is not affordable: the default attack *)
        apply andb_prop in ED. destruct ED as [ET _].
        set (s2 := emit s1 [VDefaultAction id]) in *.
        destruct (evaluate s2 id 100 (utt_a u)) as [p|] eqn:EV.
        2: { split; [apply keepc_units; reflexivity|]. intros seg T _ D pe _ _.
             cbn [trace emit s2 s1 set_next] in T. rewrite <- app_assoc in T. apply app_inv_head in T. subst seg.
             cbn [app dec_ok]. rewrite Z.eqb_refl, ET. reflexivity. }
        destruct (pop_act cfg _ id) as [sc s4] eqn:EPA.
        match goal with |- match (match ?x with _ => _ end) with _ => _ end => destruct x as [s6|] eqn:EB; [|exact I] end.
        destruct (Qd_mod_sp s2 (uspadd u)) as [Ksp (spseg & Tsp & Psp)].
        destruct (action_tail_dec fuel _ id ATYPE_NORMAL ins 0 p sc s4 s6 (VActionEnd id ATYPE_NORMAL ins) eq_refl EPA EB) as (Kt & q4 & body & Tt & P4 & Pb).
        split.
        { eapply keepc_trans; [|exact Kt]. eapply keepc_trans; [|exact Ksp]. apply keepc_units. reflexivity. }
        intros seg T HI D pe HD Hn. rewrite Tt, Tsp in T. cbn [trace emit s2 s1 set_next] in T.
        rewrite <- !app_assoc in T. apply app_inv_head in T. subst seg.
        cbn [app dec_ok]. rewrite Z.eqb_refl, ET. cbn [andb].
        destruct (evaluate_class s2 id u 100 (utt_a u) p HI GU CU EV) as [Hcl Hf].
        destruct (proj1 HI id u GU) as (dd & Hdd & _ & Ha & _).
        rewrite app_cons_assoc.
        apply (call_ok D id (dc_type d) true 0 p dd); try reflexivity.
        * exact Hdd.
        * rewrite ET. reflexivity.
        * change (0 =? 1) with false. cbn iota. rewrite <- Ha. exact Hcl.
        * destruct Hf as [Hf| ->]; [apply (not_dead_on_field s D p HD Hf)|apply Hn; left; reflexivity].
        * rewrite forallb_app, Psp. cbn [forallb dquiet]. exact P4.
        * exact Pb.
      + destruct (evaluate s1 id (dc_eval d) (if dc_type d =? 1 then utt_s u else utt_a u)) as [p|] eqn:EV.
        2: { split; [apply keepc_units; reflexivity|]. intros seg T _ D pe _ _.
             cbn [trace emit s1 set_next] in T. apply app_inv_head in T. subst seg. reflexivity. }
        destruct (pop_act cfg _ id) as [sc s4] eqn:EPA.
        match goal with |- match (match ?x with _ => _ end) with _ => _ end => destruct x as [s6|] eqn:EB; [|exact I] end.
        set (delta := if dc_type d =? 1 then - uspneed u else uspadd u) in *.
        set (atype := if dc_type d =? 1 then ATYPE_SKILL else ATYPE_NORMAL) in *.
        set (k := if dc_type d =? 1 then 1 else 0) in *.
        destruct (Qd_mod_sp s1 delta) as [Ksp (spseg & Tsp & Psp)].
        destruct (action_tail_dec fuel _ id atype ins k p sc s4 s6 (VActionEnd id atype ins) eq_refl EPA EB) as (Kt & q4 & body & Tt & P4 & Pb).
        split.
        { eapply keepc_trans; [|exact Kt]. eapply keepc_trans; [|exact Ksp]. apply keepc_units. reflexivity. }
        intros seg T HI D pe HD Hn. rewrite Tt, Tsp in T. cbn [trace emit s1 set_next] in T.
        rewrite <- !app_assoc in T. apply app_inv_head in T. subst seg.
        cbn [app dec_ok].
        destruct (evaluate_class s1 id u _ _ p HI GU CU EV) as [Hcl Hf].
        destruct (proj1 HI id u GU) as (dd & Hdd & _ & Ha & Hs & _).
        rewrite app_cons_assoc.
        apply (call_ok D id (dc_type d) false k p dd).
        * exact Hdd.
        * unfold k. destruct (dc_type d =? 1); reflexivity.
        * unfold k. destruct (dc_type d =? 1); reflexivity.
        * unfold k. destruct (dc_type d =? 1); reflexivity.
        * unfold k. destruct (dc_type d =? 1); cbn [Z.eqb Pos.eqb]; [rewrite <- Hs|rewrite <- Ha]; exact Hcl.
        * destruct Hf as [Hf| ->]; [apply (not_dead_on_field s D p HD Hf)|apply Hn; left; reflexivity].
        * rewrite forallb_app, Psp. cbn [forallb dquiet]. exact P4.
        * exact Pb.
    - destruct (chars s); [split; [apply keepc_refl|apply accN_calm, Calm_refl]|].
      destruct (pop_act cfg _ id) as [sc s4] eqn:EPA.
      match goal with |- match (match ?x with _ => _ end) with _ => _ end => destruct x as [s6|] eqn:EB; [|exact I] end.
      destruct (Qd_mod_sp s 0) as [Ksp (spseg & Tsp & Psp)].
      destruct (action_tail_dec fuel _ id ATYPE_NORMAL ins 3 0 sc s4 s6 (VActionEnd id ATYPE_NORMAL ins) eq_refl EPA EB) as (Kt & q4 & body & Tt & P4 & Pb).
      split; [eapply keepc_trans; [exact Ksp|exact Kt]|].
      intros seg T HI D pe HD Hn. rewrite Tt, Tsp in T. rewrite <- !app_assoc in T. apply app_inv_head in T. subst seg.
      rewrite app_assoc. apply enemy_call_ok; [|exact Pb].
      rewrite forallb_app, Psp. cbn [forallb dquiet]. exact P4.
  Qed.

  Lemma execute_ult_dec fuel s r :
    match execute_ult cfg fuel s r with
    | AOk s' => keepc s s' /\ accN [ur_target r] s s'
    | AErr _ | ACrash _ => False
    | AFuel => True
    end.
  Proof.
    unfold execute_ult.
    destruct (get_unit (units s) (ur_target r)) as [u|] eqn:GU; [|split; [apply keepc_refl|apply accN_calm, Calm_refl]].
    destruct (negb (uchar u)) eqn:CU; [split; [apply keepc_refl|apply accN_calm, Calm_refl]|].
    apply negb_false_iff in CU.
    destruct (negb (ur_type r =? 3)); [split; [apply keepc_refl|apply accN_calm, Calm_refl]|].
    destruct (evaluate s (ur_target r) (ur_eval r) (utt_u u)) as [p|] eqn:EV; [|split; [apply keepc_refl|apply accN_calm, Calm_refl]].
    destruct (pop_act cfg _ (ur_target r)) as [sc s4] eqn:EPA.
    match goal with |- match (match ?x with _ => _ end) with _ => _ end => destruct x as [s6|] eqn:EB; [|exact I] end.
    destruct (action_tail_dec fuel s (ur_target r) ATYPE_ULT true 2 p sc s4 s6 (VActionEnd (ur_target r) ATYPE_ULT true) eq_refl EPA EB)
      as (Kt & q4 & body & Tt & P4 & Pb).
    split; [exact Kt|].
    intros seg T HI D pe HD Hn. rewrite Tt in T. apply app_inv_head in T. subst seg.
    destruct (evaluate_class s (ur_target r) u _ _ p HI GU CU EV) as [Hcl Hf].
    destruct (proj1 HI _ u GU) as (dd & Hdd & _ & _ & _ & Hu).
    apply (ult_call_ok D pe (ur_target r) p dd); [exact Hdd|rewrite <- Hu; exact Hcl| |exact P4|exact Pb].
    destruct Hf as [Hf| ->]; [apply (not_dead_on_field s D p HD Hf)|apply Hn; left; reflexivity].
  Qed.

  Lemma execute_task_dec fuel s t :
    match execute_task cfg fuel s t with
    | AOk s' => keepc s s' /\ accN [t_src t] s s'
    | AErr s' | ACrash s' => keepc s s' /\ accN [] s s'
    | AFuel => True
    end.
  Proof.
    unfold execute_task. destruct (t_kind t) as [key prio abort body| |r].
    - match goal with |- match (match ?x with _ => _ end) with _ => _ end => destruct x as [s2|] eqn:EB; [|exact I] end.
      destruct (Qd_run_body _ _ _ _ _ _ _ _ EB) as (s1 & Q1 & ->).
      assert (C : Calm s (emit s1 [VInsertEnd key (t_src t) prio])).
      { eapply Calm_trans; [apply (Calm_emit s [VInsertStart key (t_src t) prio]); reflexivity|].
        eapply Calm_trans; [apply Calm_Qd; exact Q1|]. apply Calm_emit. reflexivity. }
      split; [exact (proj1 C)|apply accN_calm; exact C].
    - pose proof (execute_action_dec fuel s (t_src t) true) as HA.
      destruct (execute_action cfg fuel s (t_src t) true); auto.
      destruct HA as [K A0]. split; [exact K|apply accN_weaken; exact A0].
    - pose proof (execute_ult_dec fuel s (mkUR (t_src t) (ur_type r) (ur_eval r))) as HU.
      destruct (execute_ult cfg fuel s _); auto; contradiction.
  Qed.

  (* ---- the loop level: C08's relation, static fields kept, every segment accepted ---- *)
  Definition ACC (s s' : sim) : Prop :=
    forall seg, trace s' = trace s ++ seg -> NoDup (turn_ids s) -> NoDup (chars s ++ enemies s) -> INV s ->
    forall D p, DI s D -> dec_ok cfg D p seg = true.

  Definition A (kl : bool) (s s' : sim) : Prop := lrel kl s s' /\ keepc s s' /\ ACC s s'.

  Lemma A_refl kl s : A kl s s.
  Proof.
    split; [apply lrel_refl|]. split; [apply keepc_refl|].
    intros seg T _ _ _ D p _. rewrite <- (app_nil_r (trace s)) in T at 1. apply app_inv_head in T. subst seg. reflexivity.
  Qed.

  Lemma INV_rel kl s s' seg : rel kl s s' seg -> keepc s s' -> INV s -> INV s'.
  Proof. intros R K. apply INV_keep; [exact K|apply (r_chars _ _ _ _ R)|apply (r_enemies _ _ _ _ R)]. Qed.

  Lemma A_trans kl a b c : A kl a b -> A kl b c -> A kl a c.
  Proof.
    intros ((x & Rx) & K1 & A1) ((y & Ry) & K2 & A2).
    split; [exists (x ++ y); eapply rel_trans; eassumption|]. split; [eapply keepc_trans; eassumption|].
    intros seg T Hn Hl HI D p HD.
    rewrite (r_trace _ _ _ _ Ry), (r_trace _ _ _ _ Rx), <- app_assoc in T. apply app_inv_head in T. subst seg.
    rewrite dec_ok_app. apply andb_true_intro. split.
    - apply (A1 x (r_trace _ _ _ _ Rx) Hn Hl HI D p HD).
    - apply (A2 y (r_trace _ _ _ _ Ry)).
      + apply (r_nodup _ _ _ _ Rx Hn).
      + apply (r_nodup_l _ _ _ _ Rx Hl).
      + eapply INV_rel; eassumption.
      + eapply DI_after; eassumption.
  Qed.

  Lemma A_weaken kl s s' : A false s s' -> A kl s s'.
  Proof. intros (L & K & C). split; [apply lrel_weaken; exact L|]. split; assumption. Qed.

  Lemma A_calm kl s s' : lrel kl s s' -> Calm s s' -> A kl s s'.
  Proof.
    intros L C. split; [exact L|]. split; [exact (proj1 C)|].
    intros seg T _ _ HI D p HD. apply (accN_calm [] s s' C seg T HI D p HD). intros i [].
  Qed.

  Lemma A_accN kl n s s' : srelN n s s' -> (forall i, In i n -> In i (chars s) \/ In i (enemies s) \/ In i (turn_ids s)) ->
    keepc s s' -> accN n s s' -> A kl s s'.
  Proof.
    intros S Hn K C. split; [eapply srelN_lrel; eassumption|]. split; [exact K|].
    intros seg T _ _ HI D p HD. apply (C seg T HI D p HD).
    intros i Hi HiD. destruct (HD i HiD) as (H1 & H2 & H3). destruct (Hn i Hi) as [Q|[Q|Q]]; contradiction.
  Qed.

  Lemma A_emit kl s l : forallb dneutral l = true -> forallb dcalm l = true -> A kl s (emit s l).
  Proof. intros H1 H2. apply A_calm; [apply srel_lrel, srel_emit_neutral, H1|apply Calm_emit, H2]. Qed.

  Lemma A_run_slot kl fuel s x self p s' : run_slot cfg fuel s x self p = Some s' -> A kl s s'.
  Proof. intros H. apply A_calm; [apply srel_lrel; eapply srel_run_slot; exact H|eapply Calm_Qd, Qd_run_slot; exact H]. Qed.

  Lemma A_death_check fuel s kl s' : death_check cfg fuel s kl = Some s' -> A kl s s'.
  Proof. intros H. apply A_calm; [eapply death_check_rel; exact H|eapply death_check_calm; exact H]. Qed.

  Definition gA (kl : bool) (s : sim) (o : outcome) : Prop :=
    match o with Ok s' | Stop s' | Err s' => A kl s s' | OutOfFuel => True end.

  Lemma gA_after kl s s1 o : A kl s s1 -> gA kl s1 o -> gA kl s o.
  Proof. intros L H. destruct o; cbn [gA] in *; auto; eapply A_trans; eassumption. Qed.
  Lemma gA_weaken kl s o : gA false s o -> gA kl s o.
  Proof. destruct o; cbn [gA]; auto; apply A_weaken. Qed.

  Lemma ult_check_A kl s :
    match ult_check s with Ok s' | Err s' => A kl s s' | Stop _ => False | OutOfFuel => True end.
  Proof.
    pose proof (ult_check_srel s) as H1. pose proof (ult_check_calm s) as H2.
    destruct (ult_check s); auto; apply A_calm; auto; apply srel_lrel; exact H1.
  Qed.

  Lemma exit_check_A kl s : gA kl s (exit_check cfg s).
  Proof.
    pose proof (exit_check_srel cfg s _ eq_refl) as H1. pose proof (exit_check_calm s) as H2.
    destruct (exit_check cfg s); cbn [gA]; auto; try contradiction.
    - subst. apply A_refl.
    - apply A_calm; [apply srel_lrel; exact H1|exact H2].
  Qed.

  Lemma pop_A kl s t s1 : pop s = Some (t, s1) -> A kl s s1.
  Proof.
    intros H. apply A_calm; [apply srel_lrel; eapply pop_srel; exact H|].
    unfold pop in H. destruct (queue s); [discriminate|]. inversion H; subst. apply Calm_plain; reflexivity.
  Qed.

  Lemma drain_A : forall fuel s, gA false s (drain cfg fuel s).
  Proof.
    induction fuel as [|f IH]; intros s; cbn [drain]; [exact I|].
    destruct (pop s) as [[t s1]|] eqn:EP; [|apply A_refl].
    pose proof (pop_A false _ _ _ EP) as L1.
    assert (Hrec : gA false s (drain cfg f s1)) by (eapply gA_after; [exact L1|apply IH]).
    destruct (_ || _); [apply exit_check_A|].
    destruct (match state_of s1 (t_src t) with Some Dead => true | _ => false end); [exact Hrec|].
    destruct (existsb (Z.eqb (t_src t)) (chars s1 ++ enemies s1)) eqn:EX; cbn [negb]; [|exact Hrec].
    destruct (has_flag s1 (t_src t) (t_abort t)); [exact Hrec|].
    pose proof (execute_task_srel cfg f s1 t) as HT. pose proof (execute_task_dec f s1 t) as HD.
    assert (Hsrc : forall i, In i [t_src t] -> In i (chars s1) \/ In i (enemies s1) \/ In i (turn_ids s1)).
    { intros i [<-|[]]. apply existsb_eqb_in in EX. apply in_app_or in EX. tauto. }
    destruct (execute_task cfg f s1 t) as [s2|s2|s2|] eqn:ET; cbn [gA]; auto;
      try (eapply A_trans; [exact L1|]; destruct HD as [K C]; apply (A_accN false [] s1 s2 HT); [intros i []|exact K|exact C]).
    assert (L2 : A false s1 s2) by (destruct HD as [K C]; apply (A_accN false [t_src t] s1 s2 HT Hsrc K C)).
    destruct (death_check cfg f s2 false) as [s3|] eqn:ED; cbn [gA]; auto.
    pose proof (A_death_check _ _ _ _ ED) as L3.
    assert (L13 : A false s s3) by (eapply A_trans; [exact L1|]; eapply A_trans; eassumption).
    eapply gA_after; [exact L13|].
    pose proof (exit_check_A false s3) as HE.
    destruct (exit_check_cases cfg s3) as [E|(r & E)]; rewrite E in *; [|exact HE].
    pose proof (ult_check_A false s3) as HU. destruct (ult_check s3) as [s5|s5|s5|]; cbn [gA]; auto; try contradiction.
    eapply gA_after; [exact HU|apply IH].
  Qed.

  Lemma execute_queue_A fuel s b : gA false s (execute_queue cfg fuel s b).
  Proof.
    unfold execute_queue. pose proof (ult_check_A false s) as HU.
    destruct (ult_check s) as [s1|s1|s1|]; cbn [gA]; auto; try contradiction.
    destruct (b && negb (is_char s1 (active_id s1))); (eapply gA_after; [exact HU|]); [apply exit_check_A|apply drain_A].
  Qed.

  (* ---- a turn ---- *)
  Lemma reset_events_calm outs : forallb dcalm (reset_events outs ++ [VPhase2Start]) = true.
  Proof.
    rewrite forallb_app. cbn [forallb dcalm]. rewrite !andb_true_r. unfold reset_events.
    induction outs as [|o r IH]; [reflexivity|]. cbn [flat_map]. rewrite forallb_app, IH, andb_true_r. destruct o; reflexivity.
  Qed.

  Lemma phase2_A fuel s : gA true s (phase2 cfg fuel s).
  Proof.
    unfold phase2. pose proof (srel_reset s) as SR.
    destruct (Turn.step F (turn s) (@OReset F)) as [t2 outs2].
    set (s1 := emit (set_turn s t2) _) in *.
    assert (E1 : A true s s1).
    { apply A_calm; [apply srel_lrel; exact SR|].
      eapply Calm_trans; [apply (Calm_plain s (set_turn s t2)); reflexivity|apply Calm_emit, reset_events_calm]. }
    eapply gA_after; [exact E1|].
    pose proof (execute_queue_A fuel s1 false) as HQ.
    destruct (execute_queue cfg fuel s1 false) as [s6|s6|s6|]; cbn [gA] in *; auto; try (apply A_weaken; exact HQ).
    destruct (run_slot cfg fuel s6 LPhase2 (active_id s6) (active_id s6)) as [s6'|] eqn:ER2; cbn [gA]; auto.
    destruct (death_check cfg fuel (emit s6' [VPhase2End]) true) as [s8|] eqn:ED; cbn [gA]; auto.
    eapply gA_after; [|apply exit_check_A].
    eapply A_trans; [apply A_weaken; exact HQ|].
    eapply A_trans; [eapply A_run_slot; exact ER2|].
    eapply A_trans; [apply (A_emit true s6' [VPhase2End]); reflexivity|].
    eapply A_trans; [eapply A_death_check; exact ED|].
    apply A_calm; [apply srel_lrel, srel_turnend|apply Calm_emit; reflexivity].
  Qed.

  Lemma one_turn_A fuel s : NoDup (turn_ids s) -> gA true s (one_turn cfg fuel s).
  Proof.
    intros Hn. unfold one_turn.
    destruct (Turn.step F (turn s) (@OStart F)) as [t' outs] eqn:ES.
    destruct outs as [|o [|? ?]]; [apply A_refl| |destruct o; apply A_refl]. destruct o; try apply A_refl.
    destruct (match get_unit (units s) id with Some _ => false | None => true end); [apply A_refl|].
    destruct (srel_turn_start s t' id av st tot ES) as [S1 Hid]. specialize (Hid Hn).
    set (s1 := emit (set_active (set_turn s t') id) _) in *.
    assert (Hn1 : NoDup (turn_ids s1)) by (destruct S1 as (? & _ & _ & _ & _ & U & _); apply U; exact Hn).
    assert (Hid1 : In id (turn_ids s1)) by exact Hid.
    assert (E1 : A true s s1).
    { apply A_calm; [apply srel_lrel; exact S1|].
      eapply Calm_trans; [apply (Calm_plain s (set_active (set_turn s t') id)); reflexivity|apply Calm_emit; reflexivity]. }
    eapply gA_after; [exact E1|].
    destruct (run_slot cfg fuel (emit s1 [VPhase1Start]) LPhase1 id id) as [s2|] eqn:ER1; cbn [gA]; auto.
    destruct (death_check cfg fuel s2 false) as [s3|] eqn:ED; cbn [gA]; auto.
    assert (L13 : A false s1 s3).
    { eapply A_trans; [apply (A_emit false s1 [VPhase1Start]); reflexivity|].
      eapply A_trans; [eapply A_run_slot; exact ER1|]. eapply A_death_check. exact ED. }
    destruct (has_flag s3 id [FLAG_DISABLE_ACTION]).
    { eapply gA_after; [apply A_weaken; exact L13|apply phase2_A]. }
    destruct (is_enemy s3 id && has_flag s3 id [FLAG_BREAK_EXTEND]).
    { eapply gA_after; [apply A_weaken; exact L13|].
      eapply gA_after; [apply (A_emit true s3 [VBreakExtend id]); reflexivity|apply phase2_A]. }
    pose proof (execute_queue_A fuel s3 true) as HQ.
    destruct (execute_queue cfg fuel s3 true) as [s4|s4|s4|]; cbn [gA] in *; auto;
      try (apply A_weaken; eapply A_trans; eassumption).
    set (s4' := emit s4 [VPhase1End]).
    assert (L14 : A false s1 s4').
    { eapply A_trans; [exact L13|]. eapply A_trans; [exact HQ|]. apply A_emit; reflexivity. }
    pose proof (execute_action_srel cfg fuel s4' id false) as HA.
    pose proof (execute_action_dec fuel s4' id false) as HD.
    destruct (execute_action cfg fuel s4' id false) as [s5|s5|s5|] eqn:EA; cbn [gA]; auto;
      try (apply A_weaken; eapply A_trans; [exact L14|]; destruct HD as [K C]; apply (A_accN false [] s4' s5 (srelN_weaken [] _ _ HA)); [intros i []|exact K|exact C]).
    assert (L45 : A false s4' s5).
    { destruct L14 as ((x & R) & _ & _).
      destruct (r_turn_keep _ _ _ _ R Hn1 id Hid1) as [Q|Q].
      - destruct HD as [K C]. apply (A_accN false [id] s4' s5 HA); [intros i [<-|[]]; right; right; exact Q|exact K|exact C].
      - pose proof (r_ann_gone _ _ _ _ R eq_refl id Q) as Hg.
        rewrite (execute_action_gone cfg fuel s4' id false Hg) in EA. inversion EA; subst. apply A_refl. }
    destruct (death_check cfg fuel s5 false) as [s5'|] eqn:ED2; cbn [gA]; auto.
    eapply gA_after; [|apply phase2_A]. apply A_weaken.
    eapply A_trans; [exact L14|]. eapply A_trans; [exact L45|]. eapply A_death_check. exact ED2.
  Qed.

  Lemma turns_A : forall fuel s, NoDup (turn_ids s) -> gA true s (turns cfg fuel s).
  Proof.
    induction fuel as [|f IH]; intros s Hn; cbn [turns]; [exact I|].
    pose proof (one_turn_A f s Hn) as H1.
    destruct (one_turn cfg f s) as [s'|s'|s'|]; cbn [gA] in *; auto.
    eapply gA_after; [exact H1|]. apply IH. destruct H1 as ((x & R) & _). apply (r_nodup _ _ _ _ R Hn).
  Qed.
End Decision.

(* ------------------------------------------------------------------ *)
(* The initial state                                                    *)
(* ------------------------------------------------------------------ *)
Lemma mk_units_desc : forall ds i id u, get_unit (mk_units ds i) id = Some u ->
  exists d, nth_error ds (Z.to_nat (id - i)) = Some d /\ i <= id /\ uchar u = d_char d /\
            utt_a u = d_tt_attack d /\ utt_s u = d_tt_skill d /\ utt_u u = d_tt_ult d.
Proof.
  induction ds as [|d ds IH]; intros i id u; cbn [mk_units get_unit]; [discriminate|].
  cbn [uid]. destruct (i =? id) eqn:E.
  - apply Z.eqb_eq in E. subst id. intros H. inversion H; subst. exists d.
    rewrite Z.sub_diag. cbn. repeat split; try reflexivity; lia.
  - apply Z.eqb_neq in E. intros H. destruct (IH _ _ _ H) as (d' & N & L & R). exists d'.
    split; [|split; [lia|exact R]].
    replace (Z.to_nat (id - i)) with (S (Z.to_nat (id - (i + 1)))) by lia. exact N.
Qed.

Lemma get_unit_in : forall us u, NoDup (map uid us) -> In u us -> get_unit us (uid u) = Some u.
Proof.
  induction us as [|x us IH]; intros u Hn Hin; [destruct Hin|]. cbn [get_unit].
  cbn [map] in Hn. inversion Hn as [|? ? Hni Hn']; subst. destruct Hin as [->|Hin].
  - rewrite Z.eqb_refl. reflexivity.
  - destruct (uid x =? uid u) eqn:E; [|apply IH; assumption].
    apply Z.eqb_eq in E. exfalso. apply Hni. rewrite E. apply in_map. exact Hin.
Qed.

Section Run.
  Variable cfg : config.

  Lemma start_A fuel s : start cfg fuel = Stop s \/ start cfg fuel = Err s ->
    exists s0 cs es o, A cfg true s0 s /\ trace s0 = [VInitialize; VCharactersAdded cs; VEnemiesAdded es; VTurnTargetsAdded o] /\
      NoDup (turn_ids s0) /\ NoDup (chars s0 ++ enemies s0) /\ INV cfg s0.
  Proof.
    unfold start.
    set (us := mk_units (c_units cfg) 1).
    set (cs := map uid (filter uchar us)). set (es := map uid (filter (fun u => negb (uchar u)) us)).
    set (l := map (fun id => (id, Turn.lookup F _ id)) (cs ++ es)).
    pose proof (add_ids l) as PA.
    destruct (Turn.step F (Turn.init F) (@OAdd F l)) as [t1 outs] eqn:EA. cbn [fst] in PA.
    set (s0 := mkSim us cs es 3 t1 [] 0 0 None _ _ _ _ _ _).
    assert (Hl : NoDup (chars s0 ++ enemies s0)).
    { cbn [chars enemies s0]. eapply Permutation_NoDup; [apply Permutation_sym, (partition_perm uchar us)|apply mk_units_nodup]. }
    assert (Hn : NoDup (turn_ids s0)).
    { unfold turn_ids. cbn [turn s0]. eapply Permutation_NoDup; [apply Permutation_sym; exact PA|].
      unfold l. rewrite map_map. cbn [fst]. rewrite map_id. exact Hl. }
    assert (HI : INV cfg s0).
    { split.
      - intros id u G. cbn [units s0] in G. destruct (mk_units_desc _ _ _ _ G) as (d & N & _ & R).
        exists d. split; [exact N|exact R].
      - split; intros id Hin; cbn [chars enemies units s0] in *; apply in_map_iff in Hin;
          destruct Hin as (u & <- & Hu); apply filter_In in Hu; destruct Hu as [Hu Hc]; exists u;
          (split; [apply get_unit_in; [apply mk_units_nodup|exact Hu]|]).
        + exact Hc.
        + apply negb_true_iff. exact Hc. }
    set (rest := match run_slot cfg fuel s0 LBattle 0 0 with Some s1 => _ | None => OutOfFuel end).
    assert (G : gA cfg true s0 rest).
    { unfold rest. destruct (run_slot cfg fuel s0 LBattle 0 0) as [s1|] eqn:ER; [|exact I].
      assert (L1 : A cfg true s0 (emit s1 [VBattleStart])).
      { eapply A_trans; [eapply A_run_slot; exact ER|]. apply A_emit; reflexivity. }
      eapply gA_after; [exact L1|].
      pose proof (execute_queue_A cfg fuel (emit s1 [VBattleStart]) true) as HQ.
      destruct (execute_queue cfg fuel (emit s1 [VBattleStart]) true) as [s2|s2|s2|]; try (apply gA_weaken; exact HQ).
      eapply gA_after; [apply A_weaken; exact HQ|]. apply turns_A.
      assert (L : A cfg true s0 s2) by (eapply A_trans; [exact L1|apply A_weaken; exact HQ]).
      destruct L as ((x & R) & _). apply (r_nodup _ _ _ _ R Hn). }
    intros H. exists s0, cs, es, (map u_id (order t1)).
    split; [destruct H as [H|H]; rewrite H in G; exact G|]. split; [reflexivity|]. auto.
  Qed.

  (* every run that ends, with a result or with an error return, is accepted by the decision monitor *)
  Definition C11_trace_statement : Prop := forall fuel s,
    start cfg fuel = Stop s \/ start cfg fuel = Err s -> decision_ok cfg (trace s) = true.

  Theorem C11_trace_holds : C11_trace_statement.
  Proof.
    intros fuel s H. destruct (start_A fuel s H) as (s0 & cs & es & o & (L & K & C) & T0 & Hn & Hl & HI).
    destruct L as (seg & R). unfold decision_ok. rewrite dec_ok_eq, (r_trace _ _ _ _ R), T0.
    cbn [app dec_ok]. apply (C seg (r_trace _ _ _ _ R) Hn Hl HI). intros id [].
  Qed.
End Run.

(* ------------------------------------------------------------------ *)
(* LowestHP / LowestHPRatio: first among equals                         *)
(* ------------------------------------------------------------------ *)
(* p is in the list, everything before it has a strictly larger key, nothing after it a smaller one *)
Definition lowest_first (key : Z -> float) (cands : list Z) (p : Z) : Prop :=
  exists pre post, cands = pre ++ p :: post /\
    (forall y, In y pre -> PrimFloat.ltb (key p) (key y) = true) /\
    (forall y, In y post -> PrimFloat.ltb (key y) (key p) = false).

Lemma ltb_irrefl x : PrimFloat.ltb x x = false.
Proof.
  destruct (PrimFloat.ltb x x) eqn:E; [|reflexivity]. exfalso. revert E.
  rewrite Flocq.IEEE754.PrimFloat.ltb_equiv.
  destruct (Flocq.IEEE754.PrimFloat.Prim2B x) as [sx|[]| |[] mx ex Hx]; cbn; try discriminate;
    unfold Flocq.IEEE754.BinarySingleNaN.Bltb, SpecFloat.SFltb; cbn;
    rewrite ?Z.compare_refl, ?Pos.compare_cont_refl; cbn; discriminate.
Qed.

Lemma ltb_leb x y : PrimFloat.ltb x y = true -> PrimFloat.leb x y = true.
Proof.
  intros H. destruct (ltb_nn _ _ H) as [Nx Ny].
  destruct (PrimFloat.leb x y) eqn:E; [reflexivity|].
  pose proof (leb_false_leb x y Nx Ny E) as H1.
  pose proof (ltb_leb_trans _ _ _ H H1) as H2. rewrite ltb_irrefl in H2. discriminate.
Qed.

Lemma argmin_first (key : Z -> float) : forall l b, (forall y, In y (b :: l) -> nn (key y)) ->
  lowest_first key (b :: l) (argmin key b (key b) l).
Proof.
  induction l as [|c r IH]; intros b Hnn; cbn [argmin].
  - exists [], []. split; [reflexivity|]. split; intros y [].
  - destruct (PrimFloat.ltb (key c) (key b)) eqn:E.
    + destruct (IH c) as (pre & post & Eq & Hpre & Hpost); [intros y Hy; apply Hnn; right; exact Hy|].
      exists (b :: pre), post. split; [cbn [app]; rewrite Eq; reflexivity|]. split; [|exact Hpost].
      intros y [<-|Hy]; [|apply Hpre; exact Hy].
      destruct pre as [|c' pre'].
      * cbn [app] in Eq. injection Eq as Em Er. rewrite <- Em. exact E.
      * cbn [app] in Eq. injection Eq as Em Er. subst c'.
        pose proof (Hpre c (or_introl eq_refl)) as H1.
        apply (ltb_leb_trans _ _ _ H1). apply ltb_leb. exact E.
    + destruct (IH b) as (pre & post & Eq & Hpre & Hpost); [intros y [<-|Hy]; apply Hnn; [left; reflexivity|right; right; exact Hy]|].
      destruct pre as [|b' pre'].
      * cbn [app] in Eq. injection Eq as Em Er. exists [], (c :: post).
        split; [cbn [app]; rewrite <- Em, <- Er; reflexivity|]. split; [intros y []|].
        intros y [<-|Hy]; [rewrite <- Em; exact E|apply Hpost; exact Hy].
      * cbn [app] in Eq. injection Eq as Eb Er. subst b'.
        exists (b :: c :: pre'), post. split; [cbn [app]; do 2 f_equal; exact Er|]. split; [|exact Hpost].
        intros y [<-|[<-|Hy]].
        -- apply Hpre. left. reflexivity.
        -- pose proof (Hpre b (or_introl eq_refl)) as H1.
           apply (ltb_leb_trans _ _ _ H1). apply ltb_false_leb; [apply Hnn; right; left; reflexivity|apply Hnn; left; reflexivity|exact E].
        -- apply Hpre. right. exact Hy.
Qed.

(* a target chosen by LowestHP (101) / LowestHPRatio (102) is the first of the candidates with
   the smallest key, when no candidate's key is NaN; in particular it is a minimiser *)
Definition C11_lowest_first_statement : Prop := forall s src evl tt p cands,
  evaluate s src evl tt = Some p -> candidates s src tt = Some cands ->
  (evl = 101 -> (forall y, In y cands -> nn (cur_hp s y)) ->
     lowest_first (cur_hp s) cands p /\ forall y, In y cands -> PrimFloat.ltb (cur_hp s y) (cur_hp s p) = false) /\
  (evl = 102 -> (forall y, In y cands -> nn (hp_ratio s y)) ->
     lowest_first (hp_ratio s) cands p /\ forall y, In y cands -> PrimFloat.ltb (hp_ratio s y) (hp_ratio s p) = false).

Lemma lowest_first_min key cands p : lowest_first key cands p ->
  forall y, In y cands -> PrimFloat.ltb (key y) (key p) = false.
Proof.
  intros (pre & post & -> & Hpre & Hpost) y Hy. apply in_app_or in Hy. destruct Hy as [Hy|[Hy|Hy]].
  - pose proof (Hpre y Hy) as H. destruct (PrimFloat.ltb (key y) (key p)) eqn:E; [|reflexivity].
    pose proof (ltb_leb_trans _ _ _ H (ltb_leb _ _ E)) as H2. rewrite ltb_irrefl in H2. discriminate.
  - subst y. apply ltb_irrefl.
  - apply Hpost. exact Hy.
Qed.

Theorem C11_lowest_first_holds : C11_lowest_first_statement.
Proof.
  intros s src evl tt p cands EV EC. unfold evaluate in EV. rewrite EC in EV.
  split; intros -> Hnn; cbn [Z.eqb Pos.eqb orb] in EV.
  - assert (LF : lowest_first (cur_hp s) cands p).
    { destruct cands as [|x [|y r]]; [discriminate| |].
      - inversion EV; subst. exists [], []. split; [reflexivity|]. split; intros z [].
      - inversion EV; subst. apply argmin_first. exact Hnn. }
    split; [exact LF|apply lowest_first_min; exact LF].
  - assert (LF : lowest_first (hp_ratio s) cands p).
    { destruct cands as [|x [|y r]]; [discriminate| |].
      - inversion EV; subst. exists [], []. split; [reflexivity|]. split; intros z [].
      - inversion EV; subst. apply argmin_first. exact Hnn. }
    split; [exact LF|apply lowest_first_min; exact LF].
Qed.

(* non-vacuity witness for the Lowest* rules: two enemies with equal HP (the first is chosen), then
   the second enemy is damaged and is chosen by LowestHP and by LowestHPRatio *)
Definition demo_cfg11 : config :=
  mkCfg
    [mkUD 0 true 100 1000 100 0 1 1 TEnemies TEnemies TEnemies [0%nat; 0%nat; 0%nat] [] [];
     mkUD 100 false 50 500 0 0 0 0 TEnemies TEnemies TEnemies [] [] [];
     mkUD 100 false 50 500 0 0 0 0 TEnemies TEnemies TEnemies [] [] []]
    [[SAttack 3 [TId 3] true 10]]
    [(1, [mkDec 0 101; mkDec 0 101; mkDec 0 102])] [] [] [] [] [] [] [] [] [] 3 4.
