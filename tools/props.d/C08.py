CONFIG = {
    "id": "C08",
    "coq_targets": ["Model/DispatchInterp.v", "Gen/DispatchTable.v", "Proofs/DispatchTableProofs.v", "Props/C08.v", "Model/SimCheck.v", "Model/DispatchCheck.v"],
    "prop_files": ["Props/C08.v"],
    "gen": ["DispatchTable"],
    "components": [{
        "name": "sim", "modules": ["Base.NumOps", "Model.Turn", "Model.Sim", "Model.SimCheck"],
        "check": "check_case", "monitor": "monitor_c08", "model_out": "monitor_detail",
        "case_type": "case", "ops_path": None, "mismatch_is_violation": False,
        "n_quick": 900, "n_thorough": 12000, "shard": 150,
    }, {
        # the modifier manager's listener dispatch for the death path: HPChange, LimboWaitHeal (the walk ends with
        # the FIRST callback answering true, the verdict is the disjunction), TargetDeath (Model/Dispatch.v, shared
        # with C04: tools/props.d/C04.py describes the component)
        "name": "dispatch_hit",
        "modules": ["Model.Dispatch", "Model.DispatchSpec", "Model.DispatchCheck"],
        "check": "check_case", "monitor": "monitor_case", "model_out": "model_out",
        "case_type": "case", "ops_path": [3],
        "n_quick": 300, "n_thorough": 8000, "shard": 100,
    }],
    "rule": "scripted battles on the REAL simulation.Simulation: 1-4 registered harness characters (6 kinds: speeds, SP "
            "costs, target types, a Skill.CanUse / Ult.CanUse check of their own), 1-5 harness enemies (HP 50-400, speeds incl. ties), 5-14 content scripts of engine calls "
            "(attacks qualified/unqualified with lethal and scratch damage on any unit incl. dead and unknown ids, SetHP, "
            "insert abilities with real priorities and abort flags, extra actions, energy, SP, flag modifiers, gauge "
            "changes, revive switches, samples of Characters()/Enemies()/turn order), per-unit action queues, listener "
            "slots (BattleStart, ActionEnd, HitEnd, TargetDeath, HPChange, AttackStart, the OnPhase1 / OnPhase2 modifier "
            "ticks, LimboWaitHeal verdict), decision sequences of the "
            "script callbacks incl. invalid targets and ult requests, cycle limit 0-4, insert budget 0-12; distinct = "
            "distinct input term",
    "trusted": [
        'listener dispatch, TRANSLATED from the Go source on every run (go2coq DispatchTable -> Gen/DispatchTable.v; interpreter Model/DispatchInterp.v; Proofs/DispatchTableProofs.v; theorem C08_dispatch_is_the_source): the Subscribe wiring of (*Manager).subscribe (which event field of event.System is wired to which method, with which priority; the function is the only one of the package calling Subscribe and is called exactly once) and, for each of the 18 subscribed methods of listener.go, the locals `qualified := e...IsQualified()` / `snapshot := e...UseSnapshot` (field paths), the walks `for _, mod := range mgr.itr(<role expression>)` resp. `for _, t := range e.Targets { for _, mod := range mgr.itr(t) ... }` in source order, per walk whether `if snapshot && !mod.modifySnapshot { continue }` guards the body, the callbacks `f := mod.listeners.K; if f != nil [&& qualified] { f(mod [, e | e.Target]) }` in source order, the early `if result { return true }` and the closing `return false` of limboWaitHeal, and the field list of modifier.Listeners.  The interpretation of the generated table is proved EQUAL to Model/Dispatch.run_event (calls, verdict, read-back number, world afterwards) for every world and every event; so a changed role expression, callback field, order of walks or of callbacks, a dropped or added gate, a changed wiring or priority breaks a kernel-checked obligation for all inputs; any statement outside the recognised shapes (head of harness/cmd/go2coq/dispatch.go) makes go2coq exit 1 (broken translator obligation).  (*Manager).itr is checked to be verbatim make + copy + return',
        'listener dispatch, still HAND-WRITTEN / trusted under the translator tie: callbacks are data (has = the Listeners field is non-nil, script_of / do_actions = what the harness callback does, c_snap = Instance.modifySnapshot, the recorded call, the number the six mutating harness callbacks rewrite), `attached` = mgr.targets[unit] with mgr.itr a copy of it taken when the walk starts, the table in Model/DispatchInterp.v saying which constructor argument of the model event is which Go field path (record projections: Attacker, Defender, Hit.AttackType.IsQualified(), Healer.ID(), Info.Target, ...), the event system that delivers an event to the subscribed method (C18) and that a priority-100 listener runs after the default-priority ones; NOT translated: emitAdd / emitRemove / emitDispel / emitExtendDuration / emitExtendCount / emitPropertyChange (the model has no event for them; it records OnAdd / OnRemove only as the consequence of a script attach / detach) and the OnPhase1 / OnPhase2 walks of tick.go (ETick) - those stay tied by correspondence only; the translator itself (go/packages, go/types front end and the shape matcher of dispatch.go)',
        "hits of harness content are 'plain' (no DEF/RES/stance/shield/crit), so a hit's total is its flat damage; the "
                "damage formula itself is C04",
                "listener scripts never open or close an attack bracket (legal use of the API, enforced by the model as a "
                "distinct outcome and respected by the generator); they may add hits to an attack that is open",
                "the turn manager part is Model/Turn.v at binary64 (property C02)"],
    "assumptions": ["content uses the engine API legally: an attack bracket is opened (first qualified attack) and closed (EndAttack) only from action / ult / insert bodies"],
    "manifest": {
        "level_text": 'Kernel-checked theorems about the executable whole-simulation model: what a death check kills (dead always, limbo only at turn end), that the living lists lose exactly the killed units and that no content script or listener can change them, that no HP change revives or re-limbos a dead unit, that an action starts only for an Alive unit and that queued inserts of dead / removed / flagged sources are dropped without any event. The trace-level statement is proved as one theorem over whole runs (C08_trace_level: for every configuration, content and fuel, the trace of every run that ends satisfies death_ok: announced at most once, afterwards absent from every turn order snapshot, sample, turn-end snapshot, never the acting unit, starts no action or insert), by a frame principle over all scripts (Proofs/SimFrame.v) and a per-function relation composed over the loop (Proofs/SimDeathTrace.v). The same boolean predicate, and the killer clause (killer = attacker of the last damaging hit, killer_ok_from, monitor only: not proved as a whole-run theorem), are evaluated on every real simulator trace. Listener dispatch (revive question LimboWaitHeal, death callbacks): Translator tie (way 1) of the listener dispatch: pkg/engine/modifier/listener.go (Subscribe wiring with priorities, walks, role expressions, snapshot / qualified / nil gates, callback order, the early return of limboWaitHeal) is regenerated as a first-order table on every run (go2coq DispatchTable) and its interpretation is proved EQUAL to the dispatch model for all worlds and events.',
        "level_note": "go2coq DispatchTable translator + interpreter Model/DispatchInterp.v + kernel-checked equality generated table = Model/Dispatch.v; Coq kernel; hand-written model Model/Sim.v tied by whole-trace correspondence; content is scripted harness "
                      "content registered through the exported Register functions; internal/* content is not modelled.",
        "technique": 'source-to-Coq translation of listener.go into a dispatch table with an interpreter and equality proofs (induction over attached lists and walks, computation per event kind) + Coq proofs (frame and absorption lemmas over all scripts) + whole-trace correspondence + trace monitor',
        "design_ref": "DESIGN.md section 7, C08",
    },
}
