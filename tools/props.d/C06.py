CONFIG = {
    "id": "C06",
    "coq_targets": ["Gen/FormulasInfo.v", "Proofs/FormulasStatsProofs.v",
                    "Props/C06.v", "Model/StatsCheck.v", "Model/ModifierCheck.v"],
    "prop_files": ["Props/C06.v"],
    "gen": ["FormulasInfo"],
    "components": [{
        "name": "stats", "modules": ["Model.Stats", "Model.StatsCheck"],
        "check": "check_case", "monitor": "monitor_case", "model_out": "model_out",
        "case_type": "case",
        "ops_path": [1],            # input = (world, ops)
        "n_quick": 320, "n_thorough": 8000, "shard": 40,
    }, {
        # the modifier manager under EVERY operation that attaches or detaches instances (stacking, ticks and expiry,
        # dispel, duration / count extension incl. removal at zero, listener-issued operations): after each operation
        # the STAT_CTRL flag of the evaluated change set and HasFlag must be the union over exactly the instances
        # attached at that moment (a stale per-target cache shows here)
        "name": "modifier", "modules": ["Model.Modifier", "Model.ModifierCheck"],
        "check": "check_case", "monitor": "monitor_case", "model_out": "model_out",
        "case_type": "case",
        "ops_path": [3],
        "mismatch_is_violation": False,
        "n_quick": 400, "n_thorough": 8000, "shard": 100,
    }],
    "rule": "per case: 2-4 modifier configs (unique / replace / multiple, status type, behaviour flags) registered with the "
            "real modifier.Register; 3 units with base stats / base debuff-res / base weakness maps; 1-3 modifier "
            "DESCRIPTIONS (info.Modifier values whose Stats / DebuffRES / Weakness maps are nil or hold 0-3 entries) kept by "
            "the harness and re-used; 5-40 operations on the real modifier.NewManager + the real attribute service: "
            "AddModifier of description d to unit u (the same description to several units and several times), "
            "RemoveModifier, Instance.RemoveSelf, writes to a description's maps after attaching, Instance.AddProperty / "
            "SetProperty / AddDebuffRES / AddWeakness / RemoveWeakness through kept handles (also of detached "
            "instances), engine.Stats(u) kept as a snapshot (up to 3), Stats.AddProperty / AddDebuffRES on a kept "
            "snapshot, full re-reads. Keys from pools of 10 properties (incl. AllDamageReduce, Fatigue, the ATK and HP "
            "groups), 2 flags, 2 damage types; amounts from a pool with exact and inexact binary fractions, 0, negatives, "
            "100/-100. Compared after EVERY operation: the attached tags and a fresh engine.Stats of every unit "
            "(GetProperty on the pool, GetDebuffRES, IsWeakTo, HasBehaviorFlag, StatusCount, ATK, MaxHP; floats bit-exact, "
            "summation in the code's order); at every full read also every description's maps, every instance handle's "
            "GetProperty / GetDebuffRES / HasWeakness and every kept snapshot. A case is non-trivial when distinct as "
            "an input term.",
    "trusted": [
        "TRANSLATED from the Go source on every run and proved equal to the model at binary64 (Gen/FormulasInfo.v; "
        "Proofs/FormulasStatsProofs.v; theorem C06_model_formulas_are_the_source): PropMap.Modify (which two "
        "properties combine multiplicatively, the two update rules, and that only the addressed entry changes), "
        "statCalc, the derived ATK and MaxHP a view reads",
        "still HAND-WRITTEN (correspondence only): EvalModifiers / NewStats / AddAll (map ownership and iteration, "
        "the subject of the property), DebuffRESMap.GetDebuffRES, the weakness and flag bookkeeping",
        "translator (harness/cmd/go2coq formulas.go, formulas_specs.go): trusted are the Go front end "
        "(go/packages, go/types, go/constant), the fixed whitelist and accessor tables (which Go field / method is "
        "which model accessor), the statement translation listed at the top of formulas.go, and that lit N n d "
        "(the correctly rounded quotient of two integers below 2^53) is the binary64 the Go compiler stores for "
        "the literal n/d; the translator fails closed (unknown construct, added or missing assignment, changed "
        "signature: go2coq exits 1 and the check reports a broken translator obligation)",
        "Go maps are modelled as total functions key -> float64 (an absent key reads 0); key presence (len, range) is not "
        "observed: the harness registers no OnPropertyChange listener, and AddAll skips zero values",
        "the property ids 90 / 91 (AllDamageReduce, Fatigue) and the ATK / HP group ids are constants of the model; the "
        "harness refuses to run when pkg/engine/prop disagrees",
        "the copy of the unit's attributes held inside a snapshot (copyAttributes) is only read by MarshalJSON and is not "
        "modelled; base attributes are not mutated by the harness",
    ],
    "assumptions": [
        "the calling code keeps its description and writes only to maps it passed (it cannot reach an instance's maps "
        "other than through the instance's methods)",
    ],
    "manifest": {
        "level_text": "Translator tie (way 1) for the arithmetic the model uses: PropMap.Modify, statCalc, ATK / MaxHP are regenerated from info/map.go and info/stats.go on every run (go2coq FormulasInfo) and proved EQUAL to the model's definitions at binary64; "
                      "Kernel-checked theorems over an executable Gallina model in which every Go map is an object in an "
                      "explicit store (so sharing is expressible): separation invariant over all reachable states, frame "
                      "and ownership theorems, evaluation formulas; tied to the Go code by exact correspondence of the "
                      "stats of every unit after every operation and of full re-reads.",
        "level_note": "go2coq FormulasInfo translator + kernel-checked equalities generated = model; "
                      "Coq kernel; hand-written model Model/Stats.v; correspondence harness over the real modifier "
                      "manager and attribute service; property ids are model constants checked by the harness.",
        "technique": "source-to-Coq translation of the formulas with equality proofs + "
                     "Coq proof (separation invariant by counting, frame, induction over op lists) + "
                     "model/implementation correspondence + ownership monitor on the implementation",
        "design_ref": "DESIGN.md section 7, C06",
    },
}
