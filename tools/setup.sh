#!/bin/sh
# Build the framework from files on disk only (offline): harness binaries + full Coq build.
set -e
cd "$(dirname "$0")/.."
export GOFLAGS=-mod=mod GOPROXY=off GOSUMDB=off GOTOOLCHAIN=local
mkdir -p harness/bin coq/Cases coq/Gen evidence replays
cp /repo/go.sum harness/go.sum
(cd harness && for d in cmd/*/; do b=$(basename "$d"); go build -tags verif -o "bin/$b" "./cmd/$b"; done)
if [ -x harness/bin/go2coq ]; then
  for g in $(python3 -c "import sys; sys.path.insert(0,'tools'); from props import PROPS; print(' '.join(sorted({g for p in PROPS.values() for g in p.get('gen',[])})))"); do
    harness/bin/go2coq "$g" -repo /repo > "coq/Gen/$g.v.tmp" && mv "coq/Gen/$g.v.tmp" "coq/Gen/$g.v"
  done
fi
cd coq
coq_makefile -f _CoqProject -o Makefile >/dev/null
timeout 3000 make -j16 >/dev/null
echo setup ok
