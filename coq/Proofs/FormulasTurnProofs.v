(* The translator tie for the turn-manager model of C02 (Model/Turn.v): BaseGauge, the action-value
   expression and comparison, the gauge / clock / cost arithmetic of StartTurn, ResetTurn, SetGauge,
   ModifyGaugeNormalized, ModifyGaugeAV, ModifyCurrentGaugeCost as GENERATED from
   pkg/engine/turn/{turn,modify}.go (Gen/FormulasTurn.v) are, for every number system, what the
   model computes with.  See Proofs/FormulasInfoProofs.v for the scheme. *)
From Coq Require Import List ZArith Bool Lia.
From SR Require Import Base.NumOps Model.Turn.
From SR Require Gen.FormulasTurn.
Import ListNotations.
Open Scope Z_scope.

Lemma gen_BaseGauge_is_model : FormulasTurn.BaseGauge = BaseGauge.
Proof. reflexivity. Qed.

Lemma gen_av_is_model : forall N s u, FormulasTurn.turn_av N s u = av_of N s u.
Proof. reflexivity. Qed.
Lemma gen_manager_av_is_model : forall N s u, FormulasTurn.manager_av N s u = av_of N s u.
Proof. reflexivity. Qed.

(* sort.Stable's Less: the comparison the model's insertion sort makes *)
Lemma gen_less_is_model : forall N s x y r,
  insert_by N (av_of N s) x (y :: r) =
  (if FormulasTurn.turn_less N s y x then y :: insert_by N (av_of N s) x r else x :: y :: r).
Proof. reflexivity. Qed.

Lemma zmax0 : forall g, (if g <? 0 then 0 else g) = Z.max 0 g.
Proof. intros g. destruct (Z.ltb_spec g 0); lia. Qed.

Lemma gen_setGauge_is_model : forall N amt, FormulasTurn.setGauge_gauge N amt = Z.max 0 (ntoZ N amt).
Proof. intros. unfold FormulasTurn.setGauge_gauge. cbv zeta. apply zmax0. Qed.

Lemma gen_resetTurn_is_model : forall N c,
  FormulasTurn.resetTurn_gauge N c = Z.max 0 (ntoZ N (nmul N (nofZ N BaseGauge) c)).
Proof. intros. unfold FormulasTurn.resetTurn_gauge. cbv zeta. apply zmax0. Qed.

(* StartTurn, with the generated action value, gauge decrement, clock and cost *)
Lemma gen_StartTurn_is_model : forall N s,
  step N s OStart =
  (if active s then (s, [EErr]) else
   match resort N s (order s) with
   | [] => (s, [EPanic])
   | (hd :: _) as sorted =>
       let a := FormulasTurn.manager_av N s hd in
       if negb (forallb (fun u => ntoZ_ok N (nmul N a (spd N s (u_id u)))) sorted)
       then (s, [EConvUndefined]) else
       let dec := map (fun u => mkU (u_id u) (FormulasTurn.startTurn_gauge N s a u)) sorted in
       let dec' := set_gauge_of dec (u_id hd) FormulasTurn.startTurn_actor_gauge in
       let s' := mkT N dec' (FormulasTurn.startTurn_cost N) true (u_id hd)
                     (FormulasTurn.startTurn_totalAV N (total s) a) (speeds s) in
       (s', [EStart (u_id hd) a (status N s') (total s')])
   end).
Proof. reflexivity. Qed.

(* ResetTurn: the acting unit's new gauge *)
Lemma gen_ResetTurn_is_model : forall N s,
  step N s OReset =
  (if negb (active s) then (s, [EErr]) else
   let s0 := mkT N (order s) (cost s) false (atarget s) (total s) (speeds s) in
   match find (order s) (atarget s) with
   | None => (s0, [EReset (atarget s) (cost s) (status N s0)])
   | Some _ =>
       let x := nmul N (nofZ N FormulasTurn.BaseGauge) (cost s) in
       if negb (ntoZ_ok N x) then (s, [EConvUndefined]) else
       let g := FormulasTurn.resetTurn_gauge N (cost s) in
       let moved := remove_id (order s) (atarget s) ++ [mkU (atarget s) g] in
       let s' := set_order N s0 (resort N s0 moved) in
       (s', [EReset (atarget s) (cost s) (status N s')])
   end).
Proof.
  intros. cbn [step]. destruct (negb (active s)); [reflexivity|]. cbv zeta.
  destruct (find (order s) (atarget s)); [|reflexivity].
  rewrite gen_resetTurn_is_model. reflexivity.
Qed.

(* SetGauge: the truncated, floored gauge *)
Lemma gen_SetGauge_is_model : forall N s id amt,
  do_set_gauge N s id amt =
  match find (order s) id with
  | None => (s, [EErr])
  | Some u =>
      if negb (ntoZ_ok N amt) then (s, [EConvUndefined]) else
      let g := FormulasTurn.setGauge_gauge N amt in
      if u_gauge u =? g then (s, [])
      else
        let idx := index_of (order s) id in
        let start := if active s && negb (Nat.eqb idx 0) then 1%nat else 0%nat in
        let rest := remove_id (order s) id in
        let moved := firstn start rest ++ mkU id g :: skipn start rest in
        let s' := set_order N s (resort N s moved) in
        (s', [EGauge id (u_gauge u) g (status N s')])
  end.
Proof. intros. unfold do_set_gauge. rewrite gen_setGauge_is_model. reflexivity. Qed.

Lemma gen_ModifyGauge_is_model : forall N s id amt,
  step N s (OModNorm id amt) =
    match find (order s) id with
    | None => (s, [EErr])
    | Some u => do_set_gauge N s id (FormulasTurn.modifyGaugeNormalized_amount N (u_gauge u) amt)
    end /\
  step N s (OModAV id amt) =
    match find (order s) id with
    | None => (s, [EErr])
    | Some u => do_set_gauge N s id (FormulasTurn.modifyGaugeAV_amount N s id (u_gauge u) amt)
    end /\
  step N s (OModCost amt) = do_set_cost N s (FormulasTurn.modifyCurrentGaugeCost_amount N (cost s) amt).
Proof. intros. repeat split; reflexivity. Qed.

Definition C02_formulas_statement : Prop :=
  FormulasTurn.BaseGauge = BaseGauge /\
  (forall N s u, FormulasTurn.turn_av N s u = av_of N s u) /\
  (forall N s u, FormulasTurn.manager_av N s u = av_of N s u) /\
  (forall N s x y r,
     insert_by N (av_of N s) x (y :: r) =
     (if FormulasTurn.turn_less N s y x then y :: insert_by N (av_of N s) x r else x :: y :: r)) /\
  (forall N s a u, FormulasTurn.startTurn_gauge N s a u = u_gauge u - ntoZ N (nmul N a (spd N s (u_id u)))) /\
  (forall N tot a, FormulasTurn.startTurn_totalAV N tot a = nadd N tot a) /\
  (forall N, FormulasTurn.startTurn_cost N = nofZ N 1) /\
  FormulasTurn.startTurn_actor_gauge = 0 /\
  (forall N c, FormulasTurn.resetTurn_gauge N c = Z.max 0 (ntoZ N (nmul N (nofZ N BaseGauge) c))) /\
  (forall N amt, FormulasTurn.setGauge_gauge N amt = Z.max 0 (ntoZ N amt)) /\
  (forall N g amt, FormulasTurn.modifyGaugeNormalized_amount N g amt = nadd N (nofZ N g) (nmul N amt (nofZ N BaseGauge))) /\
  (forall N s id g amt, FormulasTurn.modifyGaugeAV_amount N s id g amt = nadd N (nofZ N g) (nmul N (spd N s id) amt)) /\
  (forall N c amt, FormulasTurn.modifyCurrentGaugeCost_amount N c amt = nadd N c amt).

Lemma C02_formulas_hold : C02_formulas_statement.
Proof.
  unfold C02_formulas_statement. repeat match goal with |- _ /\ _ => split end; try reflexivity.
  - exact gen_resetTurn_is_model.
  - exact gen_setGauge_is_model.
Qed.

