CONFIG = {
    "id": "C14",
    "coq_targets": ["Props/C14.v", "Model/GcsCheck.v"],
    "prop_files": ["Props/C14.v"],
    "gen": [],
    "components": [{
        "name": "gcstree",
        "modules": ["Model.GcsAst", "Model.GcsLex", "Model.GcsParse", "Model.GcsCheck"],
        "check": "check_case", "monitor": "monitor_tree", "model_out": "model_out",
        "case_type": "case",
        "ops_path": None,           # cases are small; an expected tree would not survive dropping chunks
        # one shard: the generator enumerates (first 721 cases = every expression over one operator per
        # precedence level to depth 2) and queues ALL single-token deletions of each small program
        "n_quick": 1400, "n_thorough": 24000, "shard": 3000,
    }],
    "rule": "721 expressions enumerated exhaustively (identifier leaves; unary minus; one binary operator per precedence "
            "level plus both additive ones; calls) to operator depth 2, depth-3 combinations sampled; random programs to "
            "depth 7 over every statement form (let, assign, return, break/continue/fallthrough, if/else chains, while, "
            "for with optional init/cond/post, switch with cases and default, fn declarations, blocks) and every "
            "expression form (13 binary operators, 2 unary, calls, maps with array and field entries, function literals, "
            "numbers incl. int64 limits and floats, strings, true/false/null, non-ASCII identifiers); each with its "
            "expected tree; layouts drawn at random from spaces, tabs, CR LF, '#' and '//' comments, and SYSTEMATIC "
            "layouts of the layout theorem: every token glued to the next wherever the lexer keeps them apart "
            "(follow_ok of Proofs/GcsLayout.v, re-implemented in Go), a '#' comment / a '//' comment at every token "
            "boundary (glued to the previous token where allowed), CR LF only, tabs only, alternating comment kinds, "
            "unterminated comment or no newline at the end of the file; ALL single-token deletions of every small "
            "program (<= 40 tokens) and of small programs built around map literals and function literals (brackets, "
            "commas, '=', `fn`, terminators; <= 48 tokens) under plain, random and systematic layouts; map entries in "
            "arbitrary order; programs holding a switch with two defaults or a map literal with a repeated field name "
            "(must be rejected); a case is non-trivial when distinct as an input term",
    "trusted": ["what is proved in Coq, for the executable models of lex.go and parse.go: (1) C14_parse_unparse_full - "
                "completeness on canonical token sequences for the whole language (literals, identifiers, unary, the "
                "thirteen binary operators at their six levels with left association, calls, parentheses where required, "
                "map literals, function literals; blocks, let, assignment, return, break/continue/fallthrough, if/else "
                "chains, while, for with optional init/condition/post, switch with optional subject/cases/default, fn "
                "declarations), end to end through the lazy Parse; C14_prefetch_invariance; (2) "
                "C14_layout_independent_lexing / C14_comments_and_whitespace_never_change_the_tree - for EVERY choice of "
                "separators drawn from spaces, tabs, CR, LF, '#' and '//' comments before, between and after the tokens "
                "(only condition: the byte after a token does not extend or spoil it; one white-space character always "
                "suffices, C14_one_space_always_suffices) the lexer returns the same tokens and Parse the same tree; "
                "(3) C14_parser_accepts_exactly_the_grammar - the grammar is the inductive relation DP of "
                "Proofs/GcsSound.v (redundant parentheses allowed): whatever Parse accepts is a derivation of the tree it "
                "returns (C14_parser_sound), every sentence is accepted with the tree of its derivation - redundant "
                "parentheses, map entries in any order, `for c ; {` included (C14_parser_complete) -, the grammar gives "
                "one tree per token sequence (C14_grammar_unambiguous); hence Parse returns an error exactly on the "
                "sources outside the grammar (C14_rejected_iff_outside_the_grammar), in particular: any accepted source "
                "with one bracket token deleted or inserted at any position, any well-formed program in any layout with "
                "one bracket left out, a source whose last token is neither ';' nor '}', a `let` without identifier or '='",
                "NOT proved: anything about the Go code itself (the models are tied to it by exact correspondence); DP is a "
                "hand-written grammar, tied to the canonical side (unparse_*: every layout of every well-formed program is "
                "a sentence with that tree) and to the parser model by the theorems; whether a particular deletion of a "
                "';' or keyword leaves the language is not characterised syntactically (some deletions yield another "
                "valid program, e.g. the ';' between `a` and `- b`) - the theorem is 'rejected iff outside DP', the "
                "correspondence runs all single-token deletions; token positions, line numbers and error texts are not in "
                "the statements",
                "the grammar is strict: at most one `default` per switch, pairwise distinct field names in a map literal "
                "(C14_switch_has_one_default, C14_map_fields_are_distinct); the parser used to accept a second default / a "
                "repeated field name and keep only the last one (found while proving soundness, confirmed on the real "
                "parser, repaired by 'fix: gcs parser rejects a second default in a switch' and 'fix: gcs parser rejects a "
                "repeated field name in a map literal'); model and grammar follow the repaired code, the two sources are "
                "corpus cases (corpus/C14/gcstree/duplicate_default.json, duplicate_map_key.json) and the generator "
                "produces such programs; agreement of the boolean recogniser derives_b (the monitor) with DP is not proved "
                "(both are strict; the monitor is checked against the parser, which accepts exactly DP)",
                "the grammar of the canonical side is Model/GcsSpec.v (unparse_*); the Go-side generator's token sequences "
                "are cross-checked against unparse_program on every case that carries an expected tree, and its "
                "re-implementation of follow_ok is checked by the monitor (the real lexer must return the canonical "
                "tokens for every systematic layout)",
                "strconv.ParseInt/ParseFloat modelled exactly in Model/GcsNum.v and corresponded; the text of ItemError "
                "tokens is not modelled"],
    "assumptions": ["layout theorem: each token is a text the lexer produces for its type (lexeme_ok) and is followed by a "
                    "byte that keeps it apart from the next token (follow_ok: an identifier terminator after a word - so "
                    "'a*b' is an error, 'a-b' one identifier and a comment may not directly follow a word -, no digit "
                    "after a number or '-', no '=' after '=' '>' '!' '<', no '>' after '<', no '/' after '/'); both are "
                    "decidable and at least one white-space character between tokens always satisfies follow_ok"],
    "manifest": {
        "level_text": "Kernel-checked theorems over the executable Gallina models of the lexer and the Pratt parser (same "
                      "state functions, precedence table, prefix/infix registration and loops as lex.go / parse.go): "
                      "parse(unparse a) = a for the whole language incl. map and function literals, end to end through "
                      "Parse; layout independence for all separators of white space and '#' / '//' comments; soundness "
                      "w.r.t. an inductive grammar (nothing outside it is accepted: missing bracket at any position, "
                      "missing final terminator, missing let parts); models tied to the Go code by exact tree / token "
                      "correspondence incl. systematic layouts and all single-token deletions, and a derivability monitor.",
        "level_note": "Coq kernel; full strength over the models: Parse accepts exactly the sentences of the inductive "
                      "grammar DP with the (unique) tree of the derivation, for every layout; the grammar itself is "
                      "hand-written (strict: one default per switch, distinct field names per map literal - the parser "
                      "was repaired to match).",
        "technique": "Coq proof (left-spine decomposition of canonical token sequences, joint strong induction on tree "
                     "size for expressions and statements, simulation between lazy and prefetched token supply, "
                     "fuel-free big-step runs of the lexer over rendered byte strings with byte-level treatment of "
                     "UTF-8, Pratt-loop invariant for soundness, induction on derivations in continuation form + fuel "
                     "monotonicity for completeness, bracket counting) + model/implementation correspondence",
        "design_ref": "DESIGN.md section 7, C14",
    },
}
