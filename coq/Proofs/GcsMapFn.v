(* C14, the whole expression language: map literals [EMap arr fields] and function literals
   [EFuncLit args body] join the expression fragment of Proofs/GcsRoundTrip.v and the statements
   of Proofs/GcsStmtRoundTrip.v.  A function literal contains a block, so expressions and
   statements are handled by ONE strong induction on a common size measure ([all_K]).

   * [xfrag], [xwf_stmt], [xwf_case], [xwf_node], [xwf_block], [x_all_nodes]: the full
     well-formedness predicates.  A map literal is in canonical form: array elements first, then
     the fields with strictly increasing keys ([keys_inc], [string_ltb]) - the parser builds the
     Go map with [fields_set], which sorts and overwrites, so any other order of the same
     entries parses into this tree too but is not its canonical token sequence.  The old
     predicates imply the new ones ([efrag_xfrag], [wf_node_xwf], [all_nodes_x]);
   * [XMain], [XNodeOK]: the round trip of an expression / of a statement on a parser state whose
     look-ahead already holds the tokens (fuel 5 * size + constant); [xmain_all],
     [xnode_ok_wf], [xrows_ok_wf] are the versions for prefetched states;
   * [xprogram_tok3]: the size of a well-formed program is at most 3 times the number of its
     canonical tokens, so the fuel of Parse suffices;
   * [C14_full_holds]: end to end through [parse_bytes]; [C14_full_expression_holds];
   * [demoX_parses]: non-vacuity. *)
From Coq Require Import List ZArith Bool String Ascii Lia Floats.
From SR Require Import Base.CaseLib Model.GcsAst Model.GcsUnicode Model.GcsLex Model.GcsNum
  Model.GcsParse Model.GcsSpec Proofs.GcsLexProofs Proofs.GcsParseProofs Proofs.GcsRoundTrip
  Proofs.GcsBridge Proofs.GcsStmtRoundTrip Proofs.GcsStmtSize Proofs.GcsC14Proofs.
Import ListNotations.
Open Scope Z_scope.

(* ---- the keys of a canonical map are strictly increasing ---- *)
Fixpoint keys_inc (l : list string) : Prop :=
  match l with
  | [] => True
  | k :: r => match r with [] => True | k' :: _ => string_ltb k k' = true end /\ keys_inc r
  end.

(* ---- the full well-formedness predicates ---- *)
Fixpoint xfrag (e : expr) : Prop :=
  match e with
  | ENum _ _ _ | EStr _ | ENull | EIdent _ => True
  | ECall f args =>
      xfrag f /\
      (fix go (l : list expr) : Prop := match l with [] => True | a :: r => xfrag a /\ go r end) args
  | EUnary op r => is_unop (t_typ op) = true /\ xfrag r
  | EBinary l r op => is_binop (t_typ op) = true /\ xfrag l /\ xfrag r
  | EMap arr fields =>
      (fix go (l : list expr) : Prop := match l with [] => True | a :: r => xfrag a /\ go r end) arr /\
      (fix gof (l : list (string * expr)) : Prop :=
         match l with [] => True | (_, v) :: r => xfrag v /\ gof r end) fields /\
      keys_inc (map fst fields)
  | EFuncLit args body => has_dup args = false /\ xwf_block body
  | ENil | EBool _ => False
  end
with xwf_stmt (s : stmt) : Prop :=
  match s with
  | SBlock b => xwf_block b
  | SAssign id v | SLet id v => is_ident_tok id /\ xfrag v
  | SReturn v => xfrag v
  | SCtrl c => c <> InvalidCtrl
  | SIf c b els =>
      xfrag c /\ xwf_block b /\
      match els with SNil => True | SIf _ _ _ | SBlock _ => xwf_stmt els | _ => False end
  | SSwitch c cases def =>
      (c = ENil \/ xfrag c) /\
      (fix go (l : list casestmt) : Prop := match l with [] => True | x :: r => xwf_case x /\ go r end) cases /\
      (def = BNil \/ xwf_block def)
  | SFn fv args body => is_ident_tok fv /\ has_dup args = false /\ xwf_block body
  | SWhile c b => xfrag c /\ xwf_block b
  | SFor init cond post body =>
      ((init = SNil /\ cond = ENil /\ post = SNil) \/
       (xfrag cond /\
        match init with
        | SNil => True
        | SLet id v | SAssign id v => is_ident_tok id /\ xfrag v
        | _ => False
        end /\
        match post with
        | SNil => True
        | SAssign id v => is_ident_tok id /\ xfrag v
        | _ => False
        end)) /\ xwf_block body
  | SNil | SCase _ => False
  end
with xwf_case (c : casestmt) : Prop :=
  match c with Case cc b => xfrag cc /\ xwf_block b end
with xwf_node (x : node) : Prop :=
  match x with NExpr e => xfrag e | NStmt s => xwf_stmt s end
with xwf_block (b : block) : Prop :=
  match b with
  | BNil => False
  | Block l => (fix go (l : list node) : Prop := match l with [] => True | x :: r => xwf_node x /\ go r end) l
  end.

Fixpoint x_all_exprs (l : list expr) : Prop := match l with [] => True | a :: r => xfrag a /\ x_all_exprs r end.
Fixpoint x_all_fields (l : list (string * expr)) : Prop :=
  match l with [] => True | (_, v) :: r => xfrag v /\ x_all_fields r end.
Fixpoint x_all_nodes (l : list node) : Prop := match l with [] => True | x :: r => xwf_node x /\ x_all_nodes r end.
Fixpoint x_all_cases (l : list casestmt) : Prop := match l with [] => True | x :: r => xwf_case x /\ x_all_cases r end.
Definition xsimple_init (s : stmt) : Prop :=
  match s with
  | SNil => True
  | SLet id v | SAssign id v => is_ident_tok id /\ xfrag v
  | _ => False
  end.
Definition xsimple_post (s : stmt) : Prop :=
  match s with
  | SNil => True
  | SAssign id v => is_ident_tok id /\ xfrag v
  | _ => False
  end.

Lemma xfrag_call : forall f args, xfrag (ECall f args) = (xfrag f /\ x_all_exprs args).
Proof. reflexivity. Qed.
Lemma xfrag_map : forall arr fields,
  xfrag (EMap arr fields) = (x_all_exprs arr /\ x_all_fields fields /\ keys_inc (map fst fields)).
Proof. reflexivity. Qed.
Lemma xwf_block_nodes : forall l, xwf_block (Block l) = x_all_nodes l.
Proof. reflexivity. Qed.
Lemma xwf_switch : forall c cases def,
  xwf_stmt (SSwitch c cases def) = ((c = ENil \/ xfrag c) /\ x_all_cases cases /\ (def = BNil \/ xwf_block def)).
Proof. reflexivity. Qed.
Lemma xwf_for : forall init cond post body,
  xwf_stmt (SFor init cond post body) =
  (((init = SNil /\ cond = ENil /\ post = SNil) \/ (xfrag cond /\ xsimple_init init /\ xsimple_post post)) /\
   xwf_block body).
Proof. reflexivity. Qed.

Lemma x_all_exprs_In : forall l a, x_all_exprs l -> In a l -> xfrag a.
Proof.
  induction l as [|b l IH]; intros a H Hin; [destruct Hin|].
  cbn [x_all_exprs] in H. destruct H as [Hb Hl]. destruct Hin as [->|Hin]; [exact Hb|apply IH; assumption].
Qed.

(* ---- the old predicates imply the new ones ---- *)
Lemma efrag_xfrag_k : forall k e, (esize e <= k)%nat -> efrag e = true -> xfrag e.
Proof.
  induction k as [|k IH]; intros e Hk Hf; [pose proof (size_pos e); lia|].
  destruct e; try discriminate; try exact I.
  - cbn [efrag] in Hf. apply andb_true_iff in Hf. destruct Hf as [Hf1 Hf2]. cbn [esize] in Hk.
    rewrite xfrag_call. split; [apply IH; [lia|exact Hf1]|].
    assert (Hall : forall a, In a args -> xfrag a).
    { intros a Ha. apply IH; [pose proof (In_sum esize args a Ha); lia|].
      rewrite forallb_forall in Hf2. apply Hf2. exact Ha. }
    clear -Hall. induction args as [|a r IHr]; [exact I|]. cbn [x_all_exprs]. split.
    + apply Hall. left. reflexivity.
    + apply IHr. intros b Hb. apply Hall. right. exact Hb.
  - cbn [efrag] in Hf. apply andb_true_iff in Hf. destruct Hf as [Hf1 Hf2]. cbn [esize] in Hk.
    cbn [xfrag]. split; [exact Hf1|apply IH; [lia|exact Hf2]].
  - cbn [efrag] in Hf. apply andb_true_iff in Hf. destruct Hf as [Hf Hf3]. apply andb_true_iff in Hf.
    destruct Hf as [Hf1 Hf2]. cbn [esize] in Hk.
    cbn [xfrag]. split; [exact Hf1|]. split; apply IH; try assumption; lia.
Qed.
Lemma efrag_xfrag : forall e, efrag e = true -> xfrag e.
Proof. intros e. apply (efrag_xfrag_k (esize e)). lia. Qed.

Lemma wf_node_xwf_k : forall k x, (ndsize x <= k)%nat -> wf_node x -> xwf_node x.
Proof.
  induction k as [|k IH]; intros x Hk Hw; [destruct x; cbn [ndsize] in Hk; lia|].
  assert (Hblk : forall b, (bsize b <= k)%nat -> wf_block b -> xwf_block b).
  { intros b Hb Hwb. destruct b as [|l]; [contradiction|]. rewrite wf_block_nodes in Hwb. rewrite xwf_block_nodes.
    cbn [bsize] in Hb.
    assert (Hall : forall y, In y l -> (ndsize y <= k)%nat) by (intros y Hy; pose proof (In_sum ndsize l y Hy); lia).
    clear Hb. induction l as [|y l IHl]; [exact I|]. cbn [all_nodes] in Hwb. destruct Hwb as [Hy Hl].
    cbn [x_all_nodes]. split; [apply IH; [apply Hall; left; reflexivity|exact Hy]|].
    apply IHl; [exact Hl|]. intros z Hz. apply Hall. right. exact Hz. }
  destruct x as [e|st]; cbn [wf_node xwf_node] in *; [apply efrag_xfrag; exact Hw|].
  cbn [ndsize] in Hk.
  destruct st as [ |b|id v|id v|v|t|c b els|cnd cases def|c0|fv args body|c b|init cond post body];
    cbn [wf_stmt] in Hw; try contradiction; cbn [ssize] in Hk.
  - apply Hblk; [lia|exact Hw].
  - destruct Hw as [A B]. split; [exact A|apply efrag_xfrag; exact B].
  - destruct Hw as [A B]. split; [exact A|apply efrag_xfrag; exact B].
  - apply efrag_xfrag. exact Hw.
  - exact Hw.
  - destruct Hw as (A & B & C). cbn [xwf_stmt]. split; [apply efrag_xfrag; exact A|].
    split; [apply Hblk; [lia|exact B]|].
    destruct els as [ |eb|? ?|? ?|?|?|ec eb2 ee|? ? ?|?|? ? ?|? ?|? ? ? ?]; try contradiction; try exact I.
    + apply (IH (NStmt (SBlock eb))); [cbn [ndsize ssize] in *; lia|exact C].
    + apply (IH (NStmt (SIf ec eb2 ee))); [cbn [ndsize] in *; lia|exact C].
  - rewrite all_cases_eq in Hw. destruct Hw as (A & B & C). rewrite xwf_switch. split; [|split].
    + destruct A as [A|A]; [left; exact A|right; apply efrag_xfrag; exact A].
    + assert (Hlt : (list_sum (map csize cases) <= k)%nat) by lia. clear Hk A C.
      induction cases as [|[cc bb] cases IHc]; [exact I|]. cbn [all_cases] in B. destruct B as [[Hcc Hbb] Hr].
      cbn [map list_sum fold_right csize] in Hlt. fold (list_sum (map csize cases)) in Hlt.
      cbn [x_all_cases xwf_case]. split; [split; [apply efrag_xfrag; exact Hcc|apply Hblk; [lia|exact Hbb]]|].
      apply IHc; [exact Hr|lia].
    + destruct C as [C|C]; [left; exact C|right; apply Hblk; [lia|exact C]].
  - destruct Hw as (A & B & C). cbn [xwf_stmt]. split; [exact A|]. split; [exact B|]. apply Hblk; [lia|exact C].
  - destruct Hw as (A & B). cbn [xwf_stmt]. split; [apply efrag_xfrag; exact A|apply Hblk; [lia|exact B]].
  - destruct Hw as (A & B). rewrite xwf_for. split; [|apply Hblk; [lia|exact B]].
    destruct A as [A|(A1 & A2 & A3)]; [left; exact A|right]. split; [apply efrag_xfrag; exact A1|]. split.
    + destruct init; try contradiction; cbn [simple_init xsimple_init] in *; try exact I;
        (destruct A2 as [P Q]; split; [exact P|apply efrag_xfrag; exact Q]).
    + destruct post; try contradiction; cbn [simple_post xsimple_post] in *; try exact I;
        (destruct A3 as [P Q]; split; [exact P|apply efrag_xfrag; exact Q]).
Qed.
Lemma wf_node_xwf : forall x, wf_node x -> xwf_node x.
Proof. intros x. apply (wf_node_xwf_k (ndsize x)). lia. Qed.
Lemma all_nodes_x : forall l, all_nodes l -> x_all_nodes l.
Proof.
  induction l as [|x l IH]; intros H; [exact I|]. cbn [all_nodes] in H. destruct H as [A B].
  split; [apply wf_node_xwf; exact A|apply IH; exact B].
Qed.

(* ---- the common size measure ---- *)
Fixpoint xesize (e : expr) : nat :=
  match e with
  | ECall f args => S (S (xesize f + list_sum (map xesize args)))
  | EUnary _ r => S (xesize r)
  | EBinary l r _ => S (xesize l + xesize r)
  | EFuncLit args body => S (S (S (S (List.length args + xbsize body))))
  | EMap arr fields =>
      S (S (list_sum (map xesize arr) +
            list_sum (map (fun kv => match kv with (_, v) => S (xesize v) end) fields)))
  | _ => 1
  end
with xssize (s : stmt) : nat :=
  match s with
  | SBlock b => S (xbsize b)
  | SAssign _ v | SLet _ v | SReturn v => S (xesize v)
  | SIf c b els => S (xesize c + xbsize b + xssize els)
  | SSwitch c cases def => S (xesize c + list_sum (map xcsize cases) + xbsize def)
  | SFn _ args body => S (List.length args + xbsize body)
  | SWhile c b => S (xesize c + xbsize b)
  | SFor i c p b => S (xssize i + xesize c + xssize p + xbsize b)
  | _ => 1
  end
with xcsize (c : casestmt) : nat :=
  match c with Case cc b => S (xesize cc + xbsize b) end
with xndsize (x : node) : nat :=
  match x with NExpr e => S (xesize e) | NStmt s => S (xssize s) end
with xbsize (b : block) : nat :=
  match b with BNil => 1 | Block l => S (list_sum (map xndsize l)) end.

Definition fsize (kv : string * expr) : nat := match kv with (_, v) => S (xesize v) end.
Lemma xesize_map : forall arr fields,
  xesize (EMap arr fields) = S (S (list_sum (map xesize arr) + list_sum (map fsize fields))).
Proof. reflexivity. Qed.

Lemma xsize_pos : forall e, (1 <= xesize e)%nat.
Proof. destruct e; cbn [xesize]; lia. Qed.
Lemma xndsize_pos : forall x, (1 <= xndsize x)%nat.
Proof. destruct x; cbn [xndsize]; lia. Qed.

Definition xsfx_size (x : sfx) : nat :=
  match x with XBin _ r => S (xesize r) | XCall args => S (S (list_sum (map xesize args))) end.
Definition xhd_size (h : hd) : nat := xesize (hd_expr h).

Lemma xspine_size : forall e,
  xesize e = (xhd_size (fst (spine e)) + list_sum (map xsfx_size (snd (spine e))))%nat.
Proof.
  induction e; cbn [spine];
    try (unfold xhd_size; cbn [fst snd hd_expr map list_sum fold_right]; lia).
  - destruct (8 <? level e).
    + destruct (spine e) as [h s]. cbn [fst snd] in *.
      rewrite map_app, list_sum_app. cbn [xesize map list_sum fold_right xsfx_size]. lia.
    + unfold xhd_size. cbn [fst snd hd_expr map list_sum fold_right xsfx_size xesize]. lia.
  - destruct (tok_prec (t_typ op) - 1 <? level e1).
    + destruct (spine e1) as [h s]. cbn [fst snd] in *.
      rewrite map_app, list_sum_app. cbn [xesize map list_sum fold_right xsfx_size]. lia.
    + unfold xhd_size. cbn [fst snd hd_expr map list_sum fold_right xsfx_size xesize]. lia.
Qed.

(* ---- the order of the keys ---- *)
Lemma string_ltb_cons : forall x a y b,
  string_ltb (String x a) (String y b) =
  if ascii_code x <? ascii_code y then true
  else if ascii_code y <? ascii_code x then false else string_ltb a b.
Proof. reflexivity. Qed.

Lemma string_ltb_irrefl : forall a, string_ltb a a = false.
Proof.
  induction a as [|x a IH]; [reflexivity|]. rewrite string_ltb_cons. rewrite Z.ltb_irrefl. exact IH.
Qed.

Lemma string_ltb_trans : forall a b c,
  string_ltb a b = true -> string_ltb b c = true -> string_ltb a c = true.
Proof.
  induction a as [|x a IH]; intros b c H1 H2.
  - destruct b as [|y b]; [discriminate|]. destruct c as [|z c]; [discriminate|]. reflexivity.
  - destruct b as [|y b]; [discriminate|]. destruct c as [|z c]; [discriminate|].
    revert H1 H2. rewrite !string_ltb_cons.
    destruct (Z.ltb_spec (ascii_code x) (ascii_code y)) as [L1|L1];
    destruct (Z.ltb_spec (ascii_code y) (ascii_code x)) as [L2|L2];
    destruct (Z.ltb_spec (ascii_code y) (ascii_code z)) as [L3|L3];
    destruct (Z.ltb_spec (ascii_code z) (ascii_code y)) as [L4|L4];
    destruct (Z.ltb_spec (ascii_code x) (ascii_code z)) as [L5|L5];
    destruct (Z.ltb_spec (ascii_code z) (ascii_code x)) as [L6|L6];
    intros H1 H2; try reflexivity; try discriminate; try lia.
    apply (IH b c); assumption.
Qed.

Lemma string_ltb_asym : forall a b, string_ltb a b = true -> string_ltb b a = false.
Proof.
  intros a b H. destruct (string_ltb b a) eqn:E; [|reflexivity].
  pose proof (string_ltb_trans a b a H E) as C. rewrite string_ltb_irrefl in C. discriminate.
Qed.
Lemma string_ltb_neq : forall a b, string_ltb a b = true -> string_eqb b a = false.
Proof.
  intros a b H. unfold string_eqb. destruct (String.eqb b a) eqn:E; [|reflexivity].
  apply String.eqb_eq in E. subst b. rewrite string_ltb_irrefl in H. discriminate.
Qed.

(* inserting a key larger than all present ones appends *)
Lemma fields_set_snoc : forall (A : Type) k (v : A) m,
  (forall k', In k' (map fst m) -> string_ltb k' k = true) -> fields_set k v m = m ++ [(k, v)].
Proof.
  intros A k v. induction m as [|[k' v'] m IH]; intros H; [reflexivity|].
  cbn [fields_set].
  assert (Hk : string_ltb k' k = true) by (apply H; left; reflexivity).
  rewrite (string_ltb_neq _ _ Hk), (string_ltb_asym _ _ Hk). cbn [app]. f_equal.
  apply IH. intros k2 H2. apply H. right. exact H2.
Qed.

Lemma keys_inc_before : forall l1 k l2, keys_inc (l1 ++ k :: l2) ->
  forall k', In k' l1 -> string_ltb k' k = true.
Proof.
  induction l1 as [|a l1 IH]; intros k l2 H k' Hin; [destruct Hin|].
  cbn [app keys_inc] in H. destruct H as [Ha Hr].
  destruct Hin as [->|Hin]; [|apply (IH k l2 Hr k' Hin)].
  destruct l1 as [|b l1]; cbn [app] in *; [exact Ha|].
  apply (string_ltb_trans k' b k Ha). apply (IH k l2 Hr b). left. reflexivity.
Qed.

(* ---- the entries of a map literal ---- *)
Inductive mentry := MArr (e : expr) | MFld (k : string) (v : expr).
Definition U_entry (x : mentry) : list utok :=
  match x with
  | MArr e => unparse_expr e
  | MFld k v => uident k :: UT ItemAssign "=" :: unparse_expr v
  end.
Definition apply_entry (af : list expr * list (string * expr)) (x : mentry) :=
  match x with
  | MArr e => (fst af ++ [e], snd af)
  | MFld k v => (fst af, fields_set k v (snd af))
  end.
Definition ent_size (x : mentry) : nat :=
  match x with MArr e => xesize e | MFld _ v => S (xesize v) end.
Definition mfld (kv : string * expr) : mentry := match kv with (k, v) => MFld k v end.
Definition map_entries (arr : list expr) (fields : list (string * expr)) : list mentry :=
  map MArr arr ++ map mfld fields.

Lemma map_entries_tokens : forall arr fields,
  map unparse_expr arr ++
  map (fun kv : string * expr => match kv with (k, v) => uident k :: UT ItemAssign "=" :: unparse_expr v end) fields =
  map U_entry (map_entries arr fields).
Proof.
  intros arr fields. unfold map_entries. rewrite map_app, !map_map. f_equal.
  apply map_ext. intros [k v]. reflexivity.
Qed.
Lemma map_entries_size : forall arr fields,
  list_sum (map ent_size (map_entries arr fields)) =
  (list_sum (map xesize arr) + list_sum (map fsize fields))%nat.
Proof.
  intros arr fields. unfold map_entries. rewrite map_app, list_sum_app, !map_map. f_equal.
  f_equal. apply map_ext. intros [k v]. reflexivity.
Qed.

Lemma fold_arr : forall arr a0 f0,
  fold_left apply_entry (map MArr arr) (a0, f0) = (a0 ++ arr, f0).
Proof.
  induction arr as [|e arr IH]; intros a0 f0; cbn [map fold_left]; [rewrite app_nil_r; reflexivity|].
  cbn [apply_entry fst snd]. rewrite IH. rewrite <- app_assoc. reflexivity.
Qed.
Lemma fold_fields : forall fields a0 m, keys_inc (map fst (m ++ fields)) ->
  fold_left apply_entry (map mfld fields) (a0, m) = (a0, m ++ fields).
Proof.
  induction fields as [|[k v] fields IH]; intros a0 m H; cbn [map fold_left]; [rewrite app_nil_r; reflexivity|].
  cbn [mfld apply_entry fst snd].
  rewrite fields_set_snoc.
  - rewrite IH; [rewrite <- app_assoc; reflexivity|]. rewrite <- app_assoc. exact H.
  - rewrite map_app in H. cbn [map fst] in H. apply (keys_inc_before _ _ _ H).
Qed.
Lemma fold_entries : forall arr fields, keys_inc (map fst fields) ->
  fold_left apply_entry (map_entries arr fields) ([], []) = (arr, fields).
Proof.
  intros arr fields H. unfold map_entries. rewrite fold_left_app, fold_arr. cbn [app].
  rewrite fold_fields; [reflexivity|exact H].
Qed.

(* no field entry repeats a key that is already there (the parser rejects a repeated field name) *)
Definition ent_fresh (f : list (string * expr)) (x : mentry) : Prop :=
  match x with MArr _ => True | MFld k _ => has_key k f = false end.
Fixpoint ents_fresh (f : list (string * expr)) (l : list mentry) : Prop :=
  match l with
  | [] => True
  | x :: r => ent_fresh f x /\ ents_fresh (snd (apply_entry ([], f) x)) r
  end.
Lemma has_key_above : forall (m : list (string * expr)) k,
  (forall k', In k' (map fst m) -> string_ltb k' k = true) -> has_key k m = false.
Proof.
  induction m as [|[k' v'] m IH]; intros k H; [reflexivity|]. unfold has_key in *. cbn [existsb fst].
  rewrite (string_ltb_neq k' k) by (apply H; left; reflexivity). cbn [orb].
  apply IH. intros k2 H2. apply H. right. exact H2.
Qed.
Lemma ents_fresh_arr : forall arr f l, ents_fresh f (map MArr arr ++ l) <-> ents_fresh f l.
Proof.
  induction arr as [|e arr IH]; intros f l; [tauto|]. cbn [map app ents_fresh ent_fresh apply_entry snd]. rewrite IH. tauto.
Qed.
Lemma ents_fresh_fields : forall fields m, keys_inc (map fst (m ++ fields)) -> ents_fresh m (map mfld fields).
Proof.
  induction fields as [|[k v] fields IH]; intros m H; [exact I|]. cbn [map mfld ents_fresh ent_fresh apply_entry snd].
  assert (Hlt : forall k', In k' (map fst m) -> string_ltb k' k = true).
  { rewrite map_app in H. cbn [map fst] in H. apply (keys_inc_before _ _ _ H). }
  split; [apply has_key_above; exact Hlt|].
  rewrite fields_set_snoc by exact Hlt. apply IH. rewrite <- app_assoc. exact H.
Qed.
Lemma ents_fresh_entries : forall arr fields, keys_inc (map fst fields) -> ents_fresh [] (map_entries arr fields).
Proof. intros arr fields H. unfold map_entries. apply ents_fresh_arr. apply ents_fresh_fields. exact H. Qed.

Lemma sep_by_cons_flat : forall (A : Type) (sep : A) (l : list (list A)) (x : list A),
  sep_by sep (x :: l) = x ++ flat_map (fun y => sep :: y) l.
Proof.
  intros A sep. induction l as [|y l IH]; intros x; cbn [flat_map]; [cbn; rewrite app_nil_r; reflexivity|].
  change (sep_by sep (x :: y :: l)) with (x ++ sep :: sep_by sep (y :: l)).
  rewrite IH. reflexivity.
Qed.

(* ---- first tokens ---- *)
Definition xexpr_start (k : toktype) : bool :=
  expr_start k || match k with KeywordFn | ItemLeftSquareParen => true | _ => false end.

Lemma xU_starts_strong : forall e, xfrag e ->
  exists u us, unparse_expr e = u :: us /\
    forall t, Umatch u t ->
      xexpr_start (lt_typ t) = true /\ (starts_fn e = false -> lt_typ t <> KeywordFn).
Proof.
  induction e; intros Hf; try (cbn [xfrag] in Hf; contradiction).
  - eexists _, _. split; [reflexivity|]. intros t [[H _]|[H _]]; rewrite H; (split; [reflexivity|intros _; discriminate]).
  - eexists _, _. split; [reflexivity|]. intros t [H _]; rewrite H; (split; [reflexivity|intros _; discriminate]).
  - eexists _, _. split; [reflexivity|]. intros t [H _]; rewrite H; (split; [reflexivity|intros _; discriminate]).
  - eexists _, _. split; [reflexivity|]. intros t [H _]; rewrite H. split; [reflexivity|]. cbn [starts_fn]. discriminate.
  - eexists _, _. split; [reflexivity|]. intros t [H _]; rewrite H; (split; [reflexivity|intros _; discriminate]).
  - rewrite xfrag_call in Hf. destruct Hf as [Hf _].
    cbn [unparse_expr starts_fn]. unfold paren_if. destruct (8 <? level e).
    + destruct (IHe Hf) as (u & us & E & H). rewrite E. eexists _, _. split; [reflexivity|exact H].
    + eexists _, _. split; [reflexivity|]. intros t [H _]; rewrite H; (split; [reflexivity|intros _; discriminate]).
  - cbn [xfrag] in Hf. destruct Hf as [Hf _].
    eexists _, _. split; [reflexivity|]. intros t [H _]. unfold utok_of in H. cbn in H. rewrite H.
    destruct (t_typ op); try discriminate; (split; [reflexivity|intros _; discriminate]).
  - cbn [xfrag] in Hf. destruct Hf as (_ & Hf & _).
    cbn [unparse_expr starts_fn]. unfold paren_if at 1. destruct (tok_prec (t_typ op) - 1 <? level e1).
    + destruct (IHe1 Hf) as (u & us & E & H). rewrite E. eexists _, _. split; [reflexivity|exact H].
    + eexists _, _. split; [reflexivity|]. intros t [H _]; rewrite H; (split; [reflexivity|intros _; discriminate]).
  - eexists _, _. split; [reflexivity|]. intros t [H _]; rewrite H; (split; [reflexivity|intros _; discriminate]).
Qed.

Lemma xU_starts : forall e, xfrag e ->
  exists u us, unparse_expr e = u :: us /\
    forall t, Umatch u t -> prefix_of (lt_typ t) <> None /\ lt_typ t <> ItemRightParen.
Proof.
  intros e Hf. destruct (xU_starts_strong e Hf) as (u & us & E & H). exists u, us. split; [exact E|].
  intros t Hm. destruct (H t Hm) as [H1 _]. destruct (lt_typ t); try discriminate; split; discriminate.
Qed.

Lemma xinfix_level_gt1 : forall e, xfrag e -> is_infix_node e = true -> 1 < level e.
Proof.
  intros e Hf Hi. destruct e; try discriminate; cbn [level]; [lia|].
  cbn [xfrag] in Hf. destruct Hf as [Hf _]. pose proof (binop_prec _ Hf). lia.
Qed.

Definition xsfx_frag (x : sfx) : Prop :=
  match x with
  | XBin op r => is_binop (t_typ op) = true /\ xfrag r
  | XCall args => x_all_exprs args
  end.

Lemma xspine_frag : forall e, xfrag e ->
  xfrag (hd_expr (fst (spine e))) /\ Forall xsfx_frag (snd (spine e)).
Proof.
  induction e; intros Hf; cbn [spine]; try (cbn [fst snd hd_expr]; split; [exact Hf|constructor]).
  - rewrite xfrag_call in Hf. destruct Hf as [Hf1 Hf2].
    destruct (8 <? level e).
    + destruct (spine e) as [h s]. cbn [fst snd] in *. destruct (IHe Hf1) as [A B].
      split; [exact A|]. apply Forall_app. split; [exact B|]. constructor; [exact Hf2|constructor].
    + cbn [fst snd hd_expr]. split; [exact Hf1|]. constructor; [exact Hf2|constructor].
  - cbn [xfrag] in Hf. destruct Hf as (Hf1 & Hf2 & Hf3).
    destruct (tok_prec (t_typ op) - 1 <? level e1).
    + destruct (spine e1) as [h s]. cbn [fst snd] in *. destruct (IHe1 Hf2) as [A B].
      split; [exact A|]. apply Forall_app. split; [exact B|]. constructor; [split; assumption|constructor].
    + cbn [fst snd hd_expr]. split; [exact Hf2|]. constructor; [split; assumption|constructor].
Qed.

(* after a leading identifier of an expression the next token is not '=' *)
Lemma xsecond_not_assign : forall e t1 ts' tq rest,
  xfrag e -> Umatches (unparse_expr e) (t1 :: ts') -> lt_typ t1 = ItemIdentifier ->
  lt_typ tq <> ItemAssign ->
  exists t2 r2, ts' ++ tq :: rest = t2 :: r2 /\ lt_typ t2 <> ItemAssign.
Proof.
  intros e t1 ts' tq rest Hf Hm H1 Hq.
  pose proof (spine_tokens e) as Etok. pose proof (xspine_frag e Hf) as [Hfh Hfs].
  pose proof (spine_head_bare e) as Hbare.
  destruct (spine e) as [h s]. cbn [fst snd] in *. rewrite Etok in Hm.
  destruct h as [h0|l]; cbn [U_hd hd_expr] in *.
  - specialize (Hbare h0 eq_refl).
    destruct h0; try discriminate; try (cbn [xfrag] in Hfh; contradiction); cbn [unparse_expr app] in Hm.
    + apply Umatches_cons in Hm. destruct Hm as (t & r & E & [[A _]|[A _]] & _); inversion E; subst; congruence.
    + apply Umatches_cons in Hm. destruct Hm as (t & r & E & [A _] & _); inversion E; subst; congruence.
    + apply Umatches_cons in Hm. destruct Hm as (t & r & E & [A _] & _); inversion E; subst; congruence.
    + try rewrite <- app_comm_cons in Hm.
      apply Umatches_cons in Hm. destruct Hm as (t & r & E & [A _] & _); inversion E; subst; congruence.
    + apply Umatches_cons in Hm. destruct Hm as (t & r & E & _ & Hm). inversion E; subst.
      destruct s as [|y s2].
      * cbn [flat_map] in Hm. apply Umatches_nil in Hm. subst. cbn [app]. eexists _, _. split; [reflexivity|]. exact Hq.
      * inversion Hfs as [|y' s2' Hy _]; subst. cbn [flat_map] in Hm.
        destruct y as [op r0|args]; cbn [U_sfx xsfx_frag] in *.
        -- rewrite <- app_comm_cons in Hm. apply Umatches_cons in Hm. destruct Hm as (t2 & r2 & -> & [A _] & _).
           cbn [app]. eexists _, _. split; [reflexivity|]. cbn in A. rewrite A. destruct Hy as [Hy _].
           intro E2. rewrite E2 in Hy. discriminate.
        -- rewrite <- app_comm_cons in Hm. apply Umatches_cons in Hm. destruct Hm as (t2 & r2 & -> & [A _] & _).
           cbn [app]. eexists _, _. split; [reflexivity|]. rewrite A. discriminate.
    + cbn [xfrag] in Hfh. destruct Hfh as [Hun _].
      try rewrite <- app_comm_cons in Hm.
      apply Umatches_cons in Hm. destruct Hm as (t & r & E & [A _] & _). inversion E; subst. cbn in A.
      rewrite H1 in A. rewrite <- A in Hun. discriminate.
    + try rewrite <- app_comm_cons in Hm.
      apply Umatches_cons in Hm. destruct Hm as (t & r & E & [A _] & _); inversion E; subst; congruence.
  - try rewrite <- app_comm_cons in Hm.
    apply Umatches_cons in Hm. destruct Hm as (t & r & E & [A _] & _). inversion E; subst. congruence.
Qed.

(* ---- the round trip on parser states whose look-ahead holds the tokens ---- *)
Section XRT.
Variable inp : input.

Ltac rv := repeat rewrite app_nil_r;
  repeat (progress (cbn [rev app]) || rewrite rev_app_distr || rewrite <- app_assoc); reflexivity.
Ltac feq := first [ reflexivity | f_equal; first [ reflexivity | f_equal; first [ reflexivity | rv ] ] ].

Definition XMain (e : expr) : Prop :=
  forall pre n ts rest p c,
    xfrag e -> 1 <= pre <= 8 ->
    (is_infix_node e = true -> pre < level e) ->
    Umatches (unparse_expr e) ts ->
    stop pre rest ->
    (5 * xesize e + 8 <= n)%nat ->
    p_expr inp n pre (mkP p (ts ++ rest) c) = ROk e (mkP p rest (rev ts ++ c)).

Definition XNodeOK (x : node) : Prop := forall n ts rest p c,
  Umatches (unparse_node x) ts -> follow rest -> (5 * xndsize x + 20 <= n)%nat ->
  p_statement inp n (mkP p (ts ++ rest) c) = ROk x (mkP p rest (rev ts ++ c)).

Lemma xoperand : forall r, XMain r -> forall m pre n ts rest p c,
  xfrag r -> 1 <= pre <= 8 ->
  (m < level r -> is_infix_node r = true -> pre < level r) ->
  Umatches (paren_if m r (unparse_expr r)) ts ->
  stop pre rest ->
  (5 * xesize r + 10 <= n)%nat ->
  p_expr inp n pre (mkP p (ts ++ rest) c) = ROk r (mkP p rest (rev ts ++ c)).
Proof.
  intros r HM m pre n ts rest p c Hf Hpre Hb Hm Hs Hn. unfold paren_if in Hm.
  destruct (m <? level r) eqn:E.
  - apply Z.ltb_lt in E. apply HM; try assumption; [auto|lia].
  - apply Umatches_cons in Hm. destruct Hm as (tl & ts1 & -> & [Hl1 Hl2] & Hm).
    apply Umatches_app in Hm. destruct Hm as (tr & ts2 & -> & Hr & Hm).
    apply Umatches_cons in Hm. destruct Hm as (trp & ts3 & -> & [Hr1 Hr2] & Hm).
    apply Umatches_nil in Hm. subst ts3.
    destruct n as [|n]; [lia|]. rewrite p_expr_eq. cbn [app]. rewrite nx. cbn [bindP].
    rewrite Hl1. cbn [prefix_of pbackup consumed prod ahead].
    destruct n as [|n]; [lia|]. rewrite p_prefix_paren_eq, nx. cbn [bindP].
    rewrite <- app_assoc. cbn [app]. unfold Lowest.
    rewrite (HM 1 n tr (trp :: rest) p (tl :: c)); try assumption; try lia.
    + cbn [bindP]. rewrite pk. cbn [bindP]. rewrite (typ_is_true trp _ Hr1). rewrite nx. cbn [bindP].
      destruct n as [|n]; [pose proof (xsize_pos r); lia|].
      rewrite loop_stops by assumption.
      f_equal. f_equal. cbn [rev]. rewrite rev_app_distr. cbn [rev app]. rewrite <- !app_assoc. reflexivity.
    + intros Hi. apply xinfix_level_gt1; assumption.
    + apply stop_tok. right. rewrite Hr1. cbn. uprec. lia.
Qed.

Lemma stop1_after_arg : forall (r : list expr) ts2 rest,
  Umatches (flat_map (fun a => COMMA :: unparse_expr a) r ++ [RP]) ts2 -> stop 1 (ts2 ++ rest).
Proof.
  intros r ts2 rest Hm. destruct r as [|b r].
  - cbn [flat_map app] in Hm. apply Umatches_cons in Hm. destruct Hm as (t & ts' & -> & [H1 H2] & _).
    cbn [app]. apply stop_tok. right. rewrite H1. cbn. uprec. lia.
  - cbn [flat_map] in Hm. rewrite <- app_assoc in Hm. cbn [app] in Hm.
    apply Umatches_cons in Hm. destruct Hm as (t & ts' & -> & [H1 H2] & _).
    cbn [app]. apply stop_tok. right. rewrite H1. cbn. uprec. lia.
Qed.

Lemma xargs_loop : forall r, Forall XMain r -> forall acc n ts rest p c,
  x_all_exprs r ->
  Umatches (flat_map (fun a => COMMA :: unparse_expr a) r ++ [RP]) ts ->
  (5 * list_sum (map xesize r) + 10 <= n)%nat ->
  p_call_args_loop inp n acc (mkP p (ts ++ rest) c) = ROk (acc ++ r) (mkP p rest (rev ts ++ c)).
Proof.
  induction r as [|a r IH]; intros HM acc n ts rest p c Hf Hm Hn.
  - cbn [flat_map app] in Hm. apply Umatches_cons in Hm. destruct Hm as (t & ts' & -> & [H1 H2] & Hm).
    apply Umatches_nil in Hm. subst ts'.
    destruct n as [|n]; [lia|]. rewrite p_call_args_loop_eq. cbn [app]. rewrite pk. cbn [bindP].
    rewrite (typ_is_false t ItemComma) by (rewrite H1; discriminate).
    rewrite nx. cbn [bindP]. rewrite (typ_is_true t _ H1). rewrite app_nil_r. reflexivity.
  - inversion HM as [|a' r' HMa HMr]; subst.
    cbn [x_all_exprs] in Hf. destruct Hf as [Hfa Hfr].
    cbn [flat_map] in Hm. rewrite <- app_assoc in Hm. cbn [app] in Hm.
    apply Umatches_cons in Hm. destruct Hm as (tc & ts1 & -> & [Hc1 Hc2] & Hm).
    apply Umatches_app in Hm. destruct Hm as (ta & ts2 & -> & Ha & Hm).
    cbn [map list_sum fold_right] in Hn.
    destruct n as [|n]; [lia|]. rewrite p_call_args_loop_eq. cbn [app]. rewrite pk. cbn [bindP].
    rewrite (typ_is_true tc _ Hc1). rewrite nx. cbn [bindP].
    rewrite <- app_assoc.
    pose proof (stop1_after_arg r ts2 rest Hm) as Hstop.
    unfold Lowest.
    rewrite (HMa 1 n ta (ts2 ++ rest) p (tc :: c)); try assumption; try (unfold list_sum in *; lia).
    + cbn [bindP]. rewrite (IH HMr (acc ++ [a]) n ts2 rest p (rev ta ++ tc :: c)); try assumption; try (unfold list_sum in *; lia).
      * f_equal; [rewrite <- app_assoc; reflexivity|].
        f_equal. cbn [rev]. rewrite rev_app_distr. rewrite <- !app_assoc. reflexivity.
      * pose proof (xsize_pos a). unfold list_sum in *. lia.
    + intros Hi. apply xinfix_level_gt1; assumption.
Qed.

Lemma xcall_args_ok : forall args, Forall XMain args -> forall n ts rest p c,
  x_all_exprs args ->
  Umatches (sep_by COMMA (map unparse_expr args) ++ [RP]) ts ->
  (5 * list_sum (map xesize args) + 11 <= n)%nat ->
  p_call_args inp n (mkP p (ts ++ rest) c) = ROk args (mkP p rest (rev ts ++ c)).
Proof.
  intros args HM n ts rest p c Hf Hm Hn. destruct args as [|a r].
  - cbn [map sep_by app] in Hm. apply Umatches_cons in Hm. destruct Hm as (t & ts' & -> & [H1 H2] & Hm).
    apply Umatches_nil in Hm. subst ts'.
    destruct n as [|n]; [lia|]. rewrite p_call_args_eq. cbn [app]. rewrite pk. cbn [bindP].
    rewrite (typ_is_true t _ H1). rewrite nx. reflexivity.
  - inversion HM as [|a' r' HMa HMr]; subst.
    cbn [x_all_exprs] in Hf. destruct Hf as [Hfa Hfr].
    cbn [map] in Hm. rewrite sep_by_flat in Hm. rewrite <- app_assoc in Hm.
    apply Umatches_app in Hm. destruct Hm as (ta & ts2 & -> & Ha & Hm).
    cbn [map list_sum fold_right] in Hn.
    destruct (xU_starts a Hfa) as (u & us & Eu & Hu). rewrite Eu in Ha.
    apply Umatches_cons in Ha. destruct Ha as (t0 & ta' & -> & Hu0 & Ha').
    destruct (Hu t0 Hu0) as [Hp0 Hnr].
    destruct n as [|n]; [lia|]. rewrite p_call_args_eq. rewrite <- app_assoc. cbn [app]. rewrite pk. cbn [bindP].
    rewrite (typ_is_false t0 _ Hnr).
    pose proof (stop1_after_arg r ts2 rest Hm) as Hstop.
    unfold Lowest.
    change (t0 :: ta' ++ ts2 ++ rest) with ((t0 :: ta') ++ ts2 ++ rest).
    rewrite (HMa 1 n (t0 :: ta') (ts2 ++ rest) p c); try assumption; try (unfold list_sum in *; lia).
    + cbn [bindP]. rewrite (xargs_loop r HMr [a] n ts2 rest p (rev (t0 :: ta') ++ c)); try assumption; try (unfold list_sum in *; lia).
      cbn [app]. f_equal. f_equal.
      change (t0 :: ta' ++ ts2) with ((t0 :: ta') ++ ts2).
      rewrite rev_app_distr. rewrite <- app_assoc. reflexivity.
    + intros Hi. apply xinfix_level_gt1; assumption.
    + rewrite Eu. constructor; assumption.
Qed.

Definition xsfx_ok (x : sfx) : Prop :=
  match x with
  | XBin op r => is_binop (t_typ op) = true /\ xfrag r /\ XMain r
  | XCall args => x_all_exprs args /\ Forall XMain args
  end.

Lemma xinfix_ok : forall s, Forall xsfx_ok s -> forall up lhs pre n ts rest p c,
  1 <= pre <= 8 -> chain_ok up s -> (forall x, In x s -> pre < sfx_prec x) ->
  Umatches (flat_map U_sfx s) ts -> stop pre rest ->
  (5 * list_sum (map xsfx_size s) + 8 <= n)%nat ->
  p_infix_loop inp n pre lhs (mkP p (ts ++ rest) c) =
  ROk (fold_left app_sfx s lhs) (mkP p rest (rev ts ++ c)).
Proof.
  induction s as [|x s IH]; intros Hok up lhs pre n ts rest p c Hpre Hch Hlow Hm Hs Hn.
  - cbn [flat_map] in Hm. apply Umatches_nil in Hm. subst ts. cbn [app rev fold_left].
    destruct n as [|n]; [lia|]. apply loop_stops. exact Hs.
  - inversion Hok as [|x' s' Hx Hsok]; subst.
    cbn [chain_ok] in Hch. destruct Hch as [Hup Hch].
    assert (Hpx : pre < sfx_prec x) by (apply Hlow; left; reflexivity).
    assert (Hlow' : forall y, In y s -> pre < sfx_prec y) by (intros y Hy; apply Hlow; right; exact Hy).
    cbn [flat_map] in Hm. apply Umatches_app in Hm. destruct Hm as (tx & ts' & -> & Hmx & Hms).
    cbn [map list_sum fold_right] in Hn. fold (list_sum (map xsfx_size s)) in Hn.
    destruct x as [op r|args]; cbn [U_sfx sfx_prec xsfx_size xsfx_ok] in *.
    + destruct Hx as (Hbin & Hfr & HMr).
      pose proof (binop_prec _ Hbin) as Hbp.
      apply Umatches_cons in Hmx. destruct Hmx as (top & tr & -> & Hop & Hmr).
      pose proof Hop as [Ht1 Ht2]. cbn in Ht1.
      destruct n as [|n]; [lia|]. rewrite p_infix_loop_eq. rewrite <- app_assoc. cbn [app]. rewrite pk. cbn [bindP].
      rewrite (typ_is_false top ItemTerminateLine) by (rewrite Ht1; apply binop_not_semi; exact Hbin).
      rewrite Ht1. replace (pre <? tok_prec (t_typ op)) with true by (symmetry; apply Z.ltb_lt; lia).
      cbn [negb andb]. rewrite (binop_infix _ Hbin).
      destruct n as [|n]; [lia|]. rewrite p_binary_eq, nx. cbn [bindP]. rewrite Ht1.
      try rewrite <- app_assoc.
      assert (Hstop : stop (tok_prec (t_typ op)) (ts' ++ rest)).
      { destruct s as [|y s2].
        - cbn [flat_map] in Hms. apply Umatches_nil in Hms. subst ts'. cbn [app].
          apply (stop_weaken pre); [exact Hs|lia].
        - cbn [chain_ok] in Hch. destruct Hch as [Hy _].
          apply (sfx_first_stops y s2); try assumption; try lia.
          inversion Hsok as [|y' s2' Hyok _]; subst. destruct y; cbn [xsfx_ok] in Hyok; [tauto|exact I]. }
      rewrite (xoperand r HMr (tok_prec (t_typ op)) (tok_prec (t_typ op)) n tr (ts' ++ rest) p (top :: c));
        try assumption; try lia; auto.
      cbn [bindP]. rewrite (tk_utok op top Hop).
      rewrite (IH Hsok (tok_prec (t_typ op)) (EBinary lhs r op) pre (S n) ts' rest p (rev tr ++ top :: c));
        try assumption; try lia.
      cbn [fold_left app_sfx]. f_equal. f_equal.
      change (top :: tr ++ ts') with ((top :: tr) ++ ts'). rewrite rev_app_distr. cbn [rev].
      rewrite <- !app_assoc. reflexivity.
    + destruct Hx as (Hfa & HMa).
      apply Umatches_cons in Hmx. destruct Hmx as (tl & targs & -> & [Hl1 Hl2] & Hma).
      destruct n as [|n]; [lia|]. rewrite p_infix_loop_eq. rewrite <- app_assoc. cbn [app]. rewrite pk. cbn [bindP].
      rewrite (typ_is_false tl ItemTerminateLine) by (rewrite Hl1; discriminate).
      rewrite Hl1. replace (pre <? tok_prec ItemLeftParen) with true by (symmetry; apply Z.ltb_lt; cbn; uprec; lia).
      cbn [negb andb infix_of].
      destruct n as [|n]; [lia|]. rewrite p_call_eq. unfold pconsume. rewrite nx. cbn [bindP].
      rewrite (typ_is_true tl _ Hl1). cbn [bindP].
      try rewrite <- app_assoc.
      rewrite (xcall_args_ok args HMa n targs (ts' ++ rest) p (tl :: c)); try assumption; try lia.
      cbn [bindP].
      rewrite (IH Hsok 9 (ECall lhs args) pre (S n) ts' rest p (rev targs ++ tl :: c));
        try assumption; try lia.
      cbn [fold_left app_sfx]. f_equal. f_equal.
      change (tl :: targs ++ ts') with ((tl :: targs) ++ ts'). rewrite rev_app_distr. cbn [rev].
      rewrite <- !app_assoc. reflexivity.
Qed.

(* ---- map literals ---- *)
Lemma p_prefix_map_eq : forall n ps, p_prefix inp (S n) PfMap ps =
  pb (_, s) <- pnext inp ps;
  pb (t, s) <- ppeek inp s;
  if typ_is t ItemRightSquareParen then pb (_, s) <- pnext inp s; ROk (EMap [] []) s
  else p_map_loop inp n [] [] s.
Proof. reflexivity. Qed.
Lemma p_map_loop_eq : forall n arr fields ps, p_map_loop inp (S n) arr fields ps =
  pb (ele, s) <- pnext inp ps;
  pb (nxt, s) <- pnext inp s;
  pb (af, s) <-
    (if typ_is ele ItemIdentifier && typ_is nxt ItemAssign then
       pb (e, s) <- p_expr inp n Lowest s;
       if has_key (lt_val ele) fields then RErr s else ROk (arr, fields_set (lt_val ele) e fields) s
     else
       pb (e, s) <- p_expr inp n Lowest (pbackup (pbackup s)); ROk (arr ++ [e], fields) s);
  let (arr2, fields2) := af in
  pb (t, s) <- pnext inp s;
  if typ_is t ItemRightSquareParen then ROk (EMap arr2 fields2) s
  else if typ_is t ItemComma then p_map_loop inp n arr2 fields2 s
  else RErr s.
Proof. reflexivity. Qed.

Definition ent_ok (x : mentry) : Prop :=
  match x with MArr e => xfrag e /\ XMain e | MFld _ v => xfrag v /\ XMain v end.
Definition RSQ := UT ItemRightSquareParen "]".

Lemma ent_size_pos : forall x, (1 <= ent_size x)%nat.
Proof. destruct x; cbn [ent_size]; [apply xsize_pos|lia]. Qed.

Lemma entry_first : forall x te, ent_ok x -> Umatches (U_entry x) te ->
  exists t1 te', te = t1 :: te' /\ lt_typ t1 <> ItemRightSquareParen.
Proof.
  intros x te Hx Hm. destruct x as [e|k v]; cbn [ent_ok U_entry] in *.
  - destruct Hx as [Hf _]. destruct (xU_starts_strong e Hf) as (u & us & Eu & Hu). rewrite Eu in Hm.
    apply Umatches_cons in Hm. destruct Hm as (t1 & te' & -> & Hu1 & _). exists t1, te'. split; [reflexivity|].
    destruct (Hu t1 Hu1) as [A _]. intro E. rewrite E in A. discriminate.
  - apply Umatches_cons in Hm. destruct Hm as (t1 & te' & -> & [H1 _] & _). exists t1, te'. split; [reflexivity|].
    rewrite H1. discriminate.
Qed.

(* one entry of a map literal, after the two tokens that p_map_loop reads first *)
Lemma xmap_entry : forall x, ent_ok x -> forall arr fields n te tq rest p c,
  Umatches (U_entry x) te -> (lt_typ tq = ItemComma \/ lt_typ tq = ItemRightSquareParen) ->
  (5 * ent_size x + 8 <= n)%nat -> ent_fresh fields x ->
  exists t1 t2 r2, te ++ tq :: rest = t1 :: t2 :: r2 /\
    (if typ_is t1 ItemIdentifier && typ_is t2 ItemAssign then
       pb (e, s) <- p_expr inp n Lowest (mkP p r2 (t2 :: t1 :: c));
       if has_key (lt_val t1) fields then RErr s else ROk (arr, fields_set (lt_val t1) e fields) s
     else
       pb (e, s) <- p_expr inp n Lowest (pbackup (pbackup (mkP p r2 (t2 :: t1 :: c))));
       ROk (arr ++ [e], fields) s) =
    ROk (apply_entry (arr, fields) x) (mkP p (tq :: rest) (rev te ++ c)).
Proof.
  intros x Hx arr fields n te tq rest p c Hm Hq Hn Hfr.
  assert (Hstop : stop 1 (tq :: rest)).
  { apply stop_tok. right. destruct Hq as [Hq|Hq]; rewrite Hq; cbn; uprec; lia. }
  assert (Hqa : lt_typ tq <> ItemAssign) by (destruct Hq as [Hq|Hq]; rewrite Hq; discriminate).
  destruct x as [e|k v]; cbn [ent_ok U_entry ent_size apply_entry fst snd] in *.
  - destruct Hx as [Hf HM].
    destruct (xU_starts_strong e Hf) as (u & us & Eu & Hu).
    pose proof Hm as Hm'. rewrite Eu in Hm'. apply Umatches_cons in Hm'.
    destruct Hm' as (t1 & te' & -> & Hu1 & _).
    assert (Hpar : p_expr inp n Lowest (mkP p ((t1 :: te') ++ tq :: rest) c) =
                   ROk e (mkP p (tq :: rest) (rev (t1 :: te') ++ c))).
    { unfold Lowest. apply HM; try assumption; try lia. intros Hi. apply xinfix_level_gt1; assumption. }
    destruct (toktype_eqb (lt_typ t1) ItemIdentifier) eqn:Eid.
    + assert (Hid : lt_typ t1 = ItemIdentifier).
      { unfold toktype_eqb in Eid. apply Z.eqb_eq in Eid. destruct (lt_typ t1); cbn in Eid; try discriminate; reflexivity. }
      destruct (xsecond_not_assign e t1 te' tq rest Hf Hm Hid Hqa) as (t2 & r2 & E2 & Hna).
      exists t1, t2, r2. split; [cbn [app]; rewrite E2; reflexivity|].
      rewrite (typ_is_false t2 _ Hna). rewrite andb_false_r.
      cbn [pbackup consumed prod ahead]. rewrite <- E2.
      change (t1 :: te' ++ tq :: rest) with ((t1 :: te') ++ tq :: rest). rewrite Hpar. reflexivity.
    + assert (E2 : exists t2 r2, te' ++ tq :: rest = t2 :: r2) by (destruct te'; cbn [app]; eauto).
      destruct E2 as (t2 & r2 & E2).
      exists t1, t2, r2. split; [cbn [app]; rewrite E2; reflexivity|].
      replace (typ_is t1 ItemIdentifier) with false by (symmetry; exact Eid). cbn [andb].
      cbn [pbackup consumed prod ahead]. rewrite <- E2.
      change (t1 :: te' ++ tq :: rest) with ((t1 :: te') ++ tq :: rest). rewrite Hpar. reflexivity.
  - destruct Hx as [Hf HM].
    apply Umatches_cons in Hm. destruct Hm as (t1 & r1 & -> & [H1 H1v] & Hm).
    apply Umatches_cons in Hm. destruct Hm as (t2 & tv & -> & [H2 _] & Hm).
    exists t1, t2, (tv ++ tq :: rest). split; [reflexivity|].
    rewrite (typ_is_true t1 _ H1), (typ_is_true t2 _ H2). cbn [andb]. unfold Lowest.
    rewrite (HM 1 n tv (tq :: rest) p (t2 :: t1 :: c)); try assumption; try lia.
    + cbn [bindP]. rewrite H1v. cbn [ent_fresh] in Hfr. rewrite Hfr. f_equal. f_equal. rv.
    + intros Hi. apply xinfix_level_gt1; assumption.
Qed.

Lemma xmap_loop_ok : forall r x, Forall ent_ok (x :: r) -> forall a0 f0 n ts rest p c,
  Umatches (U_entry x ++ flat_map (fun y => COMMA :: y) (map U_entry r) ++ [RSQ]) ts ->
  (5 * list_sum (map ent_size (x :: r)) + 10 <= n)%nat -> ents_fresh f0 (x :: r) ->
  p_map_loop inp n a0 f0 (mkP p (ts ++ rest) c) =
  ROk (EMap (fst (fold_left apply_entry (x :: r) (a0, f0))) (snd (fold_left apply_entry (x :: r) (a0, f0))))
      (mkP p rest (rev ts ++ c)).
Proof.
  induction r as [|y r IH]; intros x Hok a0 f0 n ts rest p c Hm Hn Hfr;
    inversion Hok as [|x' r' Hx Hr]; subst; destruct Hfr as [Hfx Hfr];
    cbn [map list_sum fold_right] in Hn.
  - cbn [map flat_map app] in Hm.
    apply Umatches_app in Hm. destruct Hm as (te & tq0 & -> & Hme & Hmq).
    apply Umatches_cons in Hmq. destruct Hmq as (tq & r0 & -> & [Hq _] & Hr0). apply Umatches_nil in Hr0. subst r0.
    destruct n as [|n]; [lia|]. rewrite p_map_loop_eq.
    destruct (xmap_entry x Hx a0 f0 n te tq rest p c Hme (or_intror Hq) ltac:(lia) Hfx) as (t1 & t2 & r2 & E & Hent).
    rewrite <- app_assoc. cbn [app]. rewrite E. rewrite nx. cbn [bindP]. rewrite nx. cbn [bindP].
    rewrite Hent. cbn [bindP fold_left].
    destruct (apply_entry (a0, f0) x) as [a2 f2]. rewrite nx. cbn [bindP].
    rewrite (typ_is_true tq _ Hq). cbn [fst snd]. f_equal. f_equal. rv.
  - fold (list_sum (map ent_size r)) in Hn. cbn [map flat_map] in Hm.
    apply Umatches_app in Hm. destruct Hm as (te & ts1 & -> & Hme & Hm).
    rewrite <- app_assoc in Hm. cbn [app] in Hm.
    apply Umatches_cons in Hm. destruct Hm as (tq & ts2 & -> & [Hq _] & Hm).
    destruct n as [|n]; [lia|]. rewrite p_map_loop_eq.
    destruct (xmap_entry x Hx a0 f0 n te tq (ts2 ++ rest) p c Hme (or_introl Hq) ltac:(lia) Hfx) as (t1 & t2 & r2 & E & Hent).
    rewrite <- app_assoc. cbn [app]. rewrite E. rewrite nx. cbn [bindP]. rewrite nx. cbn [bindP].
    rewrite Hent. cbn [bindP]. cbn [fold_left].
    assert (Esnd : snd (apply_entry (a0, f0) x) = snd (apply_entry ([], f0) x)) by (destruct x; reflexivity).
    destruct (apply_entry (a0, f0) x) as [a2 f2]. cbn [snd] in Esnd. rewrite <- Esnd in Hfr. rewrite nx. cbn [bindP].
    rewrite (typ_is_false tq ItemRightSquareParen) by (rewrite Hq; discriminate).
    rewrite (typ_is_true tq _ Hq).
    pose proof (ent_size_pos x) as Hpos.
    rewrite (IH y Hr a2 f2 n ts2 rest p (tq :: rev te ++ c) Hm
               ltac:(unfold list_sum in *; cbn [map fold_right] in *; lia) Hfr).
    cbn [fold_left]. f_equal. f_equal. rv.
Qed.

Lemma xmap_prefix_ok : forall arr fields, Forall ent_ok (map_entries arr fields) ->
  keys_inc (map fst fields) -> forall n ts rest p c,
  Umatches (unparse_expr (EMap arr fields)) ts ->
  (5 * (list_sum (map xesize arr) + list_sum (map fsize fields)) + 12 <= n)%nat ->
  p_prefix inp n PfMap (mkP p (ts ++ rest) c) = ROk (EMap arr fields) (mkP p rest (rev ts ++ c)).
Proof.
  intros arr fields Hok Hkeys n ts rest p c Hm Hn.
  cbn [unparse_expr] in Hm. rewrite map_entries_tokens in Hm.
  rewrite <- map_entries_size in Hn. pose proof (fold_entries arr fields Hkeys) as Hfold.
  apply Umatches_cons in Hm. destruct Hm as (tl & ts1 & -> & [Hl _] & Hm).
  destruct n as [|n]; [lia|]. rewrite p_prefix_map_eq. cbn [app]. rewrite nx. cbn [bindP].
  destruct (map_entries arr fields) as [|x r] eqn:Eent.
  - unfold map_entries in Eent. apply app_eq_nil in Eent. destruct Eent as [A B].
    apply map_eq_nil in A. apply map_eq_nil in B. subst arr fields.
    cbn [map sep_by app] in Hm.
    apply Umatches_cons in Hm. destruct Hm as (tr & r0 & -> & [Hr _] & Hr0). apply Umatches_nil in Hr0. subst r0.
    cbn [app]. rewrite pk. cbn [bindP]. rewrite (typ_is_true tr _ Hr). rewrite nx. reflexivity.
  - cbn [map] in Hm. rewrite sep_by_cons_flat in Hm. rewrite <- app_assoc in Hm.
    inversion Hok as [|x' r' Hx Hr]; subst.
    pose proof Hm as Hm0.
    apply Umatches_app in Hm. destruct Hm as (te & ts2 & -> & Hme & _).
    destruct (entry_first x te Hx Hme) as (t1 & te' & -> & Hnr).
    rewrite <- app_assoc. cbn [app]. rewrite pk. cbn [bindP]. rewrite (typ_is_false t1 _ Hnr).
    change (t1 :: te' ++ ts2 ++ rest) with ((t1 :: te') ++ ts2 ++ rest).
    rewrite (app_assoc (t1 :: te') ts2 rest).
    rewrite (xmap_loop_ok r x Hok [] [] n ((t1 :: te') ++ ts2) rest p (tl :: c) Hm0 ltac:(lia)
               ltac:(rewrite <- Eent; apply ents_fresh_entries; exact Hkeys)).
    rewrite Hfold. cbn [fst snd]. f_equal. f_equal. rv.
Qed.

(* ---- statements ---- *)
Definition xstmt_start (k : toktype) : bool :=
  xexpr_start k ||
  match k with
  | KeywordLet | KeywordReturn | KeywordBreak | KeywordContinue | KeywordFallthrough | KeywordIf
  | KeywordWhile | KeywordFor | KeywordSwitch | KeywordFn | ItemLeftBrace => true
  | _ => false
  end.

Lemma xnode_first_wf : forall x, xwf_node x ->
  exists u us, unparse_node x = u :: us /\ forall t, Umatch u t -> xstmt_start (lt_typ t) = true.
Proof.
  intros x Hw. destruct x as [e|st]; cbn [xwf_node] in Hw.
  - cbn [unparse_node]. destruct (starts_fn e).
    + eexists _, _. split; [reflexivity|]. intros t [A _]. rewrite A. reflexivity.
    + destruct (xU_starts_strong e Hw) as (u & us & E & H). rewrite E. eexists _, _. split; [reflexivity|].
      intros t Hm. destruct (H t Hm) as [H1 _]. unfold xstmt_start. rewrite H1. reflexivity.
  - destruct st; cbn [xwf_stmt] in Hw; try contradiction; cbn [unparse_node unparse_stmt].
    + destruct b as [|l]; [contradiction|]. cbn [unparse_block]. eexists _, _. split; [reflexivity|].
      intros t [A _]. rewrite A. reflexivity.
    + destruct Hw as [Hid _]. eexists _, _. split; [reflexivity|]. intros t [A _]. cbn in A. rewrite A, Hid. reflexivity.
    + eexists _, _. split; [reflexivity|]. intros t [A _]. rewrite A. reflexivity.
    + eexists _, _. split; [reflexivity|]. intros t [A _]. rewrite A. reflexivity.
    + destruct t; try contradiction; cbn [ctrl_tok app]; eexists _, _; (split; [reflexivity|]);
      intros t0 [A _]; rewrite A; reflexivity.
    + eexists _, _. split; [reflexivity|]. intros t [A _]. rewrite A. reflexivity.
    + eexists _, _. split; [reflexivity|]. intros t [A _]. rewrite A. reflexivity.
    + eexists _, _. split; [reflexivity|]. intros t [A _]. rewrite A. reflexivity.
    + eexists _, _. split; [reflexivity|]. intros t [A _]. rewrite A. reflexivity.
    + eexists _, _. split; [reflexivity|]. intros t [A _]. rewrite A. reflexivity.
Qed.

Lemma xstmt_start_props : forall k, xstmt_start k = true ->
  k <> ItemRightBrace /\ k <> ItemEOF /\ k <> KeywordElse /\ k <> KeywordCase /\ k <> KeywordDefault.
Proof. intros k H. destruct k; try discriminate; repeat split; discriminate. Qed.

Lemma paren_if_10 : forall e ts, paren_if 10 e ts = LP :: ts ++ [RP].
Proof.
  intros e ts. unfold paren_if. pose proof (level_range e).
  destruct (10 <? level e) eqn:E; [apply Z.ltb_lt in E; lia|reflexivity].
Qed.

Lemma p_prefix_fnlit_eq : forall n ps, p_prefix inp (S n) PfFnLit ps =
  pb (_, s) <- ppeek inp ps;
  pb (f, s) <- p_fn inp n false s;
  match f with
  | SFn _ args body => ROk (EFuncLit args body) s
  | _ => RErr s
  end.
Proof. reflexivity. Qed.

(* the statements of a block after '{', up to and including '}' *)
Lemma xblock_loop_ok : forall nodes acc n ts trb rest p c,
  x_all_nodes nodes -> Forall XNodeOK nodes ->
  Umatches (flat_map unparse_node nodes) ts -> lt_typ trb = ItemRightBrace ->
  (5 * list_sum (map xndsize nodes) + 21 <= n)%nat ->
  p_block_loop inp n acc (mkP p (ts ++ trb :: rest) c) =
  ROk (Block (acc ++ nodes)) (mkP p rest (trb :: rev ts ++ c)).
Proof.
  induction nodes as [|x nodes IH]; intros acc n ts trb rest p c Hw Hok Hm Hb Hn.
  - cbn [flat_map] in Hm. apply Umatches_nil in Hm. subst ts. cbn [app rev].
    destruct n as [|n]; [lia|]. rewrite p_block_loop_eq, pk. cbn [bindP]. rewrite (typ_is_true trb _ Hb).
    rewrite nx. cbn [bindP]. rewrite app_nil_r. reflexivity.
  - cbn [x_all_nodes] in Hw. destruct Hw as [Hwx Hwn].
    inversion Hok as [|x' n' Hx Hns]; subst.
    cbn [flat_map] in Hm. apply Umatches_app in Hm. destruct Hm as (tx & ts' & -> & Hmx & Hms).
    cbn [map list_sum fold_right List.length] in Hn. fold (list_sum (map xndsize nodes)) in Hn.
    assert (Hpos : (1 <= xndsize x)%nat) by (destruct x; cbn [xndsize]; lia).
    destruct (xnode_first_wf x Hwx) as (u & us & Eu & Hu).
    pose proof Hmx as Hmx'. rewrite Eu in Hmx'. apply Umatches_cons in Hmx'.
    destruct Hmx' as (t1 & tx' & Etx & Hu1 & _). specialize (Hu t1 Hu1).
    destruct (xstmt_start_props _ Hu) as (N1 & N2 & _).
    destruct n as [|n]; [lia|]. rewrite p_block_loop_eq. rewrite <- app_assoc.
    rewrite Etx at 1. cbn [app]. rewrite pk. cbn [bindP].
    rewrite (typ_is_false t1 _ N1), (typ_is_false t1 _ N2).
    change (t1 :: tx' ++ ts' ++ trb :: rest) with ((t1 :: tx') ++ ts' ++ trb :: rest). rewrite <- Etx.
    rewrite (Hx n tx (ts' ++ trb :: rest) p c Hmx); [| |lia].
    + cbn [bindP].
      rewrite (IH (block_append acc x) n ts' trb rest p (rev tx ++ c) Hwn Hns Hms Hb ltac:(lia)).
      unfold block_append. f_equal; [rewrite <- app_assoc; reflexivity|]. f_equal.
      rewrite rev_app_distr. rewrite <- app_assoc. reflexivity.
    + (* what follows the statement is not 'else' *)
      destruct nodes as [|y nodes2].
      * cbn [flat_map] in Hms. apply Umatches_nil in Hms. subst ts'. cbn [app].
        exists trb, rest. split; [reflexivity|]. rewrite Hb. discriminate.
      * cbn [x_all_nodes] in Hwn. destruct Hwn as [Hwy _].
        destruct (xnode_first_wf y Hwy) as (uy & usy & Euy & Huy).
        cbn [flat_map] in Hms. rewrite Euy in Hms. rewrite <- app_comm_cons in Hms.
        apply Umatches_cons in Hms. destruct Hms as (ty & ry & -> & Hy1 & _).
        cbn [app]. exists ty, (ry ++ trb :: rest). split; [reflexivity|].
        destruct (xstmt_start_props _ (Huy ty Hy1)) as (_ & _ & N3 & _). exact N3.
Qed.

Lemma xblock_ok : forall nodes n ts rest p c,
  x_all_nodes nodes -> Forall XNodeOK nodes ->
  Umatches (unparse_block (Block nodes)) ts ->
  (5 * xbsize (Block nodes) + 20 <= n)%nat ->
  p_block inp n (mkP p (ts ++ rest) c) = ROk (Block nodes) (mkP p rest (rev ts ++ c)).
Proof.
  intros nodes n ts rest p c Hw Hok Hm Hn. cbn [unparse_block] in Hm.
  apply Umatches_cons in Hm. destruct Hm as (tlb & ts1 & -> & [Hl _] & Hm).
  apply Umatches_app in Hm. destruct Hm as (tn & ts2 & -> & Hmn & Hm).
  apply Umatches_cons in Hm. destruct Hm as (trb & ts3 & -> & [Hr _] & Hm). apply Umatches_nil in Hm. subst ts3.
  cbn [xbsize] in Hn.
  destruct n as [|n]; [lia|]. rewrite p_block_eq. cbn [app]. rewrite (consume_ok inp _ p tlb _ c Hl). cbn [bindP].
  rewrite <- app_assoc. cbn [app].
  rewrite (xblock_loop_ok nodes [] n tn trb rest p (tlb :: c) Hw Hok Hmn Hr ltac:(lia)).
  cbn [app]. f_equal. f_equal. rv.
Qed.

Lemma x_all_nodes_forall : forall l (P : node -> Prop),
  x_all_nodes l -> (forall y, In y l -> xwf_node y -> P y) -> Forall P l.
Proof.
  induction l as [|x l IH]; intros P Hw H; [constructor|].
  cbn [x_all_nodes] in Hw. destruct Hw as [Hx Hl]. constructor.
  - apply H; [left; reflexivity|exact Hx].
  - apply IH; [exact Hl|]. intros y Hy. apply H. right. exact Hy.
Qed.

Lemma xIn_ndsize : forall l y, In y l -> (xndsize y <= list_sum (map xndsize l))%nat.
Proof. intros l y H. apply (In_sum xndsize l y H). Qed.


(* the nodes of a well-formed block are covered by the induction hypothesis *)
Lemma xblock_nodes_ok : forall K nodes,
  (forall y, (xndsize y < K)%nat -> xwf_node y -> XNodeOK y) ->
  (xbsize (Block nodes) < K)%nat -> x_all_nodes nodes -> Forall XNodeOK nodes.
Proof.
  intros K nodes Hsub Hk Hw. apply x_all_nodes_forall; [exact Hw|].
  intros y Hy Hwy. apply Hsub; [|exact Hwy]. pose proof (xIn_ndsize nodes y Hy). cbn [xbsize] in Hk. lia.
Qed.


(* a block where every node is covered by the induction hypothesis *)
Lemma xblock_ok_K : forall K b n ts rest p c,
  (forall y, (xndsize y < K)%nat -> xwf_node y -> XNodeOK y) ->
  (xbsize b < K)%nat -> xwf_block b ->
  Umatches (unparse_block b) ts -> (5 * xbsize b + 20 <= n)%nat ->
  p_block inp n (mkP p (ts ++ rest) c) = ROk b (mkP p rest (rev ts ++ c)).
Proof.
  intros K b n ts rest p c Hsub Hk Hw Hm Hn. destruct b as [|nodes]; [contradiction|].
  rewrite xwf_block_nodes in Hw.
  apply xblock_ok; try assumption.
  apply (xblock_nodes_ok K); assumption.
Qed.

Section XK.
Variable K : nat.
Hypothesis HsubE : forall e, (xesize e < K)%nat -> XMain e.
Hypothesis Hsub : forall y, (xndsize y < K)%nat -> xwf_node y -> XNodeOK y.

Lemma xexpr_stop : forall e, (xesize e < K)%nat -> forall n te rest p c,
  xfrag e -> Umatches (unparse_expr e) te -> stop 1 rest ->
  (5 * xesize e + 8 <= n)%nat ->
  p_expr inp n Lowest (mkP p (te ++ rest) c) = ROk e (mkP p rest (rev te ++ c)).
Proof.
  intros e Hlt n te rest p c Hf Hm Hs Hn. unfold Lowest.
  apply (HsubE e Hlt); try assumption; try lia.
  intros Hi. apply xinfix_level_gt1; assumption.
Qed.

Lemma xexpr_semi : forall e, (xesize e < K)%nat -> forall n te tq rest p c,
  xfrag e -> Umatches (unparse_expr e) te -> lt_typ tq = ItemTerminateLine ->
  (5 * xesize e + 8 <= n)%nat ->
  p_expr inp n Lowest (mkP p (te ++ tq :: rest) c) = ROk e (mkP p (tq :: rest) (rev te ++ c)).
Proof.
  intros e Hlt n te tq rest p c Hf Hm Hq Hn. apply xexpr_stop; try assumption.
  apply stop_tok. left. exact Hq.
Qed.

(* an expression statement; one that begins with `fn` is written in parentheses *)
Lemma xnexpr_ok : forall e, (xndsize (NExpr e) <= K)%nat -> xfrag e -> XNodeOK (NExpr e).
Proof.
  intros e Hk Hf n ts rest p c Hm _ Hn. cbn [xndsize] in Hk, Hn.
  assert (Hlt : (xesize e < K)%nat) by lia.
  destruct n as [|n]; [lia|].
  cbn [unparse_node] in Hm.
  apply Umatches_app in Hm. destruct Hm as (te & tq0 & -> & Hme & Hmq).
  apply Umatches_cons in Hmq. destruct Hmq as (tq & r0 & -> & [Hq _] & Hr0). apply Umatches_nil in Hr0. subst r0.
  rewrite <- app_assoc. cbn [app].
  destruct (starts_fn e) eqn:Efn.
  - pose proof Hme as Hme0. rewrite <- (paren_if_10 e) in Hme0.
    apply Umatches_cons in Hme. destruct Hme as (tl & te' & -> & [Hl _] & _).
    cbn [app].
    rewrite (p_statement_default inp n _ tl _ (pk inp p tl _ c)) by (rewrite Hl; exact I).
    unfold semi_tail, Lowest.
    change (tl :: te' ++ tq :: rest) with ((tl :: te') ++ tq :: rest).
    rewrite (xoperand e (HsubE e Hlt) 10 1 n (tl :: te') (tq :: rest) p c Hf ltac:(lia)).
    + cbn [bindP]. rewrite (consume_ok inp _ p tq rest _ Hq). cbn [bindP]. f_equal. f_equal. rv.
    + intros Hl10. pose proof (level_range e). lia.
    + exact Hme0.
    + apply stop_tok. left. exact Hq.
    + lia.
  - destruct (xU_starts_strong e Hf) as (u & us & Eu & Hu).
    pose proof Hme as Hme'. rewrite Eu in Hme'. apply Umatches_cons in Hme'.
    destruct Hme' as (t1 & te' & -> & Hu1 & _). destruct (Hu t1 Hu1) as [Hst Hnf]. specialize (Hnf Efn).
    cbn [app].
    destruct (toktype_eqb (lt_typ t1) ItemIdentifier) eqn:Eid.
    + assert (Hid : lt_typ t1 = ItemIdentifier).
      { unfold toktype_eqb in Eid. apply Z.eqb_eq in Eid. destruct (lt_typ t1); cbn in Eid; try discriminate; reflexivity. }
      rewrite (p_statement_ident inp n _ t1 _ (pk inp p t1 _ c) Hid). rewrite nx. cbn [bindP].
      destruct (xsecond_not_assign e t1 te' tq rest Hf Hme Hid ltac:(rewrite Hq; discriminate)) as (t2 & r2 & E2 & Hna).
      rewrite E2. rewrite pk. cbn [bindP]. rewrite (typ_is_false t2 _ Hna).
      cbn [pbackup consumed prod ahead]. rewrite <- E2. unfold semi_tail.
      change (t1 :: te' ++ tq :: rest) with ((t1 :: te') ++ tq :: rest).
      rewrite (xexpr_semi e Hlt n (t1 :: te') tq rest p c Hf Hme Hq ltac:(lia)). cbn [bindP].
      rewrite (consume_ok inp _ p tq rest _ Hq). cbn [bindP]. f_equal. f_equal. rv.
    + rewrite (p_statement_default inp n _ t1 _ (pk inp p t1 _ c)).
      * unfold semi_tail. change (t1 :: te' ++ tq :: rest) with ((t1 :: te') ++ tq :: rest).
        rewrite (xexpr_semi e Hlt n (t1 :: te') tq rest p c Hf Hme Hq ltac:(lia)). cbn [bindP].
        rewrite (consume_ok inp _ p tq rest _ Hq). cbn [bindP]. f_equal. f_equal. rv.
      * revert Hst Eid Hnf. destruct (lt_typ t1); intros Hst Eid Hnf; try discriminate; try exact I.
        exfalso. apply Hnf. reflexivity.
Qed.

Lemma xassign_node_ok : forall id v, (xndsize (NStmt (SAssign id v)) <= K)%nat ->
  xwf_stmt (SAssign id v) -> XNodeOK (NStmt (SAssign id v)).
Proof.
  intros id v Hk Hs n ts rest p c Hm _ Hn. cbn [xndsize xssize] in Hk, Hn. cbn [xwf_stmt] in Hs.
  destruct n as [|n]; [lia|]. cbn [unparse_node unparse_stmt] in Hm.
  destruct Hs as [Hid Hf]. unfold is_ident_tok in Hid.
  rewrite <- !app_comm_cons in Hm.
  apply Umatches_cons in Hm. destruct Hm as (t1 & r1 & -> & H1 & Hm).
  apply Umatches_cons in Hm. destruct Hm as (t2 & r2 & -> & [H2 _] & Hm).
  apply Umatches_app in Hm. destruct Hm as (te & tq0 & -> & Hme & Hmq).
  apply Umatches_cons in Hmq. destruct Hmq as (tq & r0 & -> & [Hq _] & Hr0). apply Umatches_nil in Hr0. subst r0.
  pose proof H1 as [H1a _]. cbn in H1a. rewrite Hid in H1a.
  cbn [app].
  rewrite (p_statement_ident inp n _ t1 _ (pk inp p t1 _ c) H1a). rewrite nx. cbn [bindP].
  rewrite pk. cbn [bindP]. rewrite (typ_is_true t2 _ H2). cbn [pbackup consumed prod ahead].
  unfold semi_tail. destruct n as [|n]; [lia|]. rewrite p_assign_eq.
  rewrite (consume_ok inp _ p t1 _ c H1a). cbn [bindP]. rewrite (consume_ok inp _ p t2 _ _ H2). cbn [bindP].
  rewrite <- app_assoc. cbn [app].
  rewrite (xexpr_semi v ltac:(lia) n te tq rest p (t2 :: t1 :: c) Hf Hme Hq ltac:(lia)). cbn [bindP].
  rewrite (consume_ok inp _ p tq rest _ Hq). cbn [bindP]. rewrite (tk_utok id t1 H1). f_equal. f_equal.
  rv.
Qed.

Lemma xlet_node_ok : forall id v, (xndsize (NStmt (SLet id v)) <= K)%nat ->
  xwf_stmt (SLet id v) -> XNodeOK (NStmt (SLet id v)).
Proof.
  intros id v Hk Hs n ts rest p c Hm _ Hn. cbn [xndsize xssize] in Hk, Hn. cbn [xwf_stmt] in Hs.
  destruct n as [|n]; [lia|]. cbn [unparse_node unparse_stmt] in Hm.
  destruct Hs as [Hid Hf]. unfold is_ident_tok in Hid.
  rewrite <- !app_comm_cons in Hm.
  apply Umatches_cons in Hm. destruct Hm as (t0 & r0' & -> & [H0 _] & Hm).
  apply Umatches_cons in Hm. destruct Hm as (t1 & r1 & -> & H1 & Hm).
  apply Umatches_cons in Hm. destruct Hm as (t2 & r2 & -> & [H2 _] & Hm).
  apply Umatches_app in Hm. destruct Hm as (te & tq0 & -> & Hme & Hmq).
  apply Umatches_cons in Hmq. destruct Hmq as (tq & r0 & -> & [Hq _] & Hr0). apply Umatches_nil in Hr0. subst r0.
  pose proof H1 as [H1a _]. cbn in H1a. rewrite Hid in H1a.
  cbn [app].
  rewrite (p_statement_let inp n _ t0 _ (pk inp p t0 _ c) H0).
  unfold semi_tail. destruct n as [|n]; [lia|]. rewrite p_let_eq. rewrite nx. cbn [bindP].
  rewrite (consume_ok inp _ p t1 _ _ H1a). cbn [bindP]. rewrite (consume_ok inp _ p t2 _ _ H2). cbn [bindP].
  rewrite <- app_assoc. cbn [app].
  rewrite (xexpr_semi v ltac:(lia) n te tq rest p (t2 :: t1 :: t0 :: c) Hf Hme Hq ltac:(lia)). cbn [bindP].
  rewrite (consume_ok inp _ p tq rest _ Hq). cbn [bindP]. rewrite (tk_utok id t1 H1). f_equal. f_equal.
  rv.
Qed.

Lemma xreturn_node_ok : forall v, (xndsize (NStmt (SReturn v)) <= K)%nat ->
  xwf_stmt (SReturn v) -> XNodeOK (NStmt (SReturn v)).
Proof.
  intros v Hk Hs n ts rest p c Hm _ Hn. cbn [xndsize xssize] in Hk, Hn. cbn [xwf_stmt] in Hs.
  destruct n as [|n]; [lia|]. cbn [unparse_node unparse_stmt] in Hm.
  rewrite <- !app_comm_cons in Hm.
  apply Umatches_cons in Hm. destruct Hm as (t0 & r0' & -> & [H0 _] & Hm).
  apply Umatches_app in Hm. destruct Hm as (te & tq0 & -> & Hme & Hmq).
  apply Umatches_cons in Hmq. destruct Hmq as (tq & r0 & -> & [Hq _] & Hr0). apply Umatches_nil in Hr0. subst r0.
  cbn [app].
  rewrite (p_statement_return inp n _ t0 _ (pk inp p t0 _ c) H0).
  unfold semi_tail. destruct n as [|n]; [lia|]. rewrite p_return_eq. rewrite nx. cbn [bindP].
  rewrite <- app_assoc. cbn [app].
  rewrite (xexpr_semi v ltac:(lia) n te tq rest p (t0 :: c) Hs Hme Hq ltac:(lia)). cbn [bindP].
  rewrite (consume_ok inp _ p tq rest _ Hq). cbn [bindP]. f_equal. f_equal.
  rv.
Qed.

Lemma xctrl_node_ok : forall t, xwf_stmt (SCtrl t) -> XNodeOK (NStmt (SCtrl t)).
Proof.
  intros t Hs n ts rest p c Hm _ Hn. cbn [xndsize xssize] in Hn. cbn [xwf_stmt] in Hs.
  destruct n as [|n]; [lia|]. cbn [unparse_node unparse_stmt] in Hm.
  destruct t; try contradiction; cbn [ctrl_tok app] in Hm;
  apply Umatches_cons in Hm; destruct Hm as (t0 & r0' & -> & [H0 _] & Hm);
  apply Umatches_cons in Hm; destruct Hm as (tq & r0 & -> & [Hq _] & Hr0); apply Umatches_nil in Hr0; subst r0;
  cbn [app];
  rewrite (p_statement_ctrl inp n _ t0 _ (pk inp p t0 _ c)) by (rewrite H0; auto);
  unfold semi_tail; (destruct n as [|n]; [lia|]); rewrite p_ctrl_eq, nx; cbn [bindP]; rewrite H0; cbn [bindP];
  rewrite (consume_ok inp _ p tq rest _ Hq); reflexivity.
Qed.

Lemma xif_ok : forall c b els, (xndsize (NStmt (SIf c b els)) <= K)%nat -> xwf_stmt (SIf c b els) ->
  XNodeOK (NStmt (SIf c b els)).
Proof.
  intros cnd b els Hk Hw n ts rest p c Hm Hfol Hn.
  cbn [xwf_stmt] in Hw. destruct Hw as (Hfc & Hwb & Hwe).
  cbn [xndsize xssize] in Hk, Hn.
  cbn [unparse_node unparse_stmt] in Hm.
  apply Umatches_cons in Hm. destruct Hm as (tif & ts1 & -> & [Hif _] & Hm).
  apply Umatches_app in Hm. destruct Hm as (tc & ts2 & -> & Hmc & Hm).
  apply Umatches_app in Hm. destruct Hm as (tb & te & -> & Hmb & Hme).
  destruct n as [|n]; [lia|]. cbn [app].
  rewrite (p_statement_if inp n _ tif _ (pk inp p tif _ c) Hif).
  destruct n as [|n]; [lia|]. rewrite p_if_eq, nx. cbn [bindP].
  (* the block starts with '{' *)
  destruct b as [|nodes]; [contradiction|].
  pose proof Hmb as Hmb0. cbn [unparse_block] in Hmb.
  apply Umatches_cons in Hmb. destruct Hmb as (tlb & tb' & -> & [Hlb _] & _).
  rewrite <- !app_assoc. cbn [app].
  rewrite (xexpr_stop cnd ltac:(lia) n tc (tlb :: tb' ++ te ++ rest) p (tif :: c) Hfc Hmc (stop_lbrace _ _ Hlb) ltac:(lia)).
  cbn [bindP]. rewrite pk. cbn [bindP]. rewrite (typ_is_true tlb _ Hlb).
  change (tlb :: tb' ++ te ++ rest) with ((tlb :: tb') ++ te ++ rest).
  rewrite (xblock_ok_K K (Block nodes) n (tlb :: tb') (te ++ rest) p (rev tc ++ tif :: c) Hsub ltac:(lia) Hwb Hmb0 ltac:(lia)).
  cbn [bindP].
  destruct els; try contradiction.
  - (* no else *)
    apply Umatches_nil in Hme. subst te. cbn [app].
    destruct Hfol as (tf & rf & -> & Hnf). rewrite pk. cbn [bindP]. rewrite (typ_is_false tf _ Hnf). cbn [bindP].
    f_equal. f_equal. rv.
  - (* else { ... } *)
    apply Umatches_cons in Hme. destruct Hme as (tel & te' & -> & [Hel _] & Hme).
    cbn [app]. rewrite pk. cbn [bindP]. rewrite (typ_is_true tel _ Hel). rewrite nx. cbn [bindP].
    assert (HN : XNodeOK (NStmt (SBlock b))) by (apply Hsub; [cbn [xndsize xssize] in *; lia|exact Hwe]).
    rewrite (HN n te' rest p (tel :: rev (tlb :: tb') ++ rev tc ++ tif :: c) Hme Hfol ltac:(cbn [xndsize xssize] in *; lia)).
    cbn [bindP is_if_or_block]. cbn [bindP]. f_equal. f_equal. rv.
  - (* else if ... *)
    apply Umatches_cons in Hme. destruct Hme as (tel & te' & -> & [Hel _] & Hme).
    cbn [app]. rewrite pk. cbn [bindP]. rewrite (typ_is_true tel _ Hel). rewrite nx. cbn [bindP].
    assert (HN : XNodeOK (NStmt (SIf c0 ifb els))) by (apply Hsub; [cbn [xndsize xssize] in *; lia|exact Hwe]).
    rewrite (HN n te' rest p (tel :: rev (tlb :: tb') ++ rev tc ++ tif :: c) Hme Hfol ltac:(cbn [xndsize xssize] in *; lia)).
    cbn [bindP is_if_or_block]. cbn [bindP]. f_equal. f_equal. rv.
Qed.

Lemma xwhile_ok : forall c b, (xndsize (NStmt (SWhile c b)) <= K)%nat -> xwf_stmt (SWhile c b) ->
  XNodeOK (NStmt (SWhile c b)).
Proof.
  intros cnd b Hk Hw n ts rest p c Hm Hfol Hn.
  cbn [xwf_stmt] in Hw. destruct Hw as (Hfc & Hwb).
  cbn [xndsize xssize] in Hk, Hn. cbn [unparse_node unparse_stmt] in Hm.
  apply Umatches_cons in Hm. destruct Hm as (tw & ts1 & -> & [Hw1 _] & Hm).
  apply Umatches_app in Hm. destruct Hm as (tc & tb & -> & Hmc & Hmb).
  destruct n as [|n]; [lia|]. cbn [app].
  rewrite (p_statement_while inp n _ tw _ (pk inp p tw _ c) Hw1).
  destruct n as [|n]; [lia|]. rewrite p_while_eq, nx. cbn [bindP].
  destruct b as [|nodes]; [contradiction|].
  pose proof Hmb as Hmb0. cbn [unparse_block] in Hmb.
  apply Umatches_cons in Hmb. destruct Hmb as (tlb & tb' & -> & [Hlb _] & _).
  rewrite <- !app_assoc. cbn [app].
  rewrite (xexpr_stop cnd ltac:(lia) n tc (tlb :: tb' ++ rest) p (tw :: c) Hfc Hmc (stop_lbrace _ _ Hlb) ltac:(lia)).
  cbn [bindP]. rewrite pk. cbn [bindP]. rewrite (typ_is_true tlb _ Hlb).
  change (tlb :: tb' ++ rest) with ((tlb :: tb') ++ rest).
  rewrite (xblock_ok_K K (Block nodes) n (tlb :: tb') rest p (rev tc ++ tw :: c) Hsub ltac:(lia) Hwb Hmb0 ltac:(lia)).
  cbn [bindP]. f_equal. f_equal. rv.
Qed.

Lemma xsblock_ok : forall b, (xndsize (NStmt (SBlock b)) <= K)%nat -> xwf_stmt (SBlock b) ->
  XNodeOK (NStmt (SBlock b)).
Proof.
  intros b Hk Hw n ts rest p c Hm Hfol Hn.
  cbn [xwf_stmt] in Hw. cbn [xndsize xssize] in Hk, Hn. cbn [unparse_node unparse_stmt] in Hm.
  destruct b as [|nodes]; [contradiction|].
  pose proof Hm as Hm0. cbn [unparse_block] in Hm.
  apply Umatches_cons in Hm. destruct Hm as (tlb & tb' & -> & [Hlb _] & _).
  destruct n as [|n]; [lia|]. cbn [app].
  rewrite (p_statement_block inp n _ tlb _ (pk inp p tlb _ c) Hlb).
  change (tlb :: tb' ++ rest) with ((tlb :: tb') ++ rest).
  rewrite (xblock_ok_K K (Block nodes) n (tlb :: tb') rest p c Hsub ltac:(lia) Hw Hm0 ltac:(lia)).
  reflexivity.
Qed.

Lemma xfn_ok : forall fv args body, (xndsize (NStmt (SFn fv args body)) <= K)%nat ->
  xwf_stmt (SFn fv args body) -> XNodeOK (NStmt (SFn fv args body)).
Proof.
  intros fv args body Hk Hw n ts rest p c Hm Hfol Hn.
  cbn [xwf_stmt] in Hw. destruct Hw as (Hid & Hdup & Hwb).
  cbn [xndsize xssize] in Hk, Hn. cbn [unparse_node unparse_stmt] in Hm.
  apply Umatches_cons in Hm. destruct Hm as (tfn & ts1 & -> & [Hfn _] & Hm).
  apply Umatches_cons in Hm. destruct Hm as (tid & ts2 & -> & Hmid & Hm).
  pose proof Hmid as [Hid1 _]. cbn in Hid1. unfold is_ident_tok in Hid. rewrite Hid in Hid1.
  apply Umatches_app in Hm. destruct Hm as (tp & tb & -> & Hmp & Hmb).
  unfold uparams in Hmp.
  apply Umatches_cons in Hmp. destruct Hmp as (tlp & tp' & -> & [Hlp _] & Hmp).
  destruct n as [|n]; [lia|]. cbn [app].
  rewrite (p_statement_fn inp n _ tfn _ (pk inp p tfn _ c) Hfn).
  destruct n as [|n]; [lia|]. rewrite p_fn_eq, nx. cbn [bindP].
  rewrite (consume_ok inp _ p tid _ _ Hid1). cbn [bindP]. rewrite pk. cbn [bindP].
  rewrite (typ_is_true tlp _ Hlp). rewrite nx. cbn [bindP].
  rewrite <- app_assoc.
  rewrite (fn_args_ok inp args [] n tp' (tb ++ rest) p (tlp :: tid :: tfn :: c) Hmp ltac:(lia)).
  cbn [bindP app].
  rewrite (xblock_ok_K K body n tb rest p (rev tp' ++ tlp :: tid :: tfn :: c) Hsub ltac:(lia) Hwb Hmb ltac:(lia)).
  cbn [bindP]. rewrite Hdup. cbn [bindP]. rewrite (tk_utok fv tid Hmid). f_equal. f_equal. rv.
Qed.

Lemma xlet_ok : forall id v, (xesize v < K)%nat -> forall n ts rest p c,
  is_ident_tok id -> xfrag v -> Umatches (unparse_stmt (SLet id v)) ts -> stop 1 rest ->
  (5 * xesize v + 12 <= n)%nat ->
  p_let inp n (mkP p (ts ++ rest) c) = ROk (SLet id v) (mkP p rest (rev ts ++ c)).
Proof.
  intros id v Hlt n ts rest p c Hid Hf Hm Hs Hn. cbn [unparse_stmt] in Hm.
  apply Umatches_cons in Hm. destruct Hm as (t0 & r0 & -> & [H0 _] & Hm).
  apply Umatches_cons in Hm. destruct Hm as (t1 & r1 & -> & H1 & Hm).
  apply Umatches_cons in Hm. destruct Hm as (t2 & te & -> & [H2 _] & Hme).
  pose proof H1 as [H1a _]. cbn in H1a. unfold is_ident_tok in Hid. rewrite Hid in H1a.
  destruct n as [|n]; [lia|]. rewrite p_let_eq. cbn [app]. rewrite nx. cbn [bindP].
  rewrite (consume_ok inp _ p t1 _ _ H1a). cbn [bindP]. rewrite (consume_ok inp _ p t2 _ _ H2). cbn [bindP].
  rewrite (xexpr_stop v Hlt n te rest p (t2 :: t1 :: t0 :: c) Hf Hme Hs ltac:(lia)). cbn [bindP].
  rewrite (tk_utok id t1 H1). f_equal. f_equal. rv.
Qed.
Lemma xassign_ok : forall id v, (xesize v < K)%nat -> forall n ts rest p c,
  is_ident_tok id -> xfrag v -> Umatches (unparse_stmt (SAssign id v)) ts -> stop 1 rest ->
  (5 * xesize v + 12 <= n)%nat ->
  p_assign inp n (mkP p (ts ++ rest) c) = ROk (SAssign id v) (mkP p rest (rev ts ++ c)).
Proof.
  intros id v Hlt n ts rest p c Hid Hf Hm Hs Hn. cbn [unparse_stmt] in Hm.
  apply Umatches_cons in Hm. destruct Hm as (t1 & r1 & -> & H1 & Hm).
  apply Umatches_cons in Hm. destruct Hm as (t2 & te & -> & [H2 _] & Hme).
  pose proof H1 as [H1a _]. cbn in H1a. unfold is_ident_tok in Hid. rewrite Hid in H1a.
  destruct n as [|n]; [lia|]. rewrite p_assign_eq. cbn [app].
  rewrite (consume_ok inp _ p t1 _ _ H1a). cbn [bindP]. rewrite (consume_ok inp _ p t2 _ _ H2). cbn [bindP].
  rewrite (xexpr_stop v Hlt n te rest p (t2 :: t1 :: c) Hf Hme Hs ltac:(lia)). cbn [bindP].
  rewrite (tk_utok id t1 H1). f_equal. f_equal. rv.
Qed.

Lemma xcase_body_loop_ok : forall nodes acc n ts rest p c,
  x_all_nodes nodes -> Forall XNodeOK nodes ->
  Umatches (flat_map unparse_node nodes) ts -> case_end rest ->
  (5 * list_sum (map xndsize nodes) + 21 <= n)%nat ->
  p_case_body_loop inp n acc (mkP p (ts ++ rest) c) =
  ROk (Block (acc ++ nodes)) (mkP p rest (rev ts ++ c)).
Proof.
  induction nodes as [|x nodes IH]; intros acc n ts rest p c Hw Hok Hm He Hn.
  - cbn [flat_map] in Hm. apply Umatches_nil in Hm. subst ts. cbn [app rev].
    destruct He as (t & r & -> & Ht).
    destruct n as [|n]; [lia|]. rewrite p_case_body_loop_eq, pk. cbn [bindP].
    replace (typ_is t KeywordDefault || typ_is t KeywordCase || typ_is t ItemRightBrace) with true.
    + rewrite app_nil_r. reflexivity.
    + symmetry. destruct Ht as [Ht|[Ht|Ht]]; unfold typ_is; rewrite Ht; reflexivity.
  - cbn [x_all_nodes] in Hw. destruct Hw as [Hwx Hwn].
    inversion Hok as [|x' n' Hx Hns]; subst.
    cbn [flat_map] in Hm. apply Umatches_app in Hm. destruct Hm as (tx & ts' & -> & Hmx & Hms).
    cbn [map list_sum fold_right List.length] in Hn. fold (list_sum (map xndsize nodes)) in Hn.
    assert (Hpos : (1 <= xndsize x)%nat) by (destruct x; cbn [xndsize]; lia).
    destruct (xnode_first_wf x Hwx) as (u & us & Eu & Hu).
    pose proof Hmx as Hmx'. rewrite Eu in Hmx'. apply Umatches_cons in Hmx'.
    destruct Hmx' as (t1 & tx' & Etx & Hu1 & _). specialize (Hu t1 Hu1).
    destruct (xstmt_start_props _ Hu) as (N1 & N2 & _ & N4 & N5).
    destruct n as [|n]; [lia|]. rewrite p_case_body_loop_eq. rewrite <- app_assoc.
    rewrite Etx at 1. cbn [app]. rewrite pk. cbn [bindP].
    rewrite (typ_is_false t1 _ N1), (typ_is_false t1 _ N2), (typ_is_false t1 _ N4), (typ_is_false t1 _ N5).
    cbn [orb].
    change (t1 :: tx' ++ ts' ++ rest) with ((t1 :: tx') ++ ts' ++ rest). rewrite <- Etx.
    rewrite (Hx n tx (ts' ++ rest) p c Hmx); [| |lia].
    + cbn [bindP].
      rewrite (IH (block_append acc x) n ts' rest p (rev tx ++ c) Hwn Hns Hms He ltac:(lia)).
      unfold block_append. f_equal; [rewrite <- app_assoc; reflexivity|]. f_equal.
      rewrite rev_app_distr. rewrite <- app_assoc. reflexivity.
    + destruct nodes as [|y nodes2].
      * cbn [flat_map] in Hms. apply Umatches_nil in Hms. subst ts'. cbn [app].
        destruct He as (t & r & -> & Ht). exists t, r. split; [reflexivity|].
        destruct Ht as [Ht|[Ht|Ht]]; rewrite Ht; discriminate.
      * cbn [x_all_nodes] in Hwn. destruct Hwn as [Hwy _].
        destruct (xnode_first_wf y Hwy) as (uy & usy & Euy & Huy).
        cbn [flat_map] in Hms. rewrite Euy in Hms. rewrite <- app_comm_cons in Hms.
        apply Umatches_cons in Hms. destruct Hms as (ty & ry & -> & Hy1 & _).
        cbn [app]. exists ty, (ry ++ rest). split; [reflexivity|].
        destruct (xstmt_start_props _ (Huy ty Hy1)) as (_ & _ & N3 & _). exact N3.
Qed.

Lemma xswitch_loop_ok : forall cases accC n ts rest p c cnd defb,
  x_all_cases cases -> (list_sum (map xcsize cases) + xbsize defb < K)%nat ->
  (defb = BNil \/ xwf_block defb) ->
  Umatches (flat_map unparse_case cases ++ def_toks defb ++ [RB]) ts ->
  (5 * (list_sum (map xcsize cases) + xbsize defb) + 30 <= n)%nat ->
  p_switch_loop inp n cnd accC BNil (mkP p (ts ++ rest) c) =
  ROk (SSwitch cnd (accC ++ cases) defb) (mkP p rest (rev ts ++ c)).
Proof.
  induction cases as [|cs cases IH]; intros accC n ts rest p c cnd defb Hw Hk Hd Hm Hn.
  - cbn [flat_map app map list_sum fold_right] in *. destruct defb as [|l]; cbn [def_toks app] in Hm.
    + apply Umatches_cons in Hm. destruct Hm as (trb & r & -> & [Hrb _] & Hm). apply Umatches_nil in Hm. subst r.
      cbn in Hrb.
      destruct n as [|n]; [lia|]. rewrite p_switch_loop_eq. cbn [app]. rewrite nx. cbn [bindP].
      rewrite (typ_is_true trb _ Hrb). rewrite app_nil_r. reflexivity.
    + destruct Hd as [Hd|Hd]; [discriminate|]. rewrite xwf_block_nodes in Hd.
      apply Umatches_cons in Hm. destruct Hm as (td & r1 & -> & [Hd1 _] & Hm).
      apply Umatches_cons in Hm. destruct Hm as (tcol & r2 & -> & [Hc1 _] & Hm).
      apply Umatches_app in Hm. destruct Hm as (tn & r3 & -> & Hmn & Hm).
      apply Umatches_cons in Hm. destruct Hm as (trb & r4 & -> & [Hrb _] & Hm). apply Umatches_nil in Hm. subst r4.
      cbn in Hrb. cbn [xbsize] in Hk, Hn.
      destruct n as [|n]; [lia|]. rewrite p_switch_loop_eq. cbn [app]. rewrite nx. cbn [bindP].
      rewrite (typ_is_false td ItemRightBrace) by (rewrite Hd1; discriminate).
      rewrite (typ_is_false td KeywordCase) by (rewrite Hd1; discriminate).
      rewrite (typ_is_true td _ Hd1). rewrite pk. cbn [bindP]. rewrite (typ_is_true tcol _ Hc1).
      destruct n as [|n]; [lia|]. rewrite p_case_body_eq, nx. cbn [bindP].
      rewrite <- app_assoc. cbn [app].
      rewrite (xcase_body_loop_ok l [] n tn (trb :: rest) p (tcol :: td :: c) Hd);
        [| apply (xblock_nodes_ok K); [exact Hsub|cbn [xbsize]; lia|exact Hd] | exact Hmn
         | exists trb, rest; split; [reflexivity|auto] | lia].
      cbn [bindP app]. rewrite p_switch_loop_eq, nx. cbn [bindP]. rewrite (typ_is_true trb _ Hrb).
      rewrite app_nil_r. f_equal. f_equal. rv.
  - cbn [x_all_cases] in Hw. destruct Hw as [Hwc Hwr]. destruct cs as [cc b].
    cbn [xwf_case] in Hwc. destruct Hwc as [Hfc Hwb]. destruct b as [|l]; [contradiction|].
    rewrite xwf_block_nodes in Hwb.
    cbn [map list_sum fold_right xcsize xbsize] in Hk, Hn. fold (list_sum (map xcsize cases)) in Hk, Hn.
    cbn [flat_map] in Hm. rewrite <- app_assoc in Hm.
    apply Umatches_app in Hm. destruct Hm as (tall & ts' & -> & Hmc & Hms).
    cbn [unparse_case] in Hmc.
    apply Umatches_cons in Hmc. destruct Hmc as (tcase & r1 & -> & [Hcs _] & Hmc).
    apply Umatches_app in Hmc. destruct Hmc as (tcc & r2 & -> & Hmcc & Hmc).
    apply Umatches_cons in Hmc. destruct Hmc as (tcol & tn & -> & [Hc1 _] & Hmn).
    destruct n as [|n]; [lia|]. rewrite p_switch_loop_eq. cbn [app]. rewrite nx. cbn [bindP].
    rewrite (typ_is_false tcase ItemRightBrace) by (rewrite Hcs; discriminate).
    rewrite (typ_is_true tcase _ Hcs).
    rewrite <- !app_assoc. cbn [app].
    rewrite (xexpr_stop cc ltac:(lia) n tcc (tcol :: tn ++ ts' ++ rest) p (tcase :: c) Hfc Hmcc (stop_colon _ _ Hc1) ltac:(lia)).
    cbn [bindP]. rewrite pk. cbn [bindP]. rewrite (typ_is_true tcol _ Hc1).
    destruct n as [|n]; [lia|]. rewrite p_case_body_eq, nx. cbn [bindP].
    rewrite (xcase_body_loop_ok l [] n tn (ts' ++ rest) p (tcol :: rev tcc ++ tcase :: c) Hwb);
      [| apply (xblock_nodes_ok K); [exact Hsub|cbn [xbsize]; lia|exact Hwb] | exact Hmn
       | apply (case_end_switch_tail cases defb); exact Hms | lia].
    cbn [bindP app].
    rewrite (IH (accC ++ [Case cc (Block l)]) (S n) ts' rest p _ cnd defb Hwr ltac:(lia) Hd Hms ltac:(lia)).
    f_equal; [rewrite <- app_assoc; reflexivity|]. f_equal. rv.
Qed.

Lemma xswitch_ok : forall cnd cases d, (xndsize (NStmt (SSwitch cnd cases d)) <= K)%nat ->
  xwf_stmt (SSwitch cnd cases d) -> XNodeOK (NStmt (SSwitch cnd cases d)).
Proof.
  intros cnd cases d Hk Hw n ts rest p c Hm Hfol Hn.
  rewrite xwf_switch in Hw. destruct Hw as (Hc & Hwc & Hd).
  cbn [xndsize xssize] in Hk, Hn. cbn [unparse_node unparse_stmt] in Hm.
  apply Umatches_cons in Hm. destruct Hm as (tsw & ts1 & -> & [Hsw _] & Hm).
  apply Umatches_app in Hm. destruct Hm as (tc & ts2 & -> & Hmc & Hm).
  apply Umatches_cons in Hm. destruct Hm as (tlb & ts3 & -> & [Hlb _] & Hm).
  assert (Hm' : Umatches (flat_map unparse_case cases ++ def_toks d ++ [RB]) ts3).
  { destruct d; exact Hm. }
  destruct n as [|n]; [lia|]. cbn [app].
  rewrite (p_statement_switch inp n _ tsw _ (pk inp p tsw _ c) Hsw).
  destruct n as [|n]; [lia|]. rewrite p_switch_eq.
  rewrite (consume_ok inp _ p tsw _ c Hsw). cbn [bindP].
  destruct Hc as [Hc|Hc].
  - (* no subject *)
    subst cnd. cbn [unparse_expr] in Hmc. apply Umatches_nil in Hmc. subst tc. cbn [app].
    rewrite pk. cbn [bindP]. rewrite (typ_is_true tlb _ Hlb). cbn [bindP].
    rewrite nx. cbn [bindP]. rewrite (typ_is_true tlb _ Hlb).
    rewrite (xswitch_loop_ok cases [] n ts3 rest p (tlb :: tsw :: c) ENil d Hwc ltac:(cbn [xesize] in *; lia) Hd Hm'
               ltac:(cbn [xesize] in *; lia)).
    cbn [bindP app]. f_equal. f_equal. rv.
  - pose proof (xsize_pos cnd) as Hszc.
    destruct (xU_starts_strong cnd Hc) as (u & us & Eu & Hu).
    pose proof Hmc as Hmc'. rewrite Eu in Hmc'. apply Umatches_cons in Hmc'.
    destruct Hmc' as (t1 & tc' & Etc & Hu1 & _). specialize (Hu t1 Hu1). destruct Hu as [Hu _].
    rewrite <- app_assoc. rewrite Etc at 1. cbn [app]. rewrite pk. cbn [bindP].
    rewrite (typ_is_false t1 ItemLeftBrace) by (intro E; rewrite E in Hu; discriminate).
    change (t1 :: tc' ++ tlb :: ts3 ++ rest) with ((t1 :: tc') ++ tlb :: ts3 ++ rest). rewrite <- Etc.
    rewrite (xexpr_stop cnd ltac:(lia) n tc (tlb :: ts3 ++ rest) p (tsw :: c) Hc Hmc (stop_lbrace _ _ Hlb) ltac:(lia)).
    cbn [bindP]. rewrite nx. cbn [bindP]. rewrite (typ_is_true tlb _ Hlb).
    rewrite (xswitch_loop_ok cases [] n ts3 rest p (tlb :: rev tc ++ tsw :: c) cnd d Hwc ltac:(lia) Hd Hm' ltac:(lia)).
    cbn [bindP app]. f_equal. f_equal. rv.
Qed.

Lemma xfor_ok : forall init cnd post body, (xndsize (NStmt (SFor init cnd post body)) <= K)%nat ->
  xwf_stmt (SFor init cnd post body) -> XNodeOK (NStmt (SFor init cnd post body)).
Proof.
  intros init cnd post body Hk Hw n ts rest p c Hm Hfol Hn.
  rewrite xwf_for in Hw. destruct Hw as (Hparts & Hwb).
  cbn [xndsize xssize] in Hk, Hn. cbn [unparse_node unparse_stmt] in Hm.
  apply Umatches_cons in Hm. destruct Hm as (tfor & ts1 & -> & [Hfor _] & Hm).
  destruct n as [|n]; [lia|]. cbn [app].
  rewrite (p_statement_for inp n _ tfor _ (pk inp p tfor _ c) Hfor).
  destruct n as [|n]; [lia|]. rewrite p_for_eq, nx. cbn [bindP].
  destruct body as [|nodes]; [contradiction|].
  destruct Hparts as [(-> & -> & ->)|(Hfc & Hini & Hpost)].
  - (* for { ... } *)
    cbn [unparse_expr app] in Hm. pose proof Hm as Hm0. cbn [unparse_block] in Hm.
    apply Umatches_cons in Hm. destruct Hm as (tlb & tb' & -> & [Hlb _] & _).
    cbn [app]. rewrite pk. cbn [bindP]. rewrite (typ_is_true tlb _ Hlb).
    change (tlb :: tb' ++ rest) with ((tlb :: tb') ++ rest).
    rewrite (xblock_ok_K K (Block nodes) n (tlb :: tb') rest p (tfor :: c) Hsub ltac:(lia) Hwb Hm0 ltac:(lia)).
    cbn [bindP]. feq.
  - (* for [init ;] cond [; post] { ... } *)
    apply Umatches_app in Hm. destruct Hm as (ti & ts2 & -> & Hmi & Hm).
    apply Umatches_app in Hm. destruct Hm as (tc & ts3 & -> & Hmc & Hm).
    apply Umatches_app in Hm. destruct Hm as (tp & tb & -> & Hmp & Hmb).
    pose proof Hmb as Hmb0. cbn [unparse_block] in Hmb.
    apply Umatches_cons in Hmb. destruct Hmb as (tlb & tb' & -> & [Hlb _] & _).
    destruct (xU_starts_strong cnd Hfc) as (u & us & Eu & Hu).
    pose proof Hmc as Hmc'. rewrite Eu in Hmc'. apply Umatches_cons in Hmc'.
    destruct Hmc' as (tc1 & tc' & Etc & Hu1 & _). specialize (Hu tc1 Hu1). destruct Hu as [Hu _].
    (* the tail after the condition: [; post] { ... } *)
    assert (Htail : forall cc,
      (pb (t, s) <- ppeek inp (mkP p (tp ++ (tlb :: tb') ++ rest) cc);
       pb (po, s) <-
         (if typ_is t ItemTerminateLine then
            pb (_, s) <- pnext inp s;
            pb (t, s) <- ppeek inp s;
            if typ_is t ItemLeftBrace then ROk SNil s else p_assign inp n s
          else ROk SNil s);
       pb (t, s) <- ppeek inp s;
       if typ_is t ItemLeftBrace then pb (b, s) <- p_block inp n s; ROk (SFor init cnd po b) s
       else RErr s) =
      ROk (SFor init cnd post (Block nodes)) (mkP p rest (rev (tlb :: tb') ++ rev tp ++ cc))).
    { intros cc. destruct post; try contradiction.
      - apply Umatches_nil in Hmp. subst tp. cbn [app]. rewrite pk. cbn [bindP].
        rewrite (typ_is_false tlb ItemTerminateLine) by (rewrite Hlb; discriminate). cbn [bindP].
        rewrite pk. cbn [bindP]. rewrite (typ_is_true tlb _ Hlb).
        change (tlb :: tb' ++ rest) with ((tlb :: tb') ++ rest).
        rewrite (xblock_ok_K K (Block nodes) n (tlb :: tb') rest p cc Hsub ltac:(lia) Hwb Hmb0 ltac:(lia)).
        cbn [bindP]. feq.
      - cbn [xsimple_post] in Hpost. destruct Hpost as [Hpid Hpf].
        apply Umatches_cons in Hmp. destruct Hmp as (tsc & tp' & -> & [Hsc _] & Hmp).
        pose proof Hmp as Hmp0. cbn [unparse_stmt] in Hmp.
        apply Umatches_cons in Hmp. destruct Hmp as (tpi & tp2 & -> & Hpi & _).
        pose proof Hpi as [Hpi1 _]. cbn in Hpi1. unfold is_ident_tok in Hpid. rewrite Hpid in Hpi1.
        cbn [app]. rewrite pk. cbn [bindP]. rewrite (typ_is_true tsc _ Hsc). rewrite nx. cbn [bindP].
        rewrite pk. cbn [bindP]. rewrite (typ_is_false tpi ItemLeftBrace) by (rewrite Hpi1; discriminate).
        change (tpi :: tp2 ++ tlb :: tb' ++ rest) with ((tpi :: tp2) ++ tlb :: tb' ++ rest).
        rewrite (xassign_ok id v ltac:(cbn [xssize] in *; lia) n (tpi :: tp2) (tlb :: tb' ++ rest) p (tsc :: cc) Hpid Hpf Hmp0
                   (stop_lbrace _ _ Hlb) ltac:(cbn [xssize] in *; lia)).
        cbn [bindP]. rewrite pk. cbn [bindP]. rewrite (typ_is_true tlb _ Hlb).
        change (tlb :: tb' ++ rest) with ((tlb :: tb') ++ rest).
        rewrite (xblock_ok_K K (Block nodes) n (tlb :: tb') rest p _ Hsub ltac:(lia) Hwb Hmb0 ltac:(lia)).
        cbn [bindP]. feq. }
    (* what follows the condition stops the expression *)
    assert (Hstopc : stop 1 (tp ++ (tlb :: tb') ++ rest)).
    { destruct post; try contradiction.
      - apply Umatches_nil in Hmp. subst tp. cbn [app]. apply stop_lbrace. exact Hlb.
      - apply Umatches_cons in Hmp. destruct Hmp as (tsc & tp' & -> & [Hsc _] & _).
        cbn [app]. apply stop_tok. left. exact Hsc. }
    assert (Hnota : forall tq rq, tp ++ (tlb :: tb') ++ rest = tq :: rq -> lt_typ tq <> ItemAssign).
    { intros tq rq E. destruct post; try contradiction.
      - apply Umatches_nil in Hmp. subst tp. cbn [app] in E. inversion E; subst. rewrite Hlb. discriminate.
      - apply Umatches_cons in Hmp. destruct Hmp as (tsc & tp' & -> & [Hsc _] & _).
        cbn [app] in E. inversion E; subst. rewrite Hsc. discriminate. }
    destruct init; try contradiction.
    + (* no init: the condition comes first *)
      apply Umatches_nil in Hmi. subst ti. cbn [app].
      rewrite <- !app_assoc. rewrite Etc at 1. cbn [app]. rewrite pk. cbn [bindP].
      rewrite (typ_is_false tc1 ItemLeftBrace) by (intro E; rewrite E in Hu; discriminate).
      rewrite pk. cbn [bindP].
      rewrite (typ_is_false tc1 KeywordLet) by (intro E; rewrite E in Hu; discriminate).
      destruct (toktype_eqb (lt_typ tc1) ItemIdentifier) eqn:Eid.
      * assert (Hid : lt_typ tc1 = ItemIdentifier).
        { unfold toktype_eqb in Eid. apply Z.eqb_eq in Eid. destruct (lt_typ tc1); cbn in Eid; try discriminate; reflexivity. }
        rewrite (typ_is_true tc1 _ Hid). rewrite nx. cbn [bindP].
        assert (Etl' : exists tq rq, tp ++ tlb :: tb' ++ rest = tq :: rq).
        { destruct Hstopc as (x & y & E & _). exists x, y. exact E. }
        destruct Etl' as (tq & rq & Etl). rewrite Etl.
        pose proof Hmc as Hmc2. rewrite Etc in Hmc2.
        destruct (xsecond_not_assign cnd tc1 tc' tq rq Hfc Hmc2 Hid (Hnota tq rq Etl)) as (t2 & r2 & E2 & Hna).
        rewrite E2. rewrite pk. cbn [bindP pbackup consumed prod ahead].
        rewrite (typ_is_false t2 _ Hna). cbn [bindP]. rewrite <- E2. rewrite <- Etl.
        change (tc1 :: tc' ++ tp ++ tlb :: tb' ++ rest)
        with ((tc1 :: tc') ++ tp ++ (tlb :: tb') ++ rest).
        rewrite <- Etc.
        rewrite (xexpr_stop cnd ltac:(lia) n tc (tp ++ (tlb :: tb') ++ rest) p (tfor :: c) Hfc Hmc Hstopc ltac:(lia)).
        cbn [bindP]. rewrite Htail. cbn [bindP]. feq.
      * rewrite (typ_is_false tc1 ItemIdentifier).
        2:{ intro E. rewrite E in Eid. discriminate. }
        cbn [bindP].
        change (tc1 :: tc' ++ tp ++ tlb :: tb' ++ rest)
        with ((tc1 :: tc') ++ tp ++ (tlb :: tb') ++ rest).
        rewrite <- Etc.
        rewrite (xexpr_stop cnd ltac:(lia) n tc (tp ++ (tlb :: tb') ++ rest) p (tfor :: c) Hfc Hmc Hstopc ltac:(lia)).
        cbn [bindP]. rewrite Htail. cbn [bindP]. feq.
    + (* init is an assignment *)
      cbn [xsimple_init] in Hini. destruct Hini as [Hiid Hif].
      apply Umatches_app in Hmi. destruct Hmi as (tia & tsemi & -> & Hmia & Hmsemi).
      apply Umatches_cons in Hmsemi. destruct Hmsemi as (tsc & r0 & -> & [Hsc _] & Hr0). apply Umatches_nil in Hr0. subst r0.
      pose proof Hmia as Hmia0. cbn [unparse_stmt] in Hmia.
      apply Umatches_cons in Hmia. destruct Hmia as (ti1 & ti2 & -> & Hi1 & Hmia).
      apply Umatches_cons in Hmia. destruct Hmia as (ti3 & ti4 & -> & [Hi3 _] & _).
      pose proof Hi1 as [Hi1a _]. cbn in Hi1a. unfold is_ident_tok in Hiid. rewrite Hiid in Hi1a.
      rewrite <- !app_assoc. cbn [app]. rewrite pk. cbn [bindP].
      rewrite (typ_is_false ti1 ItemLeftBrace) by (rewrite Hi1a; discriminate).
      rewrite pk. cbn [bindP].
      rewrite (typ_is_false ti1 KeywordLet) by (rewrite Hi1a; discriminate).
      rewrite (typ_is_true ti1 _ Hi1a). rewrite nx. cbn [bindP]. rewrite pk. cbn [bindP pbackup consumed prod ahead].
      rewrite (typ_is_true ti3 _ Hi3). cbn [bindP]. rewrite pk. cbn [bindP].
      rewrite (typ_is_false ti1 KeywordLet) by (rewrite Hi1a; discriminate).
      change (ti1 :: ti3 :: ti4 ++ tsc :: tc ++ tp ++ tlb :: tb' ++ rest)
        with ((ti1 :: ti3 :: ti4) ++ tsc :: tc ++ tp ++ (tlb :: tb') ++ rest).
      rewrite (xassign_ok id v ltac:(cbn [xssize] in *; lia) n (ti1 :: ti3 :: ti4) (tsc :: tc ++ tp ++ (tlb :: tb') ++ rest) p (tfor :: c) Hiid Hif Hmia0
                 (stop_tok 1 tsc _ (or_introl Hsc)) ltac:(cbn [xssize] in *; lia)).
      cbn [bindP]. rewrite pk. cbn [bindP]. rewrite (typ_is_true tsc _ Hsc). rewrite nx. cbn [bindP].
      rewrite (xexpr_stop cnd ltac:(lia) n tc (tp ++ (tlb :: tb') ++ rest) p _ Hfc Hmc Hstopc ltac:(lia)).
      cbn [bindP]. rewrite Htail. cbn [bindP]. feq.
    + (* init is a let *)
      cbn [xsimple_init] in Hini. destruct Hini as [Hiid Hif].
      apply Umatches_app in Hmi. destruct Hmi as (tia & tsemi & -> & Hmia & Hmsemi).
      apply Umatches_cons in Hmsemi. destruct Hmsemi as (tsc & r0 & -> & [Hsc _] & Hr0). apply Umatches_nil in Hr0. subst r0.
      pose proof Hmia as Hmia0. cbn [unparse_stmt] in Hmia.
      apply Umatches_cons in Hmia. destruct Hmia as (ti1 & ti2 & -> & [Hi1 _] & _).
      rewrite <- !app_assoc. cbn [app]. rewrite pk. cbn [bindP].
      rewrite (typ_is_false ti1 ItemLeftBrace) by (rewrite Hi1; discriminate).
      rewrite pk. cbn [bindP]. rewrite (typ_is_true ti1 _ Hi1). cbn [bindP]. rewrite pk. cbn [bindP].
      rewrite (typ_is_true ti1 _ Hi1).
      change (ti1 :: ti2 ++ tsc :: tc ++ tp ++ tlb :: tb' ++ rest)
        with ((ti1 :: ti2) ++ tsc :: tc ++ tp ++ (tlb :: tb') ++ rest).
      rewrite (xlet_ok id v ltac:(cbn [xssize] in *; lia) n (ti1 :: ti2) (tsc :: tc ++ tp ++ (tlb :: tb') ++ rest) p (tfor :: c) Hiid Hif Hmia0
                 (stop_tok 1 tsc _ (or_introl Hsc)) ltac:(cbn [xssize] in *; lia)).
      cbn [bindP]. rewrite pk. cbn [bindP]. rewrite (typ_is_true tsc _ Hsc). rewrite nx. cbn [bindP].
      rewrite (xexpr_stop cnd ltac:(lia) n tc (tp ++ (tlb :: tb') ++ rest) p _ Hfc Hmc Hstopc ltac:(lia)).
      cbn [bindP]. rewrite Htail. cbn [bindP]. feq.
Qed.

(* ---- function literals: fn ( params ) block ---- *)
Lemma xfnlit_prefix_ok : forall args body n ts rest p c,
  has_dup args = false -> xwf_block body -> (xbsize body < K)%nat ->
  Umatches (unparse_expr (EFuncLit args body)) ts ->
  (5 * (List.length args + xbsize body) + 22 <= n)%nat ->
  p_prefix inp n PfFnLit (mkP p (ts ++ rest) c) = ROk (EFuncLit args body) (mkP p rest (rev ts ++ c)).
Proof.
  intros args body n ts rest p c Hdup Hwb Hk Hm Hn. cbn [unparse_expr] in Hm.
  apply Umatches_cons in Hm. destruct Hm as (tfn & ts1 & -> & [Hfn _] & Hm).
  apply Umatches_app in Hm. destruct Hm as (tp & tb & -> & Hmp & Hmb).
  unfold uparams in Hmp.
  apply Umatches_cons in Hmp. destruct Hmp as (tlp & tp' & -> & [Hlp _] & Hmp).
  destruct n as [|n]; [lia|]. cbn [app]. rewrite p_prefix_fnlit_eq, pk. cbn [bindP].
  destruct n as [|n]; [lia|]. rewrite p_fn_eq, nx. cbn [bindP]. rewrite pk. cbn [bindP].
  rewrite (typ_is_true tlp _ Hlp). rewrite nx. cbn [bindP].
  rewrite <- app_assoc.
  rewrite (fn_args_ok inp args [] n tp' (tb ++ rest) p (tlp :: tfn :: c) Hmp ltac:(lia)).
  cbn [bindP app].
  rewrite (xblock_ok_K K body n tb rest p (rev tp' ++ tlp :: tfn :: c) Hsub Hk Hwb Hmb ltac:(lia)).
  cbn [bindP]. rewrite Hdup. cbn [bindP]. f_equal. f_equal. rv.
Qed.

Lemma map_entries_ok : forall arr fields, x_all_exprs arr -> x_all_fields fields ->
  (list_sum (map xesize arr) + list_sum (map fsize fields) < K)%nat ->
  Forall ent_ok (map_entries arr fields).
Proof.
  intros arr fields Ha Hf Hk. unfold map_entries. apply Forall_app. split.
  - assert (Hk' : (list_sum (map xesize arr) < K)%nat) by lia. clear Hk Hf.
    induction arr as [|a arr IH]; [constructor|].
    cbn [x_all_exprs] in Ha. destruct Ha as [Hfa Hr].
    cbn [map list_sum fold_right] in Hk'. fold (list_sum (map xesize arr)) in Hk'.
    cbn [map]. constructor; [split; [exact Hfa|apply HsubE; lia]|apply IH; [exact Hr|lia]].
  - assert (Hk' : (list_sum (map fsize fields) < K)%nat) by lia. clear Hk Ha.
    induction fields as [|[k v] fields IH]; [constructor|].
    cbn [x_all_fields] in Hf. destruct Hf as [Hfv Hr].
    cbn [map list_sum fold_right fsize] in Hk'. fold (list_sum (map fsize fields)) in Hk'.
    cbn [map mfld]. constructor; [split; [exact Hfv|apply HsubE; lia]|apply IH; [exact Hr|lia]].
Qed.

(* ---- the step for expressions ---- *)
Lemma expr_step : forall e, (xesize e <= K)%nat -> XMain e.
Proof.
  intros e Hk pre n ts rest p c Hf Hpre Hinf Hm Hs Hn.
  pose proof (spine_tokens e) as Etok. pose proof (xspine_size e) as Esz.
  pose proof (spine_rebuild e) as Ereb. pose proof (spine_chain e) as [Ech Etop].
  pose proof (xspine_frag e Hf) as [Hfh Hfs].
  pose proof (spine_head_bare e) as Hbare.
  destruct (spine e) as [h s] eqn:Esp. cbn [fst snd] in *.
  rewrite Etok in Hm. apply Umatches_app in Hm. destruct Hm as (th & tss & -> & Hmh & Hms).
  assert (Hsok : Forall xsfx_ok s).
  { apply Forall_forall. intros x Hx. rewrite Forall_forall in Hfs. specialize (Hfs x Hx).
    pose proof (In_sum xsfx_size s x Hx) as Hsz. pose proof (xsize_pos (hd_expr h)) as Hhp. unfold xhd_size in Esz.
    destruct x as [op r|args]; cbn [xsfx_frag xsfx_ok xsfx_size] in *.
    - destruct Hfs as [A B]. repeat split; try assumption. apply HsubE. lia.
    - split; [exact Hfs|]. apply Forall_forall. intros a Ha. apply HsubE.
      pose proof (In_sum xesize args a Ha). lia. }
  assert (Hlow : forall x, In x s -> pre < sfx_prec x).
  { intros x Hx. pose proof (chain_lower s _ Ech x Hx) as Hl. rewrite Etop in Hl.
    assert (is_infix_node e = true).
    { destruct e; try reflexivity; cbn [spine] in Esp; inversion Esp; subst; destruct Hx. }
    specialize (Hinf H). lia. }
  assert (Hstop_s : forall q, pre <= q -> q <= 8 -> hd_level h <= q \/ s = [] -> stop q (tss ++ rest)).
  { intros q Hq Hq8 Hh. destruct s as [|y s2].
    - cbn [flat_map] in Hms. apply Umatches_nil in Hms. subst tss. cbn [app]. apply (stop_weaken pre); assumption.
    - destruct Hh as [Hh|Hh]; [|discriminate]. cbn [chain_ok] in Ech. destruct Ech as [Hy _].
      apply (sfx_first_stops y s2); try assumption; try lia.
      inversion Hfs as [|y' s2' Hyf _]; subst. destruct y; cbn [xsfx_frag] in Hyf; [tauto|exact I]. }
  assert (Hfuel_s : (5 * list_sum (map xsfx_size s) + 8 <= n - 1)%nat).
  { pose proof (xsize_pos (hd_expr h)). unfold xhd_size in Esz. lia. }
  rewrite <- Ereb.
  destruct n as [|n]; [lia|]. rewrite p_expr_eq.
  destruct h as [h0|l]; cbn [U_hd hd_expr hd_level] in *; unfold xhd_size in Esz; cbn [hd_expr] in Esz.
  - specialize (Hbare h0 eq_refl).
    destruct h0; try discriminate; try (cbn [xfrag] in Hfh; contradiction).
    + (* number *)
      cbn [unparse_expr] in Hmh.
      apply Umatches_cons in Hmh. destruct Hmh as (t0 & r0 & -> & Hu & Hr0). apply Umatches_nil in Hr0. subst r0.
      cbn [app]. rewrite nx. cbn [bindP].
      destruct n as [|n]; [lia|].
      destruct Hu as [[Ht Hv]|[Ht Hv]]; rewrite Ht; cbn [prefix_of pbackup consumed prod ahead].
      * rewrite p_prefix_number_eq, nx. cbn [bindP]. rewrite Hv. cbn [bindP].
        rewrite (xinfix_ok s Hsok 10 _ pre (S n) tss rest p (t0 :: c)); try assumption; try lia. cbn [rev app]. rewrite <- app_assoc. reflexivity.
      * rewrite p_prefix_bool_eq, nx. cbn [bindP]. rewrite Hv. cbn [bindP].
        rewrite (xinfix_ok s Hsok 10 _ pre (S n) tss rest p (t0 :: c)); try assumption; try lia. cbn [rev app]. rewrite <- app_assoc. reflexivity.
    + (* string *)
      cbn [unparse_expr] in Hmh.
      apply Umatches_cons in Hmh. destruct Hmh as (t0 & r0 & -> & [Ht Hv] & Hr0). apply Umatches_nil in Hr0. subst r0.
      cbn [app]. rewrite nx. cbn [bindP]. destruct n as [|n]; [lia|].
      rewrite Ht; cbn [prefix_of pbackup consumed prod ahead].
      rewrite p_prefix_string_eq, nx. cbn [bindP]. rewrite Hv. cbn [bindP].
      rewrite (xinfix_ok s Hsok 10 _ pre (S n) tss rest p (t0 :: c)); try assumption; try lia. cbn [rev app]. rewrite <- app_assoc. reflexivity.
    + (* null *)
      cbn [unparse_expr] in Hmh.
      apply Umatches_cons in Hmh. destruct Hmh as (t0 & r0 & -> & [Ht Hv] & Hr0). apply Umatches_nil in Hr0. subst r0.
      cbn [app]. rewrite nx. cbn [bindP]. destruct n as [|n]; [lia|].
      rewrite Ht; cbn [prefix_of pbackup consumed prod ahead].
      rewrite p_prefix_null_eq, nx. cbn [bindP].
      rewrite (xinfix_ok s Hsok 10 _ pre (S n) tss rest p (t0 :: c)); try assumption; try lia. cbn [rev app]. rewrite <- app_assoc. reflexivity.
    + (* function literal *)
      cbn [xfrag] in Hfh. destruct Hfh as [Hdup Hwb]. cbn [xesize] in Esz.
      pose proof Hmh as Hmh0. cbn [unparse_expr] in Hmh0.
      apply Umatches_cons in Hmh0. destruct Hmh0 as (t0 & th' & -> & [Ht _] & _).
      rewrite <- app_assoc. cbn [app]. rewrite nx. cbn [bindP].
      rewrite Ht; cbn [prefix_of pbackup consumed prod ahead].
      change (t0 :: th' ++ tss ++ rest) with ((t0 :: th') ++ tss ++ rest).
      rewrite (xfnlit_prefix_ok args body n (t0 :: th') (tss ++ rest) p c Hdup Hwb ltac:(lia) Hmh ltac:(lia)).
      cbn [bindP].
      rewrite (xinfix_ok s Hsok 10 _ pre n tss rest p (rev (t0 :: th') ++ c)); try assumption; try lia.
      f_equal. f_equal. change (t0 :: th' ++ tss) with ((t0 :: th') ++ tss).
      rewrite rev_app_distr. rewrite <- app_assoc. reflexivity.
    + (* identifier *)
      cbn [unparse_expr] in Hmh.
      apply Umatches_cons in Hmh. destruct Hmh as (t0 & r0 & -> & [Ht Hv] & Hr0). apply Umatches_nil in Hr0. subst r0.
      cbn [app]. rewrite nx. cbn [bindP]. destruct n as [|n]; [lia|].
      rewrite Ht; cbn [prefix_of pbackup consumed prod ahead].
      rewrite p_prefix_ident_eq, nx. cbn [bindP]. rewrite Hv. cbn [bindP].
      rewrite (xinfix_ok s Hsok 10 _ pre (S n) tss rest p (t0 :: c)); try assumption; try lia. cbn [rev app]. rewrite <- app_assoc. reflexivity.
    + (* unary *)
      cbn [unparse_expr] in Hmh.
      cbn [xfrag] in Hfh. destruct Hfh as [Hun Hfr].
      apply Umatches_cons in Hmh. destruct Hmh as (top & tr & -> & Hop & Hmr).
      pose proof Hop as [Ht1 Ht2]. cbn in Ht1.
      cbn [app]. rewrite nx. cbn [bindP]. destruct n as [|n]; [lia|].
      assert (Epf : prefix_of (lt_typ top) = Some PfUnary) by (rewrite Ht1; destruct (t_typ op); try discriminate; reflexivity).
      rewrite Epf. cbn [pbackup consumed prod ahead].
      rewrite p_prefix_unary_eq, nx. cbn [bindP].
      assert (Eun : typ_is top LogicNot || typ_is top ItemMinus = true).
      { unfold typ_is. rewrite Ht1. destruct (t_typ op); try discriminate; reflexivity. }
      rewrite Eun. rewrite <- app_assoc.
      cbn [xesize] in Esz. unfold Prefix.
      rewrite (xoperand h0 (HsubE h0 ltac:(lia)) 7 8 n tr (tss ++ rest) p (top :: c)); try assumption; try lia.
      * cbn [bindP]. rewrite (tk_utok op top Hop).
        rewrite (xinfix_ok s Hsok 8 _ pre (S n) tss rest p (rev tr ++ top :: c)); try assumption; try lia.
        f_equal. f_equal.
        change (top :: tr ++ tss) with ((top :: tr) ++ tss). rewrite rev_app_distr. cbn [rev].
        rewrite <- !app_assoc. reflexivity.
      * intros Hl Hi. pose proof (xinfix_level_gt1 h0 Hfr Hi). destruct h0; try discriminate; cbn [level] in *; [lia|].
        cbn [xfrag] in Hfr. destruct Hfr as [Hfr _]. pose proof (binop_prec _ Hfr). lia.
      * apply Hstop_s; [lia|lia|]. left. cbn [level]. lia.
    + (* map literal *)
      rewrite xfrag_map in Hfh. destruct Hfh as (Hfa & Hff & Hkeys). rewrite xesize_map in Esz.
      pose proof Hmh as Hmh0. cbn [unparse_expr] in Hmh0.
      apply Umatches_cons in Hmh0. destruct Hmh0 as (t0 & th' & -> & [Ht _] & _).
      rewrite <- app_assoc. cbn [app]. rewrite nx. cbn [bindP].
      rewrite Ht; cbn [prefix_of pbackup consumed prod ahead].
      change (t0 :: th' ++ tss ++ rest) with ((t0 :: th') ++ tss ++ rest).
      rewrite (xmap_prefix_ok arr fields (map_entries_ok arr fields Hfa Hff ltac:(lia)) Hkeys
                 n (t0 :: th') (tss ++ rest) p c Hmh ltac:(lia)).
      cbn [bindP].
      rewrite (xinfix_ok s Hsok 10 _ pre n tss rest p (rev (t0 :: th') ++ c)); try assumption; try lia.
      f_equal. f_equal. change (t0 :: th' ++ tss) with ((t0 :: th') ++ tss).
      rewrite rev_app_distr. rewrite <- app_assoc. reflexivity.
  - (* a parenthesised head *)
    apply Umatches_cons in Hmh. destruct Hmh as (tl & t1 & -> & [Hl1 Hl2] & Hmh).
    apply Umatches_app in Hmh. destruct Hmh as (tr & t2 & -> & Hr & Hmh).
    apply Umatches_cons in Hmh. destruct Hmh as (trp & t3 & -> & [Hr1 Hr2] & Hmh).
    apply Umatches_nil in Hmh. subst t3.
    cbn [app]. rewrite nx. cbn [bindP]. rewrite Hl1. cbn [prefix_of pbackup consumed prod ahead].
    destruct n as [|n]; [lia|]. rewrite p_prefix_paren_eq, nx. cbn [bindP].
    rewrite <- !app_assoc. cbn [app]. unfold Lowest.
    assert (Hsz2 : (2 <= list_sum (map xsfx_size s))%nat).
    { destruct s as [|y s2].
      - exfalso. pose proof (spine_paren_nonempty e l) as Hne. rewrite Esp in Hne. cbn [fst snd] in Hne.
        apply Hne; reflexivity.
      - cbn [map list_sum fold_right]. destruct y as [o r0|a0]; cbn [xsfx_size]; [pose proof (xsize_pos r0)|]; lia. }
    rewrite (HsubE l ltac:(lia) 1 n tr (trp :: tss ++ rest) p (tl :: c)); try assumption; try lia.
    + cbn [bindP]. rewrite pk. cbn [bindP]. rewrite (typ_is_true trp _ Hr1). rewrite nx. cbn [bindP].
      rewrite (xinfix_ok s Hsok 10 _ pre (S n) tss rest p (trp :: rev tr ++ tl :: c)); try assumption; try lia.
      f_equal. f_equal.
      change (tl :: tr ++ trp :: tss) with ((tl :: tr) ++ trp :: tss).
      rewrite rev_app_distr. cbn [rev]. rewrite <- !app_assoc. reflexivity.
    + intros Hi. apply xinfix_level_gt1; assumption.
    + apply stop_tok. right. rewrite Hr1. cbn. uprec. lia.
Qed.


End XK.

Theorem all_K : forall k,
  (forall e, (xesize e <= k)%nat -> XMain e) /\
  (forall x, (xndsize x <= k)%nat -> xwf_node x -> XNodeOK x).
Proof.
  induction k as [|k [IHe IHn]].
  - split; [intros e Hk; pose proof (xsize_pos e); lia|intros x Hk; pose proof (xndsize_pos x); lia].
  - assert (HsubE : forall e, (xesize e < S k)%nat -> XMain e) by (intros e He; apply IHe; lia).
    assert (Hsub : forall y, (xndsize y < S k)%nat -> xwf_node y -> XNodeOK y) by (intros y Hy; apply IHn; lia).
    split.
    + intros e Hk. apply (expr_step (S k) HsubE Hsub). exact Hk.
    + intros x Hk Hw. destruct x as [e|st]; cbn [xwf_node] in Hw.
      * apply (xnexpr_ok (S k) HsubE); assumption.
      * destruct st; try (cbn [xwf_stmt] in Hw; contradiction).
        -- apply (xsblock_ok (S k) Hsub); assumption.
        -- apply (xassign_node_ok (S k) HsubE); assumption.
        -- apply (xlet_node_ok (S k) HsubE); assumption.
        -- apply (xreturn_node_ok (S k) HsubE); assumption.
        -- apply xctrl_node_ok; assumption.
        -- apply (xif_ok (S k) HsubE Hsub); assumption.
        -- apply (xswitch_ok (S k) HsubE Hsub); assumption.
        -- apply (xfn_ok (S k) Hsub); assumption.
        -- apply (xwhile_ok (S k) HsubE Hsub); assumption.
        -- apply (xfor_ok (S k) HsubE Hsub); assumption.
Qed.

Theorem xmain_all : forall e, XMain e.
Proof. intros e. apply (proj1 (all_K (xesize e))). lia. Qed.
Lemma xnode_ok_wf : forall x, xwf_node x -> XNodeOK x.
Proof. intros x Hw. apply (proj2 (all_K (xndsize x))); [lia|exact Hw]. Qed.


(* a whole program: statements up to EOF *)
Lemma xrows_ok_wf : forall nodes acc n ts teof rest p c,
  x_all_nodes nodes -> Umatches (flat_map unparse_node nodes) ts -> lt_typ teof = ItemEOF ->
  (5 * list_sum (map xndsize nodes) + 22 <= n)%nat ->
  p_rows inp n acc (mkP p (ts ++ teof :: rest) c) =
  ROk (Block (acc ++ nodes)) (mkP p (teof :: rest) (rev ts ++ c)).
Proof.
  induction nodes as [|x nodes IH]; intros acc n ts teof rest p c Hw Hm He Hn.
  - cbn [flat_map] in Hm. apply Umatches_nil in Hm. subst ts. cbn [app rev].
    destruct n as [|n]; [lia|]. rewrite p_rows_eq, pk. cbn [bindP]. rewrite (typ_is_true teof _ He).
    rewrite app_nil_r. reflexivity.
  - cbn [x_all_nodes] in Hw. destruct Hw as [Hwx Hwn].
    cbn [flat_map] in Hm. apply Umatches_app in Hm. destruct Hm as (tx & ts' & -> & Hmx & Hms).
    cbn [map list_sum fold_right List.length] in Hn. fold (list_sum (map xndsize nodes)) in Hn.
    assert (Hpos : (1 <= xndsize x)%nat) by (destruct x; cbn [xndsize]; lia).
    destruct (xnode_first_wf x Hwx) as (u & us & Eu & Hu).
    pose proof Hmx as Hmx'. rewrite Eu in Hmx'. apply Umatches_cons in Hmx'.
    destruct Hmx' as (t1 & tx' & Etx & Hu1 & _). specialize (Hu t1 Hu1).
    destruct (xstmt_start_props _ Hu) as (_ & N2 & _).
    destruct n as [|n]; [lia|]. rewrite p_rows_eq. rewrite <- app_assoc.
    rewrite Etx at 1. cbn [app]. rewrite pk. cbn [bindP]. rewrite (typ_is_false t1 _ N2).
    change (t1 :: tx' ++ ts' ++ teof :: rest) with ((t1 :: tx') ++ ts' ++ teof :: rest). rewrite <- Etx.
    rewrite (xnode_ok_wf x Hwx n tx (ts' ++ teof :: rest) p c Hmx); [| |lia].
    + cbn [bindP].
      rewrite (IH (block_append acc x) n ts' teof rest p (rev tx ++ c) Hwn Hms He ltac:(lia)).
      unfold block_append. f_equal; [rewrite <- app_assoc; reflexivity|]. f_equal.
      rewrite rev_app_distr. rewrite <- app_assoc. reflexivity.
    + destruct nodes as [|y nodes2].
      * cbn [flat_map] in Hms. apply Umatches_nil in Hms. subst ts'. cbn [app].
        exists teof, rest. split; [reflexivity|]. rewrite He. discriminate.
      * cbn [x_all_nodes] in Hwn. destruct Hwn as [Hwy _].
        destruct (xnode_first_wf y Hwy) as (uy & usy & Euy & Huy).
        cbn [flat_map] in Hms. rewrite Euy in Hms. rewrite <- app_comm_cons in Hms.
        apply Umatches_cons in Hms. destruct Hms as (ty & ry & -> & Hy1 & _).
        cbn [app]. exists ty, (ry ++ teof :: rest). split; [reflexivity|].
        destruct (xstmt_start_props _ (Huy ty Hy1)) as (_ & _ & N3 & _). exact N3.
Qed.

End XRT.

(* ---- a well-formed tree is at most three times as large as its canonical token sequence ---- *)
Definition xtok3 (x : node) : Prop := (xndsize x <= 3 * List.length (unparse_node x))%nat.
Definition xtok3e (e : expr) : Prop := (xesize e <= 3 * List.length (unparse_expr e))%nat.

Lemma sum_le3 : forall (A : Type) (f g : A -> nat) (l : list A),
  (forall a, In a l -> (f a <= 3 * g a)%nat) ->
  (list_sum (map f l) <= 3 * list_sum (map g l))%nat.
Proof.
  intros A f g. induction l as [|a l IH]; intros H; cbn [map list_sum fold_right]; [lia|].
  fold (list_sum (map f l)). fold (list_sum (map g l)).
  pose proof (H a (or_introl eq_refl)). specialize (IH (fun x Hx => H x (or_intror Hx))). lia.
Qed.

Lemma x_all_fields_In : forall l k v, x_all_fields l -> In (k, v) l -> xfrag v.
Proof.
  induction l as [|[k' v'] l IH]; intros k v H Hin; [destruct Hin|].
  cbn [x_all_fields] in H. destruct H as [Hv Hl].
  destruct Hin as [E|Hin]; [inversion E; subst; exact Hv|apply (IH k v); assumption].
Qed.

Lemma xnodes_tok3 : forall l, x_all_nodes l -> (forall y, In y l -> xwf_node y -> xtok3 y) ->
  (list_sum (map xndsize l) <= 3 * List.length (flat_map unparse_node l))%nat.
Proof.
  induction l as [|x l IH]; intros Hw H; [cbn; lia|].
  cbn [x_all_nodes] in Hw. destruct Hw as [Hx Hl].
  cbn [map list_sum fold_right flat_map]. fold (list_sum (map xndsize l)). rewrite app_length.
  pose proof (H x (or_introl eq_refl) Hx) as Hx3. unfold xtok3 in Hx3.
  specialize (IH Hl (fun y Hy => H y (or_intror Hy))). lia.
Qed.

Lemma xblock_tok3 : forall l, x_all_nodes l -> (forall y, In y l -> xwf_node y -> xtok3 y) ->
  (xbsize (Block l) + 5 <= 3 * List.length (unparse_block (Block l)))%nat.
Proof.
  intros l Hw H. cbn [xbsize unparse_block List.length]. rewrite app_length. cbn [List.length].
  pose proof (xnodes_tok3 l Hw H). lia.
Qed.

Theorem xtok3_all : forall k,
  (forall e, (xesize e <= k)%nat -> xfrag e -> xtok3e e) /\
  (forall x, (xndsize x <= k)%nat -> xwf_node x -> xtok3 x).
Proof.
  induction k as [|k [IHe IHn]].
  - split; [intros e Hk; pose proof (xsize_pos e); lia|intros x Hk; pose proof (xndsize_pos x); lia].
  - assert (HsubE : forall e, (xesize e < S k)%nat -> xfrag e -> xtok3e e) by (intros e He; apply IHe; lia).
    assert (Hsub : forall y, (xndsize y < S k)%nat -> xwf_node y -> xtok3 y) by (intros y Hy; apply IHn; lia).
    assert (Hblk : forall l, (xbsize (Block l) < S k)%nat -> x_all_nodes l ->
              (xbsize (Block l) + 5 <= 3 * List.length (unparse_block (Block l)))%nat).
    { intros l Hb Hl. apply xblock_tok3; [exact Hl|]. intros y Hy Hwy. apply Hsub; [|exact Hwy].
      pose proof (In_sum xndsize l y Hy). cbn [xbsize] in Hb. lia. }
    split.
    + intros e Hk Hf. unfold xtok3e.
      destruct e; try (cbn [xfrag] in Hf; contradiction);
        try (cbn [xesize unparse_expr List.length]; lia).
      * (* function literal *)
        cbn [xfrag] in Hf. destruct Hf as [_ Hwb]. destruct body as [|l]; [contradiction|].
        rewrite xwf_block_nodes in Hwb.
        cbn [xesize] in Hk |- *. cbn [unparse_expr List.length]. rewrite app_length.
        pose proof (Hblk l ltac:(lia) Hwb). pose proof (uparams_len args). lia.
      * (* call *)
        rewrite xfrag_call in Hf. destruct Hf as [Hf1 Hf2]. cbn [xesize] in Hk |- *. cbn [unparse_expr].
        assert (Hfn : (xesize e <= 3 * List.length (paren_if 8 e (unparse_expr e)))%nat).
        { pose proof (HsubE e ltac:(lia) Hf1) as H. unfold xtok3e in H. unfold paren_if.
          destruct (8 <? level e); [assumption|]. cbn [List.length]. rewrite app_length. lia. }
        assert (Hargs : (list_sum (map xesize args) <= 3 * List.length (sep_by COMMA (map unparse_expr args)))%nat).
        { eapply Nat.le_trans; [|apply Nat.mul_le_mono_l; apply length_sep_by]. rewrite map_map.
          apply sum_le3. intros a Ha. change (xtok3e a).
          apply HsubE; [pose proof (In_sum xesize args a Ha); lia|apply (x_all_exprs_In args); assumption]. }
        rewrite app_length. cbn [List.length]. rewrite app_length. cbn [List.length]. lia.
      * (* unary *)
        cbn [xfrag] in Hf. destruct Hf as [_ Hf]. cbn [xesize] in Hk |- *. cbn [unparse_expr List.length].
        pose proof (HsubE e ltac:(lia) Hf) as H. unfold xtok3e in H. unfold paren_if. destruct (7 <? level e); [lia|].
        cbn [List.length]. rewrite app_length. lia.
      * (* binary *)
        cbn [xfrag] in Hf. destruct Hf as (_ & Hf1 & Hf2). cbn [xesize] in Hk |- *. cbn [unparse_expr].
        pose proof (HsubE e1 ltac:(lia) Hf1) as H1. pose proof (HsubE e2 ltac:(lia) Hf2) as H2. unfold xtok3e in H1, H2.
        rewrite app_length. cbn [List.length]. unfold paren_if.
        destruct (tok_prec (t_typ op) - 1 <? level e1), (tok_prec (t_typ op) <? level e2);
          cbn [List.length]; rewrite ?app_length; cbn [List.length]; lia.
      * (* map literal *)
        rewrite xfrag_map in Hf. destruct Hf as (Hfa & Hff & _). rewrite xesize_map in Hk |- *.
        cbn [unparse_expr List.length]. rewrite app_length. cbn [List.length].
        set (F := fun kv : string * expr =>
                    match kv with (k0, v) => uident k0 :: UT ItemAssign "=" :: unparse_expr v end).
        pose proof (length_sep_by (map unparse_expr arr ++ map F fields)) as Hsep.
        rewrite map_app, list_sum_app, !map_map in Hsep.
        assert (Ha : (list_sum (map xesize arr) <=
                      3 * list_sum (map (fun x => List.length (unparse_expr x)) arr))%nat).
        { apply sum_le3. intros a Hin. change (xtok3e a).
          apply HsubE; [pose proof (In_sum xesize arr a Hin); lia|apply (x_all_exprs_In arr); assumption]. }
        assert (Hfl : (list_sum (map fsize fields) <=
                       3 * list_sum (map (fun x => List.length (F x)) fields))%nat).
        { apply sum_le3. intros [k0 v] Hin. cbn [fsize F List.length].
          pose proof (In_sum fsize fields (k0, v) Hin) as Hs. cbn [fsize] in Hs.
          pose proof (HsubE v ltac:(lia) (x_all_fields_In fields k0 v Hff Hin)) as H. unfold xtok3e in H. lia. }
        lia.
    + intros x Hk Hw.
      unfold xtok3. destruct x as [e|st]; cbn [xwf_node] in Hw.
      * cbn [xndsize unparse_node] in Hk |- *. pose proof (HsubE e ltac:(lia) Hw) as H. unfold xtok3e in H.
        destruct (starts_fn e); rewrite ?app_length; cbn [List.length]; rewrite ?app_length; cbn [List.length]; lia.
      * destruct st as [ |b|id v|id v|v|t|c b els|cnd cases def|c0|fv args body|c b|init cond post body];
          try (cbn [xwf_stmt] in Hw; contradiction); cbn [xndsize xssize] in *; cbn [unparse_node unparse_stmt].
        -- cbn [xwf_stmt] in Hw. destruct b as [|l]; [contradiction|]. rewrite xwf_block_nodes in Hw.
           pose proof (Hblk l ltac:(lia) Hw). lia.
        -- cbn [xwf_stmt] in Hw. destruct Hw as [_ Hf]. pose proof (HsubE v ltac:(lia) Hf) as H. unfold xtok3e in H.
           cbn [List.length]. rewrite app_length. cbn [List.length]. lia.
        -- cbn [xwf_stmt] in Hw. destruct Hw as [_ Hf]. pose proof (HsubE v ltac:(lia) Hf) as H. unfold xtok3e in H.
           cbn [List.length]. rewrite app_length. cbn [List.length]. lia.
        -- cbn [xwf_stmt] in Hw. pose proof (HsubE v ltac:(lia) Hw) as H. unfold xtok3e in H.
           cbn [List.length]. rewrite app_length. cbn [List.length]. lia.
        -- cbn [xwf_stmt] in Hw. destruct t; try contradiction; cbn; lia.
        -- cbn [xwf_stmt] in Hw. destruct Hw as (Hfc & Hwb & Hwe). destruct b as [|l]; [contradiction|].
           rewrite xwf_block_nodes in Hwb.
           pose proof (HsubE c ltac:(lia) Hfc) as Hc. unfold xtok3e in Hc. pose proof (Hblk l ltac:(lia) Hwb) as Hb.
           cbn [List.length]. rewrite !app_length.
           destruct els as [ |eb|? ?|? ?|?|?|ec eb2 ee|? ? ?|?|? ? ?|? ?|? ? ? ?]; try contradiction.
           ++ cbn [xssize List.length]. lia.
           ++ assert (H3 : xtok3 (NStmt (SBlock eb))) by (apply Hsub; [cbn [xndsize xssize] in *; lia|exact Hwe]).
              unfold xtok3 in H3. cbn [xndsize unparse_node] in H3. cbn [List.length]. lia.
           ++ assert (H3 : xtok3 (NStmt (SIf ec eb2 ee))) by (apply Hsub; [cbn [xndsize] in *; lia|exact Hwe]).
              unfold xtok3 in H3. cbn [xndsize unparse_node] in H3. cbn [List.length]. lia.
        -- (* switch *)
           rewrite xwf_switch in Hw. destruct Hw as (Hc & Hwc & Hd).
           assert (Hcases : (list_sum (map xcsize cases) <= 3 * List.length (flat_map unparse_case cases))%nat).
           { assert (Hlt : (list_sum (map xcsize cases) < S k)%nat) by lia. clear Hk Hc Hd.
             induction cases as [|[cc bb] cases IHc]; [cbn; lia|].
             destruct Hwc as [[Hfcc Hwbb] Hwr]. destruct bb as [|l]; [contradiction|]. rewrite xwf_block_nodes in Hwbb.
             cbn [map list_sum fold_right xcsize flat_map unparse_case] in *. fold (list_sum (map xcsize cases)) in *.
             rewrite app_length. cbn [List.length]. rewrite app_length. cbn [List.length].
             cbn [xbsize] in Hlt.
             pose proof (HsubE cc ltac:(lia) Hfcc) as Hcc. unfold xtok3e in Hcc.
             assert (Hn3 : (list_sum (map xndsize l) <= 3 * List.length (flat_map unparse_node l))%nat).
             { apply xnodes_tok3; [exact Hwbb|]. intros y Hy Hwy. apply Hsub; [|exact Hwy].
               pose proof (In_sum xndsize l y Hy). lia. }
             specialize (IHc Hwr ltac:(lia)). cbn [xbsize]. lia. }
           cbn [List.length]. rewrite !app_length. cbn [List.length]. rewrite !app_length.
           assert (He : (xesize cnd <= 1 + 3 * List.length (unparse_expr cnd))%nat).
           { destruct Hc as [->|Hc]; [cbn; lia|pose proof (HsubE cnd ltac:(lia) Hc) as H; unfold xtok3e in H; lia]. }
           destruct def as [|l].
           ++ cbn [xbsize List.length]. lia.
           ++ destruct Hd as [Hd|Hd]; [discriminate|]. rewrite xwf_block_nodes in Hd.
              assert (Hn3 : (list_sum (map xndsize l) <= 3 * List.length (flat_map unparse_node l))%nat).
              { apply xnodes_tok3; [exact Hd|]. intros y Hy Hwy. apply Hsub; [|exact Hwy].
                pose proof (In_sum xndsize l y Hy). cbn [xbsize] in Hk. lia. }
              cbn [xbsize List.length]. lia.
        -- cbn [xwf_stmt] in Hw. destruct Hw as (Hid & Hdup & Hwb). destruct body as [|l]; [contradiction|].
           rewrite xwf_block_nodes in Hwb.
           pose proof (Hblk l ltac:(lia) Hwb). pose proof (uparams_len args).
           cbn [List.length]. rewrite !app_length. lia.
        -- cbn [xwf_stmt] in Hw. destruct Hw as (Hfc & Hwb). destruct b as [|l]; [contradiction|].
           rewrite xwf_block_nodes in Hwb.
           pose proof (HsubE c ltac:(lia) Hfc) as Hc. unfold xtok3e in Hc. pose proof (Hblk l ltac:(lia) Hwb).
           cbn [List.length]. rewrite !app_length. lia.
        -- rewrite xwf_for in Hw. destruct Hw as (Hparts & Hwb). destruct body as [|l]; [contradiction|].
           rewrite xwf_block_nodes in Hwb.
           pose proof (Hblk l ltac:(lia) Hwb) as Hb.
           cbn [List.length]. rewrite !app_length.
           destruct Hparts as [(-> & -> & ->)|(Hfc & Hini & Hpost)].
           ++ cbn [xssize xesize unparse_expr List.length]. lia.
           ++ pose proof (HsubE cond ltac:(lia) Hfc) as Hc. unfold xtok3e in Hc.
              assert (Hi : (xssize init <= 1 + 3 * List.length (match init with SNil => [] | _ => unparse_stmt init ++ [SEMI] end))%nat).
              { destruct init; try contradiction; cbn [xsimple_init] in Hini.
                - cbn; lia.
                - destruct Hini as [_ Hf]. cbn [xssize] in Hk |- *. pose proof (HsubE v ltac:(lia) Hf) as H. unfold xtok3e in H.
                  cbn [unparse_stmt]. rewrite ?app_length. cbn [List.length]. rewrite ?app_length. cbn [List.length]. lia.
                - destruct Hini as [_ Hf]. cbn [xssize] in Hk |- *. pose proof (HsubE v ltac:(lia) Hf) as H. unfold xtok3e in H.
                  cbn [unparse_stmt]. rewrite ?app_length. cbn [List.length]. rewrite ?app_length. cbn [List.length]. lia. }
              assert (Hp : (xssize post <= 1 + 3 * List.length (match post with SNil => [] | _ => SEMI :: unparse_stmt post end))%nat).
              { destruct post; try contradiction; cbn [xsimple_post] in Hpost.
                - cbn; lia.
                - destruct Hpost as [_ Hf]. cbn [xssize] in Hk |- *. pose proof (HsubE v ltac:(lia) Hf) as H. unfold xtok3e in H.
                  cbn [unparse_stmt List.length]. rewrite ?app_length. cbn [List.length]. lia. }
              lia.
Qed.

Lemma xprogram_tok3 : forall nodes, x_all_nodes nodes ->
  (list_sum (map xndsize nodes) <= 3 * List.length (flat_map unparse_node nodes))%nat.
Proof.
  intros nodes Hw. apply xnodes_tok3; [exact Hw|]. intros y _ Hy.
  apply (proj2 (xtok3_all (xndsize y))); [lia|exact Hy].
Qed.

(* ---- end to end ---- *)
Definition xwf_program (nodes : list node) : Prop := x_all_nodes nodes.

(* If lexing the source gives the canonical token sequence of a program built from every
   statement form and every expression form the parser can build - including map literals
   (array elements first, then the fields in increasing key order) and function literals (an
   expression statement that begins with `fn` is written in parentheses) - then
   parse.New(src).Parse() returns exactly that program. *)
Definition C14_full_statement : Prop :=
  forall bs nodes, xwf_program nodes -> lexes_to bs nodes ->
    r_out (parse_bytes bs) = OProgram (Block nodes).

Theorem C14_full_holds : C14_full_statement.
Proof.
  intros bs nodes Hwf (ts & teof & Hlex & Hm & Heof).
  unfold parse_bytes. set (inp := mk_input bs).
  pose proof (mk_input_len bs) as Hlen. pose proof (mk_input_range bs) as Hrange. fold inp in Hlen, Hrange.
  unfold lex_all in Hlex. fold inp in Hlex.
  destruct (drain_chain inp Hlen Hrange _ _ _ _ (Reach0 inp Hlen) Hlex) as (ext & p' & Eext & Ch & Len).
  cbn [rev app] in Eext. subst ext. rewrite (tokpot0 inp) in Len.
  pose proof (Pre_prefetch inp producer0 (ts ++ [teof]) p' [] Ch) as HPre.
  pose proof (q_rows inp _ (bridge_all inp (parse_fuel inp)) [] _ _ HPre) as Hrel.
  assert (Hfuel : (5 * list_sum (map xndsize nodes) + 22 <= parse_fuel inp)%nat).
  { pose proof (xprogram_tok3 nodes Hwf) as Hnt.
    assert (Hl : List.length (flat_map unparse_node nodes) = List.length ts) by (apply Umatches_length; exact Hm).
    rewrite app_length in Len. cbn [List.length] in Len.
    unfold parse_fuel. lia. }
  pose proof (xrows_ok_wf inp nodes [] (parse_fuel inp) ts teof [] p' [] Hwf Hm Heof Hfuel) as Hrows.
  cbn [app] in Hrows. unfold pstate0 in *. rewrite Hrows in Hrel.
  pose proof (a_rows inp _ (parser_all inp Hlen Hrange (parse_fuel inp)) [] (mkP producer0 [] [])
                (Rp0 inp Hlen)) as Hok.
  assert (N : need inp 7 (mkP producer0 [] []) (parse_fuel inp)).
  { unfold need, A, parse_fuel. pose proof (T0 inp) as HT0. unfold pstate0 in HT0. rewrite HT0.
    rewrite Z2Nat.id by lia. lia. }
  specialize (Hok N).
  unfold parse_input, pstate0.
  destruct (p_rows inp (parse_fuel inp) [] (mkP producer0 [] [])) as [b ps|ps| |];
    cbn [relR okP] in *; try contradiction.
  destruct Hrel as [-> _]. destruct Hok as [R _].
  apply (finish_closed inp Hlen Hrange (OProgram (Block nodes)) ps R). split; discriminate.
Qed.

(* ---- the whole expression language alone, on any parser state whose look-ahead holds the tokens ---- *)
Definition C14_full_expression_statement : Prop :=
  forall inp e pre n ts rest p c,
    xfrag e -> 1 <= pre <= 8 ->
    (is_infix_node e = true -> pre < level e) ->
    Umatches (unparse_expr e) ts ->
    stop pre rest ->
    (5 * xesize e + 8 <= n)%nat ->
    p_expr inp n pre (mkP p (ts ++ rest) c) = ROk e (mkP p rest (rev ts ++ c)).
Theorem C14_full_expression_holds : C14_full_expression_statement.
Proof. intros inp e. apply (xmain_all inp e). Qed.

(* the theorems of Proofs/GcsC14Proofs.v are instances *)
Corollary C14_statements_from_full : C14_statements_statement.
Proof. intros bs nodes Hw Hl. apply C14_full_holds; [apply all_nodes_x; exact Hw|exact Hl]. Qed.

(* ---- non-vacuity ---- *)
Definition demoX_src : list Z :=
  string_bytes "let m = [ 1 , x + 2 , [ ] , [ a = 1 ] , a = fn ( p , q ) { return p ; } , b = y ] ;
( fn ( ) { } ( ) ) ;
if f ( fn ( x ) { return x ; } , [ 1 ] ) { for [ ] { } } else { switch [ k = 1 ] { case fn ( ) { } : g ( [ ] ) ; default : ( fn ( ) { } ) ; } }
[ 1 , 2 ] ;".
Definition demoX_nodes : list node :=
  [ NStmt (SLet (I14 "m")
      (EMap [ N14 1 1%float;
              EBinary (EIdent "x") (N14 2 2%float) (T14 ItemPlus "+");
              EMap [] [];
              EMap [] [("a"%string, N14 1 1%float)] ]
            [ ("a"%string, EFuncLit ["p"%string; "q"%string] (Block [NStmt (SReturn (EIdent "p"))]));
              ("b"%string, EIdent "y") ]));
    NExpr (ECall (EFuncLit [] (Block [])) []);
    NStmt (SIf (ECall (EIdent "f")
                  [ EFuncLit ["x"%string] (Block [NStmt (SReturn (EIdent "x"))]);
                    EMap [N14 1 1%float] [] ])
             (Block [NStmt (SFor SNil (EMap [] []) SNil (Block []))])
             (SBlock (Block [NStmt (SSwitch (EMap [] [("k"%string, N14 1 1%float)])
                 [ Case (EFuncLit [] (Block [])) (Block [NExpr (ECall (EIdent "g") [EMap [] []])]) ]
                 (Block [NExpr (EFuncLit [] (Block []))]))])));
    NExpr (EMap [N14 1 1%float; N14 2 2%float] []) ].

Lemma demoX_wf : xwf_program demoX_nodes.
Proof.
  unfold xwf_program, demoX_nodes, I14, N14, T14.
  cbn [x_all_nodes xwf_node xwf_stmt xwf_block xwf_case xfrag is_ident_tok t_typ
       is_binop is_unop infix_of has_dup existsb orb keys_inc map fst].
  repeat split; auto; try discriminate; try (right; repeat split; auto; discriminate).
Qed.

Lemma demoX_lexes : lexes_to demoX_src demoX_nodes.
Proof.
  unfold lexes_to.
  assert (E : exists L, lex_all (mk_input demoX_src) = Ok L) by (apply lex_never_panics).
  destruct (lex_all (mk_input demoX_src)) as [L| |] eqn:EL; [|destruct E; discriminate|destruct E; discriminate].
  vm_compute in EL. inversion EL as [EL']. clear EL E.
  match type of EL' with ?l = L =>
    exists (removelast l), (last l zero_tok) end.
  split; [subst L; reflexivity|]. split; [|reflexivity].
  cbn [removelast]. unfold demoX_nodes, I14, N14, T14.
  cbn [flat_map unparse_node unparse_stmt unparse_block unparse_case unparse_expr starts_fn level paren_if
       tok_prec t_typ utok_of uparams uident t_val app sep_by map Z.ltb Z.sub Z.compare Pos.compare
       Pos.compare_cont ctrl_tok].
  unfold Umatches.
  repeat (first [ apply Forall2_nil | apply Forall2_cons ]);
    try (split; reflexivity); try (left; split; reflexivity).
Qed.

Theorem demoX_parses : r_out (parse_bytes demoX_src) = OProgram (Block demoX_nodes).
Proof. apply C14_full_holds; [apply demoX_wf|apply demoX_lexes]. Qed.
