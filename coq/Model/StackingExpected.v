(* The stacking / removal / expiry functions of the modifier manager (pkg/engine/modifier/add.go, remove.go, tick.go):
   the PINNED TABLE [expected] — what the first-order description printed by `go2coq StackingTable`
   (harness/cmd/go2coq/stacking.go, Gen/StackingTable.v) must be, written by hand from the source as it is now, with the
   definition of Model/Modifier.v that models each function named above it.  The step / fn types are those of
   Model/SimSkeleton.v.  Proofs/StackingTableProofs.v proves [StackingTable.table = expected] (so any edit of a lookup
   guard, a count or duration update, an early return, the surviving instance or the order of emits in these functions
   breaks a kernel-checked equation, for all inputs) and interprets stackCount against Modifier.stack_count.

   After a deliberate change of the Go source: re-read the change against Model/Modifier.v, repair the model if
   needed, then update [expected] (paste the regenerated definition, keep the comments).  No proofs here. *)
From Coq Require Import List ZArith String.
From SR Require Import Model.SimSkeleton.
Import ListNotations.
Open Scope Z_scope.
Open Scope string_scope.

(* ---- add.go: func AddModifier ----
   Modifier.add: validity of target / source (result codes 2, 3), attempt_resist (code 1), new_instance, then
   Modifier.stack dispatched on c_stack: the helper per behaviour and the forced newInstance = true of ReplaceBySource /
   Replace / Merge are the third component of stack's result; the tail (prop_change when stats are predefined, then
   emit_add) is the `if isnew` of Modifier.add.  The default branch (unsupported stacking) has no counterpart: the
   model's `stacking` has exactly the seven constructors. *)
Definition e_AddModifier : fn :=
  mkFn "add.go" "AddModifier" "mgr *Manager" ["target key.TargetID"; "modifier info.Modifier"] ["bool"; "error"]
    [ SkAssign ["config"] ":=" ["modifierCatalog[modifier.Name]"];
      SkIf [] "!mgr.engine.IsValid(target)"
        [SkReturn ["false"; "fmt.Errorf(""invalid target id: %v"", target)"]]
        [];
      SkIf [] "!mgr.engine.IsValid(modifier.Source)"
        [SkReturn ["false"; "fmt.Errorf(""invalid source id: %v"", modifier.Source)"]]
        [];
      SkBind ["chance"; "resisted"] ":=" "mgr.attemptResist" ["target"; "modifier"; "config.BehaviorFlags"];
      SkIf [] "resisted"
        [SkReturn ["false"; "nil"]]
        [];
      SkBind ["instance"] ":=" "mgr.newInstance" ["target"; "modifier"; "mgr.turnCount"];
      SkVar "result" "*Instance";
      SkVar "newInstance" "bool";
      SkSwitch "config.Stacking"
        [ (["Unique"],
            [SkBind ["result"; "newInstance"] "=" "mgr.unique" ["target"; "instance"]]);
          (["ReplaceBySource"],
            [ SkBind ["result"] "=" "mgr.replaceBySource" ["target"; "instance"];
              SkAssign ["newInstance"] "=" ["true"] ]);
          (["Replace"],
            [ SkBind ["result"] "=" "mgr.replace" ["target"; "instance"];
              SkAssign ["newInstance"] "=" ["true"] ]);
          (["Multiple"],
            [SkBind ["result"; "newInstance"] "=" "mgr.multiple" ["target"; "instance"]]);
          (["Refresh"],
            [SkBind ["result"; "newInstance"] "=" "mgr.refresh" ["target"; "instance"]]);
          (["Prolong"],
            [SkBind ["result"; "newInstance"] "=" "mgr.prolong" ["target"; "instance"]]);
          (["Merge"],
            [ SkBind ["result"] "=" "mgr.merge" ["target"; "instance"];
              SkAssign ["newInstance"] "=" ["true"] ]);
          (["default"],
            [SkReturn ["false"; "fmt.Errorf(""unsupported stacking method: %v"", config.Stacking)"]]) ];
      SkIf [] "newInstance"
        [ SkIf [] "len(result.stats) > 0"
            [SkCall "mgr.emitPropertyChange" ["target"]]
            [];
          SkCall "mgr.emitAdd" ["target"; "result"; "chance"] ]
        [];
      SkReturn ["true"; "nil"] ].

(* ---- add.go: func attemptResist ----
   Modifier.attempt_resist (chance <= 0: no draw; else stats of source and target, the product, one rand_float
   draw, ModifierResisted event when the draw is not below the chance) *)
Definition e_attemptResist : fn :=
  mkFn "add.go" "attemptResist" "mgr *Manager" ["target key.TargetID"; "mod info.Modifier"; "flags []model.BehaviorFlag"] ["float64"; "bool"]
    [ SkIf [] "mod.Chance <= 0"
        [SkReturn ["-1"; "false"]]
        [];
      SkBind ["srcStats"] ":=" "mgr.engine.Stats" ["mod.Source"];
      SkBind ["trgtStats"] ":=" "mgr.engine.Stats" ["target"];
      SkBind ["effectHitRate"] ":=" "srcStats.EffectHitRate" [];
      SkBind ["effectRES"] ":=" "trgtStats.EffectRES" [];
      SkBind ["debuffRES"] ":=" "trgtStats.GetDebuffRES" ["flags..."];
      SkAssign ["chance"] ":=" ["mod.Chance * (1 + effectHitRate) * (1 - effectRES) * (1 - debuffRES)"];
      SkIf [] "mgr.engine.Rand().Float64() < chance"
        [SkReturn ["chance"; "false"]]
        [];
      SkCall "mgr.engine.Events().ModifierResisted.Emit" ["event.ModifierResisted{ Target: target, Source: mod.Source, Modifier: mod.Name, Chance: chance, BaseChance: mod.Chance, EffectHitRate: effectHitRate, EffectRES: effectRES, DebuffRES: debuffRES, }"];
      SkReturn ["chance"; "true"] ].

(* ---- add.go: func unique ----
   Modifier.stack, case Unique: find_first by_name; found = (s, m, false); else append *)
Definition e_unique : fn :=
  mkFn "add.go" "unique" "mgr *Manager" ["target key.TargetID"; "instance *Instance"] ["*Instance"; "bool"]
    [ SkRange ["_"; "mod"] ":=" "mgr.targets[target]"
        [ SkIf [] "mod.name == instance.name"
            [SkReturn ["mod"; "false"]]
            [] ];
      SkBind ["mgr.targets[target]"] "=" "append" ["mgr.targets[target]"; "instance"];
      SkReturn ["instance"; "true"] ].

(* ---- add.go: func replaceBySource ----
   Modifier.stack, case ReplaceBySource: replace_with (by_name_src name src): count of the INCOMING instance :=
   stack_count new (count of the old one), replace_first puts it into the slot of the first match; else append *)
Definition e_replaceBySource : fn :=
  mkFn "add.go" "replaceBySource" "mgr *Manager" ["target key.TargetID"; "instance *Instance"] ["*Instance"]
    [ SkRange ["i"; "mod"] ":=" "mgr.targets[target]"
        [ SkIf [] "mod.name == instance.name && mod.source == instance.source"
            [ SkBind ["instance.count"] "=" "stackCount" ["instance"; "mod.count"];
              SkAssign ["mgr.targets[target][i]"] "=" ["instance"];
              SkReturn ["instance"] ]
            [] ];
      SkBind ["mgr.targets[target]"] "=" "append" ["mgr.targets[target]"; "instance"];
      SkReturn ["instance"] ].

(* ---- add.go: func replace ----
   Modifier.stack, case Replace: replace_with (by_name name) *)
Definition e_replace : fn :=
  mkFn "add.go" "replace" "mgr *Manager" ["target key.TargetID"; "instance *Instance"] ["*Instance"]
    [ SkRange ["i"; "mod"] ":=" "mgr.targets[target]"
        [ SkIf [] "mod.name == instance.name"
            [ SkBind ["instance.count"] "=" "stackCount" ["instance"; "mod.count"];
              SkAssign ["mgr.targets[target][i]"] "=" ["instance"];
              SkReturn ["instance"] ]
            [] ];
      SkBind ["mgr.targets[target]"] "=" "append" ["mgr.targets[target]"; "instance"];
      SkReturn ["instance"] ].

(* ---- add.go: func multiple ----
   Modifier.stack, case Multiple: append, always new *)
Definition e_multiple : fn :=
  mkFn "add.go" "multiple" "mgr *Manager" ["target key.TargetID"; "instance *Instance"] ["*Instance"; "bool"]
    [ SkBind ["mgr.targets[target]"] "=" "append" ["mgr.targets[target]"; "instance"];
      SkReturn ["instance"; "true"] ].

(* ---- add.go: func refresh ----
   Modifier.stack, case Refresh: find_first by_name; duration of the OLD instance := incoming duration, then
   emit_extdur with the previous duration; old instance survives, not new *)
Definition e_refresh : fn :=
  mkFn "add.go" "refresh" "mgr *Manager" ["target key.TargetID"; "instance *Instance"] ["*Instance"; "bool"]
    [ SkRange ["_"; "mod"] ":=" "mgr.targets[target]"
        [ SkIf [] "mod.name == instance.name"
            [ SkAssign ["old"] ":=" ["mod.duration"];
              SkAssign ["mod.duration"] "=" ["instance.duration"];
              SkCall "mgr.emitExtendDuration" ["target"; "mod"; "old"];
              SkReturn ["mod"; "false"] ]
            [] ];
      SkBind ["mgr.targets[target]"] "=" "append" ["mgr.targets[target]"; "instance"];
      SkReturn ["instance"; "true"] ].

(* ---- add.go: func prolong ----
   Modifier.stack, case Prolong: find_first by_name (name ONLY); duration of the old instance += incoming duration,
   then emit_extdur with the previous duration; old instance survives, not new *)
Definition e_prolong : fn :=
  mkFn "add.go" "prolong" "mgr *Manager" ["target key.TargetID"; "instance *Instance"] ["*Instance"; "bool"]
    [ SkRange ["_"; "mod"] ":=" "mgr.targets[target]"
        [ SkIf [] "mod.name == instance.name"
            [ SkAssign ["old"] ":=" ["mod.duration"];
              SkAssign ["mod.duration"] "+=" ["instance.duration"];
              SkCall "mgr.emitExtendDuration" ["target"; "mod"; "old"];
              SkReturn ["mod"; "false"] ]
            [] ];
      SkBind ["mgr.targets[target]"] "=" "append" ["mgr.targets[target]"; "instance"];
      SkReturn ["instance"; "true"] ].

(* ---- add.go: func merge ----
   Modifier.stack, case Merge: find_first by_name; count of the OLD instance := stack_count new old-count, THEN its
   duration := max (the update is not skipped when the count is at the cap); old instance survives, reported as new *)
Definition e_merge : fn :=
  mkFn "add.go" "merge" "mgr *Manager" ["target key.TargetID"; "instance *Instance"] ["*Instance"]
    [ SkRange ["_"; "mod"] ":=" "mgr.targets[target]"
        [ SkIf [] "mod.name == instance.name"
            [ SkBind ["mod.count"] "=" "stackCount" ["instance"; "mod.count"];
              SkIf [] "instance.duration > mod.duration"
                [SkAssign ["mod.duration"] "=" ["instance.duration"]]
                [];
              SkReturn ["mod"] ]
            [] ];
      SkBind ["mgr.targets[target]"] "=" "append" ["mgr.targets[target]"; "instance"];
      SkReturn ["instance"] ].

(* ---- add.go: func stackCount ----
   Modifier.stack_count: a negative previous or incoming count = the incoming count; else the sum, clamped to
   maxCount when maxCount > 0 (no early return at the cap).  INTERPRETED: StackingTableProofs.stack_count_is_the_source *)
Definition e_stackCount : fn :=
  mkFn "add.go" "stackCount" "" ["mod *Instance"; "prevCount float64"] ["float64"]
    [ SkIf [] "prevCount < 0 || mod.count < 0"
        [SkReturn ["mod.count"]]
        [];
      SkAssign ["count"] ":=" ["prevCount + mod.count"];
      SkIf [] "mod.maxCount > 0 && count > mod.maxCount"
        [SkAssign ["count"] "=" ["mod.maxCount"]]
        [];
      SkReturn ["count"] ].

(* ---- remove.go: func RemoveModifier ----
   Modifier.remove_by with by_name: ALL matches leave (filter), survivors keep their order, one emit_remove with
   the removed instances in attachment order (a fresh slice per call) *)
Definition e_RemoveModifier : fn :=
  mkFn "remove.go" "RemoveModifier" "mgr *Manager" ["target key.TargetID"; "modifier key.Modifier"] []
    [ SkAssign ["i"] ":=" ["0"];
      SkVar "removedMods" "[]*Instance";
      SkRange ["_"; "mod"] ":=" "mgr.targets[target]"
        [ SkIf [] "mod.name == modifier"
            [SkBind ["removedMods"] "=" "append" ["removedMods"; "mod"]]
            [ SkAssign ["mgr.targets[target][i]"] "=" ["mod"];
              SkAssign ["i"] "++" [] ] ];
      SkAssign ["mgr.targets[target]"] "=" ["mgr.targets[target][:i]"];
      SkCall "mgr.emitRemove" ["target"; "removedMods"] ].

(* ---- remove.go: func RemoveModifierFromSource ----
   Modifier.remove_by with by_name_src: ALL matches leave, not only the first *)
Definition e_RemoveModifierFromSource : fn :=
  mkFn "remove.go" "RemoveModifierFromSource" "mgr *Manager" ["target key.TargetID"; "source key.TargetID"; "modifier key.Modifier"] []
    [ SkAssign ["i"] ":=" ["0"];
      SkVar "removedMods" "[]*Instance";
      SkRange ["_"; "mod"] ":=" "mgr.targets[target]"
        [ SkIf [] "mod.name == modifier && mod.source == source"
            [SkBind ["removedMods"] "=" "append" ["removedMods"; "mod"]]
            [ SkAssign ["mgr.targets[target][i]"] "=" ["mod"];
              SkAssign ["i"] "++" [] ] ];
      SkAssign ["mgr.targets[target]"] "=" ["mgr.targets[target][:i]"];
      SkCall "mgr.emitRemove" ["target"; "removedMods"] ].

(* ---- remove.go: func RemoveSelf ----
   Modifier.remove_self: the first entry that IS the instance (find_tag / remove_first), one emit_remove *)
Definition e_RemoveSelf : fn :=
  mkFn "remove.go" "RemoveSelf" "mgr *Manager" ["target key.TargetID"; "instance *Instance"] []
    [ SkRange ["i"; "mod"] ":=" "mgr.targets[target]"
        [ SkIf [] "mod != instance"
            [SkContinue]
            [];
          SkBind ["mgr.targets[target]"] "=" "append" ["mgr.targets[target][:i]"; "mgr.targets[target][i+1:]..."];
          SkCall "mgr.emitRemove" ["target"; "[]*Instance{instance}"];
          SkReturn [] ] ].

(* ---- remove.go: func DispelStatus ----
   Modifier.dispel: the mask computed by dispelIDs (mask_first / positions + shuffle; dispelIDs itself is not
   translated) splits the list into survivors and removed, then emit_dispel *)
Definition e_DispelStatus : fn :=
  mkFn "remove.go" "DispelStatus" "mgr *Manager" ["target key.TargetID"; "dispel info.Dispel"] []
    [ SkAssign ["idx"] ":=" ["0"];
      SkBind ["idsToRemove"] ":=" "mgr.dispelIDs" ["target"; "dispel"];
      SkBind ["removedMods"] ":=" "make" ["[]*Instance"; "0"; "len(idsToRemove)"];
      SkRange ["i"; "mod"] ":=" "mgr.targets[target]"
        [ SkIf [SkAssign ["_"; "ok"] ":=" ["idsToRemove[i]"]] "ok"
            [SkBind ["removedMods"] "=" "append" ["removedMods"; "mod"]]
            [ SkAssign ["mgr.targets[target][idx]"] "=" ["mod"];
              SkAssign ["idx"] "++" [] ] ];
      SkAssign ["mgr.targets[target]"] "=" ["mgr.targets[target][:idx]"];
      SkCall "mgr.emitDispel" ["target"; "removedMods"] ].

(* ---- tick.go: func Tick ----
   Modifier.tick: phase 2 = turn + 1; phase 3 = OnPhase1 listeners over a snapshot, then phase_end Phase1End; phase 6 =
   set canTickImmediatelyPhase2 on every attached instance; phase 8 = OnPhase2 listeners, then phase_end Phase2End *)
Definition e_Tick : fn :=
  mkFn "tick.go" "Tick" "mgr *Manager" ["target key.TargetID"; "phase info.BattlePhase"] []
    [ SkSwitch "phase"
        [ (["info.TurnStart"],
            [SkAssign ["mgr.turnCount"] "+=" ["1"]]);
          (["info.ModifierPhase1"],
            [ SkRange ["_"; "mod"] ":=" "mgr.itr(target)"
                [ SkAssign ["f"] ":=" ["mod.listeners.OnPhase1"];
                  SkIf [] "f != nil"
                    [SkCall "f" ["mod"]]
                    [] ];
              SkCall "mgr.modifierPhaseEnd" ["target"; "ModifierPhase1End"] ]);
          (["info.ActionEnd"],
            [ SkRange ["_"; "mod"] ":=" "mgr.targets[target]"
                [SkAssign ["mod.canTickImmediatelyPhase2"] "=" ["true"]] ]);
          (["info.ModifierPhase2"],
            [ SkRange ["_"; "mod"] ":=" "mgr.itr(target)"
                [ SkAssign ["f"] ":=" ["mod.listeners.OnPhase2"];
                  SkIf [] "f != nil"
                    [SkCall "f" ["mod"]]
                    [] ];
              SkCall "mgr.modifierPhaseEnd" ["target"; "ModifierPhase2End"] ]) ] ].

(* ---- tick.go: func modifierPhaseEnd ----
   Modifier.phase_end / tick_inst: other tick moment = untouched; application turn without tick-immediately =
   untouched; count = 0 leaves; a non-negative duration is decreased, reaching <= 0 it is set to 0 and the instance leaves;
   one emit_remove with the expired instances *)
Definition e_modifierPhaseEnd : fn :=
  mkFn "tick.go" "modifierPhaseEnd" "mgr *Manager" ["target key.TargetID"; "time TickMoment"] []
    [ SkAssign ["i"] ":=" ["0"];
      SkVar "removedMods" "[]*Instance";
      SkRange ["_"; "mod"] ":=" "mgr.targets[target]"
        [ SkIf [] "modifierCatalog[mod.name].TickMoment != time"
            [ SkAssign ["mgr.targets[target][i]"] "=" ["mod"];
              SkAssign ["i"] "++" [];
              SkContinue ]
            [];
          SkAssign ["tickImmediately"] ":=" ["mod.tickImmediately"];
          SkIf [] "time == ModifierPhase2End"
            [SkAssign ["tickImmediately"] "=" ["tickImmediately && mod.canTickImmediatelyPhase2"]]
            [];
          SkIf [] "mgr.turnCount == mod.renewTurn && !tickImmediately"
            [ SkAssign ["mgr.targets[target][i]"] "=" ["mod"];
              SkAssign ["i"] "++" [];
              SkContinue ]
            [];
          SkAssign ["remove"] ":=" ["false"];
          SkIf [] "mod.count == 0"
            [SkAssign ["remove"] "=" ["true"]]
            [];
          SkIf [] "mod.duration >= 0"
            [ SkAssign ["mod.duration"] "-=" ["1"];
              SkIf [] "mod.duration <= 0"
                [ SkAssign ["mod.duration"] "=" ["0"];
                  SkAssign ["remove"] "=" ["true"] ]
                [] ]
            [];
          SkIf [] "!remove"
            [ SkAssign ["mgr.targets[target][i]"] "=" ["mod"];
              SkAssign ["i"] "++" [];
              SkContinue ]
            [];
          SkBind ["removedMods"] "=" "append" ["removedMods"; "mod"] ];
      SkAssign ["mgr.targets[target]"] "=" ["mgr.targets[target][:i]"];
      SkCall "mgr.emitRemove" ["target"; "removedMods"] ].

Definition expected : list fn :=
  [e_AddModifier; e_attemptResist; e_unique; e_replaceBySource; e_replace; e_multiple; e_refresh; e_prolong; e_merge; e_stackCount; e_RemoveModifier; e_RemoveModifierFromSource; e_RemoveSelf; e_DispelStatus; e_Tick; e_modifierPhaseEnd].

(* the values the harness and Model/Modifier.v use for the stacking behaviours (constructor order of
   Modifier.stacking), the tick moments and the battle phases of Modifier.tick *)
Definition expected_consts : list (string * Z) :=
  [("Merge", (6));
   ("ModifierPhase1End", (1));
   ("ModifierPhase2End", (0));
   ("Multiple", (3));
   ("Prolong", (5));
   ("Refresh", (4));
   ("Replace", (2));
   ("ReplaceBySource", (1));
   ("Unique", (0));
   ("info.ActionEnd", (6));
   ("info.ModifierPhase1", (3));
   ("info.ModifierPhase2", (8));
   ("info.TurnStart", (2))].
