(* C15 -- runs sharing one process.

   A system is a family of runs indexed by natural numbers (no bound on how many).  Every run
   has a private state of type P; all runs share the globals of type G (package-level
   variables).  One step of run i reads its private state and the globals and produces a new
   private state and new globals.  A schedule is any list of run indices: the k-th entry says
   whose step executes k-th.  "Sequentially, in any order" and "concurrently, in any
   interleaving of steps" are both schedules (the Go memory model is outside this model, see
   the property's trusted base).

   Executable; no proofs here. *)
From Coq Require Import List ZArith Bool Arith.
Import ListNotations.

Section Runs.
  Variables P G : Type.

  Record system := mkSys {
    s_init : nat -> P;                    (* initial private state of run i *)
    s_step : nat -> P -> G -> P * G }.    (* one step of run i *)

  Definition upd (f : nat -> P) (i : nat) (p : P) : nat -> P :=
    fun j => if Nat.eqb j i then p else f j.

  Definition state := ((nat -> P) * G)%type.

  Definition exec_step (sys : system) (st : state) (i : nat) : state :=
    let '(ps, g) := st in
    let '(p', g') := s_step sys i (ps i) g in
    (upd ps i p', g').

  (* run a schedule from the initial private states and the given globals *)
  Definition exec (sys : system) (g0 : G) (sched : list nat) : state :=
    fold_left (exec_step sys) sched (s_init sys, g0).

  (* private state of run i after a schedule *)
  Definition priv_after (sys : system) (g0 : G) (sched : list nat) (i : nat) : P :=
    fst (exec sys g0 sched) i.

  (* run i ALONE from the initial globals: n steps, nobody else in the process, and (which is
     what the frame condition makes equivalent) the globals it sees are the initial ones *)
  Fixpoint alone (sys : system) (g0 : G) (i : nat) (n : nat) : P :=
    match n with
    | O => s_init sys i
    | S n' => fst (s_step sys i (alone sys g0 i n') g0)
    end.

  (* the same, but threading the globals that the run itself produces *)
  Fixpoint alone_threaded (sys : system) (g0 : G) (i : nat) (n : nat) : P * G :=
    match n with
    | O => (s_init sys i, g0)
    | S n' => let '(p, g) := alone_threaded sys g0 i n' in s_step sys i p g
    end.

  Definition steps_of (i : nat) (sched : list nat) : nat := count_occ Nat.eq_dec sched i.
End Runs.

Arguments mkSys {P G}.
Arguments s_init {P G}.
Arguments s_step {P G}.
Arguments exec {P G}.
Arguments priv_after {P G}.
Arguments alone {P G}.
Arguments alone_threaded {P G}.

(* ------------------------------------------------------------------------------------------
   The shape of logging.loggers: the package-level logger list is overwritten by the first step
   of every run (simulation.Run -> logging.InitLoggers) and read by every emission (logging.Log
   sends the event to whatever list is installed).  Loggers collect what they are sent; at the
   end a run reads back what ITS OWN logger collected.

   Globals: which logger is installed, and the contents of every logger.
   Private state: program counter and the log the run finally got.
   ------------------------------------------------------------------------------------------ *)
Open Scope Z_scope.

Record lglobals := mkLG { installed : nat; logs : nat -> list (nat * Z) }.

Definition lg_append (g : lglobals) (k : nat) (e : nat * Z) : lglobals :=
  mkLG (installed g) (fun j => if Nat.eqb j k then logs g j ++ [e] else logs g j).

Definition lpriv := (Z * list (nat * Z))%type.

(* pc 0: InitLoggers(own logger); pc 1, 2: emit an event; pc 3: collect the own logger *)
Definition logger_step (i : nat) (p : lpriv) (g : lglobals) : lpriv * lglobals :=
  let '(pc, res) := p in
  if pc =? 0 then ((1, res), mkLG i (logs g))
  else if (pc =? 1) || (pc =? 2) then ((pc + 1, res), lg_append g (installed g) (i, pc))
  else if pc =? 3 then ((4, logs g i), g)
  else (p, g).

Definition logger_sys : system lpriv lglobals := mkSys (fun _ => (0, [])) logger_step.
Definition logger_g0 : lglobals := mkLG 0%nat (fun _ => []).

(* run 0 completes, then run 1 completes *)
Definition sched_sequential : list nat := [0; 0; 0; 0; 1; 1; 1; 1]%nat.
(* run 1 installs its logger between run 0's InitLoggers and run 0's first event *)
Definition sched_interleaved : list nat := [0; 1; 0; 0; 0; 1; 1; 1]%nat.

Definition logger_result (sched : list nat) (i : nat) : list (nat * Z) :=
  snd (priv_after logger_sys logger_g0 sched i).
