(* Shared facts for the combat proofs (C17, C04): the real-number instance of [NumOps] and
   the reflection lemmas of its boolean comparisons; basic lemmas about property maps and the
   unit table that hold at every instance. *)
From Coq Require Import List ZArith Bool Reals Lra Lia Floats.
From SR Require Import Model.CombatCore.
Import ListNotations.

Definition Rltb (x y : R) : bool := if Rlt_dec x y then true else false.
Definition Rleb (x y : R) : bool := if Rle_dec x y then true else false.
Definition Reqb (x y : R) : bool := if Req_EM_T x y then true else false.

(* the same definitions as the binary64 model, over the reals: no rounding *)
Definition RNum : NumOps := mkNum R Rplus Rminus Rmult Rdiv Ropp Rltb Rleb Reqb IZR.

Lemma Rltb_true x y : Rltb x y = true <-> (x < y)%R.
Proof. unfold Rltb. destruct (Rlt_dec x y); split; intros; try discriminate; auto; contradiction. Qed.
Lemma Rltb_false x y : Rltb x y = false <-> (y <= x)%R.
Proof. unfold Rltb. destruct (Rlt_dec x y); split; intros; try discriminate; auto; lra. Qed.
Lemma Rleb_true x y : Rleb x y = true <-> (x <= y)%R.
Proof. unfold Rleb. destruct (Rle_dec x y); split; intros; try discriminate; auto; contradiction. Qed.
Lemma Rleb_false x y : Rleb x y = false <-> (y < x)%R.
Proof. unfold Rleb. destruct (Rle_dec x y); split; intros; try discriminate; auto; lra. Qed.
Lemma Reqb_true x y : Reqb x y = true <-> x = y.
Proof. unfold Reqb. destruct (Req_EM_T x y); split; intros; try discriminate; auto; contradiction. Qed.
Lemma Reqb_false x y : Reqb x y = false <-> x <> y.
Proof. unfold Reqb. destruct (Req_EM_T x y); split; intros; try discriminate; auto; contradiction. Qed.

Lemma c0_R : c0 RNum = 0%R. Proof. reflexivity. Qed.
Lemma c1_R : c1 RNum = 1%R. Proof. reflexivity. Qed.
Lemma lit_R n d : lit RNum n d = (IZR n / IZR d)%R. Proof. reflexivity. Qed.

(* case analysis on a real comparison, leaving the order fact in the context *)
Ltac rcases x y H :=
  let b := fresh "b" in
  destruct (Rltb x y) eqn:H; [apply Rltb_true in H | apply Rltb_false in H].

(* ---- statCalc over the reals: max(0, base*(1+pct)+flat) ---- *)
Lemma statCalc_R b p f : statCalc RNum b p f = Rmax 0 (b * (1 + p) + f).
Proof.
  unfold statCalc. cbn [nadd nmul nltb RNum c0 c1 nofZ].
  destruct (Rltb (b * (1 + p) + f) 0) eqn:H.
  - apply Rltb_true in H. rewrite Rmax_left; lra.
  - apply Rltb_false in H. rewrite Rmax_right; lra.
Qed.

Lemma statCalc_nonneg b p f : (0 <= statCalc RNum b p f)%R.
Proof. rewrite statCalc_R. apply Rmax_l. Qed.

Lemma MaxHP_nonneg (s : snap RNum) : (0 <= MaxHP RNum s)%R.
Proof. apply statCalc_nonneg. Qed.

(* ---- the clamp of the HP ratio ---- *)
Lemma clamp01_R r : clamp01 RNum r = Rmin 1 (Rmax 0 r).
Proof.
  unfold clamp01. cbn [nltb RNum c0 c1 nofZ].
  destruct (Rltb 1 r) eqn:H1.
  - apply Rltb_true in H1. rewrite Rmax_right by lra. rewrite Rmin_left; lra.
  - apply Rltb_false in H1. destruct (Rltb r 0) eqn:H0.
    + apply Rltb_true in H0. rewrite Rmax_left by lra. rewrite Rmin_right; lra.
    + apply Rltb_false in H0. rewrite Rmax_right by lra. rewrite Rmin_right; lra.
Qed.

(* at the binary64 level: the clamped ratio is never above 1 and never below 0, whatever the
   input is (including infinities; a NaN stays a NaN, for which both comparisons are false) *)
Lemma clamp01_float_le1 r : PrimFloat.ltb (c1 FloatNum) (clamp01 FloatNum r) = false.
Proof.
  unfold clamp01. cbn [nltb FloatNum].
  destruct (PrimFloat.ltb (c1 FloatNum) r) eqn:H1; [reflexivity|].
  destruct (PrimFloat.ltb r (c0 FloatNum)) eqn:H0; [reflexivity|exact H1].
Qed.
Lemma clamp01_float_ge0 r : PrimFloat.ltb (clamp01 FloatNum r) (c0 FloatNum) = false.
Proof.
  unfold clamp01. cbn [nltb FloatNum].
  destruct (PrimFloat.ltb (c1 FloatNum) r) eqn:H1; [reflexivity|].
  destruct (PrimFloat.ltb r (c0 FloatNum)) eqn:H0; [reflexivity|exact H0].
Qed.

(* ---- the unit table ---- *)
Section Units.
  Variable N : NumOps.

  Lemma find_put_same us (u u' : unit N) id :
    find_unit N us id = Some u -> u_id N u' = id -> find_unit N (put_unit N us u') id = Some u'.
  Proof.
    induction us as [|x us IH]; cbn [find_unit put_unit]; intros H E; [discriminate|].
    destruct (Z.eqb_spec (u_id N x) id) as [Hx|Hx].
    - assert (Hxx : (u_id N x =? u_id N u') = true) by (apply Z.eqb_eq; congruence).
      rewrite Hxx. cbn [find_unit]. rewrite E, Z.eqb_refl. reflexivity.
    - assert (Hxx : (u_id N x =? u_id N u') = false) by (apply Z.eqb_neq; congruence).
      rewrite Hxx. cbn [find_unit].
      destruct (Z.eqb_spec (u_id N x) id); [contradiction|]. apply IH; assumption.
  Qed.

  Lemma find_put_other us (u' : unit N) id :
    u_id N u' <> id -> find_unit N (put_unit N us u') id = find_unit N us id.
  Proof.
    induction us as [|x us IH]; cbn [find_unit put_unit]; intros E; [reflexivity|].
    destruct (Z.eqb_spec (u_id N x) (u_id N u')) as [Hy|Hy]; cbn [find_unit].
    - destruct (Z.eqb_spec (u_id N u') id); [contradiction|].
      destruct (Z.eqb_spec (u_id N x) id); [congruence|]. reflexivity.
    - destruct (Z.eqb_spec (u_id N x) id); [reflexivity|]. apply IH; assumption.
  Qed.

  Lemma find_unit_id us id (u : unit N) : find_unit N us id = Some u -> u_id N u = id.
  Proof.
    induction us as [|x us IH]; cbn; intros H; [discriminate|].
    destruct (Z.eqb_spec (u_id N x) id) as [E|E]; [inversion H; subst; reflexivity|auto].
  Qed.
End Units.
