(* Model of the run loop: pkg/simulation/{run,action,death,statistics}.go together with the
   parts of the services it drives (insert queue, turn manager (Model/Turn.v), the attribute
   service's HP / energy / SP / life-state bookkeeping, combat's attack and hit brackets, the
   character manager's action selection and target evaluators, the global "energy on kill"
   hook).  Executable; no proofs here.

   Content (characters, enemies, inserts, listeners) is DATA: finite scripts of engine calls.
   The script decision source (logic.Eval) is data too: queues of decisions.  Hits are "plain":
   the harness content has no defence, resistance, stance, shields or crit chance, so a hit's
   total damage is its flat damage value (the damage formula itself is property C04). *)
From Coq Require Import List ZArith Bool Floats.
From SR Require Import Base.CaseLib Base.NumOps Model.Turn.
Import ListNotations.
Open Scope Z_scope.

Notation F := FloatOps.

(* ---- static description of a battle ---- *)
Inductive lstate := Alive | Limbo | Dead.
Inductive ttype := TAllies | TEnemies | TSelf | TInvalidType.

(* who a script op talks about *)
Inductive tsel := TId (id : Z) | TSelfSel | TPrimary.

Inductive sop :=
| SAttack (key : Z) (targets : list tsel) (qualified : bool) (dmg : float)   (* engine.Attack *)
| SEndAttack                                                                (* engine.EndAttack *)
| SSetHP (t : tsel) (frac : float)             (* engine.SetHP(frac * MaxHP) *)
| SInsertAbility (key prio : Z) (src : tsel) (abort : list Z) (body : nat)   (* engine.InsertAbility *)
| SInsertAction (t : tsel)                     (* engine.InsertAction *)
| SModEnergy (t : tsel) (amt : float)          (* engine.ModifyEnergyFixed *)
| SModSP (amt : Z)                             (* engine.ModifySP *)
| SAddFlag (t : tsel) (flag : Z)               (* engine.AddModifier of a flag-carrying modifier *)
| SRemoveFlag (t : tsel) (flag : Z)            (* engine.RemoveModifier *)
| SGaugeNorm (t : tsel) (amt : float)          (* engine.ModifyGaugeNormalized *)
| SSetRevivable (t : tsel) (b : bool)          (* content state read by its LimboWaitHeal listener *)
| SSample                                      (* content samples Characters()/Enemies()/turn order *)
| SHeal (targets : list tsel) (amt : float).   (* engine.Heal with a flat heal value (no formula terms, no bonuses) *)

Definition script := list sop.

Record udesc := mkUD {
  d_kind : Z;                    (* which registered harness character / enemy (not used by the model) *)
  d_char : bool;                 (* character or enemy *)
  d_spd : float;
  d_maxhp : float;               (* Stats(id).MaxHP() as observed *)
  d_maxen : float;
  d_en0 : float;                 (* start energy *)
  d_spneed : Z; d_spadd : Z;
  d_tt_attack : ttype; d_tt_skill : ttype; d_tt_ult : ttype;
  d_acts : list nat;             (* script ids of the unit's successive actions (any kind) *)
  (* the character's own Skill.CanUse / Ult.CanUse check (content code): [] = none registered; otherwise
     the answer at an action is the entry indexed by the number of action scripts the unit has left
     (true beyond the list).  Skill.CanUse comes ON TOP of the skill-point test; Ult.CanUse REPLACES the
     full-energy test (simulation/info.go) *)
  d_skchk : list bool; d_ultchk : list bool }.

(* decisions of the script callbacks: action type 0 = attack, 1 = skill, 2 = anything else;
   evaluator 100 First, 101 LowestHP, 102 LowestHPRatio, else a target id *)
Record decision := mkDec { dc_type : Z; dc_eval : Z }.
Record ultreq := mkUR { ur_target : Z; ur_type : Z; ur_eval : Z }.   (* type 3 = "ult" *)

Record config := mkCfg {
  c_units : list udesc;              (* characters first, then enemies; ids 1..n in this order *)
  c_scripts : list script;
  c_next : list (Z * list decision); (* per character id: successive NextAction answers *)
  c_ults : list (list ultreq);       (* successive UltCheck answers *)
  c_on_battle_start : list nat;      (* listener slots: successive script ids *)
  c_on_action_end : list nat;
  c_on_hit_end : list nat;
  c_on_death : list nat;
  c_on_hp_change : list nat;
  c_on_phase1 : list nat;            (* Modifier.Tick(active, ModifierPhase1): the content's OnPhase1 listener *)
  c_on_phase2 : list nat;            (* Modifier.Tick(active, ModifierPhase2): the content's OnPhase2 listener *)
  c_on_attack_start : list nat;      (* the content's AttackStart listener (run as the first target, primary = attacker) *)
  c_cycle_limit : Z;
  c_insert_budget : Z }.             (* harness content stops inserting after this many *)

(* ---- dynamic state ---- *)
Record unit := mkUnit {
  uid : Z; uchar : bool; uhp : float; umax : float; ust : lstate; ulast : Z;
  uen : float; umaxen : float; uflags : list Z; urev : bool;
  uspneed : Z; uspadd : Z; utt_a : ttype; utt_s : ttype; utt_u : ttype; uacts : list nat;
  uskchk : list bool; uultchk : list bool }.

Inductive taskkind :=
| KAbility (key prio : Z) (abort : list Z) (body : nat)
| KAction                          (* InsertAction *)
| KUlt (r : ultreq).

Record task := mkTask { t_id : Z; t_prio : Z; t_src : Z; t_abort : list Z; t_kind : taskkind }.

Inductive ev :=
| VInitialize | VCharactersAdded (ids : list Z) | VEnemiesAdded (ids : list Z)
| VTurnTargetsAdded (order : list Z) | VBattleStart
| VTurnStart (active : Z) (dav tot : float) (order : list (Z * Z))
| VPhase1Start | VPhase1End | VPhase2Start | VPhase2End
| VTurnEnd (chars enemies : list Z)
| VTurnReset (id : Z) (order : list (Z * Z))
| VActionStart (owner atype : Z) (ins : bool) | VActionEnd (owner atype : Z) (ins : bool)
| VInsertStart (key owner prio : Z) | VInsertEnd (key owner prio : Z)
| VAttackStart (key att : Z) | VAttackEnd (key att : Z)
| VHitStart (att def : Z) | VHitEnd (att def : Z) (total hpleft : float)
| VHPChange (t : Z) (old new : float) | VLimbo (t : Z) (cancelled : bool)
| VTargetDeath (t killer : Z)
| VSPChange (old new : Z) | VEnergyChange (t : Z) (old new : float)
| VGaugeChange (t old new : Z)
| VBreakExtend (t : Z)
| VTermination (reason : Z) (tot : float)
(* recorded by the harness content / decision wrapper, not by the engine *)
| VNextAction (id typ evl : Z) | VDefaultAction (id : Z) | VUltCheck (reqs : list (Z * Z * Z))
| VCall (kind id primary : Z)          (* 0 attack, 1 skill, 2 ult, 3 enemy action *)
| VSample (chars enemies order : list Z)
| VDeathSeen (t killer : Z)             (* the content's TargetDeath listener starts *)
| VHPSeen (t : Z) (dmg : bool).         (* the content's HPChange listener starts (dmg: change by damage) *)

Record result := mkRes { r_dealt : float; r_taken : float; r_dealt_cyc : list float; r_taken_cyc : list float }.

Record sim := mkSim {
  units : list unit;
  chars : list Z; enemies : list Z;           (* living lists, field order *)
  sp : Z;
  turn : tstate F;
  queue : list task; qcounter : Z;
  active_id : Z;
  in_attack : option (Z * Z);                 (* key, attacker *)
  next_q : list (Z * list decision);
  ults_q : list (list ultreq);
  lslots : list (list nat);                   (* listener slots: battle, action end, hit end, death, hp change, phase 1 tick, phase 2 tick *)
  budget : Z;
  res : result;
  trace : list ev }.

(* flags as in model.BehaviorFlag *)
Definition FLAG_STAT_CTRL : Z := 100.
Definition FLAG_DISABLE_ACTION : Z := 1.
Definition FLAG_BREAK_EXTEND : Z := 3.

Definition PRIO_CHAR_ACTION : Z := 500.
Definition PRIO_ENEMY_ACTION : Z := 1000.

(* ---- small helpers ---- *)
Definition emit (s : sim) (e : list ev) : sim :=
  mkSim (units s) (chars s) (enemies s) (sp s) (turn s) (queue s) (qcounter s) (active_id s)
        (in_attack s) (next_q s) (ults_q s) (lslots s)
        (budget s) (res s) (trace s ++ e).

Fixpoint get_unit (us : list unit) (id : Z) : option unit :=
  match us with [] => None | u :: r => if uid u =? id then Some u else get_unit r id end.
Fixpoint put_unit (us : list unit) (u' : unit) : list unit :=
  match us with [] => [] | u :: r => if uid u =? uid u' then u' :: r else u :: put_unit r u' end.

Definition set_units (s : sim) (us : list unit) : sim :=
  mkSim us (chars s) (enemies s) (sp s) (turn s) (queue s) (qcounter s) (active_id s)
        (in_attack s) (next_q s) (ults_q s) (lslots s)
        (budget s) (res s) (trace s).
Definition upd_unit (s : sim) (u : unit) : sim := set_units s (put_unit (units s) u).

Definition with_hp (u : unit) (hp : float) (st : lstate) (last : Z) : unit :=
  mkUnit (uid u) (uchar u) hp (umax u) st last (uen u) (umaxen u) (uflags u) (urev u)
         (uspneed u) (uspadd u) (utt_a u) (utt_s u) (utt_u u) (uacts u) (uskchk u) (uultchk u).
Definition with_en (u : unit) (e : float) : unit :=
  mkUnit (uid u) (uchar u) (uhp u) (umax u) (ust u) (ulast u) e (umaxen u) (uflags u) (urev u)
         (uspneed u) (uspadd u) (utt_a u) (utt_s u) (utt_u u) (uacts u) (uskchk u) (uultchk u).
Definition with_flags (u : unit) (fl : list Z) : unit :=
  mkUnit (uid u) (uchar u) (uhp u) (umax u) (ust u) (ulast u) (uen u) (umaxen u) fl (urev u)
         (uspneed u) (uspadd u) (utt_a u) (utt_s u) (utt_u u) (uacts u) (uskchk u) (uultchk u).
Definition with_rev (u : unit) (b : bool) : unit :=
  mkUnit (uid u) (uchar u) (uhp u) (umax u) (ust u) (ulast u) (uen u) (umaxen u) (uflags u) b
         (uspneed u) (uspadd u) (utt_a u) (utt_s u) (utt_u u) (uacts u) (uskchk u) (uultchk u).
Definition with_acts (u : unit) (a : list nat) : unit :=
  mkUnit (uid u) (uchar u) (uhp u) (umax u) (ust u) (ulast u) (uen u) (umaxen u) (uflags u) (urev u)
         (uspneed u) (uspadd u) (utt_a u) (utt_s u) (utt_u u) a (uskchk u) (uultchk u).

Definition is_char (s : sim) (id : Z) : bool :=
  match get_unit (units s) id with Some u => uchar u | None => false end.
Definition is_enemy (s : sim) (id : Z) : bool :=
  match get_unit (units s) id with Some u => negb (uchar u) | None => false end.
Definition state_of (s : sim) (id : Z) : option lstate :=
  match get_unit (units s) id with Some u => Some (ust u) | None => None end.
Definition is_alive (s : sim) (id : Z) : bool :=
  match state_of s id with Some Alive => true | _ => false end.
Definition has_flag (s : sim) (id : Z) (fl : list Z) : bool :=
  match get_unit (units s) id with
  | Some u => existsb (fun f => existsb (Z.eqb f) (uflags u)) fl
  | None => false
  end.

Definition turn_ids (s : sim) : list Z := map u_id (order (turn s)).
Definition turn_pairs (s : sim) : list (Z * Z) := map (fun u => (u_id u, u_gauge u)) (order (turn s)).

Definition set_turn (s : sim) (t : tstate F) : sim :=
  mkSim (units s) (chars s) (enemies s) (sp s) t (queue s) (qcounter s) (active_id s)
        (in_attack s) (next_q s) (ults_q s) (lslots s)
        (budget s) (res s) (trace s).

(* engine-facing outcome of running content / the loop *)
Inductive outcome := Ok (s : sim) | Stop (s : sim)      (* Stop: Termination was emitted *)
                   | Err (s : sim) | OutOfFuel.

(* ---- attribute service ---- *)
Definition clamp01 (x : float) : float :=
  if PrimFloat.ltb 1 x then 1%float else if PrimFloat.ltb x 0 then 0%float else x.

Definition set_energy (s : sim) (id : Z) (amt : float) : sim :=
  match get_unit (units s) id with
  | None => s
  | Some u =>
      let e := if PrimFloat.ltb (umaxen u) amt then umaxen u else if PrimFloat.ltb amt 0 then 0%float else amt in
      if PrimFloat.eqb (uen u) e then s
      else emit (upd_unit s (with_en u e)) [VEnergyChange id (uen u) e]
  end.
Definition mod_energy_fixed (s : sim) (id : Z) (amt : float) : sim :=
  match get_unit (units s) id with
  | None => s
  | Some u => set_energy s id (PrimFloat.add (uen u) amt)
  end.

Definition set_sp_field (s : sim) (v : Z) : sim :=
  mkSim (units s) (chars s) (enemies s) v (turn s) (queue s) (qcounter s) (active_id s)
        (in_attack s) (next_q s) (ults_q s) (lslots s)
        (budget s) (res s) (trace s).
Definition mod_sp (s : sim) (amt : Z) : sim :=
  let v := Z.max 0 (Z.min 5 (sp s + amt)) in
  if v =? sp s then s else emit (set_sp_field s v) [VSPChange (sp s) v].

(* ---- queue ---- *)
Definition set_queue (s : sim) (q : list task) (c : Z) : sim :=
  mkSim (units s) (chars s) (enemies s) (sp s) (turn s) q c (active_id s)
        (in_attack s) (next_q s) (ults_q s) (lslots s)
        (budget s) (res s) (trace s).
Definition enqueue (s : sim) (prio src : Z) (abort : list Z) (k : taskkind) : sim :=
  set_queue s (queue s ++ [mkTask (qcounter s) prio src abort k]) (qcounter s + 1).

Definition task_lt (a b : task) : bool :=
  (t_prio a <? t_prio b) || ((t_prio a =? t_prio b) && (t_id a <? t_id b)).
Fixpoint min_task (best : task) (l : list task) : task :=
  match l with [] => best | t :: r => min_task (if task_lt t best then t else best) r end.
Fixpoint remove_task (l : list task) (id : Z) : list task :=
  match l with [] => [] | t :: r => if t_id t =? id then r else t :: remove_task r id end.
Definition pop (s : sim) : option (task * sim) :=
  match queue s with
  | [] => None
  | t :: r => let m := min_task t r in Some (m, set_queue s (remove_task (queue s) (t_id m)) (qcounter s))
  end.

(* ---- statistics.go: the HitEnd subscriber ---- *)
Definition ceil_div100 (x : float) : Z :=
  let q := PrimFloat.div x 100 in
  let t := ftoZ q in
  if PrimFloat.ltb (Z2F t) q then t + 1 else t.

Fixpoint pad_to (l : list float) (n : nat) (last : float) : list float :=
  match n with
  | O => l
  | S n' => match l with
            | [] => last :: pad_to [] n' last
            | x :: r => x :: pad_to r n' x
            end
  end.
Fixpoint set_nth_f (l : list float) (n : nat) (v : float) : list float :=
  match l, n with
  | [], _ => []
  | _ :: r, O => v :: r
  | x :: r, S n' => x :: set_nth_f r n' v
  end.

Definition total_av (s : sim) : float := total (turn s).

Definition record_hit (s : sim) (def : Z) (total : float) : sim :=
  match get_unit (units s) def with
  | None => s
  | Some u =>
      let r := res s in
      let dealt := if uchar u then r_dealt r else PrimFloat.add (r_dealt r) total in
      let taken := if uchar u then PrimFloat.add (r_taken r) total else r_taken r in
      let cyc := Z.max 0 (ceil_div100 (total_av s) - 1) in
      let n := Z.to_nat cyc in
      let dc := set_nth_f (pad_to (r_dealt_cyc r) (S n) 0%float) n dealt in
      let tc := set_nth_f (pad_to (r_taken_cyc r) (S n) 0%float) n taken in
      mkSim (units s) (chars s) (enemies s) (sp s) (turn s) (queue s) (qcounter s) (active_id s)
            (in_attack s) (next_q s) (ults_q s) (lslots s)
            (budget s) (mkRes dealt taken dc tc) (trace s)
  end.

(* ---- listener slots ---- *)
Inductive slot := LBattle | LActionEnd | LHitEnd | LDeath | LHP | LPhase1 | LPhase2 | LAttackStart.
Definition slot_ix (sl : slot) : nat :=
  match sl with LBattle => 0 | LActionEnd => 1 | LHitEnd => 2 | LDeath => 3 | LHP => 4 | LPhase1 => 5 | LPhase2 => 6
              | LAttackStart => 7 end%nat.
Fixpoint set_nth_l (l : list (list nat)) (n : nat) (v : list nat) : list (list nat) :=
  match l, n with
  | [], _ => []
  | _ :: r, O => v :: r
  | x :: r, S n' => x :: set_nth_l r n' v
  end.
Definition set_slots (s : sim) (l : list (list nat)) : sim :=
  mkSim (units s) (chars s) (enemies s) (sp s) (turn s) (queue s) (qcounter s) (active_id s)
        (in_attack s) (next_q s) (ults_q s) l (budget s) (res s) (trace s).
Definition pop_slot (s : sim) (sl : slot) : option nat * sim :=
  match nth (slot_ix sl) (lslots s) [] with
  | [] => (None, s)
  | x :: r => (Some x, set_slots s (set_nth_l (lslots s) (slot_ix sl) r))
  end.

Definition set_attack (s : sim) (a : option (Z * Z)) : sim :=
  mkSim (units s) (chars s) (enemies s) (sp s) (turn s) (queue s) (qcounter s) (active_id s)
        a (next_q s) (ults_q s) (lslots s)
        (budget s) (res s) (trace s).
Definition set_budget (s : sim) (b : Z) : sim :=
  mkSim (units s) (chars s) (enemies s) (sp s) (turn s) (queue s) (qcounter s) (active_id s)
        (in_attack s) (next_q s) (ults_q s) (lslots s)
        b (res s) (trace s).
Definition set_active (s : sim) (a : Z) : sim :=
  mkSim (units s) (chars s) (enemies s) (sp s) (turn s) (queue s) (qcounter s) a
        (in_attack s) (next_q s) (ults_q s) (lslots s)
        (budget s) (res s) (trace s).
Definition set_lists (s : sim) (c e : list Z) : sim :=
  mkSim (units s) c e (sp s) (turn s) (queue s) (qcounter s) (active_id s)
        (in_attack s) (next_q s) (ults_q s) (lslots s)
        (budget s) (res s) (trace s).

Definition end_attack (s : sim) : sim :=
  match in_attack s with
  | Some (k, a) => emit (set_attack s None) [VAttackEnd k a]
  | None => s
  end.

Definition resolve (self primary : Z) (t : tsel) : Z :=
  match t with TId id => id | TSelfSel => self | TPrimary => primary end.

Definition gauge_events (outs : list (out F)) : list ev :=
  flat_map (fun o => match o with EGauge id old new _ => [VGaugeChange id old new] | _ => [] end) outs.

(* ---- content scripts ---- *)
Section Scripts.
  Variable cfg : config.

  (* Scripts run in one of two modes.  Body mode: the script of an action, ult or insert.
     Listener mode ([lm] = true): a script run from inside an event listener.  Legal use of the
     engine API, as the lifecycle protocol needs it: a listener never opens or closes an attack
     bracket itself (it may deal additional damage - unbracketed, or, while an attack is open, as
     further hits of that attack - and queue inserts).  An illegal
     call in listener mode ends the model run with [None], like running out of fuel; every
     theorem is conditional on a normal result. *)
  Definition runner := sim -> Z -> Z -> script -> option sim.

  Definition with_state (u : unit) (st : lstate) : unit :=
    mkUnit (uid u) (uchar u) (uhp u) (umax u) st (ulast u) (uen u) (umaxen u) (uflags u) (urev u)
           (uspneed u) (uspadd u) (utt_a u) (utt_s u) (utt_u u) (uacts u) (uskchk u) (uultchk u).

  (* attribute.emitHPChangeEvents: the new ratio (and, for damage, the last attacker) is stored, the
     HPChange event is emitted (its listeners run, then it is logged), and only then the life state is
     decided, on the state the unit has AFTER the listeners: a dead unit stays dead; otherwise a
     positive new ratio means alive, zero means dead, or limbo when a revive effect answers *)
  Definition hp_change (R : runner) (s : sim) (u : unit) (newr : float) (is_dmg : bool) (src : Z) : option sim :=
    if PrimFloat.eqb (uhp u) newr then Some s else
    let last := if is_dmg then src else ulast u in
    let s0 := emit (upd_unit s (with_hp u newr (ust u) last)) [VHPSeen (uid u) is_dmg] in
    let '(sc, s1) := pop_slot s0 LHP in
    match (match sc with
           | Some i => R s1 (uid u) (uid u) (nth i (c_scripts cfg) [])
           | None => Some s1
           end) with
    | None => None
    | Some s2 =>
        let s3 := emit s2 [VHPChange (uid u) (uhp u) newr] in
        match get_unit (units s3) (uid u) with
        | None => Some s3
        | Some u' =>
            match ust u' with
            | Dead => Some s3
            | _ =>
                if PrimFloat.ltb 0 newr then Some (upd_unit s3 (with_state u' Alive))
                else
                  let st := if urev u' then Limbo else Dead in
                  Some (emit (upd_unit s3 (with_state u' st)) [VLimbo (uid u) (urev u')])
            end
        end
    end.

  Definition set_hp (R : runner) (s : sim) (id : Z) (amount : float) : option sim :=
    match get_unit (units s) id with
    | None => Some s
    | Some u => hp_change R s u (clamp01 (PrimFloat.div amount (umax u))) false id
    end.

  (* ModifyHPByAmount(-dmg, isDamage=true) *)
  Definition damage_hp (R : runner) (s : sim) (id src : Z) (dmg : float) : option sim :=
    match get_unit (units s) id with
    | None => Some s
    | Some u =>
        let newhp := PrimFloat.add (PrimFloat.mul (uhp u) (umax u)) (PrimFloat.opp dmg) in
        hp_change R s u (clamp01 (PrimFloat.div newhp (umax u))) true src
    end.


  (* combat.Heal for one target with a flat value and no bonuses: the part that does not fit is cut
     off against the target's current and maximum HP, the rest goes through ModifyHPByAmount
     (not damage: the last attacker stays) *)
  Definition heal_hp (R : runner) (s : sim) (id src : Z) (amt : float) : option sim :=
    match get_unit (units s) id with
    | None => Some s
    | Some u =>
        let cur := PrimFloat.mul (uhp u) (umax u) in
        let h := if PrimFloat.ltb (umax u) (PrimFloat.add amt cur)
                 then PrimFloat.sub amt (PrimFloat.sub (PrimFloat.add amt cur) (umax u)) else amt in
        let newhp := PrimFloat.add (PrimFloat.mul (uhp u) (umax u)) h in
        hp_change R s u (clamp01 (PrimFloat.div newhp (umax u))) false src
    end.
  Fixpoint do_heals (R : runner) (s : sim) (self : Z) (amt : float) (ts : list Z) : option sim :=
    match ts with
    | [] => Some s
    | t :: ts' => match heal_hp R s t self amt with
                  | None => None
                  | Some s1 => do_heals R s1 self amt ts'
                  end
    end.

  (* performHit for every target, in order; [R] runs the content's HitEnd listener *)
  Fixpoint do_hits (R : runner) (s : sim) (self : Z) (dmg : float) (ts : list Z) : option sim :=
    match ts with
    | [] => Some s
    | d :: ts' =>
        let s2 := emit s [VHitStart self d] in
        match damage_hp R s2 d self dmg with
        | None => None
        | Some s3 =>
            let hpleft := match get_unit (units s3) d with Some u => uhp u | None => 0%float end in
            (* HitEnd listeners: statistics first, then the content's *)
            let s4 := record_hit s3 d dmg in
            let '(sc, s5) := pop_slot s4 LHitEnd in
            let r := match sc with
                     | Some i => R s5 d self (nth i (c_scripts cfg) [])
                     | None => Some s5
                     end in
            match r with
            | None => None
            | Some s6 => do_hits R (emit s6 [VHitEnd self d dmg hpleft]) self dmg ts'
            end
        end
    end.

  Definition exec_op (R : runner) (lm : bool) (s : sim) (self primary : Z) (o : sop) : option sim :=
    match o with
    | SAttack key targets qualified dmg =>
        let tids := map (resolve self primary) targets in
        if (match tids with [] => true | _ => false end) || negb (is_alive s self) then Some s else
        match in_attack s with
        | Some _ => do_hits R s self dmg tids          (* inside an open attack: more hits of that attack *)
        | None =>
            if qualified then
              if lm then None else                     (* a listener must not open an attack bracket *)
              (* the manager is "in an attack" and remembers its key and attacker BEFORE AttackStart is
                 emitted; the content's AttackStart listener runs (it may hit, also with qualified
                 attacks, which join the open attack), then the event is logged *)
              let '(sc, s1) := pop_slot (set_attack s (Some (key, self))) LAttackStart in
              match (match sc with
                     | Some i => R s1 (hd self tids) self (nth i (c_scripts cfg) [])
                     | None => Some s1
                     end) with
              | None => None
              | Some s2 => do_hits R (emit s2 [VAttackStart key self]) self dmg tids
              end
            else do_hits R s self dmg tids
        end
    | SEndAttack => if lm then None else Some (end_attack s)
    | SSetHP t frac =>
        let id := resolve self primary t in
        match get_unit (units s) id with
        | None => Some s
        | Some u => set_hp R s id (PrimFloat.mul frac (umax u))
        end
    | SInsertAbility key prio src abort body =>
        if budget s <=? 0 then Some s
        else Some (enqueue (set_budget s (budget s - 1)) prio (resolve self primary src) abort
                           (KAbility key prio abort body))
    | SInsertAction t =>
        if budget s <=? 0 then Some s else
        let id := resolve self primary t in
        let prio := if is_enemy s id then PRIO_ENEMY_ACTION else PRIO_CHAR_ACTION in
        Some (enqueue (set_budget s (budget s - 1)) prio id [FLAG_STAT_CTRL; FLAG_DISABLE_ACTION] KAction)
    | SModEnergy t amt => Some (mod_energy_fixed s (resolve self primary t) amt)
    | SModSP amt => Some (mod_sp s amt)
    | SAddFlag t fl =>
        let id := resolve self primary t in
        match get_unit (units s) id with
        | None => Some s
        | Some u => if existsb (Z.eqb fl) (uflags u) then Some s
                    else Some (upd_unit s (with_flags u (uflags u ++ [fl])))
        end
    | SRemoveFlag t fl =>
        let id := resolve self primary t in
        match get_unit (units s) id with
        | None => Some s
        | Some u => Some (upd_unit s (with_flags u (filter (fun x => negb (x =? fl)) (uflags u))))
        end
    | SGaugeNorm t amt =>
        let '(t', outs) := Turn.step F (turn s) (@OModNorm F (resolve self primary t) amt) in
        Some (emit (set_turn s t') (gauge_events outs))
    | SSetRevivable t b =>
        let id := resolve self primary t in
        match get_unit (units s) id with
        | None => Some s
        | Some u => Some (upd_unit s (with_rev u b))
        end
    | SSample => Some (emit s [VSample (chars s) (enemies s) (turn_ids s)])
    | SHeal targets amt =>
        (* unknown ids are skipped by the content; a heal from a source that is not alive does nothing *)
        let tids := filter (fun id => match get_unit (units s) id with Some _ => true | None => false end)
                           (map (resolve self primary) targets) in
        if (match tids with [] => true | _ => false end) || negb (is_alive s self) then Some s
        else do_heals R s self amt tids
    end.

  Fixpoint exec_list (R : runner) (lm : bool) (s : sim) (self primary : Z) (ops : script) : option sim :=
    match ops with
    | [] => Some s
    | o :: rest =>
        match exec_op R lm s self primary o with
        | None => None
        | Some s' => exec_list R lm s' self primary rest
        end
    end.

  (* fuel bounds the nesting depth of listener-run scripts *)
  Fixpoint exec_ops (fuel : nat) (lm : bool) : runner :=
    match fuel with
    | O => fun _ _ _ _ => None
    | S f => fun s self primary ops => exec_list (exec_ops f true) lm s self primary ops
    end.

  Definition run_slot (fuel : nat) (s : sim) (sl : slot) (self primary : Z) : option sim :=
    let '(sc, s1) := pop_slot s sl in
    match sc with
    | Some i => exec_ops fuel true s1 self primary (nth i (c_scripts cfg) [])
    | None => Some s1
    end.

  (* ---- target evaluation (evaltarget) ---- *)
  Definition candidates (s : sim) (src : Z) (tt : ttype) : option (list Z) :=
    match tt with
    | TAllies => Some (if is_enemy s src then enemies s else chars s)
    | TEnemies => Some (if is_enemy s src then chars s else enemies s)
    | TSelf => Some [src]
    | TInvalidType => None
    end.

  Definition hp_ratio (s : sim) (id : Z) : float :=
    match get_unit (units s) id with Some u => uhp u | None => 0%float end.
  Definition cur_hp (s : sim) (id : Z) : float :=
    match get_unit (units s) id with Some u => PrimFloat.mul (uhp u) (umax u) | None => 0%float end.

  Fixpoint argmin (key : Z -> float) (best : Z) (bk : float) (l : list Z) : Z :=
    match l with
    | [] => best
    | c :: r => if PrimFloat.ltb (key c) bk then argmin key c (key c) r else argmin key best bk r
    end.

  Definition evaluate (s : sim) (src evl : Z) (tt : ttype) : option Z :=
    if (evl =? 100) || (evl =? 101) || (evl =? 102) then
      match candidates s src tt with
      | None | Some [] => None
      | Some [x] => Some x
      | Some (x :: r) =>
          if evl =? 100 then Some x
          else if evl =? 101 then Some (argmin (cur_hp s) x (cur_hp s x) r)
          else Some (argmin (hp_ratio s) x (hp_ratio s x) r)
      end
    else
      match get_unit (units s) evl with
      | None => None
      | Some u =>
          (* evaltarget.validateTarget asks engine.IsAlive = still on the field (not removed by a death
             check) and attribute state Alive *)
          if negb (is_alive s evl) || negb (existsb (Z.eqb evl) (chars s ++ enemies s)) then None else
          match tt with
          | TAllies => if uchar u then Some evl else None
          | TEnemies => if uchar u then None else Some evl
          | TSelf => if evl =? src then Some evl else None
          | TInvalidType => None
          end
      end.

  (* ---- decisions ---- *)
  Fixpoint pop_next (q : list (Z * list decision)) (id : Z) : decision * list (Z * list decision) :=
    match q with
    | [] => (mkDec 0 100, [])
    | (k, ds) :: r =>
        if k =? id then match ds with [] => (mkDec 0 100, q) | d :: ds' => (d, (k, ds') :: r) end
        else let '(d, r') := pop_next r id in (d, (k, ds) :: r')
    end.
  Definition set_next (s : sim) (q : list (Z * list decision)) : sim :=
    mkSim (units s) (chars s) (enemies s) (sp s) (turn s) (queue s) (qcounter s) (active_id s)
          (in_attack s) q (ults_q s) (lslots s)
          (budget s) (res s) (trace s).
  Definition set_ults (s : sim) (q : list (list ultreq)) : sim :=
    mkSim (units s) (chars s) (enemies s) (sp s) (turn s) (queue s) (qcounter s) (active_id s)
          (in_attack s) (next_q s) q (lslots s)
          (budget s) (res s) (trace s).

  Definition pop_act (s : sim) (id : Z) : script * sim :=
    match get_unit (units s) id with
    | None => ([], s)
    | Some u => match uacts u with
                | [] => ([], s)
                | i :: r => (nth i (c_scripts cfg) [], upd_unit s (with_acts u r))
                end
    end.

  (* ---- ultCheck ---- *)
  (* simulation.CanUseUlt: the character's own check if it registered one, else full energy *)
  Definition can_ult (u : unit) : bool :=
    match uultchk u with
    | [] => PrimFloat.eqb (PrimFloat.div (uen u) (umaxen u)) 1
    | l => nth (length (uacts u)) l true
    end.
  Fixpoint ult_reqs (s : sim) (reqs : list ultreq) : outcome :=
    match reqs with
    | [] => Ok s
    | r :: rest =>
        match get_unit (units s) (ur_target r) with
        | None => Err s
        | Some u =>
            if negb (uchar u) then Err s else
            if can_ult u then
              let s1 := enqueue s PRIO_CHAR_ACTION (ur_target r) [FLAG_STAT_CTRL; FLAG_DISABLE_ACTION] (KUlt r) in
              ult_reqs (set_energy s1 (ur_target r) 0) rest
            else ult_reqs s rest
        end
    end.
  Definition ult_check (s : sim) : outcome :=
    let '(reqs, q) := match ults_q s with [] => ([], []) | x :: r => (x, r) end in
    let s1 := emit (set_ults s q) [VUltCheck (map (fun r => (ur_target r, ur_type r, ur_eval r)) reqs)] in
    ult_reqs s1 reqs.

  (* ---- exitCheck ---- *)
  Definition exit_check (s : sim) : outcome :=
    let reason :=
      match chars s, enemies s with
      | [], _ => 1
      | _, [] => 2
      | _, _ => if c_cycle_limit cfg <=? ftoZ (PrimFloat.div (total_av s) 100) then 3 else 0
      end in
    if reason =? 0 then Ok s else Stop (emit s [VTermination reason (total_av s)]).

  (* ---- deathCheck ---- *)
  Definition should_kill (s : sim) (kill_limbo : bool) (id : Z) : bool :=
    match state_of s id with
    | Some Dead => true | Some Alive => false | Some Limbo => kill_limbo | None => true
    end.

  Fixpoint announce (fuel : nat) (s : sim) (ids : list Z) : option sim :=
    match ids with
    | [] => Some s
    | id :: rest =>
        let '(t', _) := Turn.step F (turn s) (@ORemove F id) in
        let s1 := set_turn s t' in
        let killer := match get_unit (units s1) id with Some u => ulast u | None => id end in
        (* TargetDeath listeners: the global energy-on-kill hook, then the content's *)
        let s2 := mod_energy_fixed s1 killer 10 in
        match run_slot fuel (emit s2 [VDeathSeen id killer]) LDeath id killer with
        | None => None
        | Some s3 => announce fuel (emit s3 [VTargetDeath id killer]) rest
        end
    end.

  Definition death_check (fuel : nat) (s : sim) (kill_limbo : bool) : option sim :=
    let kc := filter (should_kill s kill_limbo) (chars s) in
    let ke := filter (should_kill s kill_limbo) (enemies s) in
    let s1 := set_lists s (filter (fun i => negb (should_kill s kill_limbo i)) (chars s))
                          (filter (fun i => negb (should_kill s kill_limbo i)) (enemies s)) in
    announce fuel s1 (kc ++ ke).

  (* ---- actions ---- *)
  Definition ATYPE_NORMAL : Z := 1. Definition ATYPE_SKILL : Z := 2. Definition ATYPE_ULT : Z := 3.

  (* body shared by action / ult / insert: run content, close an open attack, emit the end *)
  Definition run_body (fuel : nat) (s : sim) (self primary : Z) (sc : script) (endev : ev)
             (sl : option slot) : option sim :=
    match exec_ops fuel false s self primary sc with
    | None => None
    | Some s1 =>
        let s2 := end_attack s1 in
        match sl with
        | None => Some (emit s2 [endev])
        | Some x => match run_slot fuel s2 x self self with
                    | None => None
                    | Some s3 => Some (emit s3 [endev])
                    end
        end
    end.

  Inductive aout := AOk (s : sim) | AErr (s : sim) | ACrash (s : sim) | AFuel.

  (* simulation.CanUseSkill: enough skill points and, if the character registered one, its own check *)
  Definition own_check (u : unit) (l : list bool) : bool := nth (length (uacts u)) l true.
  Definition can_skill (u : unit) (s : sim) : bool :=
    (uspneed u <=? sp s) && match uskchk u with [] => true | l => own_check u l end.

  Definition execute_action (fuel : nat) (s : sim) (id : Z) (ins : bool) : aout :=
    match get_unit (units s) id with
    | None => AOk s
    | Some u =>
      match ust u with
      | Alive =>
        if uchar u then
          let '(d, q) := pop_next (next_q s) id in
          let s1 := emit (set_next s q) [VNextAction id (dc_type d) (dc_eval d)] in
          let want_skill := dc_type d =? 1 in
          let can := can_skill u s1 in
          let '(use_skill, evl, s2) :=
            if want_skill && negb can then (false, 100, emit s1 [VDefaultAction id])
            else (want_skill, dc_eval d, s1) in
          let tt := if use_skill then utt_s u else utt_a u in
          match evaluate s2 id evl tt with
          | None => AErr s2
          | Some p =>
              let delta := if use_skill then - uspneed u else uspadd u in
              let atype := if use_skill then ATYPE_SKILL else ATYPE_NORMAL in
              let s3 := emit (mod_sp s2 delta) [VActionStart id atype ins] in
              let '(sc, s4) := pop_act s3 id in
              let s5 := emit s4 [VCall (if use_skill then 1 else 0) id p] in
              match run_body fuel s5 id p sc (VActionEnd id atype ins) (Some LActionEnd) with
              | None => AFuel
              | Some s6 => AOk s6
              end
          end
        else
          match chars s with
          | [] => ACrash s                         (* chooseTarget indexes an empty slice *)
          | _ =>
              let s3 := emit (mod_sp s 0) [VActionStart id ATYPE_NORMAL ins] in
              let '(sc, s4) := pop_act s3 id in
              let s5 := emit s4 [VCall 3 id 0] in
              match run_body fuel s5 id 0 sc (VActionEnd id ATYPE_NORMAL ins) (Some LActionEnd) with
              | None => AFuel
              | Some s6 => AOk s6
              end
          end
      | _ => AOk s                                  (* dead or in limbo: skipped *)
      end
    end.

  Definition execute_ult (fuel : nat) (s : sim) (r : ultreq) : aout :=
    let id := ur_target r in
    match get_unit (units s) id with
    | None => AOk s
    | Some u =>
        if negb (uchar u) then AOk s else
        if negb (ur_type r =? 3) then AOk s else      (* wrong action key: error, swallowed *)
        match evaluate s id (ur_eval r) (utt_u u) with
        | None => AOk s                              (* error swallowed by the queued closure *)
        | Some p =>
            let s3 := emit s [VActionStart id ATYPE_ULT true] in
            let '(sc, s4) := pop_act s3 id in
            let s5 := emit s4 [VCall 2 id p] in
            match run_body fuel s5 id p sc (VActionEnd id ATYPE_ULT true) (Some LActionEnd) with
            | None => AFuel
            | Some s6 => AOk s6
            end
        end
    end.

  Definition execute_task (fuel : nat) (s : sim) (t : task) : aout :=
    match t_kind t with
    | KAbility key prio abort body =>
        let s1 := emit s [VInsertStart key (t_src t) prio] in
        match run_body fuel s1 (t_src t) (t_src t) (nth body (c_scripts cfg) []) (VInsertEnd key (t_src t) prio) None with
        | None => AFuel
        | Some s2 => AOk s2
        end
    | KAction =>
        match execute_action fuel s (t_src t) true with
        | AErr s' => AOk s'                           (* the queued closure drops the error *)
        | x => x
        end
    | KUlt r => execute_ult fuel s (mkUR (t_src t) (ur_type r) (ur_eval r))   (* the closure's target is the task's source *)
    end.

  (* ---- executeQueue ---- *)
  Fixpoint drain (fuel : nat) (s : sim) : outcome :=
    match fuel with
    | O => OutOfFuel
    | S f =>
        match pop s with
        | None => Ok s
        | Some (t, s1) =>
            (* a side was wiped out since the last exit check: end the battle first *)
            if (match chars s with [] => true | _ => false end) || (match enemies s with [] => true | _ => false end)
            then exit_check s else
            (* dropped: source dead, or no longer on the field (killed from limbo at a turn end) *)
            if match state_of s1 (t_src t) with Some Dead => true | _ => false end then drain f s1
            else if negb (existsb (Z.eqb (t_src t)) (chars s1 ++ enemies s1)) then drain f s1
            else if has_flag s1 (t_src t) (t_abort t) then drain f s1
            else
              match execute_task f s1 t with
              | AFuel => OutOfFuel
              | AErr s' => Err s'
              | ACrash s' => Err s'
              | AOk s2 =>
                  match death_check f s2 false with
                  | None => OutOfFuel
                  | Some s3 =>
                      match exit_check s3 with
                      | Ok s4 =>
                          match ult_check s4 with
                          | Ok s5 => drain f s5
                          | x => x
                          end
                      | x => x
                      end
                  end
              end
        end
    end.

  Definition execute_queue (fuel : nat) (s : sim) (before_action_end : bool) : outcome :=
    match ult_check s with
    | Ok s1 =>
        if before_action_end && negb (is_char s1 (active_id s1)) then exit_check s1
        else drain fuel s1
    | x => x
    end.

  (* ---- one turn: beginTurn, phase1, action, phase2, endTurn ---- *)
  Definition reset_events (outs : list (out F)) : list ev :=
    flat_map (fun o => match o with
                       | EReset i _ st => [VTurnReset i (map (fun x => (fst (fst x), snd (fst x))) st)]
                       | _ => [] end) outs.

  (* phase2 + endTurn *)
  Definition phase2 (fuel : nat) (s : sim) : outcome :=
    let '(t2, outs2) := Turn.step F (turn s) (@OReset F) in
    let s' := emit (set_turn s t2) (reset_events outs2 ++ [VPhase2Start]) in
    match execute_queue fuel s' false with
    | Ok s6 =>
        (* Modifier.Tick(Active, ModifierPhase2): only when the battle did not end in the queue *)
        match run_slot fuel s6 LPhase2 (active_id s6) (active_id s6) with
        | None => OutOfFuel
        | Some s6' =>
            let s7 := emit s6' [VPhase2End] in
            match death_check fuel s7 true with
            | None => OutOfFuel
            | Some s8 => exit_check (emit s8 [VTurnEnd (chars s8) (enemies s8)])
            end
        end
    | x => x
    end.

  Definition one_turn (fuel : nat) (s : sim) : outcome :=
    let '(t', outs) := Turn.step F (turn s) (@OStart F) in
    match outs with
    | [EStart id av st tot] =>
        if match get_unit (units s) id with Some _ => false | None => true end then Err s else
        let s1 := emit (set_active (set_turn s t') id) [VTurnStart id av tot (map (fun x => (fst (fst x), snd (fst x))) st)] in
        (* phase1 *)
        (* Modifier.Tick(Active, ModifierPhase1) right after Phase1Start, before the death check *)
        match run_slot fuel (emit s1 [VPhase1Start]) LPhase1 id id with
        | None => OutOfFuel
        | Some s2 =>
        match death_check fuel s2 false with
        | None => OutOfFuel
        | Some s3 =>
            if has_flag s3 id [FLAG_DISABLE_ACTION] then phase2 fuel s3
            else if is_enemy s3 id && has_flag s3 id [FLAG_BREAK_EXTEND] then phase2 fuel (emit s3 [VBreakExtend id])
            else
              match execute_queue fuel s3 true with
              | Ok s4 =>
                  let s4' := emit s4 [VPhase1End] in
                  match execute_action fuel s4' id false with
                  | AFuel => OutOfFuel
                  | AErr s' => Err s'
                  | ACrash s' => Err s'
                  | AOk s5 =>
                      match death_check fuel s5 false with
                      | None => OutOfFuel
                      | Some s5' => phase2 fuel s5'
                      end
                  end
              | x => x
              end
        end
        end
    | _ => Err s
    end.

  Fixpoint turns (fuel : nat) (s : sim) : outcome :=
    match fuel with
    | O => OutOfFuel
    | S f => match one_turn f s with
             | Ok s' => turns f s'
             | x => x
             end
    end.

  (* ---- initialize / startBattle / engage ---- *)
  Fixpoint mk_units (ds : list udesc) (i : Z) : list unit :=
    match ds with
    | [] => []
    | d :: r =>
        let e0 := if PrimFloat.ltb (d_maxen d) (d_en0 d) then d_maxen d else d_en0 d in
        mkUnit i (d_char d) 1%float (d_maxhp d) Alive i e0 (d_maxen d) [] false
               (d_spneed d) (d_spadd d) (d_tt_attack d) (d_tt_skill d) (d_tt_ult d) (d_acts d)
               (d_skchk d) (d_ultchk d)
        :: mk_units r (i + 1)
    end.

  Definition start (fuel : nat) : outcome :=
    let us := mk_units (c_units cfg) 1 in
    let cs := map uid (filter uchar us) in
    let es := map uid (filter (fun u => negb (uchar u)) us) in
    let spds := map (fun ud => (fst ud, d_spd (snd ud)))
                    (combine (map uid us) (c_units cfg)) in
    let '(t1, outs) := Turn.step F (Turn.init F)
                         (@OAdd F (map (fun id => (id, Turn.lookup F spds id)) (cs ++ es))) in
    let s0 := mkSim us cs es 3 t1 [] 0 0 None (c_next cfg) (c_ults cfg)
                    [c_on_battle_start cfg; c_on_action_end cfg; c_on_hit_end cfg; c_on_death cfg; c_on_hp_change cfg;
                     c_on_phase1 cfg; c_on_phase2 cfg; c_on_attack_start cfg]
                    (c_insert_budget cfg) (mkRes 0 0 [0%float] [0%float])
                    [VInitialize; VCharactersAdded cs; VEnemiesAdded es; VTurnTargetsAdded (map u_id (order t1))] in
    match run_slot fuel s0 LBattle 0 0 with
    | None => OutOfFuel
    | Some s1 =>
        match execute_queue fuel (emit s1 [VBattleStart]) true with
        | Ok s2 => turns fuel s2
        | x => x
        end
    end.
End Scripts.
