#!/bin/sh
# usage: runall.sh <seed> <outdir>
cd "$(dirname "$0")/.."
mkdir -p $2
for p in C01 C02 C03 C04 C05 C06 C07 C08 C09 C10 C11 C12 C13 C14 C15 C16 C17 C18 C19 C20; do
  s=$(date +%s)
  python3 tools/check.py $p --tier quick --seed $1 > $2/$p.log 2>&1
  rc=$?
  e=$(date +%s)
  echo "$p rc=$rc wall=$((e-s))s $(grep -c VIOLATION $2/$p.log) viol"
done
