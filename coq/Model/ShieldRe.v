(* Re-entrant listeners around Model/Shield.v (property C16).  Executable; no proofs here.

   Content code reacts INSIDE listeners of the shield manager's three events: it calls the same
   manager again while the outer call is still suspended in [Emit].  Here that behaviour is DATA:
   every event kind (ShieldAdded, ShieldRemoved, ShieldChange) has a listener slot holding a queue
   of scripts; a script is a short list of the manager's own operations ([Shield.op]: AddShield,
   RemoveShield, AbsorbDamage and "the stats getter now answers s").  When the model emits an
   event it pops the next script of the event's slot (an exhausted queue = a listener that does
   nothing) and runs it to completion - every operation of it a full, possibly again re-entrant,
   call - and only then goes on with what the Go function does after that [Emit].

   Where the emissions sit in the Go code (pkg/engine/shield, read line by line):

   AddShield (add.go)      stats of both parties, MaxShield(source), baseHP, shieldHP are locals;
                           the new Instance is stored (replace at the matching index, else append)
                           by lines 59-66; the ONE emission (ShieldAdded, carrying the local baseHP)
                           is the last statement.  Nothing is read or written after it.
   RemoveShield (remove.go) early return without emission when the key is absent; else the
                           filtered slice is stored (line 21) and the ONE emission (ShieldRemoved)
                           is the last statement.
   AbsorbDamage (absorb.go) early return (no emission) for an unshielded unit or damage <= 0; else
                           the loop of lines 23-42 hits every shield, collects the exhausted ones
                           in the fresh local slice removedShields (own backing array; only the
                           immutable Instance.name is read from it later) and line 43 stores the
                           filtered slice.  Then, in this order: one ShieldRemoved per collected
                           shield (lines 46-51), one ShieldChange (lines 54-61) whose fields are the
                           locals maxShieldID, oldMaxShieldHP, newMaxShieldHP, damage, damageOut
                           computed BEFORE the first emission, and `return damageOut` - again the
                           local.  The manager's state is not touched after line 43.

   So every call is: an atomic part that ends with the state stored ([Shield.step]: committed
   world, the events in emission order with their payloads already fixed, the return value), then
   the emissions one after the other, each running listener code on the then current state; the
   outer call continues from its locals only.  That is what [call] below does, and it is why a
   re-entrant listener sees - and changes - the committed state, while the payload of a later
   event of the outer call (a ShieldRemoved for a key a listener has meanwhile re-added; the
   NewHP / ID of the ShieldChange) still describes the state at the commit.

   Fuel bounds the nesting depth; [OutOfFuel] is a distinct outcome.  Every nested call consumes
   an operation of a popped script, so fuel above the number of operations in all scripts is
   always enough (Proofs/ShieldReProofs.v, [fuel_enough]). *)
From Coq Require Import List ZArith Bool Floats.
From SR Require Import Model.Shield.
Import ListNotations.
Open Scope Z_scope.

Definition script (N : Type) := list (op N).

(* the three listener slots: queues of scripts, one popped per delivery *)
Record slots (N : Type) := mkQ {
  q_added : list (script N);
  q_removed : list (script N);
  q_change : list (script N) }.
Arguments mkQ {N}. Arguments q_added {N}. Arguments q_removed {N}. Arguments q_change {N}.

(* what the harness records, in time order: a call is entered; a listener is invoked with an
   event (with IsShielded / MaxShield / HasShield of every unit and key as the listener sees
   them, before it does anything); a call returns (return value of AbsorbDamage, and the same
   probe right after the return) *)
Inductive titem (N : Type) :=
| TCall (o : op N)
| TEv (e : event N) (p : list (uprobe N))
| TRet (r : option N) (p : list (uprobe N)).
Arguments TCall {N}. Arguments TEv {N}. Arguments TRet {N}.

Inductive outcome (A : Type) := Done (a : A) | OutOfFuel.
Arguments Done {A}. Arguments OutOfFuel {A}.

Section Re.
Context {N : Type} (O : NumOps N).
Variables nu nk : nat.            (* sizes of the probed unit and key pools *)

Definition pop_slot (q : slots N) (e : event N) : script N * slots N :=
  match e with
  | EAdded _ _ _ _ _ =>
      match q_added q with [] => ([], q) | s :: r => (s, mkQ r (q_removed q) (q_change q)) end
  | ERemoved _ _ =>
      match q_removed q with [] => ([], q) | s :: r => (s, mkQ (q_added q) r (q_change q)) end
  | EChange _ _ _ _ _ _ =>
      match q_change q with [] => ([], q) | s :: r => (s, mkQ (q_added q) (q_removed q) r) end
  end.

Definition result := outcome (world N * slots N * list (titem N)).
Definition caller := slots N -> world N -> op N -> result.

(* a script (or the top-level history): its operations one after the other, each a full call *)
Fixpoint run_ops (C : caller) (q : slots N) (w : world N) (ops : list (op N)) : result :=
  match ops with
  | [] => Done (w, q, [])
  | o :: r =>
      match C q w o with
      | OutOfFuel => OutOfFuel
      | Done (w1, q1, t1) =>
          match run_ops C q1 w1 r with
          | OutOfFuel => OutOfFuel
          | Done (w2, q2, t2) => Done (w2, q2, t1 ++ t2)
          end
      end
  end.

(* the emissions of one call, in order: the listener is invoked on the current state, pops its
   script and runs it; the next emission of the outer call follows on whatever state that left *)
Fixpoint emit_all (C : caller) (q : slots N) (w : world N) (evs : list (event N)) : result :=
  match evs with
  | [] => Done (w, q, [])
  | e :: r =>
      let (s, q1) := pop_slot q e in
      match run_ops C q1 w s with
      | OutOfFuel => OutOfFuel
      | Done (w1, q2, t1) =>
          match emit_all C q2 w1 r with
          | OutOfFuel => OutOfFuel
          | Done (w2, q3, t2) => Done (w2, q3, TEv e (probe O nu nk w) :: t1 ++ t2)
          end
      end
  end.

(* one call of the manager: the atomic part up to the stored state ([Shield.step]), then the
   emissions; the return value is the local computed in the atomic part *)
Fixpoint call (fuel : nat) : caller :=
  match fuel with
  | 0%nat => fun _ _ _ => OutOfFuel
  | S f => fun q w o =>
      let '(w1, evs, ret) := step O w o in
      match emit_all (call f) q w1 evs with
      | OutOfFuel => OutOfFuel
      | Done (w2, q2, t) => Done (w2, q2, TCall o :: t ++ [TRet ret (probe O nu nk w2)])
      end
  end.

Definition runL (fuel : nat) (q : slots N) (w : world N) (ops : list (op N)) : result :=
  run_ops (call fuel) q w ops.

End Re.

(* number of operations in all scripts: fuel above it is always enough *)
Definition script_ops {N : Type} (l : list (script N)) : nat :=
  fold_right (fun s n => (length s + n)%nat) 0%nat l.
Definition total_ops {N : Type} (q : slots N) : nat :=
  (script_ops (q_added q) + script_ops (q_removed q) + script_ops (q_change q))%nat.
