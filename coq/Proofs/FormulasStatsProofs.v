(* The translator tie for the stat-evaluation model of C06 (Model/Stats.v, binary64 only):
   PropMap.Modify, statCalc and the derived getters ATK / MaxHP as GENERATED from
   pkg/engine/info/{map,stats}.go (Gen/FormulasInfo.v, over CombatCore's NumOps) are, at the binary64
   instance, the definitions the C06 model computes with.  See Proofs/FormulasInfoProofs.v. *)
From Coq Require Import List ZArith Bool Floats.
From SR Require Import Model.CombatCore Model.Stats.
From SR Require Gen.FormulasInfo.
Import ListNotations.
Open Scope Z_scope.

Lemma getp_setp_same : forall N m p v, getp N (setp N m p v) p = v.
Proof.
  intros N m p v. induction m as [|[k x] r IH]; cbn [setp getp].
  - rewrite Z.eqb_refl. reflexivity.
  - destruct (k =? p) eqn:E; cbn [getp]; rewrite E; [reflexivity|exact IH].
Qed.

Lemma getp_setp_other : forall N m p q v, q <> p -> getp N (setp N m p v) q = getp N m q.
Proof.
  intros N m p q v Hq. induction m as [|[k x] r IH]; cbn [setp getp].
  - destruct (p =? q) eqn:E; [apply Z.eqb_eq in E; congruence|reflexivity].
  - destruct (k =? p) eqn:E; cbn [getp].
    + apply Z.eqb_eq in E. subst k. destruct (p =? q) eqn:E2; [apply Z.eqb_eq in E2; congruence|reflexivity].
    + destruct (k =? q); [reflexivity|exact IH].
Qed.

(* the multiplicative rule applies to exactly the two properties the model names *)
Lemma gen_is_mult_is_model : forall p,
  ((p =? FormulasInfo.prop_AllDamageReduce) || (p =? FormulasInfo.prop_Fatigue)) = is_mult p.
Proof. reflexivity. Qed.

(* PropMap.Modify: the entry of p becomes Stats.modify p (old entry) amt, every other entry is untouched *)
Lemma gen_Modify_entry_is_model : forall m p amt,
  getp FloatNum (FormulasInfo.PropMap_Modify FloatNum m p amt) p = modify p (getp FloatNum m p) amt.
Proof.
  intros m p amt. unfold FormulasInfo.PropMap_Modify, modify. rewrite <- gen_is_mult_is_model.
  destruct ((p =? FormulasInfo.prop_AllDamageReduce) || (p =? FormulasInfo.prop_Fatigue)); apply getp_setp_same.
Qed.

Lemma gen_Modify_frame : forall m p q amt, q <> p ->
  getp FloatNum (FormulasInfo.PropMap_Modify FloatNum m p amt) q = getp FloatNum m q.
Proof.
  intros m p q amt Hq. unfold FormulasInfo.PropMap_Modify.
  destruct ((p =? FormulasInfo.prop_AllDamageReduce) || (p =? FormulasInfo.prop_Fatigue)); apply getp_setp_other; exact Hq.
Qed.

Lemma gen_statCalc_is_stat_calc : forall b p f, FormulasInfo.statCalc FloatNum b p f = stat_calc b p f.
Proof. reflexivity. Qed.

(* what a view reads from a snapshot whose property map is [sget FloatNum s] *)
Lemma gen_view_ATK_is_model : forall w s md mw fl cn,
  v_atk (view_of w (sget FloatNum s) md mw fl cn) = FormulasInfo.ATK FloatNum s.
Proof. reflexivity. Qed.
Lemma gen_view_MaxHP_is_model : forall w s md mw fl cn,
  v_hp (view_of w (sget FloatNum s) md mw fl cn) = FormulasInfo.MaxHP FloatNum s.
Proof. reflexivity. Qed.

Definition C06_formulas_statement : Prop :=
  (forall m p amt, getp FloatNum (FormulasInfo.PropMap_Modify FloatNum m p amt) p = modify p (getp FloatNum m p) amt) /\
  (forall m p q amt, q <> p -> getp FloatNum (FormulasInfo.PropMap_Modify FloatNum m p amt) q = getp FloatNum m q) /\
  (forall p, ((p =? FormulasInfo.prop_AllDamageReduce) || (p =? FormulasInfo.prop_Fatigue)) = is_mult p) /\
  (forall b p f, FormulasInfo.statCalc FloatNum b p f = stat_calc b p f) /\
  (forall w s md mw fl cn, v_atk (view_of w (sget FloatNum s) md mw fl cn) = FormulasInfo.ATK FloatNum s) /\
  (forall w s md mw fl cn, v_hp (view_of w (sget FloatNum s) md mw fl cn) = FormulasInfo.MaxHP FloatNum s).

Lemma C06_formulas_hold : C06_formulas_statement.
Proof.
  unfold C06_formulas_statement.
  repeat match goal with |- _ /\ _ => split end; try reflexivity.
  - exact gen_Modify_entry_is_model.
  - exact gen_Modify_frame.
Qed.
