(* C08, trace level: every terminated run of the whole-simulation model satisfies [death_ok]:
   a unit is announced dead at most once and, from its announcement on, is absent from every turn
   order, sample of the living lists and turn-end snapshot, is never the acting unit of a turn and
   starts no action or insert. *)
From Coq Require Import List ZArith Bool Floats Lia Permutation.
From SR Require Import Base.CaseLib Base.NumOps Model.Turn Model.Sim Model.SimProtocol
  Proofs.TurnProofs Proofs.SimProofs Proofs.SimDeath Proofs.SimFrame.
Import ListNotations.
Open Scope Z_scope.

(* ------------------------------------------------------------------ *)
(* death_ok on concatenations                                           *)
(* ------------------------------------------------------------------ *)
Fixpoint ann (tr : list ev) : list Z :=
  match tr with
  | [] => []
  | VTargetDeath t _ :: r => t :: ann r
  | _ :: r => ann r
  end.

(* the dead set after a segment: announcements are pushed in front, as death_ok_from does *)
Definition dead_after (D : list Z) (tr : list ev) : list Z := rev (ann tr) ++ D.

Lemma ann_app a b : ann (a ++ b) = ann a ++ ann b.
Proof. induction a as [|e a IH]; cbn; [reflexivity|]. destruct e; cbn; rewrite ?IH; reflexivity. Qed.

Lemma death_ok_app : forall a D b,
  death_ok_from D (a ++ b) = death_ok_from D a && death_ok_from (dead_after D a) b.
Proof.
  induction a as [|e a IH]; intros D b; cbn [app death_ok_from].
  - reflexivity.
  - unfold dead_after in *. destruct e; cbn [ann]; rewrite ?IH; try reflexivity;
      try (rewrite <- !andb_assoc; reflexivity).
    (* VTargetDeath *)
    rewrite <- andb_assoc. f_equal. f_equal. f_equal. cbn [rev]. rewrite <- app_assoc. reflexivity.
Qed.

Lemma in_dead_after D tr id : In id (dead_after D tr) <-> In id (ann tr) \/ In id D.
Proof. unfold dead_after. rewrite in_app_iff, <- in_rev. tauto. Qed.

Lemma zin_false D id : zin id D = false <-> ~ In id D.
Proof.
  unfold zin. split.
  - intros H Hin. assert (existsb (Z.eqb id) D = true) by (apply existsb_exists; exists id; split; [exact Hin|apply Z.eqb_refl]).
    congruence.
  - intros H. destruct (existsb (Z.eqb id) D) eqn:E; [|reflexivity].
    apply existsb_exists in E. destruct E as (x & Hx & Ex). apply Z.eqb_eq in Ex. subst. contradiction.
Qed.

Definition cleanl (D l : list Z) : bool := forallb (fun i => negb (zin i D)) l.
Lemma cleanl_spec D l : cleanl D l = true <-> forall id, In id l -> ~ In id D.
Proof.
  unfold cleanl. rewrite forallb_forall. split; intros H id Hin.
  - apply zin_false. apply negb_true_iff. apply H. exact Hin.
  - apply negb_true_iff. apply zin_false. apply H. exact Hin.
Qed.

(* events death_ok does not look at *)
Definition dneutral (e : ev) : bool :=
  match e with
  | VTargetDeath _ _ | VTurnStart _ _ _ _ | VTurnReset _ _ | VActionStart _ _ _ | VInsertStart _ _ _
  | VSample _ _ _ | VTurnEnd _ _ => false
  | _ => true
  end.

Lemma death_ok_neutral : forall l D, forallb dneutral l = true -> death_ok_from D l = true /\ ann l = [].
Proof.
  induction l as [|e l IH]; intros D H; cbn; [auto|].
  cbn in H. apply andb_prop in H. destruct H as [He Hl]. destruct (IH D Hl) as [H1 H2].
  destruct e; try discriminate; cbn; auto.
Qed.

(* ------------------------------------------------------------------ *)
(* The invariant and the per-function relation                          *)
(* ------------------------------------------------------------------ *)
Definition off (s : sim) (id : Z) : Prop :=
  ~ In id (chars s) /\ ~ In id (enemies s) /\ ~ In id (turn_ids s).

Definition DI (s : sim) (D : list Z) : Prop := forall id, In id D -> off s id.

(* no longer able to act: dead, or not a unit at all; absorbing *)
Definition gone (s : sim) (id : Z) : Prop := state_of s id = Some Dead \/ state_of s id = None.

Record rel (kl : bool) (s s' : sim) (seg : list ev) : Prop := mkRel {
  r_trace : trace s' = trace s ++ seg;
  r_chars : incl (chars s') (chars s);
  r_enemies : incl (enemies s') (enemies s);
  r_nodup : NoDup (turn_ids s) -> NoDup (turn_ids s');
  r_nodup_l : NoDup (chars s ++ enemies s) -> NoDup (chars s' ++ enemies s');
  r_turn : NoDup (turn_ids s) -> incl (turn_ids s') (turn_ids s);
  r_gone : forall id, gone s id -> gone s' id;
  r_turn_keep : NoDup (turn_ids s) -> forall id, In id (turn_ids s) -> In id (turn_ids s') \/ In id (ann seg);
  (* every unit announced in the segment was living before, is off the field afterwards, and (when
     no limbo kill is involved) can no longer act *)
  r_ann_was : forall id, In id (ann seg) -> In id (chars s) \/ In id (enemies s);
  r_ann_offl : forall id, In id (ann seg) -> ~ In id (chars s') /\ ~ In id (enemies s');
  r_ann_offt : NoDup (turn_ids s) -> forall id, In id (ann seg) -> ~ In id (turn_ids s');
  r_ann_gone : kl = false -> forall id, In id (ann seg) -> gone s' id;
  r_ann_nodup : NoDup (chars s ++ enemies s) -> NoDup (ann seg);
  (* the segment passes the death predicate from every dead set compatible with the start state *)
  r_ok : NoDup (turn_ids s) -> NoDup (chars s ++ enemies s) -> forall D, DI s D -> death_ok_from D seg = true }.

Lemma DI_after kl s s' seg D : rel kl s s' seg -> NoDup (turn_ids s) -> DI s D -> DI s' (dead_after D seg).
Proof.
  intros R Hnd HD id Hin. apply in_dead_after in Hin. destruct Hin as [Hin|Hin].
  - destruct (r_ann_offl _ _ _ _ R id Hin) as [H1 H2]. repeat split; auto. apply (r_ann_offt _ _ _ _ R Hnd). exact Hin.
  - destruct (HD id Hin) as (H1 & H2 & H3). repeat split.
    + intros H. apply H1. apply (r_chars _ _ _ _ R). exact H.
    + intros H. apply H2. apply (r_enemies _ _ _ _ R). exact H.
    + intros H. apply H3. apply (r_turn _ _ _ _ R Hnd). exact H.
Qed.

Lemma nodup_app_disj (a b : list Z) : NoDup a -> NoDup b -> (forall x, In x a -> ~ In x b) -> NoDup (a ++ b).
Proof.
  induction a as [|x a IH]; intros Ha Hb Hd; cbn; [exact Hb|].
  inversion Ha as [|? ? Hni Ha']; subst. constructor.
  - intros Hin. apply in_app_or in Hin. destruct Hin as [Hin|Hin]; [contradiction|].
    apply (Hd x (or_introl eq_refl)). exact Hin.
  - apply IH; auto. intros y Hy. apply Hd. right. exact Hy.
Qed.

Lemma rel_trans kl s1 s2 s3 a b : rel kl s1 s2 a -> rel kl s2 s3 b -> rel kl s1 s3 (a ++ b).
Proof.
  intros A B. constructor.
  - rewrite (r_trace _ _ _ _ B), (r_trace _ _ _ _ A), app_assoc. reflexivity.
  - intros x Hx. apply (r_chars _ _ _ _ A), (r_chars _ _ _ _ B), Hx.
  - intros x Hx. apply (r_enemies _ _ _ _ A), (r_enemies _ _ _ _ B), Hx.
  - intros H. apply (r_nodup _ _ _ _ B), (r_nodup _ _ _ _ A), H.
  - intros H. apply (r_nodup_l _ _ _ _ B), (r_nodup_l _ _ _ _ A), H.
  - intros H x Hx. apply (r_turn _ _ _ _ A H). apply (r_turn _ _ _ _ B (r_nodup _ _ _ _ A H)). exact Hx.
  - intros id H. apply (r_gone _ _ _ _ B), (r_gone _ _ _ _ A), H.
  - intros Hnd id Hin. rewrite ann_app, in_app_iff.
    destruct (r_turn_keep _ _ _ _ A Hnd id Hin) as [H|H]; [|right; left; exact H].
    destruct (r_turn_keep _ _ _ _ B (r_nodup _ _ _ _ A Hnd) id H) as [H'|H']; [left; exact H'|right; right; exact H'].
  - intros id Hin. rewrite ann_app in Hin. apply in_app_or in Hin. destruct Hin as [Hin|Hin].
    + apply (r_ann_was _ _ _ _ A). exact Hin.
    + destruct (r_ann_was _ _ _ _ B id Hin) as [H|H]; [left; apply (r_chars _ _ _ _ A)|right; apply (r_enemies _ _ _ _ A)]; exact H.
  - intros id Hin. rewrite ann_app in Hin. apply in_app_or in Hin. destruct Hin as [Hin|Hin].
    + destruct (r_ann_offl _ _ _ _ A id Hin) as [H1 H2]. split; intros H.
      * apply H1, (r_chars _ _ _ _ B), H.
      * apply H2, (r_enemies _ _ _ _ B), H.
    + apply (r_ann_offl _ _ _ _ B). exact Hin.
  - intros Hnd id Hin. rewrite ann_app in Hin. apply in_app_or in Hin. destruct Hin as [Hin|Hin].
    + intros H. apply (r_ann_offt _ _ _ _ A Hnd id Hin). apply (r_turn _ _ _ _ B (r_nodup _ _ _ _ A Hnd)), H.
    + apply (r_ann_offt _ _ _ _ B (r_nodup _ _ _ _ A Hnd)). exact Hin.
  - intros Hk id Hin. rewrite ann_app in Hin. apply in_app_or in Hin. destruct Hin as [Hin|Hin].
    + apply (r_gone _ _ _ _ B), (r_ann_gone _ _ _ _ A Hk). exact Hin.
    + apply (r_ann_gone _ _ _ _ B Hk). exact Hin.
  - intros Hl. rewrite ann_app. apply nodup_app_disj.
    + apply (r_ann_nodup _ _ _ _ A Hl).
    + apply (r_ann_nodup _ _ _ _ B (r_nodup_l _ _ _ _ A Hl)).
    + intros id Ha Hb. destruct (r_ann_offl _ _ _ _ A id Ha) as [H1 H2].
      destruct (r_ann_was _ _ _ _ B id Hb); contradiction.
  - intros Hnd Hl D HD. rewrite death_ok_app. apply andb_true_intro. split.
    + apply (r_ok _ _ _ _ A Hnd Hl D HD).
    + apply (r_ok _ _ _ _ B (r_nodup _ _ _ _ A Hnd) (r_nodup_l _ _ _ _ A Hl)). eapply DI_after; eassumption.
Qed.

(* a step that changes neither lists nor turn order nor units' states, emitting only events the
   death predicate does not look at *)
Definition quiet (s s' : sim) : Prop :=
  chars s' = chars s /\ enemies s' = enemies s /\ turn_ids s' = turn_ids s /\
  (forall id, state_of s' id = state_of s id).

Lemma rel_quiet kl s s' seg : trace s' = trace s ++ seg -> forallb dneutral seg = true ->
  chars s' = chars s -> enemies s' = enemies s -> turn_ids s' = turn_ids s ->
  (forall id, gone s id -> gone s' id) -> rel kl s s' seg.
Proof.
  intros T N C E Tu G. destruct (death_ok_neutral seg [] N) as [_ An].
  constructor.
  - exact T.
  - rewrite C. intros x Hx; exact Hx.
  - rewrite E. intros x Hx; exact Hx.
  - rewrite Tu. auto.
  - rewrite C, E. auto.
  - rewrite Tu. intros _ x Hx; exact Hx.
  - exact G.
  - rewrite Tu. intros _ id Hin. left. exact Hin.
  - rewrite An. intros id [].
  - rewrite An. intros id [].
  - rewrite An. intros _ id [].
  - rewrite An. intros _ id [].
  - rewrite An. intros _. constructor.
  - intros _ _ D _. apply death_ok_neutral. exact N.
Qed.

Lemma rel_refl kl s : rel kl s s [].
Proof. apply rel_quiet; auto. rewrite app_nil_r. reflexivity. Qed.

(* ------------------------------------------------------------------ *)
(* Content level: scripts announce nobody and sample only the living    *)
(* ------------------------------------------------------------------ *)
Definition srelN (need : list Z) (s s' : sim) : Prop :=
  exists seg, trace s' = trace s ++ seg /\ ann seg = [] /\ chars s' = chars s /\ enemies s' = enemies s /\
    (NoDup (turn_ids s) -> NoDup (turn_ids s') /\ Permutation (turn_ids s') (turn_ids s)) /\
    (forall id, gone s id -> gone s' id) /\
    (NoDup (turn_ids s) -> forall D, DI s D -> (forall i, In i need -> ~ In i D) -> death_ok_from D seg = true).
Definition srel := srelN [].

Lemma script_ev_dneutral l : forallb script_ev l = true -> forallb dneutral l = true.
Proof.
  induction l as [|e l IH]; [reflexivity|]. cbn. intros H. apply andb_prop in H. destruct H as [He Hl].
  rewrite (IH Hl), andb_true_r. destruct e; try discriminate; reflexivity.
Qed.

Lemma DI_same s s' D : chars s' = chars s -> enemies s' = enemies s ->
  (forall id, In id (turn_ids s') -> In id (turn_ids s)) -> DI s D -> DI s' D.
Proof.
  intros C E T H id Hin. destruct (H id Hin) as (H1 & H2 & H3). unfold off. rewrite C, E. repeat split; auto.
Qed.

Lemma srelN_refl n s : srelN n s s.
Proof.
  exists []. rewrite app_nil_r. repeat split; auto.
Qed.

Lemma srelN_trans n a b c : srelN n a b -> srelN n b c -> srelN n a c.
Proof.
  intros (x & Tx & Ax & Cx & Ex & Ux & Gx & Ox) (y & Ty & Ay & Cy & Ey & Uy & Gy & Oy).
  exists (x ++ y). split; [rewrite Ty, Tx, app_assoc; reflexivity|].
  split; [rewrite ann_app, Ax, Ay; reflexivity|].
  split; [congruence|]. split; [congruence|].
  split; [intros Hn; destruct (Ux Hn) as [N1 P1]; destruct (Uy N1) as [N2 P2]; split; [exact N2|eapply Permutation_trans; eassumption]|].
  split; [intros id H; apply Gy, Gx, H|].
  intros Hn D HD Hneed. rewrite death_ok_app. apply andb_true_intro. split; [apply Ox; assumption|].
  destruct (Ux Hn) as [N1 P1]. unfold dead_after. rewrite Ax. cbn [rev app]. apply Oy; [exact N1| |exact Hneed].
  apply (DI_same a b D Cx Ex); [|exact HD].
  intros id Hin. eapply Permutation_in; eassumption.
Qed.

Lemma srelN_weaken n s s' : srel s s' -> srelN n s s'.
Proof.
  intros (x & Tx & Ax & Cx & Ex & Ux & Gx & Ox). exists x.
  split; [exact Tx|]. split; [exact Ax|]. split; [exact Cx|]. split; [exact Ex|]. split; [exact Ux|]. split; [exact Gx|].
  intros Hn D HD _. apply Ox; auto.
Qed.

Definition srel_refl := srelN_refl [].
Definition srel_trans := srelN_trans [].

Lemma gone_upd s u u0 : get_unit (units s) (uid u) = Some u0 -> (ust u0 = Dead -> ust u = Dead) ->
  forall id, gone s id -> gone (upd_unit s u) id.
Proof.
  intros G Hd id Hg. unfold gone, state_of in *. cbn [units upd_unit set_units].
  destruct (Z.eq_dec id (uid u)) as [->|Hne].
  - rewrite (get_put_same (units s) u) by (eexists; exact G). rewrite G in Hg.
    destruct Hg as [Hg|Hg]; [|discriminate]. left. f_equal. apply Hd. congruence.
  - rewrite (get_put_other _ _ _ Hne). exact Hg.
Qed.

Lemma srel_plain s s' : trace s' = trace s -> chars s' = chars s -> enemies s' = enemies s -> turn s' = turn s ->
  (forall id, gone s id -> gone s' id) -> srel s s'.
Proof.
  intros T C E Tu G. exists []. rewrite app_nil_r. unfold turn_ids. rewrite Tu. repeat split; auto.
Qed.

Lemma srel_emit_neutral s l : forallb dneutral l = true -> srel s (emit s l).
Proof.
  intros H. destruct (death_ok_neutral l [] H) as [_ An].
  exists l. repeat split; auto. intros _ D _ _. apply death_ok_neutral. exact H.
Qed.

Lemma srel_emit s l : forallb script_ev l = true -> srel s (emit s l).
Proof. intros H. apply srel_emit_neutral, script_ev_dneutral, H. Qed.

Lemma srel_sample s : srel s (emit s [VSample (chars s) (enemies s) (turn_ids s)]).
Proof.
  exists [VSample (chars s) (enemies s) (turn_ids s)]. repeat split; auto.
  intros _ D HD _. cbn [death_ok_from]. rewrite andb_true_r.
  apply (proj2 (cleanl_spec D _)). intros id Hin Hd. destruct (HD id Hd) as (H1 & H2 & H3).
  apply in_app_or in Hin. destruct Hin as [Hin|Hin]; [contradiction|].
  apply in_app_or in Hin. destruct Hin as [Hin|Hin]; contradiction.
Qed.

Lemma srel_upd s u u0 : get_unit (units s) (uid u) = Some u0 -> (ust u0 = Dead -> ust u = Dead) -> srel s (upd_unit s u).
Proof. intros G Hd. apply srel_plain; try reflexivity. apply (gone_upd s u u0 G Hd). Qed.

Lemma srel_same s s' : units s' = units s -> chars s' = chars s -> enemies s' = enemies s ->
  turn s' = turn s -> trace s' = trace s -> srel s s'.
Proof.
  intros U C E Tu T. apply srel_plain; auto. intros id. unfold gone, state_of. rewrite U. auto.
Qed.

Lemma srel_gauge s id amt : srel s (set_turn s (fst (Turn.step F (turn s) (@OModNorm F id amt)))).
Proof.
  exists []. rewrite app_nil_r. repeat split; auto.
  - destruct (Turn.step F (turn s) (OModNorm id amt)) as [t' outs] eqn:ET.
    assert (Sp : set_gauge_spec F (turn s) t' id outs).
    { eapply set_gauge_ops_ok; [exact H| |exact ET]. exists amt. right. left. reflexivity. }
    destruct Sp as (_ & P & _). unfold turn_ids. cbn [fst turn set_turn].
    eapply Permutation_NoDup; [apply Permutation_sym; exact P|exact H].
  - destruct (Turn.step F (turn s) (OModNorm id amt)) as [t' outs] eqn:ET.
    assert (Sp : set_gauge_spec F (turn s) t' id outs).
    { eapply set_gauge_ops_ok; [exact H| |exact ET]. exists amt. right. left. reflexivity. }
    destruct Sp as (_ & P & _). exact P.
Qed.

(* ------------------------------------------------------------------ *)
(* From the content level to the loop level                             *)
(* ------------------------------------------------------------------ *)
Definition lrel (kl : bool) (s s' : sim) : Prop := exists seg, rel kl s s' seg.

Lemma lrel_refl kl s : lrel kl s s.
Proof. exists []. apply rel_refl. Qed.
Lemma lrel_trans kl a b c : lrel kl a b -> lrel kl b c -> lrel kl a c.
Proof. intros (x & X) (y & Y). exists (x ++ y). eapply rel_trans; eassumption. Qed.

Lemma rel_weaken kl s s' seg : rel false s s' seg -> rel kl s s' seg.
Proof.
  intros R. destruct R. constructor; auto.
Qed.
Lemma lrel_weaken kl s s' : lrel false s s' -> lrel kl s s'.
Proof. intros (x & X). exists x. apply rel_weaken. exact X. Qed.

Lemma srelN_lrel kl n s s' : srelN n s s' ->
  (forall i, In i n -> In i (chars s) \/ In i (enemies s) \/ In i (turn_ids s)) -> lrel kl s s'.
Proof.
  intros (x & Tx & Ax & Cx & Ex & Ux & Gx & Ox) Hn. exists x. constructor.
  - exact Tx.
  - rewrite Cx. intros y Hy; exact Hy.
  - rewrite Ex. intros y Hy; exact Hy.
  - intros H. apply Ux. exact H.
  - rewrite Cx, Ex. auto.
  - intros H y Hy. destruct (Ux H) as [_ P]. eapply Permutation_in; eassumption.
  - exact Gx.
  - intros H y Hy. left. destruct (Ux H) as [_ P]. eapply Permutation_in; [apply Permutation_sym; exact P|exact Hy].
  - rewrite Ax. intros id [].
  - rewrite Ax. intros id [].
  - rewrite Ax. intros _ id [].
  - rewrite Ax. intros _ id [].
  - rewrite Ax. intros _. constructor.
  - intros H _ D HD. apply Ox; [exact H|exact HD|].
    intros i Hi HiD. destruct (HD i HiD) as (H1 & H2 & H3). destruct (Hn i Hi) as [Q|[Q|Q]]; contradiction.
Qed.

Lemma srel_lrel kl s s' : srel s s' -> lrel kl s s'.
Proof. intros H. eapply srelN_lrel; [exact H|]. intros i []. Qed.

(* the turn model's operations on the order, at the float instance *)
Lemma turn_remove_spec (t : tstate F) id : NoDup (ids (order t)) ->
  let t' := fst (Turn.step F t (@ORemove F id)) in
  NoDup (ids (order t')) /\ incl (ids (order t')) (ids (order t)) /\ ~ In id (ids (order t')) /\
  (forall x, In x (ids (order t)) -> In x (ids (order t')) \/ x = id).
Proof.
  intros Hn. cbn [Turn.step]. destruct (Turn.find (order t) id) eqn:EF; cbn [fst].
  - cbn [order set_order]. split; [apply remove_id_nodup; exact Hn|].
    split; [intros x Hx; eapply remove_id_incl; exact Hx|].
    split; [apply remove_id_notin; exact Hn|].
    intros x Hx. destruct (Z.eq_dec x id) as [->|Hne]; [right; reflexivity|left].
    destruct (in_ids_find _ _ Hx) as (uu & Hu).
    eapply find_some_in_ids. rewrite remove_id_find_other by exact Hne. exact Hu.
  - split; [exact Hn|]. split; [intros x Hx; exact Hx|]. split; [apply find_none; exact EF|]. intros x Hx. left. exact Hx.
Qed.

Section DeathTrace.

  Variable cfg : config.

  Definition srel_exec_ops := Q_exec_ops cfg srel srel_refl srel_trans srel_emit srel_sample srel_upd srel_same srel_gauge.
  Definition srel_run_slot := Q_run_slot cfg srel srel_refl srel_trans srel_emit srel_sample srel_upd srel_same srel_gauge.
  Definition srel_run_body := Q_run_body cfg srel srel_refl srel_trans srel_emit srel_sample srel_upd srel_same srel_gauge.
  Definition srel_pop_act := Q_pop_act cfg srel srel_refl srel_upd.
  Definition srel_mod_sp := Q_mod_sp srel srel_refl srel_trans srel_emit srel_same.
  Definition srel_mod_energy := Q_mod_energy srel srel_refl srel_trans srel_emit srel_upd.
  Definition srel_set_energy := Q_set_energy srel srel_refl srel_trans srel_emit srel_upd.

  (* ---- deathCheck ---- *)
  Definition turn_facts (s s' : sim) (ids : list Z) : Prop :=
    NoDup (turn_ids s') /\ incl (turn_ids s') (turn_ids s) /\
    (forall id, In id ids -> ~ In id (turn_ids s')) /\
    (forall id, In id (turn_ids s) -> In id (turn_ids s') \/ In id ids).

  Lemma announce_spec fuel : forall ids s s', announce cfg fuel s ids = Some s' ->
    exists seg, trace s' = trace s ++ seg /\ ann seg = ids /\ chars s' = chars s /\ enemies s' = enemies s /\
      (NoDup (turn_ids s) -> turn_facts s s' ids) /\
      (forall id, gone s id -> gone s' id) /\
      (NoDup (turn_ids s) -> NoDup ids ->
       (forall id, In id ids -> ~ In id (chars s) /\ ~ In id (enemies s)) ->
       forall D, DI s D -> (forall id, In id ids -> ~ In id D) -> death_ok_from D seg = true).
  Proof.
    induction ids as [|id ids IH]; intros s s' H; cbn [announce] in H.
    - inversion H; subst. exists []. rewrite app_nil_r. repeat split; auto.
      + intros x Hx; exact Hx.
    - destruct (Turn.step F (turn s) (@ORemove F id)) as [t' outs] eqn:ET.
      set (s1 := set_turn s t') in *.
      match type of H with match run_slot _ _ (emit ?x ?e) _ _ _ with _ => _ end = _ => set (s2 := x) in *; set (ds := e) in * end.
      destruct (run_slot cfg fuel (emit s2 ds) LDeath id _) as [s3|] eqn:ER; [|discriminate].
      match type of H with announce _ _ (emit _ [VTargetDeath _ ?k]) _ = _ => set (killer := k) in * end.
      assert (X : srel s1 s3).
      { apply srel_trans with s2; [apply srel_mod_energy|].
        apply srel_trans with (emit s2 ds); [apply srel_emit_neutral; reflexivity|].
        eapply srel_run_slot. exact ER. }
      destruct X as (x & Tx & Ax & Cx & Ex & Ux & Gx & Ox).
      destruct (IH _ _ H) as (y & Ty & Ay & Cy & Ey & Uy & Gy & Oy).
      cbn [trace chars enemies emit] in Ty, Cy, Ey.
      assert (TF : NoDup (turn_ids s) ->
                   NoDup (turn_ids s1) /\ incl (turn_ids s1) (turn_ids s) /\ ~ In id (turn_ids s1) /\
                   (forall z, In z (turn_ids s) -> In z (turn_ids s1) \/ z = id)).
      { intros Hn. pose proof (turn_remove_spec (turn s) id Hn) as P. cbn zeta in P. rewrite ET in P. exact P. }
      exists (x ++ VTargetDeath id killer :: y).
      split; [rewrite Ty, Tx; cbn [trace s1 set_turn]; rewrite <- !app_assoc; reflexivity|].
      split; [rewrite ann_app, Ax; cbn [ann app]; rewrite Ay; reflexivity|].
      split; [rewrite Cy, Cx; reflexivity|]. split; [rewrite Ey, Ex; reflexivity|].
      split.
      { intros Hn. destruct (TF Hn) as (N1 & I1 & O1 & K1). destruct (Ux N1) as [N3 P3].
        destruct (Uy N3) as (N' & I' & O' & K'). split; [exact N'|].
        split; [intros z Hz; apply I1; eapply Permutation_in; [exact P3|]; apply I'; exact Hz|].
        split.
        - intros z [<-|Hz]; [|apply O'; exact Hz].
          intros Hin. apply O1. eapply Permutation_in; [exact P3|]. apply I'. exact Hin.
        - intros z Hz. destruct (K1 z Hz) as [Hz1| ->]; [|right; left; reflexivity].
          assert (Hz3 : In z (turn_ids (emit s3 [VTargetDeath id killer]))) by (eapply Permutation_in; [apply Permutation_sym; exact P3|exact Hz1]).
          destruct (K' z Hz3) as [Q|Q]; [left; exact Q|right; right; exact Q]. }
      split.
      { intros z Hz. apply Gy. apply (Gx z). exact Hz. }
      intros Hn Hnd Hoff D HD HnotD.
      destruct (TF Hn) as (N1 & I1 & O1 & K1). destruct (Ux N1) as [N3 P3].
      inversion Hnd as [|? ? Hni Hnd']; subst.
      rewrite death_ok_app. apply andb_true_intro. split.
      + apply Ox; [exact N1| |intros i []].
        apply (DI_same s s1 D eq_refl eq_refl I1 HD).
      + unfold dead_after. rewrite Ax. cbn [rev app death_ok_from].
        apply andb_true_intro. split; [apply negb_true_iff, zin_false, HnotD; left; reflexivity|].
        apply Oy; [exact N3|exact Hnd'| | |].
        * intros z Hz. cbn [chars enemies emit]. rewrite Cx, Ex. apply Hoff. right. exact Hz.
        * intros z [<-|Hz].
          -- unfold off. cbn [chars enemies emit]. rewrite Cx, Ex.
             destruct (Hoff id (or_introl eq_refl)) as [H1 H2]. repeat split; auto.
             intros Hin. apply O1. eapply Permutation_in; [exact P3|exact Hin].
          -- apply (DI_same s1 (emit s3 [VTargetDeath id killer]) D Cx Ex).
             ++ intros w Hw. eapply Permutation_in; [exact P3|exact Hw].
             ++ apply (DI_same s s1 D eq_refl eq_refl I1 HD).
             ++ exact Hz.
        * intros z Hz [<-|Hd]; [contradiction|]. apply (HnotD z); [right; exact Hz|exact Hd].
  Qed.

  Lemma filter_neg_disj (f : Z -> bool) l x : In x (filter f l) -> forall l', ~ In x (filter (fun i => negb (f i)) l').
  Proof.
    intros H l' H'. apply filter_In in H. apply filter_In in H'. destruct H as [_ H]. destruct H' as [_ H'].
    rewrite H in H'. discriminate.
  Qed.

  Lemma should_kill_gone s id : should_kill s false id = true -> gone s id.
  Proof. unfold should_kill, gone. destruct (state_of s id) as [[| |]|]; intros H; try discriminate; auto. Qed.

  Lemma death_check_rel fuel s kl s' : death_check cfg fuel s kl = Some s' -> lrel kl s s'.
  Proof.
    unfold death_check. set (K := should_kill s kl). set (nK := fun i => negb (K i)).
    set (s1 := set_lists s (filter nK (chars s)) (filter nK (enemies s))).
    intros H. destruct (announce_spec fuel _ _ _ H) as (y & Ty & Ay & Cy & Ey & Uy & Gy & Oy).
    cbn [trace chars enemies s1 set_lists] in Ty, Cy, Ey.
    assert (Tu : turn_ids s1 = turn_ids s) by reflexivity. rewrite Tu in Uy, Oy.
    assert (InK : forall id, In id (filter K (chars s) ++ filter K (enemies s)) ->
                   K id = true /\ (In id (chars s) \/ In id (enemies s))).
    { intros id Hin. apply in_app_or in Hin. destruct Hin as [Hin|Hin]; apply filter_In in Hin; tauto. }
    exists y. constructor.
    - exact Ty.
    - rewrite Cy. intros x Hx. apply filter_In in Hx. tauto.
    - rewrite Ey. intros x Hx. apply filter_In in Hx. tauto.
    - intros Hn. apply (Uy Hn).
    - rewrite Cy, Ey. intros Hl. rewrite <- filter_app. apply NoDup_filter. exact Hl.
    - intros Hn. apply (Uy Hn).
    - intros id Hg. apply Gy. exact Hg.
    - intros Hn id Hin. rewrite Ay. apply (Uy Hn). exact Hin.
    - rewrite Ay. intros id Hin. apply InK in Hin. tauto.
    - rewrite Ay, Cy, Ey. intros id Hin. apply in_app_or in Hin.
      destruct Hin as [Hin|Hin]; split; apply (filter_neg_disj K _ id Hin).
    - rewrite Ay. intros Hn id Hin. apply (Uy Hn). exact Hin.
    - rewrite Ay. intros -> id Hin. apply Gy. apply InK in Hin. destruct Hin as [Hk _].
      apply should_kill_gone. exact Hk.
    - rewrite Ay. intros Hl. rewrite <- filter_app. apply NoDup_filter. exact Hl.
    - intros Hn Hl D HD. apply Oy.
      + exact Hn.
      + rewrite <- filter_app. apply NoDup_filter. exact Hl.
      + intros id Hin. apply in_app_or in Hin. cbn [chars enemies s1 set_lists].
        destruct Hin as [Hin|Hin]; split; apply (filter_neg_disj K _ id Hin).
      + intros id Hd. destruct (HD id Hd) as (H1 & H2 & H3). unfold off. cbn [chars enemies s1 set_lists]. rewrite Tu.
        repeat split; auto; intros Hx; apply filter_In in Hx; tauto.
      + intros id Hin Hd. apply InK in Hin. destruct (HD id Hd) as (H1 & H2 & H3). tauto.
  Qed.

  (* ---- ult check, exit check ---- *)
  Lemma ult_reqs_srel : forall reqs s,
    match ult_reqs s reqs with Ok s' | Err s' => srel s s' | Stop _ => False | OutOfFuel => True end.
  Proof.
    induction reqs as [|r reqs IH]; intros s; cbn [ult_reqs].
    - apply srel_refl.
    - destruct (get_unit (units s) (ur_target r)) as [u|]; [|apply srel_refl].
      destruct (negb (uchar u)); [apply srel_refl|].
      destruct (can_ult u); [|apply IH].
      set (m0 := enqueue s PRIO_CHAR_ACTION (ur_target r) [FLAG_STAT_CTRL; FLAG_DISABLE_ACTION] (KUlt r)).
      set (m := set_energy m0 (ur_target r) 0).
      assert (E : srel s m) by (apply srel_trans with m0; [apply srel_same; reflexivity|apply srel_set_energy]).
      pose proof (IH m) as H. destruct (ult_reqs m reqs); auto; eapply srel_trans; eassumption.
  Qed.

  Lemma ult_check_srel s :
    match ult_check s with Ok s' | Err s' => srel s s' | Stop _ => False | OutOfFuel => True end.
  Proof.
    unfold ult_check.
    destruct (ults_q s) as [|x r];
      (match goal with |- match ult_reqs (emit ?m ?e) ?q with _ => _ end =>
         pose proof (ult_reqs_srel q (emit m e)) as H; destruct (ult_reqs (emit m e) q); auto;
         (apply srel_trans with m; [apply srel_same; reflexivity|]);
         (apply srel_trans with (emit m e); [apply srel_emit_neutral; reflexivity|exact H]) end).
  Qed.

  Lemma exit_check_srel s o : exit_check cfg s = o ->
    match o with Ok s' => s' = s | Stop s' => srel s s' | _ => False end.
  Proof.
    intros <-. destruct (exit_check_cases cfg s) as [E|(r & E)]; rewrite E; [reflexivity|].
    apply srel_emit_neutral. reflexivity.
  Qed.

  (* ---- actions ---- *)
  Lemma srelN_start n s e : (match e with VActionStart o _ _ => In o n | VInsertStart _ o _ => In o n | _ => False end) ->
    srelN n s (emit s [e]).
  Proof.
    intros He. exists [e]. split; [reflexivity|].
    split; [destruct e; try contradiction; reflexivity|].
    split; [reflexivity|]. split; [reflexivity|]. split; [auto|]. split; [auto|].
    intros _ D _ Hn. destruct e; try contradiction; cbn [death_ok_from]; rewrite andb_true_r;
      apply negb_true_iff, zin_false, Hn, He.
  Qed.

  (* ActionStart, the content call marker, the body, the end event *)
  Lemma action_tail_srel fuel n s id atype ins k p sc s4 s' endev :
    In id n -> dneutral endev = true ->
    pop_act cfg (emit s [VActionStart id atype ins]) id = (sc, s4) ->
    run_body cfg fuel (emit s4 [VCall k id p]) id p sc endev (Some LActionEnd) = Some s' ->
    srelN n s s'.
  Proof.
    intros Hin Hend EPA EB.
    apply srelN_trans with (emit s [VActionStart id atype ins]); [apply srelN_start; exact Hin|].
    apply srelN_weaken.
    apply srel_trans with s4.
    { replace s4 with (snd (pop_act cfg (emit s [VActionStart id atype ins]) id)) by (rewrite EPA; reflexivity).
      apply srel_pop_act. }
    apply srel_trans with (emit s4 [VCall k id p]); [apply srel_emit_neutral; reflexivity|].
    destruct (srel_run_body _ _ _ _ _ _ _ _ EB) as (s1 & Q1 & ->).
    eapply srel_trans; [exact Q1|]. apply srel_emit_neutral. cbn. rewrite Hend. reflexivity.
  Qed.

  Lemma srel_set_next s q : srel s (set_next s q).
  Proof. apply srel_same; reflexivity. Qed.

  Lemma execute_action_srel fuel s id ins : 
    match execute_action cfg fuel s id ins with
    | AOk s' => srelN [id] s s'
    | AErr s' | ACrash s' => srel s s'
    | AFuel => True
    end.
  Proof.
    unfold execute_action.
    destruct (get_unit (units s) id) as [u|]; [|apply srelN_refl].
    destruct (ust u); try apply srelN_refl.
    destruct (uchar u).
    - destruct (pop_next (next_q s) id) as [d q] eqn:EN.
      set (s1 := emit (set_next s q) [VNextAction id (dc_type d) (dc_eval d)]) in *.
      assert (E1 : srel s s1).
      { apply srel_trans with (set_next s q); [apply srel_set_next|apply srel_emit_neutral; reflexivity]. }
      destruct ((dc_type d =? 1) && negb (can_skill u s1)) eqn:ED.
      + set (s2 := emit s1 [VDefaultAction id]) in *.
        assert (E2 : srel s s2) by (eapply srel_trans; [exact E1|apply srel_emit_neutral; reflexivity]).
        destruct (evaluate s2 id 100 (utt_a u)) as [p|]; [|exact E2].
        destruct (pop_act cfg _ id) as [sc s4] eqn:EPA.
        match goal with |- match (match ?x with _ => _ end) with _ => _ end => destruct x as [s6|] eqn:EB; [|exact I] end.
        apply srelN_trans with (mod_sp s2 (uspadd u)).
        { apply srelN_weaken. eapply srel_trans; [exact E2|apply srel_mod_sp]. }
        eapply action_tail_srel; [left; reflexivity| |exact EPA|exact EB]; reflexivity.
      + destruct (evaluate s1 id (dc_eval d) (if dc_type d =? 1 then utt_s u else utt_a u)) as [p|]; [|exact E1].
        destruct (pop_act cfg _ id) as [sc s4] eqn:EPA.
        match goal with |- match (match ?x with _ => _ end) with _ => _ end => destruct x as [s6|] eqn:EB; [|exact I] end.
        set (delta := if dc_type d =? 1 then - uspneed u else uspadd u) in *.
        apply srelN_trans with (mod_sp s1 delta).
        { apply srelN_weaken. eapply srel_trans; [exact E1|apply srel_mod_sp]. }
        eapply action_tail_srel; [left; reflexivity| |exact EPA|exact EB]; reflexivity.
    - destruct (chars s); [apply srel_refl|].
      destruct (pop_act cfg _ id) as [sc s4] eqn:EPA.
      match goal with |- match (match ?x with _ => _ end) with _ => _ end => destruct x as [s6|] eqn:EB; [|exact I] end.
      apply srelN_trans with (mod_sp s 0); [apply srelN_weaken, srel_mod_sp|].
      eapply action_tail_srel; [left; reflexivity| |exact EPA|exact EB]; reflexivity.
  Qed.

  Lemma execute_ult_srel fuel s r :
    match execute_ult cfg fuel s r with
    | AOk s' => srelN [ur_target r] s s'
    | AErr _ | ACrash _ => False
    | AFuel => True
    end.
  Proof.
    unfold execute_ult.
    destruct (get_unit (units s) (ur_target r)) as [u|]; [|apply srelN_refl].
    destruct (negb (uchar u)); [apply srelN_refl|].
    destruct (negb (ur_type r =? 3)); [apply srelN_refl|].
    destruct (evaluate s (ur_target r) (ur_eval r) (utt_u u)) as [p|]; [|apply srelN_refl].
    destruct (pop_act cfg _ (ur_target r)) as [sc s4] eqn:EPA.
    match goal with |- match (match ?x with _ => _ end) with _ => _ end => destruct x as [s6|] eqn:EB; [|exact I] end.
    eapply action_tail_srel; [left; reflexivity| |exact EPA|exact EB]; reflexivity.
  Qed.

  Lemma execute_task_srel fuel s t :
    match execute_task cfg fuel s t with
    | AOk s' => srelN [t_src t] s s'
    | AErr s' | ACrash s' => srel s s'
    | AFuel => True
    end.
  Proof.
    unfold execute_task. destruct (t_kind t) as [key prio abort body| |r].
    - match goal with |- match (match ?x with _ => _ end) with _ => _ end => destruct x as [s2|] eqn:EB; [|exact I] end.
      apply srelN_trans with (emit s [VInsertStart key (t_src t) prio]); [apply srelN_start; left; reflexivity|].
      apply srelN_weaken. destruct (srel_run_body _ _ _ _ _ _ _ _ EB) as (s1 & Q1 & ->).
      eapply srel_trans; [exact Q1|]. apply srel_emit_neutral. reflexivity.
    - pose proof (execute_action_srel fuel s (t_src t) true) as HA.
      destruct (execute_action cfg fuel s (t_src t) true); auto. apply srelN_weaken. exact HA.
    - pose proof (execute_ult_srel fuel s (mkUR (t_src t) (ur_type r) (ur_eval r))) as HU.
      destruct (execute_ult cfg fuel s _); auto; contradiction.
  Qed.

  (* ---- the queue ---- *)
  Definition good (kl : bool) (s : sim) (o : outcome) : Prop :=
    match o with Ok s' | Stop s' | Err s' => lrel kl s s' | OutOfFuel => True end.

  Lemma good_after kl s s1 o : lrel kl s s1 -> good kl s1 o -> good kl s o.
  Proof. intros L H. destruct o; cbn in *; auto; eapply lrel_trans; eassumption. Qed.

  Lemma good_weaken kl s o : good false s o -> good kl s o.
  Proof. destruct o; cbn; auto; apply lrel_weaken. Qed.

  Lemma exit_check_good kl s : good kl s (exit_check cfg s).
  Proof.
    pose proof (exit_check_srel s _ eq_refl) as HE. destruct (exit_check cfg s); cbn; auto; try contradiction.
    - subst. apply lrel_refl.
    - apply srel_lrel. exact HE.
  Qed.

  Lemma pop_srel s t s1 : pop s = Some (t, s1) -> srel s s1.
  Proof. unfold pop. destruct (queue s); [discriminate|]. intros H. inversion H; subst. apply srel_same; reflexivity. Qed.

  Lemma existsb_eqb_in x l : existsb (Z.eqb x) l = true -> In x l.
  Proof. intros H. apply existsb_exists in H. destruct H as (y & Hy & E). apply Z.eqb_eq in E. subst. exact Hy. Qed.

  Lemma drain_good : forall fuel s, good false s (drain cfg fuel s).
  Proof.
    induction fuel as [|f IH]; intros s; cbn [drain]; [exact I|].
    destruct (pop s) as [[t s1]|] eqn:EP; [|apply lrel_refl].
    assert (L1 : lrel false s s1) by (apply srel_lrel; eapply pop_srel; exact EP).
    assert (Hrec : good false s (drain cfg f s1)) by (eapply good_after; [exact L1|apply IH]).
    destruct (_ || _); [apply exit_check_good|].
    destruct (match state_of s1 (t_src t) with Some Dead => true | _ => false end); [exact Hrec|].
    destruct (existsb (Z.eqb (t_src t)) (chars s1 ++ enemies s1)) eqn:EX; cbn [negb]; [|exact Hrec].
    destruct (has_flag s1 (t_src t) (t_abort t)); [exact Hrec|].
    pose proof (execute_task_srel f s1 t) as HT.
    destruct (execute_task cfg f s1 t) as [s2|s2|s2|] eqn:ET; cbn [good]; auto;
      try (eapply lrel_trans; [exact L1|apply srel_lrel; exact HT]).
    assert (L2 : lrel false s1 s2).
    { eapply srelN_lrel; [exact HT|]. intros i [<-|[]]. apply existsb_eqb_in in EX. apply in_app_or in EX. tauto. }
    destruct (death_check cfg f s2 false) as [s3|] eqn:ED; cbn [good]; auto.
    pose proof (death_check_rel _ _ _ _ ED) as L3.
    assert (L13 : lrel false s s3) by (eapply lrel_trans; [exact L1|]; eapply lrel_trans; eassumption).
    pose proof (exit_check_srel s3 _ eq_refl) as HE. destruct (exit_check cfg s3) as [s4|s4|s4|]; cbn [good]; auto; try contradiction.
    - subst s4. pose proof (ult_check_srel s3) as HU. destruct (ult_check s3) as [s5|s5|s5|]; cbn [good]; auto; try contradiction.
      + eapply good_after; [|apply IH]. eapply lrel_trans; [exact L13|]. apply srel_lrel, HU.
      + eapply lrel_trans; [exact L13|]. apply srel_lrel, HU.
    - eapply lrel_trans; [exact L13|]. apply srel_lrel. exact HE.
  Qed.

  Lemma execute_queue_good fuel s b : good false s (execute_queue cfg fuel s b).
  Proof.
    unfold execute_queue. pose proof (ult_check_srel s) as HU.
    destruct (ult_check s) as [s1|s1|s1|]; cbn [good]; auto; try contradiction.
    - assert (L1 : lrel false s s1) by (apply srel_lrel, HU).
      destruct (b && negb (is_char s1 (active_id s1))); (eapply good_after; [exact L1|]); [apply exit_check_good|apply drain_good].
    - apply srel_lrel, HU.
  Qed.

  (* ---- a turn ---- *)
  Lemma pairs_ids (st : list (Z * Z * float)) :
    map fst (map (fun x => (fst (fst x), snd (fst x))) st) = map (fun x => fst (fst x)) st.
  Proof. rewrite map_map. reflexivity. Qed.

  Lemma status_ids (t : tstate F) : map (fun x => fst (fst x)) (status F t) = ids (order t).
  Proof. unfold status, ids. rewrite map_map. reflexivity. Qed.

  Lemma pairs_clean D (t : tstate F) : (forall id, In id (ids (order t)) -> ~ In id D) ->
    forallb (fun p : Z * Z => negb (zin (fst p) D)) (map (fun x => (fst (fst x), snd (fst x))) (status F t)) = true.
  Proof.
    intros H. apply forallb_forall. intros p Hp. apply negb_true_iff, zin_false. apply H.
    rewrite <- status_ids, <- pairs_ids. apply in_map. exact Hp.
  Qed.

  Lemma ann_reset_events outs : ann (reset_events outs) = [].
  Proof.
    unfold reset_events. induction outs as [|o r IH]; [reflexivity|]. cbn [flat_map]. rewrite ann_app, IH.
    destruct o; reflexivity.
  Qed.

  Lemma srel_reset s :
    srel s (let '(t2, outs2) := Turn.step F (turn s) (@OReset F) in
            emit (set_turn s t2) (reset_events outs2 ++ [VPhase2Start])).
  Proof.
    destruct (Turn.step F (turn s) (@OReset F)) as [t2 outs2] eqn:ER.
    exists (reset_events outs2 ++ [VPhase2Start]).
    assert (SP : NoDup (turn_ids s) -> reset_spec F (turn s) t2 outs2) by (intros Hn; eapply reset_ok; [exact Hn|exact ER]).
    assert (PM : NoDup (turn_ids s) -> Permutation (ids (order t2)) (turn_ids s)).
    { intros Hn. specialize (SP Hn). unfold reset_spec in SP.
      destruct outs2 as [|o [|? ?]]; [contradiction| |destruct o; contradiction].
      destruct o; try contradiction.
      - destruct SP as (_ & _ & _ & _ & _ & _ & P & _). exact P.
      - destruct SP as [-> _]. apply Permutation_refl.
      - subst t2. apply Permutation_refl. }
    split; [reflexivity|].
    split.
    { rewrite ann_app, ann_reset_events. reflexivity. }
    split; [reflexivity|]. split; [reflexivity|].
    split.
    { intros Hn. unfold turn_ids at 1 2. cbn [turn emit set_turn].
      split; [eapply Permutation_NoDup; [apply Permutation_sym, PM, Hn|exact Hn]|apply PM, Hn]. }
    split; [auto|].
    intros Hn D HD _. specialize (SP Hn). specialize (PM Hn). unfold reset_spec in SP.
    destruct outs2 as [|o [|? ?]]; [contradiction| |destruct o; contradiction].
    destruct o; try contradiction; try reflexivity.
    destruct SP as (_ & _ & _ & _ & -> & _). cbn [reset_events flat_map app death_ok_from]. rewrite !andb_true_r.
    apply pairs_clean. intros i Hi Hd. destruct (HD i Hd) as (_ & _ & H3). apply H3.
    eapply Permutation_in; [exact PM|exact Hi].
  Qed.

  Lemma srel_turnend s : srel s (emit s [VTurnEnd (chars s) (enemies s)]).
  Proof.
    exists [VTurnEnd (chars s) (enemies s)]. repeat split; auto.
    intros _ D HD _. cbn [death_ok_from]. rewrite andb_true_r.
    apply (proj2 (cleanl_spec D _)). intros id Hin Hd. destruct (HD id Hd) as (H1 & H2 & H3).
    apply in_app_or in Hin. destruct Hin as [Hin|Hin]; contradiction.
  Qed.

  Lemma phase2_good fuel s : good true s (phase2 cfg fuel s).
  Proof.
    unfold phase2. pose proof (srel_reset s) as SR.
    destruct (Turn.step F (turn s) (@OReset F)) as [t2 outs2].
    set (s1 := emit (set_turn s t2) _) in *.
    eapply good_after; [apply srel_lrel; exact SR|].
    pose proof (execute_queue_good fuel s1 false) as HQ.
    destruct (execute_queue cfg fuel s1 false) as [s6|s6|s6|]; cbn [good] in *; auto; try (apply lrel_weaken; exact HQ).
    destruct (run_slot cfg fuel s6 LPhase2 (active_id s6) (active_id s6)) as [s6'|] eqn:ER2; cbn [good]; auto.
    destruct (death_check cfg fuel (emit s6' [VPhase2End]) true) as [s8|] eqn:ED; cbn [good]; auto.
    eapply good_after; [|apply exit_check_good].
    eapply lrel_trans; [apply lrel_weaken; exact HQ|].
    eapply lrel_trans; [apply srel_lrel; eapply srel_run_slot; exact ER2|].
    eapply lrel_trans; [apply srel_lrel; apply (srel_emit_neutral s6' [VPhase2End]); reflexivity|].
    eapply lrel_trans; [eapply death_check_rel; exact ED|].
    apply srel_lrel. apply srel_turnend.
  Qed.

  Lemma execute_action_gone fuel s id ins : gone s id -> execute_action cfg fuel s id ins = AOk s.
  Proof.
    unfold gone, state_of, execute_action. destruct (get_unit (units s) id) as [u|]; [|reflexivity].
    intros [H|H]; [|discriminate]. inversion H as [H']. rewrite H'. reflexivity.
  Qed.

  Lemma execute_action_lrel fuel s id ins s' : In id (turn_ids s) \/ gone s id ->
    execute_action cfg fuel s id ins = AOk s' -> lrel false s s'.
  Proof.
    intros [Hin|Hg] H.
    - pose proof (execute_action_srel fuel s id ins) as HA. rewrite H in HA.
      eapply srelN_lrel; [exact HA|]. intros i [<-|[]]. right. right. exact Hin.
    - rewrite (execute_action_gone fuel s id ins Hg) in H. inversion H; subst. apply lrel_refl.
  Qed.

  Lemma srel_turn_start s t' id av st tot : Turn.step F (turn s) (@OStart F) = (t', [EStart id av st tot]) ->
    srel s (emit (set_active (set_turn s t') id) [VTurnStart id av tot (map (fun x => (fst (fst x), snd (fst x))) st)])
    /\ (NoDup (turn_ids s) -> In id (ids (order t'))).
  Proof.
    intros ES.
    assert (SP : NoDup (turn_ids s) -> start_spec F (turn s) t' id av tot /\ st = status F t') by (intros Hn; eapply start_ok; [exact Hn|exact ES]).
    assert (PM : NoDup (turn_ids s) -> Permutation (ids (order t')) (turn_ids s) /\ In id (turn_ids s)).
    { intros Hn. destruct (SP Hn) as [(hd & Hhd & Hid & _ & _ & _ & _ & _ & _ & P & _) _]. split; [exact P|].
      subst id. apply in_map. exact Hhd. }
    split.
    - eexists [_]. split; [reflexivity|]. split; [reflexivity|]. split; [reflexivity|]. split; [reflexivity|].
      split.
      { intros Hn. destruct (PM Hn) as [P _]. unfold turn_ids at 1 2. cbn [turn emit set_turn set_active].
        split; [eapply Permutation_NoDup; [apply Permutation_sym, P|exact Hn]|exact P]. }
      split; [auto|].
      intros Hn D HD _. destruct (PM Hn) as [P Hin]. destruct (SP Hn) as [_ ->].
      cbn [death_ok_from]. rewrite andb_true_r. apply andb_true_intro. split.
      + apply negb_true_iff, zin_false. intros Hd. destruct (HD id Hd) as (_ & _ & H3). contradiction.
      + apply pairs_clean. intros i Hi Hd. destruct (HD i Hd) as (_ & _ & H3). apply H3.
        eapply Permutation_in; [exact P|exact Hi].
    - intros Hn. destruct (PM Hn) as [P Hin]. eapply Permutation_in; [apply Permutation_sym; exact P|exact Hin].
  Qed.

  Lemma one_turn_good fuel s : NoDup (turn_ids s) -> good true s (one_turn cfg fuel s).
  Proof.
    intros Hn. unfold one_turn.
    destruct (Turn.step F (turn s) (@OStart F)) as [t' outs] eqn:ES.
    destruct outs as [|o [|? ?]]; [apply lrel_refl| |destruct o; apply lrel_refl]. destruct o; try apply lrel_refl.
    destruct (match get_unit (units s) id with Some _ => false | None => true end); [apply lrel_refl|].
    destruct (srel_turn_start s t' id av st tot ES) as [S1 Hid]. specialize (Hid Hn).
    set (s1 := emit (set_active (set_turn s t') id) _) in *.
    assert (Hn1 : NoDup (turn_ids s1)) by (destruct S1 as (? & _ & _ & _ & _ & U & _); apply U; exact Hn).
    assert (Hid1 : In id (turn_ids s1)) by exact Hid.
    eapply good_after; [apply srel_lrel; exact S1|].
    destruct (run_slot cfg fuel (emit s1 [VPhase1Start]) LPhase1 id id) as [s2|] eqn:ER1; cbn [good]; auto.
    destruct (death_check cfg fuel s2 false) as [s3|] eqn:ED; cbn [good]; auto.
    assert (L13 : lrel false s1 s3).
    { eapply lrel_trans; [apply srel_lrel; apply (srel_emit_neutral s1 [VPhase1Start]); reflexivity|].
      eapply lrel_trans; [apply srel_lrel; eapply srel_run_slot; exact ER1|].
      eapply death_check_rel. exact ED. }
    destruct (has_flag s3 id [FLAG_DISABLE_ACTION]).
    { eapply good_after; [apply lrel_weaken; exact L13|apply phase2_good]. }
    destruct (is_enemy s3 id && has_flag s3 id [FLAG_BREAK_EXTEND]).
    { eapply good_after; [apply lrel_weaken; exact L13|].
      eapply good_after; [apply srel_lrel; apply (srel_emit_neutral s3 [VBreakExtend id]); reflexivity|apply phase2_good]. }
    pose proof (execute_queue_good fuel s3 true) as HQ.
    destruct (execute_queue cfg fuel s3 true) as [s4|s4|s4|]; cbn [good] in *; auto;
      try (apply lrel_weaken; eapply lrel_trans; eassumption).
    set (s4' := emit s4 [VPhase1End]).
    assert (L14 : lrel false s1 s4').
    { eapply lrel_trans; [exact L13|]. eapply lrel_trans; [exact HQ|].
      apply srel_lrel. apply srel_emit_neutral. reflexivity. }
    pose proof (execute_action_srel fuel s4' id false) as HA.
    destruct (execute_action cfg fuel s4' id false) as [s5|s5|s5|] eqn:EA; cbn [good]; auto;
      try (apply lrel_weaken; eapply lrel_trans; [exact L14|apply srel_lrel; exact HA]).
    assert (L45 : lrel false s4' s5).
    { eapply execute_action_lrel; [|exact EA]. destruct L14 as (x & R).
      destruct (r_turn_keep _ _ _ _ R Hn1 id Hid1) as [Q|Q]; [left; exact Q|right].
      apply (r_ann_gone _ _ _ _ R eq_refl). exact Q. }
    destruct (death_check cfg fuel s5 false) as [s5'|] eqn:ED2; cbn [good]; auto.
    eapply good_after; [|apply phase2_good]. apply lrel_weaken.
    eapply lrel_trans; [exact L14|]. eapply lrel_trans; [exact L45|]. eapply death_check_rel. exact ED2.
  Qed.

  Lemma turns_good : forall fuel s, NoDup (turn_ids s) -> good true s (turns cfg fuel s).
  Proof.
    induction fuel as [|f IH]; intros s Hn; cbn [turns]; [exact I|].
    pose proof (one_turn_good f s Hn) as H1.
    destruct (one_turn cfg f s) as [s'|s'|s'|]; cbn [good] in *; auto.
    eapply good_after; [exact H1|]. apply IH. destruct H1 as (x & R). apply (r_nodup _ _ _ _ R Hn).
  Qed.

  (* ---- the initial state ---- *)
  Lemma mk_units_ge : forall ds i x, In x (map uid (mk_units ds i)) -> i <= x.
  Proof.
    induction ds as [|d ds IH]; intros i x; cbn [mk_units map]; [intros []|].
    intros [<-|H]; [cbn; lia|]. specialize (IH _ _ H). lia.
  Qed.

  Lemma mk_units_nodup : forall ds i, NoDup (map uid (mk_units ds i)).
  Proof.
    induction ds as [|d ds IH]; intros i; cbn [mk_units map]; constructor; [|apply IH].
    intros H. apply mk_units_ge in H. cbn in H. lia.
  Qed.

  Lemma partition_perm (f : unit -> bool) : forall l,
    Permutation (map uid (filter f l) ++ map uid (filter (fun u => negb (f u)) l)) (map uid l).
  Proof.
    induction l as [|u l IH]; cbn [filter map app]; [constructor|].
    destruct (f u); cbn [negb map app].
    - constructor. exact IH.
    - eapply Permutation_trans; [apply Permutation_sym, Permutation_middle|]. constructor. exact IH.
  Qed.

  Lemma fold_set_speed_order_F ivs (t : tstate F) :
    order (fold_left (fun st (iv : Z * float) => set_speed F st (fst iv) (snd iv)) ivs t) = order t.
  Proof. revert t. induction ivs as [|iv ivs IH]; intros t; cbn; [reflexivity|]. rewrite IH. reflexivity. Qed.

  Lemma add_ids (l : list (Z * float)) :
    Permutation (ids (order (fst (Turn.step F (Turn.init F) (@OAdd F l))))) (map fst l).
  Proof.
    cbn [Turn.step fst order set_order]. rewrite fold_set_speed_order_F. cbn [order Turn.init app].
    eapply Permutation_trans; [apply ids_perm, Permutation_sym, resort_perm|].
    unfold ids. rewrite map_map. cbn [u_id]. apply Permutation_refl.
  Qed.

  Theorem death_trace fuel s : start cfg fuel = Stop s \/ start cfg fuel = Err s -> death_ok (trace s) = true.
  Proof.
    unfold start.
    set (us := mk_units (c_units cfg) 1).
    set (cs := map uid (filter uchar us)). set (es := map uid (filter (fun u => negb (uchar u)) us)).
    set (l := map (fun id => (id, Turn.lookup F _ id)) (cs ++ es)).
    pose proof (add_ids l) as PA.
    destruct (Turn.step F (Turn.init F) (@OAdd F l)) as [t1 outs] eqn:EA. cbn [fst] in PA.
    set (s0 := mkSim us cs es 3 t1 [] 0 0 None _ _ _ _ _ _).
    assert (Hl : NoDup (chars s0 ++ enemies s0)).
    { cbn [chars enemies s0]. eapply Permutation_NoDup; [apply Permutation_sym, (partition_perm uchar us)|apply mk_units_nodup]. }
    assert (Hn : NoDup (turn_ids s0)).
    { unfold turn_ids. cbn [turn s0]. eapply Permutation_NoDup; [apply Permutation_sym; exact PA|].
      unfold l. rewrite map_map. cbn [fst]. rewrite map_id. exact Hl. }
    set (rest := match run_slot cfg fuel s0 LBattle 0 0 with Some s1 => _ | None => OutOfFuel end).
    assert (G : good true s0 rest).
    { unfold rest. destruct (run_slot cfg fuel s0 LBattle 0 0) as [s1|] eqn:ER; [|exact I].
      eapply good_after; [apply srel_lrel; eapply srel_run_slot; exact ER|].
      eapply good_after; [apply srel_lrel; apply (srel_emit_neutral s1 [VBattleStart]); reflexivity|].
      pose proof (execute_queue_good fuel (emit s1 [VBattleStart]) true) as HQ.
      destruct (execute_queue cfg fuel (emit s1 [VBattleStart]) true) as [s2|s2|s2|]; try (apply good_weaken; exact HQ).
      eapply good_after; [apply lrel_weaken; exact HQ|]. apply turns_good.
      (* the turn order is still duplicate-free after the battle-start listeners and the first queue *)
      assert (L : lrel true s0 s2).
      { eapply lrel_trans; [apply srel_lrel; eapply srel_run_slot; exact ER|].
        eapply lrel_trans; [apply srel_lrel; apply (srel_emit_neutral s1 [VBattleStart]); reflexivity|].
        apply lrel_weaken. exact HQ. }
      destruct L as (x & R). apply (r_nodup _ _ _ _ R Hn). }
    intros H.
    assert (G' : lrel true s0 s) by (destruct H as [H|H]; rewrite H in G; exact G).
    destruct G' as (seg & R).
    unfold death_ok. rewrite (r_trace _ _ _ _ R). cbn [trace s0].
    rewrite death_ok_app. cbn [death_ok_from andb dead_after ann rev app].
    apply (r_ok _ _ _ _ R Hn Hl). intros id [].
  Qed.
End DeathTrace.
