CONFIG = {
    "id": "C10",
    "coq_targets": ["Gen/FormulasQueue.v", "Proofs/FormulasQueueProofs.v",
                    "Model/SimSkeleton.v", "Gen/RunSkeleton.v", "Model/SimSkeletonInterp.v", "Proofs/RunSkeletonProofs.v",
                    "Proofs/SimActiveFrame.v", "Proofs/RunSkeletonInterpProofs.v", "Props/C10.v", "Model/QueueCheck.v", "Model/DrainCheck.v", "Model/SimCheck.v"],
    "prop_files": ["Props/C10.v"],
    "gen": ["FormulasQueue", "RunSkeleton"],
    "components": [
        # the real queue.Handler through New/Insert/Pop/IsEmpty
        {"name": "queue", "modules": ["Model.Queue", "Model.QueueCheck"],
         "check": "check_case", "monitor": "monitor_case", "model_out": "model_out", "case_type": "case",
         "ops_path": [],             # the input term is the op list itself
         "n_quick": 800, "n_thorough": 20000, "shard": 200},
        # the real simulation.executeQueue (verif hook pkg/simulation/export_verif.go) on a real Simulation
        {"name": "drain", "modules": ["Model.Queue", "Model.DrainCheck"],
         "check": "check_case", "monitor": "monitor_case", "model_out": "model_out", "case_type": "case",
         "ops_path": [2],            # (units, action scripts, top-level ops)
         "n_quick": 800, "n_thorough": 20000, "shard": 200},
        # whole scripted battles (Model/Sim.v, shared with C03 C08 C09 C11: tools/props.d/C03.py describes the
        # component): the queue windows inside real turns, inserts queued from listeners, and inserts queued BEFORE the
        # battle starts (one battle in five: a BattleStart script that only queues insert abilities is issued when the
        # characters have been added) - startBattle must hand them to the first drain
        {"name": "sim", "modules": ["Base.NumOps", "Model.Turn", "Model.Sim", "Model.SimCheck"],
         "check": "check_case", "monitor": "monitor_case", "model_out": "monitor_detail",
         "case_type": "case", "ops_path": None, "mismatch_is_violation": False,
         "n_quick": 600, "n_thorough": 8000, "shard": 150},
    ],
    "rule": "queue: 8-70 Insert/Pop calls on the real queue.Handler keeping 3-30 tasks pending, priorities from the "
            "real InsertPriority constants plus {0,-1,75,76,2^40} (equal priorities are the norm; 1 case in 8 uses a "
            "single priority), 2 pops in 3 execute the task whose Execute inserts 1-3 further tasks (nested twice), "
            "pops down to and past empty; popped (id, priority, source, abort flags) and IsEmpty compared. "
            "drain: 4-30 top-level effects and drains on a real simulation.Simulation (NewSimulation, real attribute, "
            "modifier, enemy and queue services; 2 characters, 2 scripted enemies, 1 unregistered id that is never on the "
            "field): a unit taken off the field without dying (what the turn-end death check does to a unit in limbo; "
            "also empties a side so that the next drain must end the battle before taking anything), InsertAbility "
            "with any priority/source/abort flags and a script, InsertAction, HP to zero with or without a revive "
            "listener (dead/limbo), HP restored, behaviour flags attached/removed through registered modifiers; the "
            "scripts of executing inserts and action callbacks issue the same effects; compared: InsertStart/InsertEnd/"
            "ActionStart/ActionEnd/TargetDeath/Termination events, the Execute and action callbacks, executeQueue's "
            "result and IsEmpty; a case is non-trivial when distinct as an input term",
    "trusted": ["run loop, TRANSLATED from the Go source on every run (go2coq RunSkeleton -> Gen/RunSkeleton.v; types and pinned table Model/SimSkeleton.v; interpreter Model/SimSkeletonInterp.v; Proofs/RunSkeletonProofs.v, Proofs/RunSkeletonInterpProofs.v; theorem C10_run_skeleton_is_the_source): EVERY statement of EVERY function of pkg/simulation/run.go, action.go and death.go as an ordered step (emit with payload, call, bind, assignment, if / for / range / switch with the guard as normalised source text, return / tail call with the next state), plus the values of the integer constants they name; no statement is skipped, a statement or a nested effectful call outside the recognised shapes makes the translator fail closed (only listed effect-free queries may be nested in an expression). PINNED (table = hand-written expected table, reflexivity): all 22 functions - Run, initialize, startBattle, engage, beginTurn, phase1, action, phase2, endTurn, exitCheck, InsertAction, InsertAbility, InsertUlt, ultCheck, executeQueue, executeAction, executeUlt, executeInsert, clearActionTargets, deathCheck, kill, deathEvent. INTERPRETED (interpretation of the generated steps over the model's own state, outcome type and functions proved equal to the model for all cfg / fuel / states): engage, beginTurn, phase1, action, phase2, endTurn, and their chaining = Sim.one_turn (equal outcomes; equal traces on an error outcome), phase2+endTurn = Sim.phase2, engage = the battle-start drain of Sim.start",
                'run loop, still HAND-WRITTEN / trusted under the translator tie: the denotation tables of Model/SimSkeletonInterp.v (which model function a call / event / guard text stands for: sim.deathCheck -> death_check, sim.Modifier.Tick(.., ModifierPhase1/2) -> run_slot LPhase1/LPhase2, sim.executeQueue -> execute_queue with phase < info.ActionEnd decided on the generated constants, sim.exitCheck -> exit_check, sim.executeAction -> execute_action, Turn.StartTurn / ResetTurn -> Model/Turn.v) and its no-counterpart list (the TurnStart and ActionEnd modifier ticks, createSnapshot, the enemy stance reset of phase1: identity in the model); the BODIES of exitCheck, executeQueue, ultCheck, executeAction / executeUlt / executeInsert, deathCheck / kill / deathEvent, initialize, startBattle, Run are pinned only (their model counterparts exit_check, drain, ult_check, execute_action, death_check / announce, start are shaped differently: fuel recursion, filters instead of index loops, units built in one step) and stay tied by correspondence; everything the called services do (turn manager, attribute service, modifier manager, queue, event system, character / enemy managers, IsValid / IsCharacter / onField / CanUseUlt / createSnapshot) is outside the three files; event payload texts are pinned but not interpreted',
                "TRANSLATED from the Go source on every run and proved equal to the model (Gen/FormulasQueue.v; "
        "Proofs/FormulasQueueProofs.v; theorem C10_model_formulas_are_the_source): queue.minHeap.Less (priority, "
        "then insertion id), every info.InsertPriority value (the model uses CharInsertAction and "
        "EnemyInsertAction), BehaviorFlag_STAT_CTRL and BehaviorFlag_DISABLE_ACTION (the abort flags of an "
        "inserted action)",
        "still HAND-WRITTEN (correspondence only): Insert / Pop through container/heap, the drain loop, the drop "
        "rules",
        "translator (harness/cmd/go2coq formulas.go, formulas_specs.go): trusted are the Go front end "
        "(go/packages, go/types, go/constant), the fixed whitelist and accessor tables (which Go field / method is "
        "which model accessor), the statement translation listed at the top of formulas.go, and that lit N n d "
        "(the correctly rounded quotient of two integers below 2^53) is the binary64 the Go compiler stores for "
        "the literal n/d; the translator fails closed (unknown construct, added or missing assignment, changed "
        "signature: go2coq exits 1 and the check reports a broken translator obligation)","container/heap: the theorems are stated over the abstract pop-min (Model/Queue.v); the array heap with "
                "container/heap's up/down loops (transcribed from the Go 1.23 source into Model/QueueHeap.v) is proved to "
                "refine it for every interleaving (Proofs/QueueHeapProofs.v) and is also run against the real "
                "queue.Handler by the correspondence check; what stays trusted is that transcription",
                "the drain model has no neutral units (sim.neutrals is always empty in the harness): onField = member of "
                "the living character or enemy list",
                "drain harness content: inserted actions are issued for enemy-class units and unregistered ids only "
                "(an alive character would need registered character content); ultCheck sees an evaluator that never "
                "requests an ult; the cycle limit is out of reach"],
    "assumptions": ["drain theorems are stated for runs on which the model's fuel does not run out; fuel mu(s)+1 is proved "
                    "to suffice (C10_drain_never_runs_out_of_fuel); the case checker uses fuel 2000 for at most ~60 tasks"],
    "manifest": {
        "level_text": "Translator tie (way 1): the queue order and the insert priorities / abort flags are regenerated from queue/queue.go, info/queue.go and pkg/model on every run (go2coq FormulasQueue) and proved EQUAL to the model's definitions; "
                      "Kernel-checked theorems over an executable Gallina model of the insert queue and of the "
                      "executeQueue drain (all interleavings of inserts and pops, inserts issued by executing inserts, "
                      "all life states and flags), tied to the Go code by exact correspondence on the real "
                      "queue.Handler and on the real executeQueue, plus trace monitors on the implementation.",
        "level_note": "go2coq RunSkeleton translator (run.go, action.go, death.go -> step table) + pinned table + interpreter Model/SimSkeletonInterp.v + kernel-checked equality with Sim.one_turn; " "go2coq FormulasQueue translator + kernel-checked equalities generated = model; "
                      "Coq kernel; hand-written models Model/Queue.v and Model/QueueHeap.v (array heap proved to refine "
                      "pop-min); correspondence harness; add-only verif hook pkg/simulation/export_verif.go.",
        "technique": "source-to-Coq translation of the run loop into a step table, pinned and interpreted (state functions of a turn = Sim.one_turn) + " "source-to-Coq translation of the order and constants with equality proofs + "
                     "Coq proof (strict total order, minimum by invariant, invariants over op lists and drain "
                     "iterations) + model/implementation correspondence + monitors",
        "design_ref": "DESIGN.md section 7, C10",
    },
}
