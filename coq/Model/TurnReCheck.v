(* Correspondence checker and property monitor for the turn manager WITH re-entrant listeners
   (float instance of Model/TurnRe.v). *)
From Coq Require Import List ZArith Bool Floats.
From SR Require Import Base.CaseLib Base.NumOps Model.Turn Model.TurnRe Model.TurnCheck.
Import ListNotations.
Open Scope Z_scope.

Notation fslots := (slots FloatOps).
Notation ftitem := (titem FloatOps).

(* input: the listener slots and the top-level history; output: the recorded trace *)
Definition case := (fslots * list fop * list ftitem)%type.

Inductive mout := MDone (t : list ftitem) | MOutOfFuel | MIllegal.

Definition model_out (c : case) : mout :=
  let '(q, ops, _) := c in
  match runL FloatOps (S (total_ops FloatOps q)) q (init FloatOps) ops with
  | Done (_, _, t) => MDone t
  | OutOfFuel => MOutOfFuel
  | Illegal => MIllegal
  end.

Definition iv_eqb (a b : Z * float) : bool := (fst a =? fst b) && feqb_bits (snd a) (snd b).

Definition op_eqb (a b : fop) : bool :=
  match a, b with
  | Turn.OAdd l, Turn.OAdd l' => list_eqb iv_eqb l l'
  | Turn.ORemove i, Turn.ORemove i' => i =? i'
  | Turn.OStart, Turn.OStart => true
  | Turn.OReset, Turn.OReset => true
  | Turn.OSetGauge i x, Turn.OSetGauge i' x' => (i =? i') && feqb_bits x x'
  | Turn.OModNorm i x, Turn.OModNorm i' x' => (i =? i') && feqb_bits x x'
  | Turn.OModAV i x, Turn.OModAV i' x' => (i =? i') && feqb_bits x x'
  | Turn.OSetCost x, Turn.OSetCost x' => feqb_bits x x'
  | Turn.OModCost x, Turn.OModCost x' => feqb_bits x x'
  | Turn.OSetSpeed i x, Turn.OSetSpeed i' x' => (i =? i') && feqb_bits x x'
  | _, _ => false
  end.

Definition pg := list (Z * Z).
Definition ig_eqb (a b : Z * Z) : bool := (fst a =? fst b) && (snd a =? snd b).
Definition pg_eqb (a b : pg) : bool := list_eqb ig_eqb a b.
Definition probe_eqb (a b : pg * float) : bool := pg_eqb (fst a) (fst b) && feqb_bits (snd a) (snd b).

(* a Go panic ends the run: nothing after the first panic is compared (the manager's fields were
   half-written when it panicked) *)
Fixpoint trace_eqb (a b : list ftitem) : bool :=
  match a, b with
  | [], [] => true
  | TCall o :: a', TCall o' :: b' => op_eqb o o' && trace_eqb a' b'
  | TEv e :: a', TEv e' :: b' => out_eqb e e' && trace_eqb a' b'
  | TRet r p :: a', TRet r' p' :: b' =>
      if has_panic r then has_panic r'
      else list_eqb out_eqb r r' && probe_eqb p p' && trace_eqb a' b'
  | _, _ => false
  end.

Definition check_case (c : case) : bool :=
  match model_out c with
  | MDone t => trace_eqb t (snd c)
  | _ => false
  end.

(* ---- property monitor on the implementation's own trace (float level), independent of the model
   run.  The trace is read with a stack of open calls (op, has it emitted yet).  [last] is the last
   id/gauge list seen (an event's turn order or a probe), [tot] the last clock, [cst] the last
   known gauge cost.  Per call, outer or nested:
   - the event it emits belongs to its operation; its turn order has no negative gauge and no
     negative or NaN action value; a gauge change names the right unit, reports as old the gauge
     seen last and as new (>= 0, different) the gauge in the order it carries, and no OTHER unit's
     gauge or the membership differs from what was seen last; a reset changes only the reset unit,
     to max 0 (trunc (10000 x cost)) for the cost seen last; an addition leaves every present
     unit's gauge alone and enters the new ones with the base gauge; a cost change reports as old
     the cost seen last; after an addition, a reset and a gauge change the reported order is sorted
     by action value; TIES in the documented order: a changed unit has in front of it only units of
     strictly smaller action value - except, while a turn is open ([act]: between a successful turn
     start and the TurnReset announcement), one unit of equal action value (the acting unit keeps
     the front); the unit reset at the end of its action goes BEHIND every unit it ties with;
   - a turn start (top level only) returns the head of the order it reports, at gauge 0, with a
     non-negative elapsed value that is added to the clock, no gauge grows, membership unchanged;
   - AFTER its emission a call writes nothing: the probe at its return is what was seen last (its
     own event's order or, when its listener called the manager, the probe at the last nested
     return); a call that emits nothing leaves everything as it was (a removal: exactly that
     unit gone);
   - only a turn start changes the clock; listener calls never start / end a turn or add units. *)
Fixpoint pgauge (l : pg) (id : Z) : option Z :=
  match l with
  | [] => None
  | (i, g) :: r => if i =? id then Some g else pgauge r id
  end.
Fixpoint premove (l : pg) (id : Z) : pg :=
  match l with
  | [] => []
  | (i, g) :: r => if i =? id then r else (i, g) :: premove r id
  end.
Definition proj_st (st : list (Z * Z * float)) : pg := map (fun '(i, g, _) => (i, g)) st.

(* same members; every unit other than [id] keeps its gauge *)
Definition frame (id : Z) (old new : pg) : bool :=
  (Nat.eqb (length old) (length new)) &&
  forallb (fun '(i, g) => match pgauge old i with
                          | Some g0 => (i =? id) || (g0 =? g)
                          | None => false
                          end) new.

Definition feq (a b : float) : bool := feqb_bits a b.

Definition reset_gauge (c : float) : Z := Z.max 0 (ftoZ (PrimFloat.mul (Z2F 10000) c)).

Fixpoint av_sorted (st : list (Z * Z * float)) : bool :=
  match st with
  | (_, _, v) :: (((_, _, w) :: _) as r) => PrimFloat.leb v w && av_sorted r
  | _ => true
  end.

(* the units in front of [id], and behind it, in a reported order *)
Fixpoint front_of (st : list (Z * Z * float)) (id : Z) : list (Z * Z * float) :=
  match st with
  | [] => []
  | (i, g, v) :: r => if i =? id then [] else (i, g, v) :: front_of r id
  end.
Fixpoint behind_of (st : list (Z * Z * float)) (id : Z) : list (Z * Z * float) :=
  match st with
  | [] => []
  | (i, _, _) :: r => if i =? id then r else behind_of r id
  end.
Fixpoint av_in (st : list (Z * Z * float)) (id : Z) : option float :=
  match st with
  | [] => None
  | (i, _, v) :: r => if i =? id then Some v else av_in r id
  end.

Definition gauge_tie_ok (act : bool) (id : Z) (st : list (Z * Z * float)) : bool :=
  match av_in st id with
  | None => false
  | Some v =>
      match filter (fun '(_, _, w) => negb (PrimFloat.ltb w v)) (front_of st id) with
      | [] => true
      | [(_, _, w)] => act && PrimFloat.eqb w v
      | _ => false
      end
  end.

Definition reset_tie_ok (id : Z) (st : list (Z * Z * float)) : bool :=
  match av_in st id with
  | None => true
  | Some v => forallb (fun '(_, _, w) => PrimFloat.ltb v w) (behind_of st id)
  end.

Definition ev_ok (act : bool) (last : pg) (cst : float) (o : fop) (e : fout) : bool :=
  match o, e with
  | Turn.OAdd ivs, Turn.EAdded ids st =>
      list_eqb Z.eqb (map fst ivs) ids && st_ok st && av_sorted st &&
      Nat.eqb (length st) (length last + length ids) &&
      forallb (fun '(i, g) => match pgauge last i with
                              | Some g0 => g0 =? g
                              | None => existsb (Z.eqb i) ids && (g =? 10000)
                              end) (proj_st st)
  | Turn.OReset, Turn.EReset id c st =>
      (* no sort happens when the acting unit has left the order *)
      st_ok st && match av_in st id with Some _ => av_sorted st | None => true end &&
      reset_tie_ok id st && feq c cst && frame id last (proj_st st) &&
      match pgauge (proj_st st) id with Some g => g =? reset_gauge c | None => true end
  | Turn.OSetGauge id _, Turn.EGauge id' old new st
  | Turn.OModNorm id _, Turn.EGauge id' old new st
  | Turn.OModAV id _, Turn.EGauge id' old new st =>
      (id =? id') && st_ok st && av_sorted st && gauge_tie_ok act id st && (0 <=? new) && negb (old =? new) &&
      match pgauge last id with Some g => g =? old | None => false end &&
      match pgauge (proj_st st) id with Some g => g =? new | None => false end &&
      frame id last (proj_st st)
  | Turn.OSetCost _, Turn.ECost old new
  | Turn.OModCost _, Turn.ECost old new => feq old cst && negb (PrimFloat.eqb old new)
  | _, _ => false
  end.

Definition last_after (last : pg) (e : fout) : pg :=
  match e with
  | Turn.EAdded _ st | Turn.EReset _ _ st | Turn.EGauge _ _ _ st => proj_st st
  | _ => last
  end.
Definition cost_after (cst : float) (e : fout) : float :=
  match e with Turn.ECost _ new => new | _ => cst end.

(* a call that returns without having emitted *)
Definition quiet_ret_ok (last : pg) (tot : float) (o : fop) (rt : list fout) (p : pg * float) : bool :=
  match o, rt with
  | Turn.OStart, [Turn.EStart id av st tot'] =>
      st_ok st && fnonneg av &&
      match st with (i, g, _) :: _ => (i =? id) && (g =? 0) | [] => false end &&
      pg_eqb (fst p) (proj_st st) && feq tot' (PrimFloat.add tot av) && feq (snd p) tot' &&
      Nat.eqb (length st) (length last) &&
      forallb (fun '(i, g) => match pgauge last i with Some g0 => g <=? g0 | None => false end) (proj_st st)
  | Turn.OStart, [Turn.EErr] | Turn.OReset, [Turn.EErr] => pg_eqb (fst p) last && feq (snd p) tot
  | Turn.OSetGauge _ _, [] | Turn.OModNorm _ _, [] | Turn.OModAV _ _, []
  | Turn.OSetCost _, [] | Turn.OModCost _, [] | Turn.OSetSpeed _ _, [] => pg_eqb (fst p) last && feq (snd p) tot
  | Turn.OSetGauge id _, [Turn.EErr] | Turn.OModNorm id _, [Turn.EErr] | Turn.OModAV id _, [Turn.EErr]
  | Turn.ORemove id, [Turn.EErr] =>
      pg_eqb (fst p) last && feq (snd p) tot && match pgauge last id with None => true | _ => false end
  | Turn.ORemove id, [] =>
      pg_eqb (fst p) (premove last id) && feq (snd p) tot && match pgauge last id with None => false | _ => true end
  | _, _ => false
  end.

Definition act_after_ev (act : bool) (e : fout) : bool :=
  match e with Turn.EReset _ _ _ => false | _ => act end.

Fixpoint monitor_trace (act : bool) (last : pg) (tot cst : float) (stk : list (fop * bool)) (t : list ftitem) : bool :=
  match t with
  | [] => match stk with [] => true | _ => false end
  | TCall o :: r =>
      match stk with [] => true | _ => listener_legal FloatOps o end &&
      monitor_trace act last tot cst ((o, false) :: stk) r
  | TEv e :: r =>
      match stk with
      | (o, false) :: k =>
          ev_ok (act_after_ev act e) last cst o e &&
          monitor_trace (act_after_ev act e) (last_after last e) tot (cost_after cst e) ((o, true) :: k) r
      | _ => false
      end
  | TRet rt p :: r =>
      match stk with
      | (o, em) :: k =>
          if has_panic rt then
            (* the only panic of a legal history: a turn start with no unit at all *)
            match o, last, k with Turn.OStart, [], [] => negb em | _, _, _ => false end
          else
            (if em then match rt with [] => pg_eqb (fst p) last && feq (snd p) tot | _ => false end
             else quiet_ret_ok last tot o rt p) &&
            monitor_trace (match o, rt with Turn.OStart, [Turn.EStart _ _ _ _] => true | _, _ => act end)
              (fst p) (snd p)
              (match o, rt with Turn.OStart, [Turn.EStart _ _ _ _] => Z2F 1 | _, _ => cst end) k r
      | [] => false
      end
  end.

Definition monitor_case (c : case) : bool := monitor_trace false [] (Z2F 0) (Z2F 1) [] (snd c).

(* float-typed names for the harness-written case files (must stay at the end) *)
Module ReCaseNames.
  Definition mkQ : list (list fop) -> list (list fop) -> list (list fop) -> list (list fop) -> fslots :=
    @TurnRe.mkQ FloatOps.
  Definition TCall : fop -> ftitem := @TurnRe.TCall FloatOps.
  Definition TEv : fout -> ftitem := @TurnRe.TEv FloatOps.
  Definition TRet : list fout -> list (Z * Z) * float -> ftitem := @TurnRe.TRet FloatOps.
End ReCaseNames.
Export ReCaseNames.
Export TurnCheck.CaseNames.
