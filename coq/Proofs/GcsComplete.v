(* C14, completeness of the parser model: every sentence of the gcs grammar [DP] of
   Proofs/GcsSound.v - redundant parentheses, map entries in any order (field names pairwise
   distinct), the default of a switch (at most one) at any position, `for c ; {` ... - is
   accepted by parse.New(src).Parse(), with
   the tree of the derivation.

   * fuel: every parser function is monotone in its fuel ([fuel_mono]: a result other than
     "out of fuel" does not change when more fuel is given), so the completeness lemmas only
     say "for every large enough fuel" ([Ev]); C13 ([parser_all]) shows that the fuel of Parse
     is never exhausted, hence large enough;
   * expressions: by induction on the DERIVATION ([D_mutind]), in continuation form: if the
     tokens [ts] derive [e] at level [m], then [p_expr pre] on [ts ++ rest] behaves like the
     infix loop started with the left operand [e] at [rest] ([P_DE]); no spine decomposition
     is needed;
   * statements, blocks, switch entries, map entries: one case per grammar rule;
   * programs: [rows_complete] on a prefetched state, transferred to the lazy [parse_input]
     with the prefetch bridge (Proofs/GcsBridge.v): [C14_complete_holds];
   * with soundness: [C14_exact_holds] (Parse accepts exactly the sentences of the grammar),
     [C14_reject_exact_holds] and [C14_unambiguous_holds] (a token sequence has at most one tree);
   * [DP_same_tok]: the grammar looks only at the type and the text of a token;
   * non-vacuity: completeness applied to GcsSound.demo_derives / GcsSound.demo_src. *)
From Coq Require Import List ZArith Bool String Ascii Lia Floats.
From SR Require Import Base.CaseLib Model.GcsAst Model.GcsUnicode Model.GcsLex Model.GcsNum
  Model.GcsParse Model.GcsSpec Proofs.GcsLexProofs Proofs.GcsParseProofs Proofs.GcsRoundTrip
  Proofs.GcsBridge Proofs.GcsStmtRoundTrip Proofs.GcsSound.
Import ListNotations.
Open Scope Z_scope.

(* ================================================================== *)
(* 1. the parser functions are monotone in the fuel                    *)
(* ================================================================== *)
Definition leR {X} (r1 r2 : PR X) : Prop := r1 = RFuel \/ r1 = r2.

Lemma leR_refl : forall X (r : PR X), leR r r.
Proof. intros X r. right. reflexivity. Qed.
Lemma leR_bind : forall X Y (e1 e2 : PR X) (k1 k2 : X -> pstate -> PR Y),
  leR e1 e2 -> (forall a s, leR (k1 a s) (k2 a s)) -> leR (bindP e1 k1) (bindP e2 k2).
Proof.
  intros X Y e1 e2 k1 k2 [H|H] K.
  - left. rewrite H. reflexivity.
  - subst e2. destruct e1 as [a s|s| |]; cbn [bindP]; try apply leR_refl. apply K.
Qed.

Section M.
Variable inp : input.

Definition M_expr n := forall m pre s, (n <= m)%nat -> leR (p_expr inp n pre s) (p_expr inp m pre s).
Definition M_infix n := forall m pre l s, (n <= m)%nat -> leR (p_infix_loop inp n pre l s) (p_infix_loop inp m pre l s).
Definition M_prefix n := forall m pf s, (n <= m)%nat -> leR (p_prefix inp n pf s) (p_prefix inp m pf s).
Definition M_map n := forall m a f s, (n <= m)%nat -> leR (p_map_loop inp n a f s) (p_map_loop inp m a f s).
Definition M_binary n := forall m l s, (n <= m)%nat -> leR (p_binary inp n l s) (p_binary inp m l s).
Definition M_call n := forall m f s, (n <= m)%nat -> leR (p_call inp n f s) (p_call inp m f s).
Definition M_call_args n := forall m s, (n <= m)%nat -> leR (p_call_args inp n s) (p_call_args inp m s).
Definition M_call_args_loop n := forall m a s, (n <= m)%nat -> leR (p_call_args_loop inp n a s) (p_call_args_loop inp m a s).
Definition M_fn n := forall m b s, (n <= m)%nat -> leR (p_fn inp n b s) (p_fn inp m b s).
Definition M_fn_args n := forall m a s, (n <= m)%nat -> leR (p_fn_args inp n a s) (p_fn_args inp m a s).
Definition M_block n := forall m s, (n <= m)%nat -> leR (p_block inp n s) (p_block inp m s).
Definition M_block_loop n := forall m a s, (n <= m)%nat -> leR (p_block_loop inp n a s) (p_block_loop inp m a s).
Definition M_statement n := forall m s, (n <= m)%nat -> leR (p_statement inp n s) (p_statement inp m s).
Definition M_let n := forall m s, (n <= m)%nat -> leR (p_let inp n s) (p_let inp m s).
Definition M_assign n := forall m s, (n <= m)%nat -> leR (p_assign inp n s) (p_assign inp m s).
Definition M_return n := forall m s, (n <= m)%nat -> leR (p_return inp n s) (p_return inp m s).
Definition M_ctrl n := forall m s, (n <= m)%nat -> leR (p_ctrl inp n s) (p_ctrl inp m s).
Definition M_if n := forall m s, (n <= m)%nat -> leR (p_if inp n s) (p_if inp m s).
Definition M_switch n := forall m s, (n <= m)%nat -> leR (p_switch inp n s) (p_switch inp m s).
Definition M_switch_loop n := forall m c cs d s, (n <= m)%nat -> leR (p_switch_loop inp n c cs d s) (p_switch_loop inp m c cs d s).
Definition M_case_body n := forall m s, (n <= m)%nat -> leR (p_case_body inp n s) (p_case_body inp m s).
Definition M_case_body_loop n := forall m a s, (n <= m)%nat -> leR (p_case_body_loop inp n a s) (p_case_body_loop inp m a s).
Definition M_while n := forall m s, (n <= m)%nat -> leR (p_while inp n s) (p_while inp m s).
Definition M_for n := forall m s, (n <= m)%nat -> leR (p_for inp n s) (p_for inp m s).
Definition M_rows n := forall m a s, (n <= m)%nat -> leR (p_rows inp n a s) (p_rows inp m a s).

Record MALL (n : nat) : Prop := mkM {
  m_expr : M_expr n; m_infix : M_infix n; m_prefix : M_prefix n; m_map : M_map n;
  m_binary : M_binary n; m_call : M_call n; m_call_args : M_call_args n;
  m_call_args_loop : M_call_args_loop n; m_fn : M_fn n; m_fn_args : M_fn_args n;
  m_block : M_block n; m_block_loop : M_block_loop n; m_statement : M_statement n;
  m_let : M_let n; m_assign : M_assign n; m_return : M_return n; m_ctrl : M_ctrl n;
  m_if : M_if n; m_switch : M_switch n; m_switch_loop : M_switch_loop n;
  m_case_body : M_case_body n; m_case_body_loop : M_case_body_loop n;
  m_while : M_while n; m_for : M_for n; m_rows : M_rows n }.

Lemma MALL_0 : MALL 0.
Proof. constructor; red; intros; left; reflexivity. Qed.

Ltac mauto :=
  repeat first
  [ assumption
  | match goal with
    | |- leR ?x ?x => apply leR_refl
    | |- leR (bindP _ _) (bindP _ _) => apply leR_bind; [|intros ? ?]
    | |- leR (if ?c then _ else _) (if ?c then _ else _) => destruct c
    | |- leR (match ?x with _ => _ end) (match ?x with _ => _ end) => destruct x
    | H : forall _, _ |- leR (?f inp ?n _ _ _ _ ?s1) (?f inp ?m _ _ _ _ ?s1) => apply H
    | H : forall _, _ |- leR (?f inp ?n _ _ _ ?s1) (?f inp ?m _ _ _ ?s1) => apply H
    | H : forall _, _ |- leR (?f inp ?n _ _ ?s1) (?f inp ?m _ _ ?s1) => apply H
    | H : forall _, _ |- leR (?f inp ?n _ ?s1) (?f inp ?m _ ?s1) => apply H
    | H : forall _, _ |- leR (?f inp ?n ?s1) (?f inp ?m ?s1) => apply H
    end ].

Lemma MALL_S : forall n, MALL n -> MALL (S n).
Proof.
  intros n [].
  unfold M_expr, M_infix, M_prefix, M_map, M_binary, M_call, M_call_args, M_call_args_loop, M_fn,
    M_fn_args, M_block, M_block_loop, M_statement, M_let, M_assign, M_return, M_ctrl, M_if, M_switch,
    M_switch_loop, M_case_body, M_case_body_loop, M_while, M_for, M_rows in *.
  constructor; red; intros;
    match goal with Hle : (S n <= ?m)%nat |- _ =>
      destruct m as [|m']; [exfalso; lia|]; assert (Hle' : (n <= m')%nat) by lia; clear Hle end;
    simpl; mauto.
Qed.

Theorem fuel_mono_all : forall n, MALL n.
Proof. induction n; [apply MALL_0|apply MALL_S; assumption]. Qed.

(* a result other than "out of fuel" is also the result with more fuel *)
Lemma rows_mono : forall n m acc s, (n <= m)%nat -> p_rows inp n acc s <> RFuel ->
  p_rows inp m acc s = p_rows inp n acc s.
Proof.
  intros n m acc s Hle Hne. destruct (m_rows _ (fuel_mono_all n) m acc s Hle) as [H|H]; [contradiction|].
  symmetry. exact H.
Qed.

End M.

(* ================================================================== *)
(* 2. facts about the grammar: first and second tokens                 *)
(* ================================================================== *)

(* tokens that can begin a statement *)
Definition nstart (k : toktype) : bool :=
  match prefix_of k with
  | Some _ => true
  | None =>
      match k with
      | KeywordLet | KeywordReturn | KeywordBreak | KeywordContinue | KeywordFallthrough | KeywordIf
      | KeywordWhile | KeywordFor | KeywordSwitch | ItemLeftBrace => true
      | _ => false
      end
  end.

Lemma nstart_props : forall k, nstart k = true ->
  k <> ItemRightBrace /\ k <> ItemEOF /\ k <> KeywordElse /\ k <> KeywordCase /\ k <> KeywordDefault.
Proof. intros k H. destruct k; try discriminate H; repeat split; discriminate. Qed.

Lemma prefix_nstart : forall k, prefix_of k <> None -> nstart k = true.
Proof. intros k H. unfold nstart. destruct (prefix_of k); [reflexivity|contradiction]. Qed.

Lemma DBlock_head : forall b tb, DBlock b tb -> exists t r, tb = t :: r /\ lt_typ t = ItemLeftBrace.
Proof. intros b tb H. destruct H as [tl nodes ts tr Hl _ _]. eexists _, _. split; [reflexivity|exact Hl]. Qed.

Lemma DStmt_first : forall s ts, DStmt s ts -> exists t r, ts = t :: r /\ nstart (lt_typ t) = true.
Proof.
  intros s ts H. destruct H;
    try (eexists _, _; split; [reflexivity|];
         match goal with Ht : lt_typ ?t = _ |- nstart (lt_typ ?t) = true => rewrite Ht; reflexivity end).
  - (* ctrl *)
    eexists _, _. split; [reflexivity|].
    match goal with Hc : ctrl_of (lt_typ ?t) = Some _ |- _ => destruct (lt_typ t); try discriminate Hc; reflexivity end.
  - (* block *)
    match goal with Hb : DBlock _ _ |- _ => destruct (DBlock_head _ _ Hb) as (t & r & E & Ht) end.
    exists t, r. split; [exact E|]. rewrite Ht. reflexivity.
Qed.

Lemma DNode_first : forall x ts, DNode x ts -> exists t r, ts = t :: r /\ nstart (lt_typ t) = true.
Proof.
  intros x ts H. destruct H as [e ts tsemi HD _ _|s ts tsemi HS _ _|s ts HS _].
  - destruct (DE_first _ _ _ HD) as (t & r & E & Hp). subst ts.
    exists t, (r ++ [tsemi]). split; [reflexivity|apply prefix_nstart; exact Hp].
  - destruct (DStmt_first _ _ HS) as (t & r & E & Hn). subst ts.
    exists t, (r ++ [tsemi]). split; [reflexivity|exact Hn].
  - apply (DStmt_first _ _ HS).
Qed.

Lemma DNodes_follow : forall xs ts rest, DNodes xs ts -> follow rest -> follow (ts ++ rest).
Proof.
  intros xs ts rest H Hf. destruct H as [|x tx xs ts Hx _]; [exact Hf|].
  destruct (DNode_first _ _ Hx) as (t & r & E & Hn). subst tx.
  exists t, ((r ++ ts) ++ rest). split; [reflexivity|]. apply nstart_props in Hn. tauto.
Qed.

(* what the token after a leading identifier of an expression is not *)
Definition second_ok (ts' : list ltoken) : Prop :=
  match ts' with [] => True | t2 :: _ => lt_typ t2 <> ItemAssign end.

Lemma DE_second : forall m e t1 ts', DE m e (t1 :: ts') -> lt_typ t1 = ItemIdentifier -> second_ok ts'.
Proof.
  assert (K := D_mutind
    (fun _ _ ts => forall t1 ts', ts = t1 :: ts' -> lt_typ t1 = ItemIdentifier -> second_ok ts')
    (fun _ ts => forall t1 ts', ts = t1 :: ts' -> lt_typ t1 = ItemIdentifier -> second_ok ts')
    (fun _ _ => True) (fun _ _ => True)
    (fun _ _ _ => True) (fun _ _ => True) (fun _ _ => True) (fun _ _ => True) (fun _ _ => True)
    (fun _ _ => True) (fun _ _ => True) (fun _ _ => True) (fun _ _ => True)).
  cbv beta in K.
  assert (G : forall m e ts, DE m e ts ->
            forall t1 ts', ts = t1 :: ts' -> lt_typ t1 = ItemIdentifier -> second_ok ts').
  { apply K; clear K; intros; try exact I;
      try match goal with E : [_] = _ :: _ |- _ => inversion E; subst; exact I end;
      try match goal with E : _ :: _ = _ :: _ |- _ => inversion E; subst; try congruence end.
    - (* bare *) eauto.
    - (* unary *) match goal with H : _ \/ _ |- _ => destruct H; congruence end.
    - (* binary *)
      match goal with HD : DE _ _ ?tl, E : ?tl ++ _ = _ :: _ |- _ =>
        destruct (DE_first _ _ _ HD) as (a0 & b0 & E0 & _); subst tl; cbn [app] in E; inversion E; subst end.
      match goal with IH : forall t1 ts', ?x :: ?y = t1 :: ts' -> _ |- _ =>
        specialize (IH _ _ eq_refl ltac:(assumption)) end.
      destruct b0 as [|t2 b0]; cbn [app second_ok] in *; [|assumption].
      intro E2. match goal with Hin : infix_of _ = Some IfBinary |- _ => rewrite E2 in Hin; discriminate Hin end.
    - (* call *)
      match goal with HD : DE _ _ ?tl, E : ?tl ++ _ = _ :: _ |- _ =>
        destruct (DE_first _ _ _ HD) as (a0 & b0 & E0 & _); subst tl; cbn [app] in E; inversion E; subst end.
      match goal with IH : forall t1 ts', ?x :: ?y = t1 :: ts' -> _ |- _ =>
        specialize (IH _ _ eq_refl ltac:(assumption)) end.
      destruct b0 as [|t2 b0]; cbn [app second_ok] in *; [|assumption].
      congruence. }
  intros m e t1 ts' H Hi. exact (G _ _ _ H _ _ eq_refl Hi).
Qed.

Lemma DArgsT_head : forall es ts, DArgsT es ts -> exists t r, ts = t :: r /\ tok_prec (lt_typ t) = 1.
Proof.
  intros es ts H. destruct H as [tr Hr|tc e te es ts Hc _ _]; eexists _, _; (split; [reflexivity|]).
  - rewrite Hr. reflexivity.
  - rewrite Hc. reflexivity.
Qed.

Lemma DEntry_first : forall k e ts, DEntry k e ts ->
  exists t r, ts = t :: r /\ lt_typ t <> ItemRightSquareParen.
Proof.
  intros k e ts H. destruct H as [tid teq v tv Hi _ _|e te HD].
  - eexists _, _. split; [reflexivity|]. rewrite Hi. discriminate.
  - destruct (DE_first _ _ _ HD) as (t & r & E & Hp). exists t, r. split; [exact E|].
    intro E2. rewrite E2 in Hp. apply Hp. reflexivity.
Qed.
Lemma DEntries_first : forall es ts, DEntries es ts ->
  exists t r, ts = t :: r /\ lt_typ t <> ItemRightSquareParen.
Proof.
  intros es ts H. destruct H as [k e te tr He _|k e te tc es ts He _ _];
    destruct (DEntry_first _ _ _ He) as (t & r & E & Hn); subst te; eexists _, _; (split; [reflexivity|exact Hn]).
Qed.

Lemma DCases_head : forall es ts rest, DCases es ts -> case_end (ts ++ rest).
Proof.
  intros es ts rest H. unfold case_end.
  destruct H; eexists _, _; (split; [reflexivity|]); auto.
Qed.

(* ================================================================== *)
(* 3. completeness of the parser functions (prefetched look-ahead)     *)
(* ================================================================== *)

(* [f n = K] for every large enough fuel [n] *)
Definition Ev {X} (f : nat -> PR X) (K : PR X) : Prop :=
  exists N, forall n, (N <= n)%nat -> f n = K.

Ltac fuel n := destruct n as [|n]; [exfalso; lia|].
Ltac ty_t H := rewrite (typ_is_true _ _ H).
Ltac ty_f t k H := rewrite (typ_is_false t k) by (rewrite H; discriminate).

Lemma peek_hd : forall inp ts t r rest p c, ts = t :: r ->
  ppeek inp (mkP p (ts ++ rest) c) = ROk t (mkP p (ts ++ rest) c).
Proof. intros. subst. reflexivity. Qed.

Lemma stop_low : forall pre t r, 1 <= pre -> tok_prec (lt_typ t) = 1 -> stop pre (t :: r).
Proof. intros pre t r H1 H2. apply stop_tok. right. lia. Qed.
Lemma stop_typ : forall pre t r k, 1 <= pre -> lt_typ t = k -> tok_prec k = 1 -> stop pre (t :: r).
Proof. intros pre t r k H1 H2 H3. apply stop_low; [exact H1|]. rewrite H2. exact H3. Qed.

Section C.
Variable inp : input.

(* ---- the statements proved by induction on the derivation ---- *)
Definition P_DE (m : Z) (e : expr) (ts : list ltoken) : Prop :=
  forall pre rest p c K, 1 <= pre <= 8 -> Z.min pre 7 <= m -> stop (m + 1) rest ->
    Ev (fun n => p_infix_loop inp n pre e (mkP p rest (rev ts ++ c))) K ->
    Ev (fun n => p_expr inp n pre (mkP p (ts ++ rest) c)) K.
Definition P_DB (e : expr) (ts : list ltoken) : Prop :=
  forall pre rest p c K, 1 <= pre <= 8 -> Z.min pre 7 < level e -> stop (level e) rest ->
    Ev (fun n => p_infix_loop inp n pre e (mkP p rest (rev ts ++ c))) K ->
    Ev (fun n => p_expr inp n pre (mkP p (ts ++ rest) c)) K.
Definition P_DArgs (args : list expr) (ts : list ltoken) : Prop :=
  forall rest p c,
    Ev (fun n => p_call_args inp n (mkP p (ts ++ rest) c)) (ROk args (mkP p rest (rev ts ++ c))).
Definition P_DArgsT (es : list expr) (ts : list ltoken) : Prop :=
  forall acc rest p c,
    Ev (fun n => p_call_args_loop inp n acc (mkP p (ts ++ rest) c)) (ROk (acc ++ es) (mkP p rest (rev ts ++ c))).

(* the first part of an iteration of parseMap's loop: one entry *)
Definition map_entry (n : nat) (arr : list expr) (fields : list (string * expr)) (ps : pstate)
  : PR (list expr * list (string * expr)) :=
  pb (ele, s) <- pnext inp ps;
  pb (nx, s) <- pnext inp s;
  if typ_is ele ItemIdentifier && typ_is nx ItemAssign then
    pb (e, s) <- p_expr inp n Lowest s;
    if has_key (lt_val ele) fields then RErr s
    else ROk (arr, fields_set (lt_val ele) e fields) s
  else
    pb (e, s) <- p_expr inp n Lowest (pbackup (pbackup s)); ROk (arr ++ [e], fields) s.
Definition map_tail (n : nat) (arr2 : list expr) (fields2 : list (string * expr)) (s : pstate) : PR expr :=
  pb (t, s) <- pnext inp s;
  if typ_is t ItemRightSquareParen then ROk (EMap arr2 fields2) s
  else if typ_is t ItemComma then p_map_loop inp n arr2 fields2 s
  else RErr s.
Lemma map_loop_split : forall n arr fields ps, p_map_loop inp (S n) arr fields ps =
  pb (af, s) <- map_entry n arr fields ps; map_tail n (fst af) (snd af) s.
Proof.
  intros n arr fields ps. rewrite p_map_loop_eq. unfold map_entry, map_tail.
  destruct (pnext inp ps) as [ele s1| | |]; cbn [bindP]; try reflexivity.
  destruct (pnext inp s1) as [nx0 s2| | |]; cbn [bindP]; try reflexivity.
  destruct (typ_is ele ItemIdentifier && typ_is nx0 ItemAssign).
  - destruct (p_expr inp n Lowest s2) as [e s3| | |]; cbn [bindP fst snd]; try reflexivity.
    destruct (has_key (lt_val ele) fields); cbn [bindP fst snd]; reflexivity.
  - destruct (p_expr inp n Lowest (pbackup (pbackup s2))) as [e s3| | |]; cbn [bindP fst snd]; reflexivity.
Qed.

Definition entry_arr (k : option string) (e : expr) (arr : list expr) : list expr :=
  match k with None => arr ++ [e] | Some _ => arr end.
Definition entry_fields (k : option string) (e : expr) (fields : list (string * expr)) :=
  match k with Some key => fields_set key e fields | None => fields end.
Definition sep_end (rest : list ltoken) : Prop :=
  exists t r, rest = t :: r /\ (lt_typ t = ItemRightSquareParen \/ lt_typ t = ItemComma).

Definition P_DEntry (k : option string) (e : expr) (ts : list ltoken) : Prop :=
  forall arr fields rest p c, sep_end rest ->
    (forall key, k = Some key -> has_key key fields = false) ->
    Ev (fun n => map_entry n arr fields (mkP p (ts ++ rest) c))
       (ROk (entry_arr k e arr, entry_fields k e fields) (mkP p rest (rev ts ++ c))).
(* the field names still to come are pairwise distinct and not yet in the accumulator *)
Definition keys_fresh (es : list mentry) (fields : list (string * expr)) : Prop :=
  NoDup (field_keys es) /\ (forall k, In k (field_keys es) -> has_key k fields = false).
Definition P_DEntries (es : list mentry) (ts : list ltoken) : Prop :=
  forall arr fields rest p c, keys_fresh es fields ->
    Ev (fun n => p_map_loop inp n arr fields (mkP p (ts ++ rest) c))
       (ROk (EMap (arr ++ map_arr es) (map_fields es fields)) (mkP p rest (rev ts ++ c))).
Definition P_DBlock (b : block) (ts : list ltoken) : Prop :=
  forall rest p c,
    Ev (fun n => p_block inp n (mkP p (ts ++ rest) c)) (ROk b (mkP p rest (rev ts ++ c))).
Definition P_DNodes (xs : list node) (ts : list ltoken) : Prop :=
  (forall acc tr rest p c, lt_typ tr = ItemRightBrace ->
     Ev (fun n => p_block_loop inp n acc (mkP p (ts ++ tr :: rest) c))
        (ROk (Block (acc ++ xs)) (mkP p rest (tr :: rev ts ++ c)))) /\
  (forall acc rest p c, case_end rest ->
     Ev (fun n => p_case_body_loop inp n acc (mkP p (ts ++ rest) c))
        (ROk (Block (acc ++ xs)) (mkP p rest (rev ts ++ c)))) /\
  (forall acc te rest p c, lt_typ te = ItemEOF ->
     Ev (fun n => p_rows inp n acc (mkP p (ts ++ te :: rest) c))
        (ROk (Block (acc ++ xs)) (mkP p (te :: rest) (rev ts ++ c)))).
Definition P_DNode (x : node) (ts : list ltoken) : Prop :=
  forall rest p c, follow rest ->
    Ev (fun n => p_statement inp n (mkP p (ts ++ rest) c)) (ROk x (mkP p rest (rev ts ++ c))).
(* a let / an assignment parsed by its own function (the init and post parts of a for) *)
Definition PB (s : stmt) (ts : list ltoken) : Prop :=
  forall rest p c, stop 1 rest ->
    match s with
    | SLet _ _ => Ev (fun n => p_let inp n (mkP p (ts ++ rest) c)) (ROk s (mkP p rest (rev ts ++ c)))
    | SAssign _ _ => Ev (fun n => p_assign inp n (mkP p (ts ++ rest) c)) (ROk s (mkP p rest (rev ts ++ c)))
    | _ => True
    end.
Definition P_DStmt (s : stmt) (ts : list ltoken) : Prop :=
  (forall rest p c, follow rest ->
     if is_stmt_semi s then
       forall tsemi, lt_typ tsemi = ItemTerminateLine ->
         Ev (fun n => p_statement inp n (mkP p (ts ++ tsemi :: rest) c))
            (ROk (NStmt s) (mkP p rest (tsemi :: rev ts ++ c)))
     else
       Ev (fun n => p_statement inp n (mkP p (ts ++ rest) c)) (ROk (NStmt s) (mkP p rest (rev ts ++ c)))) /\
  PB s ts.
Definition P_DForInit (init : stmt) (ti : list ltoken) : Prop :=
  (init = SNil /\ ti = []) \/
  (exists ts tsemi, ti = ts ++ [tsemi] /\ lt_typ tsemi = ItemTerminateLine /\
     DStmt init ts /\ is_let_or_assign init /\ PB init ts).
Definition P_DForPost (post : stmt) (tp : list ltoken) : Prop :=
  (post = SNil /\ tp = []) \/
  (post = SNil /\ exists tsemi, tp = [tsemi] /\ lt_typ tsemi = ItemTerminateLine) \/
  (exists tsemi ts, tp = tsemi :: ts /\ lt_typ tsemi = ItemTerminateLine /\
     DStmt post ts /\ is_assign post /\ PB post ts).
(* no default seen yet and at most one to come, or one seen and none to come *)
Definition def_ok (def : block) (es : list swentry) : Prop :=
  match def with BNil => at_most_one_default es | Block _ => default_count es = 0%nat end.
Definition P_DCases (es : list swentry) (ts : list ltoken) : Prop :=
  forall cnd cases def rest p c, def_ok def es ->
    Ev (fun n => p_switch_loop inp n cnd cases def (mkP p (ts ++ rest) c))
       (ROk (SSwitch cnd (cases ++ sw_cases es) (sw_default es def)) (mkP p rest (rev ts ++ c))).

(* ---- expressions ---- *)
Lemma c_DE_bare : forall m e ts, m < level e -> DB e ts -> P_DB e ts -> P_DE m e ts.
Proof.
  intros m e ts Hl _ IH pre rest p c K Hpre Hm Hs HK.
  apply IH; try assumption; [lia|]. apply (stop_weaken (m + 1)); [exact Hs|lia].
Qed.

(* an expression in a position that ends at a token of the lowest precedence *)
Lemma expr_low : forall e te, P_DE 1 e te -> forall rest p c, stop 1 rest ->
  Ev (fun n => p_expr inp n Lowest (mkP p (te ++ rest) c)) (ROk e (mkP p rest (rev te ++ c))).
Proof.
  intros e te IH rest p c Hs. apply IH.
  - unfold Lowest. lia.
  - unfold Lowest. lia.
  - apply (stop_weaken 1); [exact Hs|lia].
  - exists 1%nat. intros n Hn. fuel n. apply loop_stops. exact Hs.
Qed.

Lemma c_DE_paren : forall m e tl tr ts, lt_typ tl = ItemLeftParen -> lt_typ tr = ItemRightParen ->
  DE 1 e ts -> P_DE 1 e ts -> P_DE m e (tl :: ts ++ [tr]).
Proof.
  intros m e tl tr ts Hl Hr _ IH pre rest p c K Hpre Hm Hs HK.
  destruct (expr_low e ts IH (tr :: rest) p (tl :: c)) as [N1 He].
  { apply (stop_typ 1 tr rest _ ltac:(lia) Hr). reflexivity. }
  destruct HK as [N2 HK].
  exists (N1 + N2 + 2)%nat. intros n Hn. fuel n.
  rewrite p_expr_eq. cbn [app]. rewrite nx. cbn [bindP]. rewrite Hl. cbn [prefix_of pbackup consumed prod ahead].
  fuel n. rewrite p_prefix_paren_eq, nx. cbn [bindP]. rewrite <- app_assoc. cbn [app].
  rewrite He by lia. cbn [bindP]. rewrite pk. cbn [bindP]. ty_t Hr. rewrite nx. cbn [bindP].
  rewrite <- (HK (S n)) by lia. f_equal. f_equal. lnorm.
Qed.

Lemma atom_case : forall t e pf, prefix_of (lt_typ t) = Some pf -> level e = 10 ->
  (forall n p r c, p_prefix inp (S n) pf (mkP p (t :: r) c) = ROk e (mkP p r (t :: c))) -> P_DB e [t].
Proof.
  intros t e pf Hpf _ Hp pre rest p c K Hpre Hm Hs [N HK].
  exists (N + 2)%nat. intros n Hn. fuel n. rewrite p_expr_eq. cbn [app]. rewrite nx. cbn [bindP].
  rewrite Hpf. cbn [pbackup consumed prod ahead]. fuel n. rewrite Hp. cbn [bindP]. apply HK. lia.
Qed.

Lemma c_DB_num : forall t e, lt_typ t = ItemNumber -> number_lit (lt_val t) = Some e -> P_DB e [t].
Proof.
  intros t e Ht Hn. apply (atom_case t e PfNumber); [rewrite Ht; reflexivity|apply (number_lit_level _ _ Hn)|].
  intros n p r c. rewrite p_prefix_number_eq, nx. cbn [bindP]. rewrite Hn. reflexivity.
Qed.
Lemma c_DB_bool : forall t e, lt_typ t = ItemBool -> bool_lit (lt_val t) = Some e -> P_DB e [t].
Proof.
  intros t e Ht Hn. apply (atom_case t e PfBool); [rewrite Ht; reflexivity|apply (bool_lit_level _ _ Hn)|].
  intros n p r c. rewrite p_prefix_bool_eq, nx. cbn [bindP]. rewrite Hn. reflexivity.
Qed.
Lemma c_DB_str : forall t, lt_typ t = ItemString -> P_DB (EStr (lt_val t)) [t].
Proof.
  intros t Ht. apply (atom_case t _ PfString); [rewrite Ht; reflexivity|reflexivity|].
  intros n p r c. rewrite p_prefix_string_eq, nx. reflexivity.
Qed.
Lemma c_DB_null : forall t, lt_typ t = ItemNull -> P_DB ENull [t].
Proof.
  intros t Ht. apply (atom_case t _ PfNull); [rewrite Ht; reflexivity|reflexivity|].
  intros n p r c. rewrite p_prefix_null_eq, nx. reflexivity.
Qed.
Lemma c_DB_ident : forall t, lt_typ t = ItemIdentifier -> P_DB (EIdent (lt_val t)) [t].
Proof.
  intros t Ht. apply (atom_case t _ PfIdent); [rewrite Ht; reflexivity|reflexivity|].
  intros n p r c. rewrite p_prefix_ident_eq, nx. reflexivity.
Qed.

Lemma c_DB_unary : forall t r ts, lt_typ t = LogicNot \/ lt_typ t = ItemMinus ->
  DE 7 r ts -> P_DE 7 r ts -> P_DB (EUnary (tk t) r) (t :: ts).
Proof.
  intros t r ts Ht _ IH pre rest p c K Hpre Hm Hs HK. cbn [level] in Hs.
  assert (He : Ev (fun n => p_expr inp n Prefix (mkP p (ts ++ rest) (t :: c)))
                  (ROk r (mkP p rest (rev ts ++ t :: c)))).
  { apply IH.
    - unfold Prefix. lia.
    - unfold Prefix. lia.
    - exact Hs.
    - exists 1%nat. intros n Hn. fuel n. apply loop_stops. exact Hs. }
  destruct He as [N1 He]. destruct HK as [N2 HK].
  assert (Hpf : prefix_of (lt_typ t) = Some PfUnary) by (destruct Ht as [E|E]; rewrite E; reflexivity).
  assert (Hty : typ_is t LogicNot || typ_is t ItemMinus = true).
  { destruct Ht as [E|E]; rewrite (typ_is_true t _ E); [reflexivity|apply orb_true_r]. }
  exists (N1 + N2 + 2)%nat. intros n Hn. fuel n.
  rewrite p_expr_eq. cbn [app]. rewrite nx. cbn [bindP]. rewrite Hpf. cbn [pbackup consumed prod ahead].
  fuel n. rewrite p_prefix_unary_eq, nx. cbn [bindP]. rewrite Hty.
  rewrite He by lia. cbn [bindP].
  rewrite <- (HK (S n)) by lia. f_equal. f_equal. lnorm.
Qed.

Lemma c_DB_binary : forall t l r tl tr, infix_of (lt_typ t) = Some IfBinary ->
  DE (tok_prec (lt_typ t) - 1) l tl -> P_DE (tok_prec (lt_typ t) - 1) l tl ->
  DE (tok_prec (lt_typ t)) r tr -> P_DE (tok_prec (lt_typ t)) r tr ->
  P_DB (EBinary l r (tk t)) (tl ++ t :: tr).
Proof.
  intros t l r tl tr Hin _ IHl _ IHr pre rest p c K Hpre Hm Hs HK.
  cbn [level tk t_typ] in Hm, Hs. pose proof (infix_binary_prec _ Hin) as Hq.
  rewrite <- app_assoc. cbn [app].
  apply IHl; [exact Hpre|lia|apply stop_tok; right; lia|].
  assert (He : Ev (fun n => p_expr inp n (tok_prec (lt_typ t)) (mkP p (tr ++ rest) (t :: rev tl ++ c)))
                  (ROk r (mkP p rest (rev tr ++ t :: rev tl ++ c)))).
  { apply IHr.
    - lia.
    - lia.
    - apply (stop_weaken (tok_prec (lt_typ t))); [exact Hs|lia].
    - exists 1%nat. intros n Hn. fuel n. apply loop_stops. exact Hs. }
  destruct He as [N1 He]. destruct HK as [N2 HK].
  exists (N1 + N2 + 3)%nat. intros n Hn. fuel n.
  rewrite p_infix_loop_eq, pk. cbn [bindP].
  rewrite (typ_is_false t ItemTerminateLine) by (intro E; rewrite E in Hin; discriminate Hin).
  replace (pre <? tok_prec (lt_typ t)) with true by (symmetry; apply Z.ltb_lt; lia).
  cbn [negb andb]. rewrite Hin.
  fuel n. rewrite p_binary_eq, nx. cbn [bindP]. rewrite He by lia. cbn [bindP].
  rewrite <- (HK (S n)) by lia. f_equal. f_equal. lnorm.
Qed.

Lemma c_DB_call : forall f tf tp args ta, lt_typ tp = ItemLeftParen ->
  DE 8 f tf -> P_DE 8 f tf -> DArgs args ta -> P_DArgs args ta ->
  P_DB (ECall f args) (tf ++ tp :: ta).
Proof.
  intros f tf tp args ta Htp _ IHf _ IHa pre rest p c K Hpre Hm Hs HK.
  rewrite <- app_assoc. cbn [app].
  apply IHf; [exact Hpre|lia|apply stop_tok; right; pose proof (tok_prec_range (lt_typ tp)); lia|].
  destruct (IHa rest p (tp :: rev tf ++ c)) as [N1 Ha]. destruct HK as [N2 HK].
  exists (N1 + N2 + 3)%nat. intros n Hn. fuel n.
  rewrite p_infix_loop_eq, pk. cbn [bindP].
  ty_f tp ItemTerminateLine Htp. rewrite Htp. cbn [tok_prec infix_of].
  replace (pre <? Call) with true by (symmetry; apply Z.ltb_lt; unfold Call; lia).
  cbn [negb andb].
  fuel n. rewrite p_call_eq. rewrite (consume_ok inp _ _ tp _ _ Htp). cbn [bindP].
  rewrite Ha by lia. cbn [bindP].
  rewrite <- (HK (S n)) by lia. f_equal. f_equal. lnorm.
Qed.

(* ---- call arguments ---- *)
Lemma c_DA_nil : forall tr, lt_typ tr = ItemRightParen -> P_DArgs [] [tr].
Proof.
  intros tr Hr rest p c. exists 1%nat. intros n Hn. fuel n.
  rewrite p_call_args_eq. cbn [app]. rewrite pk. cbn [bindP]. ty_t Hr. rewrite nx. reflexivity.
Qed.

Lemma c_DA_cons : forall e te es ts, DE 1 e te -> P_DE 1 e te -> DArgsT es ts -> P_DArgsT es ts ->
  P_DArgs (e :: es) (te ++ ts).
Proof.
  intros e te es ts HD IHe HT IHt rest p c.
  destruct (DE_first _ _ _ HD) as (t0 & r0 & E0 & Hp0).
  destruct (DArgsT_head _ _ HT) as (t1 & r1 & E1 & Hp1).
  destruct (expr_low e te IHe (ts ++ rest) p c) as [N1 He].
  { subst ts. cbn [app]. apply stop_low; [lia|exact Hp1]. }
  destruct (IHt [e] rest p (rev te ++ c)) as [N2 Ht].
  exists (N1 + N2 + 1)%nat. intros n Hn. fuel n.
  rewrite p_call_args_eq. rewrite <- app_assoc. rewrite (peek_hd inp te t0 r0 _ p c E0). cbn [bindP].
  rewrite (typ_is_false t0 ItemRightParen) by (intro E; rewrite E in Hp0; apply Hp0; reflexivity).
  rewrite He by lia. cbn [bindP]. rewrite Ht by lia. f_equal. f_equal. lnorm.
Qed.

Lemma c_DAT_end : forall tr, lt_typ tr = ItemRightParen -> P_DArgsT [] [tr].
Proof.
  intros tr Hr acc rest p c. exists 1%nat. intros n Hn. fuel n.
  rewrite p_call_args_loop_eq. cbn [app]. rewrite pk. cbn [bindP]. ty_f tr ItemComma Hr.
  rewrite nx. cbn [bindP]. ty_t Hr. rewrite app_nil_r. reflexivity.
Qed.

Lemma c_DAT_more : forall tc e te es ts, lt_typ tc = ItemComma -> DE 1 e te -> P_DE 1 e te ->
  DArgsT es ts -> P_DArgsT es ts -> P_DArgsT (e :: es) (tc :: te ++ ts).
Proof.
  intros tc e te es ts Hc HD IHe HT IHt acc rest p c.
  destruct (DArgsT_head _ _ HT) as (t1 & r1 & E1 & Hp1).
  destruct (expr_low e te IHe (ts ++ rest) p (tc :: c)) as [N1 He].
  { subst ts. cbn [app]. apply stop_low; [lia|exact Hp1]. }
  destruct (IHt (acc ++ [e]) rest p (rev te ++ tc :: c)) as [N2 Ht].
  exists (N1 + N2 + 1)%nat. intros n Hn. fuel n.
  rewrite p_call_args_loop_eq. cbn [app]. rewrite pk. cbn [bindP]. ty_t Hc. rewrite nx. cbn [bindP].
  rewrite <- app_assoc. rewrite He by lia. cbn [bindP]. rewrite Ht by lia.
  f_equal; [rewrite <- app_assoc; reflexivity|]. f_equal. lnorm.
Qed.

(* ---- map literals ---- *)
Lemma sep_end_stop : forall rest, sep_end rest -> stop 1 rest.
Proof.
  intros rest (t & r & E & [H|H]); subst rest; apply (stop_typ 1 t r _ ltac:(lia) H); reflexivity.
Qed.

Lemma c_DEn_field : forall tid teq v tv, lt_typ tid = ItemIdentifier -> lt_typ teq = ItemAssign ->
  DE 1 v tv -> P_DE 1 v tv -> P_DEntry (Some (lt_val tid)) v (tid :: teq :: tv).
Proof.
  intros tid teq v tv Hi Ha _ IH arr fields rest p c Hsep Hfresh.
  destruct (expr_low v tv IH rest p (teq :: tid :: c) (sep_end_stop _ Hsep)) as [N He].
  exists N. intros n Hn. unfold map_entry. cbn [app]. rewrite nx. cbn [bindP]. rewrite nx. cbn [bindP].
  ty_t Hi. ty_t Ha. cbn [andb]. rewrite He by lia. cbn [bindP entry_arr entry_fields].
  rewrite (Hfresh _ eq_refl).
  f_equal. f_equal. lnorm.
Qed.

Lemma c_DEn_elem : forall e te, DE 1 e te -> P_DE 1 e te -> P_DEntry None e te.
Proof.
  intros e te HD IH arr fields rest p c Hsep _.
  destruct (expr_low e te IH rest p c (sep_end_stop _ Hsep)) as [N He].
  destruct (DE_first _ _ _ HD) as (t1 & r1 & E1 & Hp1). subst te.
  assert (H2 : exists t2 r2, r1 ++ rest = t2 :: r2 /\ (lt_typ t1 = ItemIdentifier -> lt_typ t2 <> ItemAssign)).
  { destruct r1 as [|t2 r1].
    - destruct Hsep as (t & r & E & Ht). subst rest. exists t, r. split; [reflexivity|].
      intros _. destruct Ht as [Ht|Ht]; rewrite Ht; discriminate.
    - exists t2, (r1 ++ rest). split; [reflexivity|]. intros Hi.
      exact (DE_second _ _ _ _ HD Hi). }
  destruct H2 as (t2 & r2 & E2 & H2).
  exists N. intros n Hn. specialize (He n Hn). cbn [app] in He. rewrite E2 in He.
  unfold map_entry. cbn [app]. rewrite E2. rewrite nx. cbn [bindP]. rewrite nx. cbn [bindP].
  replace (typ_is t1 ItemIdentifier && typ_is t2 ItemAssign) with false.
  - cbn [pbackup consumed prod ahead]. rewrite He. cbn [bindP entry_arr entry_fields]. reflexivity.
  - symmetry. apply andb_false_iff. destruct (typ_is t1 ItemIdentifier) eqn:Ei; [right|left; reflexivity].
    apply typ_is_false. apply H2. apply typ_is_eq. exact Ei.
Qed.

Lemma map_arr_cons : forall k e es arr, entry_arr k e arr ++ map_arr es = arr ++ map_arr ((k, e) :: es).
Proof.
  intros k e es arr. unfold map_arr. cbn [flat_map fst snd]. destruct k; cbn [entry_arr app]; [reflexivity|].
  rewrite <- app_assoc. reflexivity.
Qed.
Lemma map_fields_cons : forall k e es f, map_fields es (entry_fields k e f) = map_fields ((k, e) :: es) f.
Proof. intros k e es f. unfold map_fields. cbn [fold_left fst snd]. destruct k; reflexivity. Qed.

Lemma keys_fresh_head : forall k e es fields, keys_fresh ((k, e) :: es) fields ->
  forall key, k = Some key -> has_key key fields = false.
Proof.
  intros k e es fields [_ Hf] key Ek. subst k. apply Hf. rewrite field_keys_some. left. reflexivity.
Qed.
Lemma keys_fresh_tail : forall k e es fields, keys_fresh ((k, e) :: es) fields ->
  keys_fresh es (entry_fields k e fields).
Proof.
  intros k e es fields [Hnd Hf]. destruct k as [key|]; cbn [entry_fields].
  - rewrite field_keys_some in Hnd, Hf. inversion Hnd as [|x l Hnin Hnd' Ex]; subst. split; [exact Hnd'|].
    intros k' Hk'. rewrite has_key_set. apply orb_false_iff. split; [|apply Hf; right; exact Hk'].
    unfold string_eqb. apply String.eqb_neq. intro E. subst k'. contradiction.
  - rewrite field_keys_none in Hnd, Hf. split; assumption.
Qed.

Lemma c_DEs_last : forall k e te tr, DEntry k e te -> P_DEntry k e te ->
  lt_typ tr = ItemRightSquareParen -> P_DEntries [(k, e)] (te ++ [tr]).
Proof.
  intros k e te tr _ IH Hr arr fields rest p c Hkf.
  destruct (IH arr fields (tr :: rest) p c) as [N He].
  { exists tr, rest. auto. }
  { apply (keys_fresh_head k e [] fields Hkf). }
  exists (N + 1)%nat. intros n Hn. fuel n.
  rewrite map_loop_split. rewrite <- app_assoc. cbn [app]. rewrite He by lia. cbn [bindP fst snd].
  unfold map_tail. rewrite nx. cbn [bindP]. ty_t Hr.
  rewrite <- map_arr_cons, <- map_fields_cons. cbn [map_arr flat_map map_fields fold_left]. rewrite app_nil_r.
  f_equal. f_equal. lnorm.
Qed.

Lemma c_DEs_more : forall k e te tc es ts, DEntry k e te -> P_DEntry k e te -> lt_typ tc = ItemComma ->
  DEntries es ts -> P_DEntries es ts -> P_DEntries ((k, e) :: es) (te ++ tc :: ts).
Proof.
  intros k e te tc es ts _ IH Hc _ IHs arr fields rest p c Hkf.
  destruct (IH arr fields (tc :: ts ++ rest) p c) as [N1 He].
  { exists tc, (ts ++ rest). auto. }
  { apply (keys_fresh_head k e es fields Hkf). }
  destruct (IHs (entry_arr k e arr) (entry_fields k e fields) rest p (tc :: rev te ++ c)
              (keys_fresh_tail k e es fields Hkf)) as [N2 Hs].
  exists (N1 + N2 + 1)%nat. intros n Hn. fuel n.
  rewrite map_loop_split. rewrite <- app_assoc. cbn [app]. rewrite He by lia. cbn [bindP fst snd].
  unfold map_tail. rewrite nx. cbn [bindP]. ty_f tc ItemRightSquareParen Hc. ty_t Hc.
  rewrite Hs by lia. rewrite map_arr_cons, map_fields_cons. f_equal. f_equal. lnorm.
Qed.

Lemma c_DB_map0 : forall tl tr, lt_typ tl = ItemLeftSquareParen -> lt_typ tr = ItemRightSquareParen ->
  P_DB (EMap [] []) [tl; tr].
Proof.
  intros tl tr Hl Hr pre rest p c K Hpre Hm Hs [N HK].
  exists (N + 2)%nat. intros n Hn. fuel n. rewrite p_expr_eq. cbn [app]. rewrite nx. cbn [bindP].
  rewrite Hl. cbn [prefix_of pbackup consumed prod ahead]. fuel n.
  rewrite p_prefix_map_eq, nx. cbn [bindP]. rewrite pk. cbn [bindP]. ty_t Hr. rewrite nx. cbn [bindP].
  apply HK. lia.
Qed.

Lemma c_DB_map : forall tl es ts, lt_typ tl = ItemLeftSquareParen -> DEntries es ts -> P_DEntries es ts ->
  NoDup (field_keys es) -> P_DB (EMap (map_arr es) (map_fields es [])) (tl :: ts).
Proof.
  intros tl es ts Hl HD IH Hnd pre rest p c K Hpre Hm Hs [N2 HK].
  destruct (IH [] [] rest p (tl :: c)) as [N1 He].
  { split; [exact Hnd|]. intros k _. reflexivity. }
  destruct (DEntries_first _ _ HD) as (t0 & r0 & E0 & Hn0).
  exists (N1 + N2 + 2)%nat. intros n Hn. fuel n. rewrite p_expr_eq. cbn [app]. rewrite nx. cbn [bindP].
  rewrite Hl. cbn [prefix_of pbackup consumed prod ahead]. fuel n.
  rewrite p_prefix_map_eq, nx. cbn [bindP]. rewrite (peek_hd inp ts t0 r0 _ p _ E0). cbn [bindP].
  rewrite (typ_is_false t0 ItemRightSquareParen Hn0).
  rewrite He by lia. cbn [bindP app].
  rewrite <- (HK (S n)) by lia. f_equal. f_equal. lnorm.
Qed.

(* ---- function parameters, function literals and declarations ---- *)
Lemma params_ok : forall params ts, DParams params ts -> forall acc rest p c,
  Ev (fun n => p_fn_args inp n acc (mkP p (ts ++ rest) c)) (ROk (acc ++ params) (mkP p rest (rev ts ++ c))).
Proof.
  intros params ts H. induction H as [tr Hr|ti tr Hi Hr|ti tc tj ps ts Hi Hc Hj _ IH]; intros acc rest p c.
  - exists 1%nat. intros n Hn. fuel n. rewrite p_fn_args_eq. cbn [app]. rewrite nx. cbn [bindP]. ty_t Hr.
    rewrite app_nil_r. reflexivity.
  - exists 2%nat. intros n Hn. fuel n. rewrite p_fn_args_eq. cbn [app]. rewrite nx. cbn [bindP].
    ty_f ti ItemRightParen Hi. ty_t Hi. rewrite pk. cbn [bindP]. ty_f tr ItemComma Hr. ty_t Hr.
    fuel n. rewrite p_fn_args_eq, nx. cbn [bindP]. ty_t Hr. reflexivity.
  - destruct (IH (acc ++ [lt_val ti]) rest p (tc :: ti :: c)) as [N He].
    exists (N + 1)%nat. intros n Hn. fuel n. rewrite p_fn_args_eq. cbn [app]. rewrite nx. cbn [bindP].
    ty_f ti ItemRightParen Hi. ty_t Hi. rewrite pk. cbn [bindP]. ty_t Hc. rewrite nx. cbn [bindP].
    rewrite pk. cbn [bindP]. ty_t Hj. cbn [app] in He. rewrite He by lia.
    f_equal; [rewrite <- app_assoc; reflexivity|]. f_equal. lnorm.
Qed.

Lemma fn_lit_ok : forall tf tp params tps body tb, lt_typ tf = KeywordFn -> lt_typ tp = ItemLeftParen ->
  DParams params tps -> has_dup params = false -> P_DBlock body tb -> forall rest p c,
  Ev (fun n => p_fn inp n false (mkP p (tf :: tp :: tps ++ tb ++ rest) c))
     (ROk (SFn (Tok ItemError EmptyString) params body) (mkP p rest (rev (tf :: tp :: tps ++ tb) ++ c))).
Proof.
  intros tf tp params tps body tb Hf Hp HP Hdup IHb rest p c.
  destruct (params_ok _ _ HP [] (tb ++ rest) p (tp :: tf :: c)) as [N1 Ha].
  destruct (IHb rest p (rev tps ++ tp :: tf :: c)) as [N2 Hb].
  exists (N1 + N2 + 1)%nat. intros n Hn. fuel n.
  rewrite p_fn_eq, nx. cbn [bindP]. rewrite pk. cbn [bindP]. ty_t Hp. rewrite nx. cbn [bindP].
  rewrite Ha by lia. cbn [bindP app]. rewrite Hb by lia. cbn [bindP]. rewrite Hdup.
  f_equal. f_equal. lnorm.
Qed.

Lemma fn_decl_ok : forall tf tid tp params tps body tb, lt_typ tf = KeywordFn ->
  lt_typ tid = ItemIdentifier -> lt_typ tp = ItemLeftParen ->
  DParams params tps -> has_dup params = false -> P_DBlock body tb -> forall rest p c,
  Ev (fun n => p_fn inp n true (mkP p (tf :: tid :: tp :: tps ++ tb ++ rest) c))
     (ROk (SFn (tk tid) params body) (mkP p rest (rev (tf :: tid :: tp :: tps ++ tb) ++ c))).
Proof.
  intros tf tid tp params tps body tb Hf Hi Hp HP Hdup IHb rest p c.
  destruct (params_ok _ _ HP [] (tb ++ rest) p (tp :: tid :: tf :: c)) as [N1 Ha].
  destruct (IHb rest p (rev tps ++ tp :: tid :: tf :: c)) as [N2 Hb].
  exists (N1 + N2 + 1)%nat. intros n Hn. fuel n.
  rewrite p_fn_eq, nx. cbn [bindP]. rewrite (consume_ok inp _ _ tid _ _ Hi). cbn [bindP].
  rewrite pk. cbn [bindP]. ty_t Hp. rewrite nx. cbn [bindP].
  rewrite Ha by lia. cbn [bindP app]. rewrite Hb by lia. cbn [bindP]. rewrite Hdup.
  f_equal. f_equal. lnorm.
Qed.

Lemma c_DB_fn : forall tf tp params tps body tb, lt_typ tf = KeywordFn -> lt_typ tp = ItemLeftParen ->
  DParams params tps -> has_dup params = false -> DBlock body tb -> P_DBlock body tb ->
  P_DB (EFuncLit params body) (tf :: tp :: tps ++ tb).
Proof.
  intros tf tp params tps body tb Hf Hp HP Hdup _ IHb pre rest p c K Hpre Hm Hs [N2 HK].
  destruct (fn_lit_ok tf tp params tps body tb Hf Hp HP Hdup IHb rest p c) as [N1 He].
  exists (N1 + N2 + 2)%nat. intros n Hn. fuel n. rewrite p_expr_eq. cbn [app]. rewrite nx. cbn [bindP].
  rewrite Hf. cbn [prefix_of pbackup consumed prod ahead]. fuel n.
  rewrite p_prefix_fnlit_eq, pk. cbn [bindP]. rewrite <- app_assoc. rewrite He by lia. cbn [bindP].
  apply HK. lia.
Qed.

(* ---- blocks and statement lists ---- *)
Lemma c_DBl : forall tl nodes ts tr, lt_typ tl = ItemLeftBrace -> DNodes nodes ts -> P_DNodes nodes ts ->
  lt_typ tr = ItemRightBrace -> P_DBlock (Block nodes) (tl :: ts ++ [tr]).
Proof.
  intros tl nodes ts tr Hl _ [IH _] Hr rest p c.
  destruct (IH [] tr rest p (tl :: c) Hr) as [N H].
  exists (N + 1)%nat. intros n Hn. fuel n.
  rewrite p_block_eq. cbn [app]. rewrite (consume_ok inp _ _ tl _ _ Hl). cbn [bindP].
  rewrite <- app_assoc. cbn [app]. rewrite H by lia. cbn [app]. f_equal. f_equal. lnorm.
Qed.

Lemma c_DN_nil : P_DNodes [] [].
Proof.
  split; [|split].
  - intros acc tr rest p c Hr. exists 1%nat. intros n Hn. fuel n.
    rewrite p_block_loop_eq. cbn [app]. rewrite pk. cbn [bindP]. ty_t Hr. rewrite nx. cbn [bindP].
    rewrite app_nil_r. reflexivity.
  - intros acc rest p c (t & r & E & Ht). subst rest. exists 1%nat. intros n Hn. fuel n.
    rewrite p_case_body_loop_eq. cbn [app]. rewrite pk. cbn [bindP].
    replace (typ_is t KeywordDefault || typ_is t KeywordCase || typ_is t ItemRightBrace) with true.
    + rewrite app_nil_r. reflexivity.
    + symmetry. destruct Ht as [H|[H|H]]; rewrite (typ_is_true t _ H); rewrite ?orb_true_r; reflexivity.
  - intros acc te rest p c He. exists 1%nat. intros n Hn. fuel n.
    rewrite p_rows_eq. cbn [app]. rewrite pk. cbn [bindP]. ty_t He. rewrite app_nil_r. reflexivity.
Qed.

Lemma c_DN_cons : forall x tx xs ts, DNode x tx -> P_DNode x tx -> DNodes xs ts -> P_DNodes xs ts ->
  P_DNodes (x :: xs) (tx ++ ts).
Proof.
  intros x tx xs ts Hx IHx Hxs (IH1 & IH2 & IH3).
  destruct (DNode_first _ _ Hx) as (t0 & r0 & E0 & Hn0).
  apply nstart_props in Hn0. destruct Hn0 as (Hn1 & Hn2 & Hn3 & Hn4 & Hn5).
  split; [|split].
  - intros acc tr rest p c Hr.
    destruct (IHx (ts ++ tr :: rest) p c) as [N1 H1].
    { apply (DNodes_follow _ _ _ Hxs). exists tr, rest. split; [reflexivity|]. rewrite Hr. discriminate. }
    destruct (IH1 (block_append acc x) tr rest p (rev tx ++ c) Hr) as [N2 H2].
    exists (N1 + N2 + 1)%nat. intros n Hn. fuel n.
    rewrite p_block_loop_eq. rewrite <- app_assoc. rewrite (peek_hd inp tx t0 r0 _ p c E0). cbn [bindP].
    rewrite (typ_is_false t0 ItemRightBrace Hn1), (typ_is_false t0 ItemEOF Hn2).
    rewrite H1 by lia. cbn [bindP]. rewrite H2 by lia. unfold block_append.
    f_equal; [rewrite <- app_assoc; reflexivity|]. f_equal. lnorm.
  - intros acc rest p c Hce.
    destruct (IHx (ts ++ rest) p c) as [N1 H1].
    { apply (DNodes_follow _ _ _ Hxs). destruct Hce as (t & r & E & Ht). exists t, r. split; [exact E|].
      destruct Ht as [H|[H|H]]; rewrite H; discriminate. }
    destruct (IH2 (block_append acc x) rest p (rev tx ++ c) Hce) as [N2 H2].
    exists (N1 + N2 + 1)%nat. intros n Hn. fuel n.
    rewrite p_case_body_loop_eq. rewrite <- app_assoc. rewrite (peek_hd inp tx t0 r0 _ p c E0). cbn [bindP].
    rewrite (typ_is_false t0 KeywordDefault Hn5), (typ_is_false t0 KeywordCase Hn4),
      (typ_is_false t0 ItemRightBrace Hn1), (typ_is_false t0 ItemEOF Hn2). cbn [orb].
    rewrite H1 by lia. cbn [bindP]. rewrite H2 by lia. unfold block_append.
    f_equal; [rewrite <- app_assoc; reflexivity|]. f_equal. lnorm.
  - intros acc te rest p c He.
    destruct (IHx (ts ++ te :: rest) p c) as [N1 H1].
    { apply (DNodes_follow _ _ _ Hxs). exists te, rest. split; [reflexivity|]. rewrite He. discriminate. }
    destruct (IH3 (block_append acc x) te rest p (rev tx ++ c) He) as [N2 H2].
    exists (N1 + N2 + 1)%nat. intros n Hn. fuel n.
    rewrite p_rows_eq. rewrite <- app_assoc. rewrite (peek_hd inp tx t0 r0 _ p c E0). cbn [bindP].
    rewrite (typ_is_false t0 ItemEOF Hn2).
    rewrite H1 by lia. cbn [bindP]. rewrite H2 by lia. unfold block_append.
    f_equal; [rewrite <- app_assoc; reflexivity|]. f_equal. lnorm.
Qed.

(* ---- nodes ---- *)
Lemma stop_semi : forall t r, lt_typ t = ItemTerminateLine -> stop 1 (t :: r).
Proof. intros t r H. apply stop_tok. left. exact H. Qed.

Lemma c_DNode_expr : forall e ts tsemi, DE 1 e ts -> P_DE 1 e ts -> first_not_fn ts ->
  lt_typ tsemi = ItemTerminateLine -> P_DNode (NExpr e) (ts ++ [tsemi]).
Proof.
  intros e ts tsemi HD IH Hfn Hsemi rest p c _.
  destruct (expr_low e ts IH (tsemi :: rest) p c (stop_semi _ _ Hsemi)) as [N He].
  destruct (DE_first _ _ _ HD) as (t0 & r0 & E0 & Hp0). subst ts. cbn [first_not_fn] in Hfn.
  exists (N + 1)%nat. intros n Hn. fuel n. rewrite <- app_assoc. cbn [app] in *.
  destruct (toktype_eqb (lt_typ t0) ItemIdentifier) eqn:Eid.
  - apply toktype_eqb_eq in Eid.
    rewrite (p_statement_ident inp n _ t0 _ (pk inp p t0 _ c) Eid). rewrite nx. cbn [bindP].
    pose proof (DE_second _ _ _ _ HD Eid) as H2.
    assert (Hx : exists t2 r2, r0 ++ tsemi :: rest = t2 :: r2 /\ lt_typ t2 <> ItemAssign).
    { destruct r0 as [|t2 r0]; cbn [app second_ok] in *.
      - exists tsemi, rest. split; [reflexivity|]. rewrite Hsemi. discriminate.
      - exists t2, (r0 ++ tsemi :: rest). split; [reflexivity|exact H2]. }
    destruct Hx as (t2 & r2 & E2 & Hna). specialize (He n ltac:(lia)). rewrite E2 in He |- *.
    rewrite pk. cbn [bindP]. rewrite (typ_is_false t2 ItemAssign Hna).
    cbn [pbackup consumed prod ahead]. unfold semi_tail. rewrite He. cbn [bindP].
    rewrite (consume_ok inp _ _ tsemi _ _ Hsemi). cbn [bindP]. f_equal. f_equal. lnorm.
  - assert (Hni : lt_typ t0 <> ItemIdentifier).
    { intro E. apply toktype_eqb_eq in E. rewrite E in Eid. discriminate Eid. }
    rewrite (p_statement_default inp n _ t0 _ (pk inp p t0 _ c)).
    + unfold semi_tail. rewrite He by lia. cbn [bindP].
      rewrite (consume_ok inp _ _ tsemi _ _ Hsemi). cbn [bindP]. f_equal. f_equal. lnorm.
    + destruct (lt_typ t0) eqn:Et; try exact I; try (apply Hp0; reflexivity); try (apply Hfn; reflexivity);
        try (apply Hni; reflexivity).
Qed.

Lemma c_DNode_semi : forall s ts tsemi, DStmt s ts -> P_DStmt s ts -> is_stmt_semi s = true ->
  lt_typ tsemi = ItemTerminateLine -> P_DNode (NStmt s) (ts ++ [tsemi]).
Proof.
  intros s ts tsemi _ [IH _] Hss Hsemi rest p c Hf.
  specialize (IH rest p c Hf). rewrite Hss in IH. destruct (IH tsemi Hsemi) as [N H].
  exists N. intros n Hn. rewrite <- app_assoc. cbn [app]. rewrite H by lia. f_equal. f_equal. lnorm.
Qed.

Lemma c_DNode_plain : forall s ts, DStmt s ts -> P_DStmt s ts -> is_stmt_semi s = false ->
  P_DNode (NStmt s) ts.
Proof.
  intros s ts _ [IH _] Hss rest p c Hf.
  specialize (IH rest p c Hf). rewrite Hss in IH. exact IH.
Qed.

(* ---- simple statements ---- *)
Lemma c_DS_let : forall tlet tid teq e te, lt_typ tlet = KeywordLet -> lt_typ tid = ItemIdentifier ->
  lt_typ teq = ItemAssign -> DE 1 e te -> P_DE 1 e te ->
  P_DStmt (SLet (tk tid) e) (tlet :: tid :: teq :: te).
Proof.
  intros tlet tid teq e te Hl Hi Ha _ IH.
  assert (B : PB (SLet (tk tid) e) (tlet :: tid :: teq :: te)).
  { intros rest p c Hs. destruct (expr_low e te IH rest p (teq :: tid :: tlet :: c) Hs) as [N He].
    exists (N + 1)%nat. intros n Hn. fuel n. rewrite p_let_eq. cbn [app]. rewrite nx. cbn [bindP].
    rewrite (consume_ok inp _ _ tid _ _ Hi). cbn [bindP]. rewrite (consume_ok inp _ _ teq _ _ Ha). cbn [bindP].
    rewrite He by lia. cbn [bindP]. f_equal. f_equal. lnorm. }
  split; [|exact B].
  intros rest p c _. cbn [is_stmt_semi]. intros tsemi Hsemi.
  destruct (B (tsemi :: rest) p c (stop_semi _ _ Hsemi)) as [N H].
  exists (N + 1)%nat. intros n Hn. fuel n. cbn [app].
  rewrite (p_statement_let inp n _ tlet _ (pk inp p tlet _ c) Hl). unfold semi_tail.
  cbn [app] in H. rewrite H by lia. cbn [bindP].
  rewrite (consume_ok inp _ _ tsemi _ _ Hsemi). cbn [bindP]. reflexivity.
Qed.

Lemma c_DS_assign : forall tid teq e te, lt_typ tid = ItemIdentifier -> lt_typ teq = ItemAssign ->
  DE 1 e te -> P_DE 1 e te -> P_DStmt (SAssign (tk tid) e) (tid :: teq :: te).
Proof.
  intros tid teq e te Hi Ha _ IH.
  assert (B : PB (SAssign (tk tid) e) (tid :: teq :: te)).
  { intros rest p c Hs. destruct (expr_low e te IH rest p (teq :: tid :: c) Hs) as [N He].
    exists (N + 1)%nat. intros n Hn. fuel n. rewrite p_assign_eq. cbn [app].
    rewrite (consume_ok inp _ _ tid _ _ Hi). cbn [bindP]. rewrite (consume_ok inp _ _ teq _ _ Ha). cbn [bindP].
    rewrite He by lia. cbn [bindP]. f_equal. f_equal. lnorm. }
  split; [|exact B].
  intros rest p c _. cbn [is_stmt_semi]. intros tsemi Hsemi.
  destruct (B (tsemi :: rest) p c (stop_semi _ _ Hsemi)) as [N H].
  exists (N + 1)%nat. intros n Hn. fuel n. cbn [app].
  rewrite (p_statement_ident inp n _ tid _ (pk inp p tid _ c) Hi). rewrite nx. cbn [bindP].
  rewrite pk. cbn [bindP]. ty_t Ha. cbn [pbackup consumed prod ahead]. unfold semi_tail.
  cbn [app] in H. rewrite H by lia. cbn [bindP].
  rewrite (consume_ok inp _ _ tsemi _ _ Hsemi). cbn [bindP]. reflexivity.
Qed.

Lemma c_DS_return : forall tr e te, lt_typ tr = KeywordReturn -> DE 1 e te -> P_DE 1 e te ->
  P_DStmt (SReturn e) (tr :: te).
Proof.
  intros tr e te Hr _ IH. split; [|intros rest p c _; exact I].
  intros rest p c _. cbn [is_stmt_semi]. intros tsemi Hsemi.
  destruct (expr_low e te IH (tsemi :: rest) p (tr :: c) (stop_semi _ _ Hsemi)) as [N He].
  exists (N + 2)%nat. intros n Hn. fuel n. cbn [app].
  rewrite (p_statement_return inp n _ tr _ (pk inp p tr _ c) Hr). unfold semi_tail.
  fuel n. rewrite p_return_eq, nx. cbn [bindP]. rewrite He by lia. cbn [bindP].
  rewrite (consume_ok inp _ _ tsemi _ _ Hsemi). cbn [bindP]. f_equal. f_equal. lnorm.
Qed.

Lemma c_DS_ctrl : forall t c0, ctrl_of (lt_typ t) = Some c0 -> P_DStmt (SCtrl c0) [t].
Proof.
  intros t c0 Hc. split; [|intros rest p c _; exact I].
  intros rest p c _. cbn [is_stmt_semi]. intros tsemi Hsemi.
  exists 2%nat. intros n Hn. fuel n. cbn [app].
  assert (Hk : lt_typ t = KeywordBreak \/ lt_typ t = KeywordContinue \/ lt_typ t = KeywordFallthrough).
  { destruct (lt_typ t); try discriminate Hc; auto. }
  rewrite (p_statement_ctrl inp n _ t _ (pk inp p t _ c) Hk). unfold semi_tail.
  fuel n. rewrite p_ctrl_eq, nx. cbn [bindP].
  destruct (lt_typ t); try discriminate Hc; inversion Hc; subst c0; cbn [bindP];
    rewrite (consume_ok inp _ _ tsemi _ _ Hsemi); reflexivity.
Qed.

Lemma c_DS_block : forall b tb, DBlock b tb -> P_DBlock b tb -> P_DStmt (SBlock b) tb.
Proof.
  intros b tb HB IH. split; [|intros rest p c _; exact I].
  intros rest p c _. cbn [is_stmt_semi].
  destruct (DBlock_head _ _ HB) as (t0 & r0 & E0 & Ht0).
  destruct (IH rest p c) as [N H].
  exists (N + 1)%nat. intros n Hn. fuel n.
  rewrite (p_statement_block inp n _ t0 _ (peek_hd inp tb t0 r0 rest p c E0) Ht0).
  rewrite H by lia. reflexivity.
Qed.

(* ---- if, while ---- *)
Lemma lbrace_stop : forall b tb rest, DBlock b tb -> stop 1 (tb ++ rest).
Proof.
  intros b tb rest HB. destruct (DBlock_head _ _ HB) as (t0 & r0 & E0 & Ht0). subst tb.
  apply (stop_typ 1 t0 _ _ ltac:(lia) Ht0). reflexivity.
Qed.

Lemma if_noelse_ok : forall tif c0 tc b tb, lt_typ tif = KeywordIf -> P_DE 1 c0 tc -> DBlock b tb ->
  P_DBlock b tb -> forall rest p c, follow rest ->
  Ev (fun n => p_if inp n (mkP p (tif :: tc ++ tb ++ rest) c))
     (ROk (SIf c0 b SNil) (mkP p rest (rev (tif :: tc ++ tb) ++ c))).
Proof.
  intros tif c0 tc b tb Hif IHc HB IHb rest p c (t1 & r1 & E1 & Hne).
  destruct (expr_low c0 tc IHc (tb ++ rest) p (tif :: c) (lbrace_stop _ _ _ HB)) as [N1 He].
  destruct (IHb rest p (rev tc ++ tif :: c)) as [N2 Hb].
  destruct (DBlock_head _ _ HB) as (t0 & r0 & E0 & Ht0).
  exists (N1 + N2 + 1)%nat. intros n Hn. fuel n.
  rewrite p_if_eq, nx. cbn [bindP]. rewrite He by lia. cbn [bindP].
  rewrite (peek_hd inp tb t0 r0 _ p _ E0). cbn [bindP]. ty_t Ht0.
  rewrite Hb by lia. cbn [bindP]. subst rest. rewrite pk. cbn [bindP].
  rewrite (typ_is_false t1 KeywordElse Hne). f_equal. f_equal. lnorm.
Qed.

Lemma c_DS_if : forall tif c0 tc b tb, lt_typ tif = KeywordIf -> DE 1 c0 tc -> P_DE 1 c0 tc ->
  DBlock b tb -> P_DBlock b tb -> P_DStmt (SIf c0 b SNil) (tif :: tc ++ tb).
Proof.
  intros tif c0 tc b tb Hif _ IHc HB IHb. split; [|intros rest p c _; exact I].
  intros rest p c Hf. cbn [is_stmt_semi].
  destruct (if_noelse_ok tif c0 tc b tb Hif IHc HB IHb rest p c Hf) as [N H].
  exists (N + 1)%nat. intros n Hn. fuel n. cbn [app]. rewrite <- app_assoc.
  rewrite (p_statement_if inp n _ tif _ (pk inp p tif _ c) Hif). rewrite H by lia. reflexivity.
Qed.

Lemma if_blk_node : forall els, is_if_or_blk els -> is_if_or_block (NStmt els) = Some els.
Proof. intros els H. destruct els; try contradiction; reflexivity. Qed.

Lemma c_DS_ifelse : forall tif c0 tc b tb telse els tels, lt_typ tif = KeywordIf -> DE 1 c0 tc ->
  P_DE 1 c0 tc -> DBlock b tb -> P_DBlock b tb -> lt_typ telse = KeywordElse -> is_if_or_blk els ->
  DStmt els tels -> P_DStmt els tels -> P_DStmt (SIf c0 b els) (tif :: tc ++ tb ++ telse :: tels).
Proof.
  intros tif c0 tc b tb telse els tels Hif _ IHc HB IHb Helse Hib _ [IHe _].
  split; [|intros rest p c _; exact I].
  intros rest p c Hf. cbn [is_stmt_semi].
  destruct (expr_low c0 tc IHc (tb ++ telse :: tels ++ rest) p (tif :: c) (lbrace_stop _ _ _ HB)) as [N1 He].
  destruct (IHb (telse :: tels ++ rest) p (rev tc ++ tif :: c)) as [N2 Hb].
  specialize (IHe rest p (telse :: rev tb ++ rev tc ++ tif :: c) Hf).
  rewrite (if_or_blk_plain _ Hib) in IHe. destruct IHe as [N3 Hs].
  destruct (DBlock_head _ _ HB) as (t0 & r0 & E0 & Ht0).
  exists (N1 + N2 + N3 + 2)%nat. intros n Hn. fuel n. cbn [app].
  replace ((tc ++ tb ++ telse :: tels) ++ rest) with (tc ++ tb ++ telse :: tels ++ rest) by lnorm.
  rewrite (p_statement_if inp n _ tif _ (pk inp p tif _ c) Hif).
  fuel n. rewrite p_if_eq, nx. cbn [bindP]. rewrite He by lia. cbn [bindP].
  rewrite (peek_hd inp tb t0 r0 _ p _ E0). cbn [bindP]. ty_t Ht0.
  rewrite Hb by lia. cbn [bindP]. rewrite pk. cbn [bindP]. ty_t Helse. rewrite nx. cbn [bindP].
  rewrite Hs by lia. cbn [bindP]. rewrite (if_blk_node _ Hib). cbn [bindP].
  f_equal. f_equal. lnorm.
Qed.

Lemma c_DS_while : forall tw c0 tc b tb, lt_typ tw = KeywordWhile -> DE 1 c0 tc -> P_DE 1 c0 tc ->
  DBlock b tb -> P_DBlock b tb -> P_DStmt (SWhile c0 b) (tw :: tc ++ tb).
Proof.
  intros tw c0 tc b tb Hw _ IHc HB IHb. split; [|intros rest p c _; exact I].
  intros rest p c _. cbn [is_stmt_semi].
  destruct (expr_low c0 tc IHc (tb ++ rest) p (tw :: c) (lbrace_stop _ _ _ HB)) as [N1 He].
  destruct (IHb rest p (rev tc ++ tw :: c)) as [N2 Hb].
  destruct (DBlock_head _ _ HB) as (t0 & r0 & E0 & Ht0).
  exists (N1 + N2 + 2)%nat. intros n Hn. fuel n. cbn [app]. rewrite <- app_assoc.
  rewrite (p_statement_while inp n _ tw _ (pk inp p tw _ c) Hw).
  fuel n. rewrite p_while_eq, nx. cbn [bindP]. rewrite He by lia. cbn [bindP].
  rewrite (peek_hd inp tb t0 r0 _ p _ E0). cbn [bindP]. ty_t Ht0.
  rewrite Hb by lia. cbn [bindP]. f_equal. f_equal. lnorm.
Qed.

(* ---- for ---- *)
Lemma DStmt_assign_inv : forall id v ts, DStmt (SAssign id v) ts ->
  exists tid teq te, ts = tid :: teq :: te /\ lt_typ tid = ItemIdentifier /\ lt_typ teq = ItemAssign.
Proof. intros id v ts H. inversion H; subst. eexists _, _, _. split; [reflexivity|]. split; assumption. Qed.
Lemma DStmt_let_inv : forall id v ts, DStmt (SLet id v) ts ->
  exists tlet tid teq te, ts = tlet :: tid :: teq :: te /\ lt_typ tlet = KeywordLet /\
    lt_typ tid = ItemIdentifier /\ lt_typ teq = ItemAssign.
Proof. intros id v ts H. inversion H; subst. eexists _, _, _, _. split; [reflexivity|]. repeat split; assumption. Qed.
(* condition, optional post statement and body of a for, after the optional init *)
Definition for_tail (n : nat) (init : stmt) (s : pstate) : PR stmt :=
  pb (cond, s) <- p_expr inp n Lowest s;
  pb (t, s) <- ppeek inp s;
  pb (post, s) <-
    (if typ_is t ItemTerminateLine then
       pb (_, s) <- pnext inp s;
       pb (t, s) <- ppeek inp s;
       if typ_is t ItemLeftBrace then ROk SNil s else p_assign inp n s
     else ROk SNil s);
  pb (t, s) <- ppeek inp s;
  if typ_is t ItemLeftBrace then pb (b, s) <- p_block inp n s; ROk (SFor init cond post b) s
  else RErr s.

Lemma c_DFI_none : P_DForInit SNil [].
Proof. left. auto. Qed.
Lemma c_DFI_some : forall s ts tsemi, DStmt s ts -> P_DStmt s ts -> is_let_or_assign s ->
  lt_typ tsemi = ItemTerminateLine -> P_DForInit s (ts ++ [tsemi]).
Proof. intros s ts tsemi HD [_ B] Hla Hsemi. right. exists ts, tsemi. auto. Qed.
Lemma c_DFP_none : P_DForPost SNil [].
Proof. left. auto. Qed.
Lemma c_DFP_semi : forall tsemi, lt_typ tsemi = ItemTerminateLine -> P_DForPost SNil [tsemi].
Proof. intros tsemi H. right. left. split; [reflexivity|]. exists tsemi. auto. Qed.
Lemma c_DFP_some : forall tsemi s ts, lt_typ tsemi = ItemTerminateLine -> DStmt s ts -> P_DStmt s ts ->
  is_assign s -> P_DForPost s (tsemi :: ts).
Proof. intros tsemi s ts Hsemi HD [_ B] Ha. right. right. exists tsemi, ts. auto. Qed.

(* the token after the condition of a for: ';' or '{' *)
Lemma post_head : forall post tp b tb rest, P_DForPost post tp -> DBlock b tb ->
  exists t r, tp ++ tb ++ rest = t :: r /\ (lt_typ t = ItemTerminateLine \/ lt_typ t = ItemLeftBrace).
Proof.
  intros post tp b tb rest HP HB. destruct (DBlock_head _ _ HB) as (t0 & r0 & E0 & Ht0). subst tb.
  destruct HP as [[_ E]|[[_ (ts & E & Hs)]|(ts & r & E & Hs & _)]]; subst tp; cbn [app]; eauto.
Qed.

Lemma for_tail_ok : forall init cond tc post tp b tb, P_DE 1 cond tc -> P_DForPost post tp ->
  DBlock b tb -> P_DBlock b tb -> forall rest p c,
  Ev (fun n => for_tail n init (mkP p (tc ++ tp ++ tb ++ rest) c))
     (ROk (SFor init cond post b) (mkP p rest (rev (tc ++ tp ++ tb) ++ c))).
Proof.
  intros init cond tc post tp b tb IHc HP HB IHb rest p c.
  destruct (post_head post tp b tb rest HP HB) as (th & rh & Eh & Hth).
  destruct (expr_low cond tc IHc (tp ++ tb ++ rest) p c) as [N1 He].
  { rewrite Eh. destruct Hth as [H|H]; [apply stop_semi; exact H|apply (stop_typ 1 th rh _ ltac:(lia) H); reflexivity]. }
  destruct (DBlock_head _ _ HB) as (t0 & r0 & E0 & Ht0).
  destruct HP as [[Ep Et]|[[Ep (tsemi & Et & Hsemi)]|(tsemi & ts & Et & Hsemi & HDp & Has & Bp)]]; subst tp.
  - (* no post statement *)
    subst post. destruct (IHb rest p (rev tc ++ c)) as [N2 Hb].
    exists (N1 + N2)%nat. intros n Hn. unfold for_tail. rewrite He by lia. cbn [bindP app].
    rewrite (peek_hd inp tb t0 r0 _ p _ E0). cbn [bindP]. ty_f t0 ItemTerminateLine Ht0. cbn [bindP].
    rewrite (peek_hd inp tb t0 r0 _ p _ E0). cbn [bindP]. ty_t Ht0.
    rewrite Hb by lia. cbn [bindP]. f_equal. f_equal. lnorm.
  - (* a lone ';' *)
    subst post. destruct (IHb rest p (tsemi :: rev tc ++ c)) as [N2 Hb].
    exists (N1 + N2)%nat. intros n Hn. unfold for_tail. rewrite He by lia. cbn [bindP app].
    rewrite pk. cbn [bindP]. ty_t Hsemi. rewrite nx. cbn [bindP].
    rewrite (peek_hd inp tb t0 r0 _ p _ E0). cbn [bindP]. ty_t Ht0. cbn [bindP].
    rewrite (peek_hd inp tb t0 r0 _ p _ E0). cbn [bindP]. ty_t Ht0.
    rewrite Hb by lia. cbn [bindP]. f_equal. f_equal. lnorm.
  - (* ';' and an assignment *)
    destruct post; try contradiction.
    destruct (DStmt_assign_inv _ _ _ HDp) as (tid & teq & te & Ets & Hi & Ha). subst ts.
    specialize (Bp (tb ++ rest) p (tsemi :: rev tc ++ c) (lbrace_stop _ _ _ HB)). cbn beta iota in Bp.
    destruct Bp as [N2 Hp].
    destruct (IHb rest p (rev (tid :: teq :: te) ++ tsemi :: rev tc ++ c)) as [N3 Hb].
    exists (N1 + N2 + N3)%nat. intros n Hn. unfold for_tail. rewrite He by lia. cbn [bindP app].
    rewrite pk. cbn [bindP]. ty_t Hsemi. rewrite nx. cbn [bindP].
    rewrite pk. cbn [bindP]. ty_f tid ItemLeftBrace Hi.
    cbn [app] in Hp. rewrite Hp by lia. cbn [bindP].
    rewrite (peek_hd inp tb t0 r0 _ p _ E0). cbn [bindP]. ty_t Ht0.
    rewrite Hb by lia. cbn [bindP]. f_equal. f_equal. lnorm.
Qed.

Lemma c_DS_for_bare : forall tf b tb, lt_typ tf = KeywordFor -> DBlock b tb -> P_DBlock b tb ->
  P_DStmt (SFor SNil ENil SNil b) (tf :: tb).
Proof.
  intros tf b tb Hf HB IHb. split; [|intros rest p c _; exact I].
  intros rest p c _. cbn [is_stmt_semi].
  destruct (IHb rest p (tf :: c)) as [N Hb].
  destruct (DBlock_head _ _ HB) as (t0 & r0 & E0 & Ht0).
  exists (N + 2)%nat. intros n Hn. fuel n. cbn [app].
  rewrite (p_statement_for inp n _ tf _ (pk inp p tf _ c) Hf).
  fuel n. rewrite p_for_eq, nx. cbn [bindP].
  rewrite (peek_hd inp tb t0 r0 _ p _ E0). cbn [bindP]. ty_t Ht0.
  rewrite Hb by lia. cbn [bindP]. f_equal. f_equal. lnorm.
Qed.

Lemma for_ok : forall tf init ti cond tc post tp b tb, lt_typ tf = KeywordFor ->
  P_DForInit init ti -> DE 1 cond tc -> P_DE 1 cond tc -> P_DForPost post tp ->
  DBlock b tb -> P_DBlock b tb -> forall rest p c,
  Ev (fun n => p_for inp n (mkP p (tf :: ti ++ tc ++ tp ++ tb ++ rest) c))
     (ROk (SFor init cond post b) (mkP p rest (rev (tf :: ti ++ tc ++ tp ++ tb) ++ c))).
Proof.
  intros tf init ti cond tc post tp b tb Hf HI HDc IHc HP HB IHb rest p c.
  destruct HI as [[Ei Et]|(ts & tsemi & Et & Hsemi & HDi & Hla & Bi)]; subst ti.
  - (* no init *)
    subst init. cbn [app].
    destruct (for_tail_ok SNil cond tc post tp b tb IHc HP HB IHb rest p (tf :: c)) as [N Ht].
    destruct (DE_first _ _ _ HDc) as (t1 & r1 & E1 & Hp1).
    destruct (post_head post tp b tb rest HP HB) as (th & rh & Eh & Hth).
    exists (N + 1)%nat. intros n Hn. fuel n. specialize (Ht n ltac:(lia)).
    rewrite p_for_eq, nx. cbn [bindP]. subst tc. cbn [app] in *.
    rewrite pk. cbn [bindP].
    rewrite (typ_is_false t1 ItemLeftBrace) by (intro E; rewrite E in Hp1; apply Hp1; reflexivity).
    rewrite pk. cbn [bindP].
    rewrite (typ_is_false t1 KeywordLet) by (intro E; rewrite E in Hp1; apply Hp1; reflexivity).
    destruct (typ_is t1 ItemIdentifier) eqn:Eid.
    + apply typ_is_eq in Eid. rewrite nx. cbn [bindP].
      pose proof (DE_second _ _ _ _ HDc Eid) as H2.
      assert (Hx : exists t2 r2, r1 ++ tp ++ tb ++ rest = t2 :: r2 /\ lt_typ t2 <> ItemAssign).
      { destruct r1 as [|t2 r1]; cbn [app second_ok] in *.
        - exists th, rh. split; [exact Eh|]. destruct Hth as [H|H]; rewrite H; discriminate.
        - exists t2, (r1 ++ tp ++ tb ++ rest). split; [reflexivity|exact H2]. }
      destruct Hx as (t2 & r2 & E2 & Hna). rewrite E2 in Ht |- *.
      rewrite pk. cbn [bindP pbackup consumed prod ahead]. rewrite (typ_is_false t2 ItemAssign Hna).
      cbn [bindP]. etransitivity; [|etransitivity; [exact Ht|]]; [reflexivity|]. f_equal. f_equal. lnorm.
    + cbn [bindP]. etransitivity; [|etransitivity; [exact Ht|]]; [reflexivity|]. f_equal. f_equal. lnorm.
  - (* init ; *)
    destruct (for_tail_ok init cond tc post tp b tb IHc HP HB IHb rest p (tsemi :: rev ts ++ tf :: c)) as [N1 Ht].
    specialize (Bi (tsemi :: tc ++ tp ++ tb ++ rest) p (tf :: c) (stop_semi _ _ Hsemi)).
    destruct init; try contradiction.
    + (* assignment *)
      destruct (DStmt_assign_inv _ _ _ HDi) as (tid & teq & te & Ets & Hi & Ha). subst ts.
      destruct Bi as [N2 Hi2].
      exists (N1 + N2 + 1)%nat. intros n Hn. fuel n. specialize (Ht n ltac:(lia)). specialize (Hi2 n ltac:(lia)).
      rewrite p_for_eq, nx. cbn [bindP]. rewrite <- !app_assoc. cbn [app] in *.
      rewrite pk. cbn [bindP]. ty_f tid ItemLeftBrace Hi. rewrite pk. cbn [bindP].
      ty_f tid KeywordLet Hi. ty_t Hi. rewrite nx. cbn [bindP]. rewrite pk.
      cbn [bindP pbackup consumed prod ahead]. ty_t Ha. cbn [bindP].
      rewrite pk. cbn [bindP]. ty_f tid KeywordLet Hi. rewrite Hi2. cbn [bindP].
      rewrite pk. cbn [bindP]. ty_t Hsemi. rewrite nx. cbn [bindP].
      etransitivity; [|etransitivity; [exact Ht|]]; [reflexivity|]. f_equal. f_equal. lnorm.
    + (* let *)
      destruct (DStmt_let_inv _ _ _ HDi) as (tlet & tid & teq & te & Ets & Hl & Hi & Ha). subst ts.
      destruct Bi as [N2 Hi2].
      exists (N1 + N2 + 1)%nat. intros n Hn. fuel n. specialize (Ht n ltac:(lia)). specialize (Hi2 n ltac:(lia)).
      rewrite p_for_eq, nx. cbn [bindP]. rewrite <- !app_assoc. cbn [app] in *.
      rewrite pk. cbn [bindP]. ty_f tlet ItemLeftBrace Hl. rewrite pk. cbn [bindP].
      ty_t Hl. cbn [bindP].
      rewrite pk. cbn [bindP]. ty_t Hl. rewrite Hi2. cbn [bindP].
      rewrite pk. cbn [bindP]. ty_t Hsemi. rewrite nx. cbn [bindP].
      etransitivity; [|etransitivity; [exact Ht|]]; [reflexivity|]. f_equal. f_equal. lnorm.
Qed.

Lemma c_DS_for : forall tf init ti cond tc post tp b tb, lt_typ tf = KeywordFor ->
  DForInit init ti -> P_DForInit init ti -> DE 1 cond tc -> P_DE 1 cond tc ->
  DForPost post tp -> P_DForPost post tp -> DBlock b tb -> P_DBlock b tb ->
  P_DStmt (SFor init cond post b) (tf :: ti ++ tc ++ tp ++ tb).
Proof.
  intros tf init ti cond tc post tp b tb Hf _ HI HDc IHc _ HP HB IHb.
  split; [|intros rest p c _; exact I].
  intros rest p c _. cbn [is_stmt_semi].
  destruct (for_ok tf init ti cond tc post tp b tb Hf HI HDc IHc HP HB IHb rest p c) as [N H].
  exists (N + 1)%nat. intros n Hn. fuel n. cbn [app].
  replace ((ti ++ tc ++ tp ++ tb) ++ rest) with (ti ++ tc ++ tp ++ tb ++ rest) by lnorm.
  rewrite (p_statement_for inp n _ tf _ (pk inp p tf _ c) Hf). rewrite H by lia. reflexivity.
Qed.

(* ---- switch ---- *)
Lemma c_DC_end : forall tr, lt_typ tr = ItemRightBrace -> P_DCases [] [tr].
Proof.
  intros tr Hr cnd cases def rest p c _. exists 1%nat. intros n Hn. fuel n.
  rewrite p_switch_loop_eq. cbn [app]. rewrite nx. cbn [bindP]. ty_t Hr.
  cbn [sw_cases flat_map sw_default fold_left]. rewrite app_nil_r. reflexivity.
Qed.

Lemma colon_stop : forall t r, lt_typ t = ItemColon -> stop 1 (t :: r).
Proof. intros t r H. apply (stop_typ 1 t r _ ltac:(lia) H). reflexivity. Qed.

Lemma c_DC_case : forall tcase c0 tc tcol nodes tn es ts, lt_typ tcase = KeywordCase -> DE 1 c0 tc ->
  P_DE 1 c0 tc -> lt_typ tcol = ItemColon -> DNodes nodes tn -> P_DNodes nodes tn ->
  DCases es ts -> P_DCases es ts ->
  P_DCases ((Some c0, Block nodes) :: es) (tcase :: tc ++ tcol :: tn ++ ts).
Proof.
  intros tcase c0 tc tcol nodes tn es ts Hcase _ IHc Hcol _ (_ & IHn & _) HDs IHs cnd cases def rest p c Hdef.
  destruct (expr_low c0 tc IHc (tcol :: tn ++ ts ++ rest) p (tcase :: c) (colon_stop _ _ Hcol)) as [N1 He].
  destruct (IHn [] (ts ++ rest) p (tcol :: rev tc ++ tcase :: c) (DCases_head _ _ rest HDs)) as [N2 Hn2].
  destruct (IHs cnd (cases ++ [Case c0 (Block nodes)]) def rest p (rev tn ++ tcol :: rev tc ++ tcase :: c)) as [N3 Hs].
  { destruct def; cbn [def_ok] in *; [unfold at_most_one_default in *|]; rewrite default_count_case in Hdef; exact Hdef. }
  exists (N1 + N2 + N3 + 2)%nat. intros n Hn. fuel n.
  rewrite p_switch_loop_eq. cbn [app]. rewrite nx. cbn [bindP].
  ty_f tcase ItemRightBrace Hcase. ty_t Hcase.
  replace ((tc ++ tcol :: tn ++ ts) ++ rest) with (tc ++ tcol :: tn ++ ts ++ rest) by lnorm.
  rewrite He by lia. cbn [bindP]. rewrite pk. cbn [bindP]. ty_t Hcol.
  fuel n. rewrite p_case_body_eq, nx. cbn [bindP]. rewrite Hn2 by lia. cbn [bindP app].
  rewrite Hs by lia. cbn [sw_cases flat_map sw_default fold_left fst snd].
  f_equal; [rewrite <- app_assoc; reflexivity|]. f_equal. lnorm.
Qed.

Lemma c_DC_default : forall tdef tcol nodes tn es ts, lt_typ tdef = KeywordDefault ->
  lt_typ tcol = ItemColon -> DNodes nodes tn -> P_DNodes nodes tn -> DCases es ts -> P_DCases es ts ->
  P_DCases ((None, Block nodes) :: es) (tdef :: tcol :: tn ++ ts).
Proof.
  intros tdef tcol nodes tn es ts Hdef Hcol _ (_ & IHn & _) HDs IHs cnd cases def rest p c Hok.
  destruct def as [|l0]; cbn [def_ok] in Hok; [|rewrite default_count_default in Hok; discriminate Hok].
  unfold at_most_one_default in Hok. rewrite default_count_default in Hok.
  destruct (IHn [] (ts ++ rest) p (tcol :: tdef :: c) (DCases_head _ _ rest HDs)) as [N2 Hn2].
  destruct (IHs cnd cases (Block nodes) rest p (rev tn ++ tcol :: tdef :: c)) as [N3 Hs].
  { cbn [def_ok]. lia. }
  exists (N2 + N3 + 2)%nat. intros n Hn. fuel n.
  rewrite p_switch_loop_eq. cbn [app]. rewrite nx. cbn [bindP].
  ty_f tdef ItemRightBrace Hdef. ty_f tdef KeywordCase Hdef. ty_t Hdef.
  rewrite pk. cbn [bindP]. ty_t Hcol. rewrite <- app_assoc.
  fuel n. rewrite p_case_body_eq, nx. cbn [bindP]. rewrite Hn2 by lia. cbn [bindP app].
  rewrite Hs by lia. cbn [sw_cases flat_map sw_default fold_left fst snd app].
  f_equal. f_equal. lnorm.
Qed.

Lemma c_DS_switch0 : forall tsw tl es ts, lt_typ tsw = KeywordSwitch -> lt_typ tl = ItemLeftBrace ->
  DCases es ts -> P_DCases es ts -> at_most_one_default es ->
  P_DStmt (SSwitch ENil (sw_cases es) (sw_default es BNil)) (tsw :: tl :: ts).
Proof.
  intros tsw tl es ts Hsw Hl _ IHs Hone. split; [|intros rest p c _; exact I].
  intros rest p c _. cbn [is_stmt_semi].
  destruct (IHs ENil [] BNil rest p (tl :: tsw :: c) Hone) as [N Hs].
  exists (N + 2)%nat. intros n Hn. fuel n. cbn [app].
  rewrite (p_statement_switch inp n _ tsw _ (pk inp p tsw _ c) Hsw).
  fuel n. rewrite p_switch_eq. rewrite (consume_ok inp _ _ tsw _ _ Hsw). cbn [bindP].
  rewrite pk. cbn [bindP]. ty_t Hl. cbn [bindP]. rewrite nx. cbn [bindP]. ty_t Hl.
  rewrite Hs by lia. cbn [bindP app]. f_equal. f_equal. lnorm.
Qed.

Lemma c_DS_switch : forall tsw c0 tc tl es ts, lt_typ tsw = KeywordSwitch -> DE 1 c0 tc -> P_DE 1 c0 tc ->
  lt_typ tl = ItemLeftBrace -> DCases es ts -> P_DCases es ts -> at_most_one_default es ->
  P_DStmt (SSwitch c0 (sw_cases es) (sw_default es BNil)) (tsw :: tc ++ tl :: ts).
Proof.
  intros tsw c0 tc tl es ts Hsw HDc IHc Hl _ IHs Hone. split; [|intros rest p c _; exact I].
  intros rest p c _. cbn [is_stmt_semi].
  destruct (expr_low c0 tc IHc (tl :: ts ++ rest) p (tsw :: c)) as [N1 He].
  { apply (stop_typ 1 tl _ _ ltac:(lia) Hl). reflexivity. }
  destruct (IHs c0 [] BNil rest p (tl :: rev tc ++ tsw :: c) Hone) as [N2 Hs].
  destruct (DE_first _ _ _ HDc) as (t1 & r1 & E1 & Hp1).
  exists (N1 + N2 + 2)%nat. intros n Hn. fuel n. cbn [app].
  replace ((tc ++ tl :: ts) ++ rest) with (tc ++ tl :: ts ++ rest) by lnorm.
  rewrite (p_statement_switch inp n _ tsw _ (pk inp p tsw _ c) Hsw).
  fuel n. rewrite p_switch_eq. rewrite (consume_ok inp _ _ tsw _ _ Hsw). cbn [bindP].
  rewrite (peek_hd inp tc t1 r1 _ p _ E1). cbn [bindP].
  rewrite (typ_is_false t1 ItemLeftBrace) by (intro E; rewrite E in Hp1; apply Hp1; reflexivity).
  rewrite He by lia. cbn [bindP]. rewrite nx. cbn [bindP]. ty_t Hl.
  rewrite Hs by lia. cbn [bindP app]. f_equal. f_equal. lnorm.
Qed.

Lemma c_DS_fn : forall tf tid tp params tps body tb, lt_typ tf = KeywordFn ->
  lt_typ tid = ItemIdentifier -> lt_typ tp = ItemLeftParen -> DParams params tps ->
  has_dup params = false -> DBlock body tb -> P_DBlock body tb ->
  P_DStmt (SFn (tk tid) params body) (tf :: tid :: tp :: tps ++ tb).
Proof.
  intros tf tid tp params tps body tb Hf Hi Hp HP Hdup _ IHb. split; [|intros rest p c _; exact I].
  intros rest p c _. cbn [is_stmt_semi].
  destruct (fn_decl_ok tf tid tp params tps body tb Hf Hi Hp HP Hdup IHb rest p c) as [N H].
  exists (N + 1)%nat. intros n Hn. fuel n. cbn [app]. rewrite <- app_assoc.
  rewrite (p_statement_fn inp n _ tf _ (pk inp p tf _ c) Hf). rewrite H by lia. reflexivity.
Qed.

(* ---- all grammar rules at once ---- *)
Theorem complete_all :
  (forall m e ts, DE m e ts -> P_DE m e ts) /\
  (forall e ts, DB e ts -> P_DB e ts) /\
  (forall es ts, DArgs es ts -> P_DArgs es ts) /\
  (forall es ts, DArgsT es ts -> P_DArgsT es ts) /\
  (forall k e ts, DEntry k e ts -> P_DEntry k e ts) /\
  (forall es ts, DEntries es ts -> P_DEntries es ts) /\
  (forall b ts, DBlock b ts -> P_DBlock b ts) /\
  (forall xs ts, DNodes xs ts -> P_DNodes xs ts) /\
  (forall x ts, DNode x ts -> P_DNode x ts) /\
  (forall s ts, DStmt s ts -> P_DStmt s ts) /\
  (forall s ts, DForInit s ts -> P_DForInit s ts) /\
  (forall s ts, DForPost s ts -> P_DForPost s ts) /\
  (forall es ts, DCases es ts -> P_DCases es ts).
Proof.
  apply D_mutind.
  - exact c_DE_bare.
  - exact c_DE_paren.
  - exact c_DB_num.
  - exact c_DB_bool.
  - exact c_DB_str.
  - exact c_DB_null.
  - exact c_DB_ident.
  - exact c_DB_unary.
  - exact c_DB_binary.
  - exact c_DB_call.
  - exact c_DB_map0.
  - exact c_DB_map.
  - exact c_DB_fn.
  - exact c_DA_nil.
  - exact c_DA_cons.
  - exact c_DAT_end.
  - exact c_DAT_more.
  - exact c_DEn_field.
  - exact c_DEn_elem.
  - exact c_DEs_last.
  - exact c_DEs_more.
  - exact c_DBl.
  - exact c_DN_nil.
  - exact c_DN_cons.
  - exact c_DNode_expr.
  - exact c_DNode_semi.
  - exact c_DNode_plain.
  - exact c_DS_let.
  - exact c_DS_assign.
  - exact c_DS_return.
  - exact c_DS_ctrl.
  - exact c_DS_block.
  - exact c_DS_if.
  - exact c_DS_ifelse.
  - exact c_DS_while.
  - exact c_DS_for_bare.
  - exact c_DS_for.
  - exact c_DS_switch0.
  - exact c_DS_switch.
  - exact c_DS_fn.
  - exact c_DFI_none.
  - exact c_DFI_some.
  - exact c_DFP_none.
  - exact c_DFP_semi.
  - exact c_DFP_some.
  - exact c_DC_end.
  - exact c_DC_case.
  - exact c_DC_default.
Qed.

(* an expression at a position where the next token stops the infix loop *)
Theorem expr_complete : forall m e ts pre rest p c, DE m e ts -> 1 <= pre <= 8 -> Z.min pre 7 <= m ->
  stop pre rest ->
  Ev (fun n => p_expr inp n pre (mkP p (ts ++ rest) c)) (ROk e (mkP p rest (rev ts ++ c))).
Proof.
  intros m e ts pre rest p c HD Hpre Hm Hs.
  apply (proj1 complete_all m e ts HD); [exact Hpre|exact Hm| |].
  - destruct Hs as (t & r & E & [H|H]); subst rest; apply stop_tok; [left; exact H|right].
    destruct (Z.le_gt_cases pre 7); [lia|]. pose proof (tok_prec_range (lt_typ t)).
    (* pre = 8: the loop continues only on '(' , which binds at 9 > m + 1 only if m < 8 *)
    lia.
  - exists 1%nat. intros n Hn. fuel n. apply loop_stops. exact Hs.
Qed.

(* a statement *)
Theorem node_complete : forall x ts rest p c, DNode x ts -> follow rest ->
  Ev (fun n => p_statement inp n (mkP p (ts ++ rest) c)) (ROk x (mkP p rest (rev ts ++ c))).
Proof.
  intros x ts rest p c HD Hf.
  exact (proj1 (proj2 (proj2 (proj2 (proj2 (proj2 (proj2 (proj2 (proj2 complete_all)))))))) x ts HD rest p c Hf).
Qed.

(* a program, up to the EOF token *)
Theorem rows_complete : forall nodes ts te rest p c, DNodes nodes ts -> lt_typ te = ItemEOF ->
  Ev (fun n => p_rows inp n [] (mkP p (ts ++ te :: rest) c))
     (ROk (Block nodes) (mkP p (te :: rest) (rev ts ++ c))).
Proof.
  intros nodes ts te rest p c HD He.
  destruct (proj1 (proj2 (proj2 (proj2 (proj2 (proj2 (proj2 (proj2 complete_all))))))) nodes ts HD) as (_ & _ & H).
  exact (H [] te rest p c He).
Qed.
End C.

(* ================================================================== *)
(* 4. transfer to parse.New(src).Parse()                               *)
(* ================================================================== *)

(* C14, completeness: every sentence of the grammar is accepted, with the tree of the derivation *)
Definition C14_complete_statement : Prop :=
  forall bs nodes ts teof, lex_all (mk_input bs) = Ok (ts ++ [teof]) -> lt_typ teof = ItemEOF ->
    DP nodes ts -> r_out (parse_bytes bs) = OProgram (Block nodes).

Theorem C14_complete_holds : C14_complete_statement.
Proof.
  intros bs nodes ts teof Hlex Heof HD.
  unfold parse_bytes. set (inp := mk_input bs).
  pose proof (mk_input_len bs) as Hlen. pose proof (mk_input_range bs) as Hrange. fold inp in Hlen, Hrange.
  (* the token list is a chain of receives from the initial producer *)
  unfold lex_all in Hlex. fold inp in Hlex.
  destruct (drain_chain inp Hlen Hrange _ _ _ _ (Reach0 inp Hlen) Hlex) as (ext & p' & Eext & Ch & _).
  cbn [rev app] in Eext. subst ext.
  pose proof (Pre_prefetch inp producer0 (ts ++ [teof]) p' [] Ch) as HPre.
  (* with everything prefetched and enough fuel the parser returns the program *)
  destruct (rows_complete inp nodes ts teof [] p' [] HD Heof) as [N HN].
  set (m := (N + parse_fuel inp)%nat).
  pose proof (q_rows inp _ (bridge_all inp m) [] _ _ HPre) as Hrel.
  rewrite (HN m) in Hrel by (unfold m; lia).
  (* the fuel of Parse is never exhausted, so it is enough *)
  pose proof (a_rows inp _ (parser_all inp Hlen Hrange (parse_fuel inp)) [] (mkP producer0 [] [])
                (Rp0 inp Hlen)) as Hok.
  assert (Nd : need inp 7 (mkP producer0 [] []) (parse_fuel inp)).
  { unfold need, A, parse_fuel. pose proof (T0 inp) as HT0. unfold pstate0 in HT0. rewrite HT0.
    rewrite Z2Nat.id by lia. lia. }
  specialize (Hok Nd).
  assert (Hne : p_rows inp (parse_fuel inp) [] (mkP producer0 [] []) <> RFuel).
  { intro E. rewrite E in Hok. exact Hok. }
  pose proof (rows_mono inp (parse_fuel inp) m [] (mkP producer0 [] []) ltac:(unfold m; lia) Hne) as Hm.
  rewrite Hm in Hrel.
  unfold parse_input, pstate0.
  destruct (p_rows inp (parse_fuel inp) [] (mkP producer0 [] [])) as [b ps|ps| |];
    cbn [relR okP] in *; try contradiction.
  destruct Hrel as [-> _]. destruct Hok as [R _].
  apply (finish_closed inp Hlen Hrange (OProgram (Block nodes)) ps R). split; discriminate.
Qed.

(* Parse accepts exactly the sentences of the grammar, with the tree of the derivation *)
Definition C14_exact_statement : Prop :=
  forall bs nodes, r_out (parse_bytes bs) = OProgram (Block nodes) <->
    exists ts teof, lex_all (mk_input bs) = Ok (ts ++ [teof]) /\ lt_typ teof = ItemEOF /\ DP nodes ts.

Theorem C14_exact_holds : C14_exact_statement.
Proof.
  intros bs nodes. split.
  - apply C14_sound_holds.
  - intros (ts & teof & HL & Heof & HD). exact (C14_complete_holds bs nodes ts teof HL Heof HD).
Qed.

(* the grammar is unambiguous: a token sequence has at most one tree *)
Definition C14_unambiguous_statement : Prop :=
  forall n1 n2 ts, DP n1 ts -> DP n2 ts -> n1 = n2.

Theorem C14_unambiguous_holds : C14_unambiguous_statement.
Proof.
  intros n1 n2 ts H1 H2.
  set (inp := mk_input []). set (teof := LT ItemEOF 0 EmptyString 0).
  destruct (rows_complete inp n1 ts teof [] PClosed [] H1 eq_refl) as [N1 E1].
  destruct (rows_complete inp n2 ts teof [] PClosed [] H2 eq_refl) as [N2 E2].
  specialize (E1 (N1 + N2)%nat ltac:(lia)). specialize (E2 (N1 + N2)%nat ltac:(lia)).
  rewrite E1 in E2. inversion E2. reflexivity.
Qed.

(* the same for expressions: at most one tree, whatever the binding level of the position *)
Definition C14_expr_unambiguous_statement : Prop :=
  forall e1 e2 ts, DE 1 e1 ts -> DE 1 e2 ts -> e1 = e2.

Theorem C14_expr_unambiguous_holds : C14_expr_unambiguous_statement.
Proof.
  intros e1 e2 ts H1 H2.
  set (inp := mk_input []). set (tsemi := LT ItemTerminateLine 0 EmptyString 0).
  assert (Hs : stop 1 [tsemi]) by (apply stop_tok; left; reflexivity).
  destruct (expr_complete inp 1 e1 ts 1 [tsemi] PClosed [] H1 ltac:(lia) ltac:(lia) Hs) as [N1 E1].
  destruct (expr_complete inp 1 e2 ts 1 [tsemi] PClosed [] H2 ltac:(lia) ltac:(lia) Hs) as [N2 E2].
  specialize (E1 (N1 + N2)%nat ltac:(lia)). specialize (E2 (N1 + N2)%nat ltac:(lia)).
  rewrite E1 in E2. inversion E2. reflexivity.
Qed.

(* the expression level alone, on any parser state whose look-ahead holds the tokens: a derivation
   at level [m] is parsed by [p_expr pre] whenever [pre <= m] (a unary operand: [pre] = 8, [m] = 7)
   and the token after it stops the infix loop *)
Definition C14_expr_complete_statement : Prop :=
  forall inp m e ts pre rest p c, DE m e ts -> 1 <= pre <= 8 -> Z.min pre 7 <= m -> stop pre rest ->
    exists N, forall n, (N <= n)%nat ->
      p_expr inp n pre (mkP p (ts ++ rest) c) = ROk e (mkP p rest (rev ts ++ c)).
Theorem C14_expr_complete_holds : C14_expr_complete_statement.
Proof. intros inp m e ts pre rest p c HD Hpre Hm Hs. exact (expr_complete inp m e ts pre rest p c HD Hpre Hm Hs). Qed.

(* a source is rejected with an error exactly when its token stream is no sentence *)
Definition C14_reject_exact_statement : Prop :=
  forall bs, r_out (parse_bytes bs) = OError <->
    (forall nodes ts teof, lex_all (mk_input bs) = Ok (ts ++ [teof]) -> lt_typ teof = ItemEOF -> ~ DP nodes ts).
Theorem C14_reject_exact_holds : C14_reject_exact_statement.
Proof.
  intros bs. split.
  - intros He nodes ts teof HL Heof HD.
    rewrite (C14_complete_holds bs nodes ts teof HL Heof HD) in He. discriminate He.
  - intros Hno.
    destruct (parse_input_total (mk_input bs) (mk_input_len bs) (mk_input_range bs)) as [(b & Hb)|He]; [|exact He].
    exfalso. destruct (program_from_rows _ _ Hb) as (ps & Hrows).
    destruct (rows_block _ _ _ _ _ _ Hrows) as (nodes & Eb). subst b.
    destruct (C14_sound_holds bs nodes Hb) as (ts & teof & HL & Heof & HD).
    exact (Hno nodes ts teof HL Heof HD).
Qed.

(* ================================================================== *)
(* 5. the grammar looks only at the type and the text of a token       *)
(* ================================================================== *)
Definition stok := same_tok.
Lemma same_tk : forall t t', same_tok t t' -> tk t = tk t'.
Proof. intros t t' [H1 H2]. unfold tk. rewrite H1, H2. reflexivity. Qed.

Ltac f2inv :=
  repeat match goal with
  | H : Forall2 same_tok [] _ |- _ => inversion H; subst; clear H
  | H : Forall2 same_tok (_ :: _) _ |- _ => inversion H; subst; clear H
  | H : Forall2 same_tok (_ ++ _) _ |- _ =>
      let l1 := fresh "l" in let l2 := fresh "l" in let H1 := fresh "F" in let H2 := fresh "F" in
      let E := fresh "E" in
      apply Forall2_app_inv_l in H; destruct H as (l1 & l2 & H1 & H2 & E); subst
  end.
Ltac tokrw :=
  repeat match goal with
  | H : same_tok ?t ?t' |- _ =>
      let E1 := fresh "E" in let E2 := fresh "E" in let E3 := fresh "E" in
      pose proof (same_tk _ _ H) as E1; pose proof (proj1 H) as E2; pose proof (proj2 H) as E3;
      change (stok t t') in H;
      rewrite ?E1 in *; rewrite ?E3 in *; rewrite ?E2 in *; clear E1 E2 E3
  end;
  unfold stok in *.

Lemma first_not_fn_same : forall ts ts', Forall2 same_tok ts ts' -> first_not_fn ts -> first_not_fn ts'.
Proof.
  intros ts ts' F H. destruct F as [|t t' ts ts' [E _] _]; [exact I|]. cbn [first_not_fn] in *. congruence.
Qed.

Lemma DParams_same : forall ps ts, DParams ps ts -> forall ts', Forall2 same_tok ts ts' -> DParams ps ts'.
Proof.
  intros ps ts H. induction H; intros ts' F; f2inv; tokrw; econstructor; eauto.
Qed.

Lemma D_same :
  (forall m e ts, DE m e ts -> forall ts', Forall2 same_tok ts ts' -> DE m e ts') /\
  (forall e ts, DB e ts -> forall ts', Forall2 same_tok ts ts' -> DB e ts') /\
  (forall es ts, DArgs es ts -> forall ts', Forall2 same_tok ts ts' -> DArgs es ts') /\
  (forall es ts, DArgsT es ts -> forall ts', Forall2 same_tok ts ts' -> DArgsT es ts') /\
  (forall k e ts, DEntry k e ts -> forall ts', Forall2 same_tok ts ts' -> DEntry k e ts') /\
  (forall es ts, DEntries es ts -> forall ts', Forall2 same_tok ts ts' -> DEntries es ts') /\
  (forall b ts, DBlock b ts -> forall ts', Forall2 same_tok ts ts' -> DBlock b ts') /\
  (forall xs ts, DNodes xs ts -> forall ts', Forall2 same_tok ts ts' -> DNodes xs ts') /\
  (forall x ts, DNode x ts -> forall ts', Forall2 same_tok ts ts' -> DNode x ts') /\
  (forall s ts, DStmt s ts -> forall ts', Forall2 same_tok ts ts' -> DStmt s ts') /\
  (forall s ts, DForInit s ts -> forall ts', Forall2 same_tok ts ts' -> DForInit s ts') /\
  (forall s ts, DForPost s ts -> forall ts', Forall2 same_tok ts ts' -> DForPost s ts') /\
  (forall es ts, DCases es ts -> forall ts', Forall2 same_tok ts ts' -> DCases es ts').
Proof.
  apply D_mutind; intros; f2inv; tokrw;
    try (econstructor; eauto using DParams_same, first_not_fn_same; fail).
Qed.

Theorem DP_same_tok : forall nodes ts ts', DP nodes ts -> Forall2 same_tok ts ts' -> DP nodes ts'.
Proof.
  intros nodes ts ts' H F. unfold DP in *.
  exact (proj1 (proj2 (proj2 (proj2 (proj2 (proj2 (proj2 (proj2 D_same))))))) nodes ts H ts' F).
Qed.

(* ================================================================== *)
(* 6. non-vacuity                                                      *)
(* ================================================================== *)
(* GcsSound.demo_derives is a derivation with a map literal (fields and an array element), a
   function literal, redundant parentheses, if/else, a for with init and a lone ';', a switch
   with cases before and after its default.  On its tokens followed by an EOF token the parser returns its tree ... *)
Definition demo_eof : ltoken := LT ItemEOF 0 EmptyString 0.
Example demo_rows : exists N, forall n, (N <= n)%nat ->
  p_rows (mk_input []) n [] (mkP PClosed (demo_toks ++ [demo_eof]) []) =
  ROk (Block demo_nodes) (mkP PClosed [demo_eof] (rev demo_toks ++ [])).
Proof. exact (rows_complete (mk_input []) demo_nodes demo_toks demo_eof [] PClosed [] demo_derives eq_refl). Qed.

(* ... and the lexer turns the source text GcsSound.demo_src into these tokens (up to positions),
   so completeness applies to it: no run of the parser model is needed *)
Example demo_lexes : exists ts teof,
  lex_all (mk_input demo_src) = Ok (ts ++ [teof]) /\ lt_typ teof = ItemEOF /\ Forall2 same_tok demo_toks ts.
Proof.
  assert (E : exists L, lex_all (mk_input demo_src) = Ok L) by (apply lex_never_panics).
  destruct (lex_all (mk_input demo_src)) as [L| |] eqn:EL; [|destruct E; discriminate|destruct E; discriminate].
  vm_compute in EL. inversion EL as [EL']. clear EL E.
  match type of EL' with ?l = L => exists (removelast l), (last l zero_tok) end.
  split; [subst L; reflexivity|]. split; [reflexivity|].
  cbn [removelast].
  unfold demo_toks, demo_t1, demo_t2, demo_t3, demo_t4, demo_t5. cbn [app].
  repeat (first [ apply Forall2_nil | apply Forall2_cons ]); split; reflexivity.
Qed.

Example demo_complete : r_out (parse_bytes demo_src) = OProgram (Block demo_nodes).
Proof.
  destruct demo_lexes as (ts & teof & HL & Heof & F).
  apply (C14_complete_holds demo_src demo_nodes ts teof HL Heof).
  exact (DP_same_tok _ _ _ demo_derives F).
Qed.
