(* C06 — Stats are base plus attached modifiers; snapshots are private.
   Only statements, [exact] and [Print Assumptions] live here.  The statements that mention
   float operations are spelled out in Proofs/StatsProofs.v (the ..._stmt definitions). *)
From Coq Require Import List ZArith Bool.
From SR Require Import Base.ListCount Model.Stats Proofs.StatsProofs.
From SR Require Proofs.FormulasStatsProofs.
Import ListNotations.
Open Scope Z_scope.

(* for every history of attach / detach / property updates, every reuse of one description,
   every write to a description, an instance or a kept snapshot: no map is shared, an operation
   changes only the maps of the owner it names, stats and kept snapshots are unaffected by
   writes elsewhere, and the stats are base combined with exactly the attached instances *)
Theorem C06_stats_ownership_privacy : C06_statement.
Proof. exact C06_holds. Qed.
Print Assumptions C06_stats_ownership_privacy.

Theorem C06_reachable_states_share_no_map :
  forall w ops, wf6 (exec6 false w (init6 w) ops) /\ hm (exec6 false w (init6 w) ops).
Proof. exact reachable_ok. Qed.
Print Assumptions C06_reachable_states_share_no_map.

(* the new instance owns fresh copies of the description's maps *)
Theorem C06_attach_copies_description : attach_copies_stmt.
Proof. exact attach_copies_holds. Qed.
Print Assumptions C06_attach_copies_description.

(* the stats of a unit depend on nothing but its attached list and those instances' maps *)
Theorem C06_stats_depend_only_on_attached :
  forall w s s' u,
    tg6 s' u = tg6 s u -> (forall t, In t (tg6 s u) -> heap6 s' t = heap6 s t) ->
    (forall t a, In t (tg6 s u) -> In a (inst_addrs (heap6 s t)) -> store s' a = store s a) ->
    (forall t, In t (tg6 s u) -> in_made (heap6 s t) = true) ->
    fresh_view w s' u = fresh_view w s u.
Proof. exact view_depends_on. Qed.
Print Assumptions C06_stats_depend_only_on_attached.

(* additive, except damage reduction and fatigue which combine multiplicatively *)
Theorem C06_additive_except_damage_reduction_and_fatigue : modify_rule_stmt.
Proof. exact modify_rule_holds. Qed.
Print Assumptions C06_additive_except_damage_reduction_and_fatigue.

Theorem C06_debuff_res_sum : dres_sum_stmt.
Proof. exact dres_sum_holds. Qed.
Print Assumptions C06_debuff_res_sum.

Theorem C06_flags_union :
  forall w s u f,
    eval_flag w s u f = true <->
    exists tag, In tag (tg6 s u) /\ In f (k_flags (getcfg6 w (in_name (heap6 s tag)))).
Proof. exact flags_union. Qed.
Print Assumptions C06_flags_union.

Theorem C06_weakness_union : weakness_union_stmt.
Proof. exact weakness_union_holds. Qed.
Print Assumptions C06_weakness_union.

Theorem C06_status_counts :
  forall w s u status,
    eval_count w s u status =
    Z.of_nat (length (filter (fun tag => k_status (getcfg6 w (in_name (heap6 s tag))) =? status) (tg6 s u))).
Proof. exact counts_formula. Qed.
Print Assumptions C06_status_counts.

(* derived values: base*(1+percent)+flat floored at zero *)
Theorem C06_derived_floor_at_zero : derived_floor_stmt.
Proof. exact derived_floor_holds. Qed.
Print Assumptions C06_derived_floor_at_zero.

(* The translator tie: PropMap.Modify (which properties combine multiplicatively, and how), statCalc
   and the derived ATK / MaxHP the model reads are EQUAL, at binary64, to the definitions go2coq
   generates from info/map.go and info/stats.go (Gen/FormulasInfo.v; the conjunction is spelled
   out in Proofs/FormulasStatsProofs.v, C06_formulas_statement). *)
Theorem C06_model_formulas_are_the_source : FormulasStatsProofs.C06_formulas_statement.
Proof. exact FormulasStatsProofs.C06_formulas_hold. Qed.
Print Assumptions C06_model_formulas_are_the_source.

(* the code before the repair violated the property (witness: corpus/C06/stats/*.json); the
   same history on the repaired model leaves the other unit alone and changes the addressed
   one, so the statements above are not vacuous *)
Theorem C06_aliasing_code_refuted_and_nonvacuous : aliasing_refuted_stmt.
Proof. exact aliasing_refuted_holds. Qed.
