(* The translator tie for the attribute-service model of C07 (Model/Attr.v, binary64 only): the
   clamp and update expressions of AddTarget, SetHP, ModifyHPByAmount, ModifyHPByRatio, SetStance,
   ModifyStance, SetEnergy, ModifyEnergy, ModifyEnergyFixed and ModifySP as GENERATED from
   pkg/engine/attribute/{add,modify,attribute}.go (Gen/FormulasInfo.v, Gen/FormulasAttr.v, over CombatCore's NumOps) are,
   at the binary64 instance, the expressions the C07 model computes with.  The stats a call reads
   (the model's environment [e_maxHP], [e_regen], [e_bonus]) are the generated getters applied to
   the snapshot the Go code reads them from.  See Proofs/FormulasInfoProofs.v. *)
From Coq Require Import List ZArith Bool Floats.
From SR Require Model.CombatCore.
From SR Require Import Model.Attr.
From SR Require Gen.FormulasInfo Gen.FormulasAttr.
Import ListNotations.
Open Scope Z_scope.

Notation F := CombatCore.FloatNum.

Lemma gen_add_unit_is_model : forall hp energy maxEnergy stance maxStance id,
  add_unit hp energy maxEnergy stance maxStance id =
  mkUnit (FormulasAttr.addTarget_hpRatio F hp) (FormulasAttr.addTarget_energy F energy maxEnergy) maxEnergy stance maxStance Alive id.
Proof. reflexivity. Qed.

Lemma gen_SetHP_is_model : forall st amount,
  FormulasAttr.setHP_ratio F st amount = new_hp_set (FormulasInfo.MaxHP F st) amount.
Proof. reflexivity. Qed.

Lemma gen_ModifyHPByAmount_is_model : forall st amount,
  FormulasAttr.modifyHPByAmount_ratio F st amount =
  new_hp_amount (FormulasInfo.MaxHP F st) (FormulasInfo.CurrentHPRatio F st) amount.
Proof. reflexivity. Qed.

(* an unknown ratio type is the error outcome (None); otherwise the model's new ratio *)
Lemma gen_ModifyHPByRatio_is_model : forall st cur ratio rtype floor,
  FormulasAttr.modifyHPByRatio_ratio F st cur ratio rtype floor =
  (if (rtype =? 1) || (rtype =? 2) then Some (new_hp_ratio (FormulasInfo.MaxHP F st) cur ratio rtype floor) else None).
Proof.
  intros. unfold FormulasAttr.modifyHPByRatio_ratio, new_hp_ratio, hp_ratio_raw.
  change FormulasInfo.ModifyHPRatioType_CURRENT_HP with 2. change FormulasInfo.ModifyHPRatioType_MAX_HP with 1.
  destruct (rtype =? 2) eqn:E2; [rewrite orb_true_r; reflexivity|].
  destruct (rtype =? 1) eqn:E1; reflexivity.
Qed.

Lemma gen_SetStance_is_model : forall maxStance amount,
  FormulasAttr.setStance_amount F maxStance amount = clampTo maxStance amount.
Proof. reflexivity. Qed.

Lemma gen_ModifyStance_is_model : forall st cur amount,
  FormulasAttr.modifyStance_amount F st cur amount =
  (cur + amount * (1 + FormulasInfo.GetProperty F st FormulasInfo.prop_AllStanceDMGPercent))%float.
Proof. reflexivity. Qed.

Lemma gen_SetEnergy_is_model : forall maxEnergy amount,
  FormulasAttr.setEnergy_amount F maxEnergy amount = clampTo maxEnergy amount.
Proof. reflexivity. Qed.

Lemma gen_ModifyEnergy_is_model : forall st cur amount,
  FormulasAttr.modifyEnergy_amount F st cur amount = (cur + amount * (1 + FormulasInfo.EnergyRegen F st))%float.
Proof. reflexivity. Qed.

Lemma gen_ModifyEnergyFixed_is_model : forall cur amount,
  FormulasAttr.modifyEnergyFixed_amount F cur amount = (cur + amount)%float.
Proof. reflexivity. Qed.

Lemma gen_ModifySP_is_model : forall old amount, FormulasAttr.modifySP_sp old amount = new_sp old amount.
Proof. reflexivity. Qed.

Lemma gen_initial_sp_is_model : sp init = FormulasAttr.attribute_initial_sp.
Proof. reflexivity. Qed.

(* the model's step, call by call, with the generated expressions plugged in; [st] is the snapshot the
   Go code reads during the call and the environment of the call is what the generated getters
   return for it *)
Lemma gen_step_is_model : forall s c st amount ratio rtype floor dmg key source samount,
  e_maxHP (c_env c) = FormulasInfo.MaxHP F st ->
  e_regen (c_env c) = FormulasInfo.EnergyRegen F st ->
  e_bonus (c_env c) = FormulasInfo.GetProperty F st FormulasInfo.prop_AllStanceDMGPercent ->
  step s (OSetHP c amount dmg) =
    on_target s c (fun u => do_hp c u (FormulasAttr.setHP_ratio F st amount) dmg) /\
  step s (OModHPAmount c amount dmg) =
    on_target s c (fun u => do_hp c u
      (new_hp_amount (FormulasInfo.MaxHP F st) (u_hp u) amount) dmg) /\
  step s (OModHPRatio c ratio rtype floor dmg) =
    (if (rtype =? 1) || (rtype =? 2)
     then on_target s c (fun u => do_hp c u
            (match FormulasAttr.modifyHPByRatio_ratio F st (u_hp u) ratio rtype floor with Some r => r | None => u_hp u end) dmg)
     else (s, [], match find_unit (c_target c) (units s) with None => EUnknownTarget | Some _ => EBadRatioType end)) /\
  step s (OSetStance c amount) =
    on_target s c (fun u => let a := FormulasAttr.setStance_amount F (u_maxStance u) amount in
       if eqb (u_stance u) a then (u, [])
       else (set_stance u a,
             (if eqb a 0 then [EBreak (c_key c) (c_target c) (c_source c)]
              else if eqb (u_stance u) 0 then [EReset (c_key c) (c_target c)] else [])
             ++ [EStance (c_key c) (c_target c) (c_source c) (u_stance u) a])) /\
  step s (OModStance c amount) =
    on_target s c (fun u => do_stance c u (FormulasAttr.modifyStance_amount F st (u_stance u) amount)) /\
  step s (OSetEnergy c amount) =
    on_target s c (fun u => let a := FormulasAttr.setEnergy_amount F (u_maxEnergy u) amount in
       (set_energy u a, if eqb (u_energy u) a then [] else [EEnergy (c_key c) (c_target c) (c_source c) (u_energy u) a])) /\
  step s (OModEnergy c amount) =
    on_target s c (fun u => do_energy c u (FormulasAttr.modifyEnergy_amount F st (u_energy u) amount)) /\
  step s (OModEnergyFixed c amount) =
    on_target s c (fun u => do_energy c u (FormulasAttr.modifyEnergyFixed_amount F (u_energy u) amount)) /\
  step s (OModSP key source samount) =
    (let n := FormulasAttr.modifySP_sp (sp s) samount in
     (mkSt (units s) n, if sp s =? n then [] else [ESP key source (sp s) n], ENone)).
Proof.
  intros s c st amount ratio rtype floor dmg key source samount Hm Hr Hb.
  repeat split; cbn [step]; rewrite ?Hm, ?Hr, ?Hb; try reflexivity.
  destruct ((rtype =? 1) || (rtype =? 2)) eqn:E; [|reflexivity].
  unfold on_target. destruct (find_unit (c_target c) (units s)); [|reflexivity].
  rewrite gen_ModifyHPByRatio_is_model, E. reflexivity.
Qed.

Definition C07_formulas_statement : Prop :=
  (forall hp energy maxEnergy stance maxStance id,
     add_unit hp energy maxEnergy stance maxStance id =
     mkUnit (FormulasAttr.addTarget_hpRatio F hp) (FormulasAttr.addTarget_energy F energy maxEnergy) maxEnergy stance maxStance Alive id) /\
  (forall st amount, FormulasAttr.setHP_ratio F st amount = new_hp_set (FormulasInfo.MaxHP F st) amount) /\
  (forall st amount, FormulasAttr.modifyHPByAmount_ratio F st amount =
                     new_hp_amount (FormulasInfo.MaxHP F st) (FormulasInfo.CurrentHPRatio F st) amount) /\
  (forall st cur ratio rtype floor,
     FormulasAttr.modifyHPByRatio_ratio F st cur ratio rtype floor =
     (if (rtype =? 1) || (rtype =? 2) then Some (new_hp_ratio (FormulasInfo.MaxHP F st) cur ratio rtype floor) else None)) /\
  (forall maxStance amount, FormulasAttr.setStance_amount F maxStance amount = clampTo maxStance amount) /\
  (forall st cur amount, FormulasAttr.modifyStance_amount F st cur amount =
                         (cur + amount * (1 + FormulasInfo.GetProperty F st FormulasInfo.prop_AllStanceDMGPercent))%float) /\
  (forall maxEnergy amount, FormulasAttr.setEnergy_amount F maxEnergy amount = clampTo maxEnergy amount) /\
  (forall st cur amount, FormulasAttr.modifyEnergy_amount F st cur amount = (cur + amount * (1 + FormulasInfo.EnergyRegen F st))%float) /\
  (forall cur amount, FormulasAttr.modifyEnergyFixed_amount F cur amount = (cur + amount)%float) /\
  (forall old amount, FormulasAttr.modifySP_sp old amount = new_sp old amount) /\
  sp init = FormulasAttr.attribute_initial_sp.

Lemma C07_formulas_hold : C07_formulas_statement.
Proof.
  unfold C07_formulas_statement.
  repeat match goal with |- _ /\ _ => split end; try reflexivity.
  exact gen_ModifyHPByRatio_is_model.
Qed.
