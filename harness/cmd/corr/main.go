// corr drives the real srsim packages with generated or replayed operation lists and
// prints, one JSON object per line, the input term and the observed output term.
//
//	corr <component> gen -seed S -n N     generate N cases
//	corr <component> run                  read {"in":...} lines on stdin, re-run them
package main

import (
	"bufio"
	"encoding/json"
	"flag"
	"fmt"
	"os"
	"runtime"
	"sort"
	"strconv"
	"time"

	"verif/harness/term"
)

type component struct {
	gen func(r *term.Rng, idx int) term.T
	run func(in term.T) term.T
	// kinds returns the op-kind histogram of an input (for the evidence files)
	kinds func(in term.T) map[string]int
	// hung, if set, is the observation to record when run does not return within the per-case time
	// limit (a run of the real code that fails to stop without emitting anything cannot be interrupted:
	// the record is written and the process exits, the rest of the batch is lost)
	hung func(in term.T) term.T
}

var components = map[string]component{}

func register(name string, c component) { components[name] = c }

func safeRun(c component, in term.T) (out term.T) {
	defer func() {
		if r := recover(); r != nil {
			out = term.C("HarnessPanic", term.S(fmt.Sprint(r)))
		}
	}()
	return c.run(in)
}

// timedRun is safeRun under a per-case time limit for components that declare a `hung` observation
func timedRun(c component, in term.T) (out term.T, timedOut bool) {
	if c.hung == nil {
		return safeRun(c, in), false
	}
	limit := 60 * time.Second
	if v, err := strconv.Atoi(os.Getenv("CORR_CASE_TIMEOUT_S")); err == nil && v > 0 {
		limit = time.Duration(v) * time.Second
	}
	done := make(chan term.T, 1)
	go func() { done <- safeRun(c, in) }()
	select {
	case out = <-done:
		return out, false
	case <-time.After(limit):
		return c.hung(in), true
	}
}

func main() {
	if runtime.GOARCH != "amd64" {
		fmt.Fprintln(os.Stderr, "corr: float correspondence is only bit-exact on amd64")
		os.Exit(2)
	}
	if len(os.Args) < 3 {
		names := []string{}
		for k := range components {
			names = append(names, k)
		}
		sort.Strings(names)
		fmt.Fprintln(os.Stderr, "usage: corr <component> gen|run ...; components:", names)
		os.Exit(2)
	}
	c, ok := components[os.Args[1]]
	if !ok {
		fmt.Fprintln(os.Stderr, "unknown component", os.Args[1])
		os.Exit(2)
	}
	fs := flag.NewFlagSet("corr", flag.ExitOnError)
	seed := fs.Uint64("seed", 1, "seed")
	n := fs.Int("n", 100, "cases")
	_ = fs.Parse(os.Args[3:])
	w := bufio.NewWriterSize(os.Stdout, 1<<20)
	defer w.Flush()
	enc := json.NewEncoder(w)
	switch os.Args[2] {
	case "gen":
		master := term.NewRng(*seed)
		for i := 0; i < *n; i++ {
			r := master.Fork()
			in := c.gen(r, i)
			// a JSON round trip makes gen and run see the same representation
			in = roundTrip(in)
			out, hung := timedRun(c, in)
			rec := map[string]any{"i": i, "in": in, "out": out}
			if c.kinds != nil {
				rec["kinds"] = c.kinds(in)
			}
			if err := enc.Encode(rec); err != nil {
				panic(err)
			}
			if hung {
				w.Flush()
				os.Exit(0)
			}
		}
	case "run":
		sc := bufio.NewScanner(os.Stdin)
		sc.Buffer(make([]byte, 1<<20), 1<<28)
		i := 0
		for sc.Scan() {
			t, err := term.Decode(sc.Bytes())
			if err != nil {
				panic(err)
			}
			in := t.(map[string]any)["in"]
			out, hung := timedRun(c, in)
			rec := map[string]any{"i": i, "in": in, "out": out}
			if c.kinds != nil {
				rec["kinds"] = c.kinds(in)
			}
			if err := enc.Encode(rec); err != nil {
				panic(err)
			}
			if hung {
				w.Flush()
				os.Exit(0)
			}
			i++
		}
	default:
		fmt.Fprintln(os.Stderr, "unknown mode", os.Args[2])
		os.Exit(2)
	}
}

func roundTrip(t term.T) term.T {
	b, err := json.Marshal(t)
	if err != nil {
		panic(err)
	}
	v, err := term.Decode(b)
	if err != nil {
		panic(err)
	}
	return v
}
