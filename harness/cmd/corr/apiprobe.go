package main

// C20, component `engineapi`: the engine API must answer calls about targets that are not
// (or no longer) part of the battle with an error, never by failing.  A generated run is
// executed to completion on a real simulation.Simulation; afterwards the error-returning
// engine calls are issued against it with target ids inside and outside the battle (units that
// died during the run have left the turn order).
//
//	((RS ...), [Probe kind target amount])         kind: 0 SetHP 1 ModifyHPByRatio 2 ModifyStance
//	                                               3 ModifyEnergy 4 ModifyEnergyFixed 5 SetGauge
//	                                               6 ModifyGaugeNormalized 7 ModifyGaugeAV
//	                                               8 AdjacentTo 9 IsValid/IsAlive/IsCharacter/IsEnemy (queries)
//	ApiOut (Obs ...) units [status]                status: 0 returned nil, 1 returned an error,
//	                                               2 panicked; units = targets created by the run

import (
	"context"
	"fmt"
	"runtime/debug"

	"github.com/simimpact/srsim/pkg/engine/info"
	"github.com/simimpact/srsim/pkg/engine/logging"
	"github.com/simimpact/srsim/pkg/key"
	"github.com/simimpact/srsim/pkg/logic/gcs/eval"
	"github.com/simimpact/srsim/pkg/model"
	"github.com/simimpact/srsim/pkg/simulation"

	"verif/harness/term"
)

func apiGen(r *term.Rng, idx int) term.T {
	r = reseed(r, idx)
	spec := genSpec(r, genOpts{maxChars: 3, maxCycles: 3})
	_, a := term.Ctor(spec)
	units := len(term.List(a[0])) + len(term.List(a[1]))
	probes := []term.T{}
	pool := []int{0, -1, units + 1, units + 7, 1000}
	for i, n := 0, r.Range(6, 16); i < n; i++ {
		var target int
		if r.Bool() {
			target = term.Pick(r, pool)
		} else {
			target = r.Range(1, units)
		}
		amount := term.Pick(r, []int{0, 1, -1, 50, -10000, 10000})
		probes = append(probes, term.C("Probe", term.I(int64(r.Intn(10))), term.I(int64(target)), term.I(int64(amount))))
	}
	return term.Tup(spec, term.L(probes...))
}

func apiCall(sim *simulation.Simulation, kind int, target key.TargetID, amount float64) (status int, msg string) {
	defer func() {
		if r := recover(); r != nil {
			status, msg = 2, fmt.Sprint(r)+" @ "+panicSite(string(debug.Stack()))
		}
	}()
	// the source of every probe is the first character (the weakness-break hook, reached from
	// ModifyStance, requires a character as the source of a break)
	d := info.ModifyAttribute{Key: "verif-probe", Target: target, Source: 1, Amount: amount}
	var err error
	switch kind {
	case 8:
		// queries have no error result: they must simply answer, whatever the target (content asks about
		// units that an earlier insert of the same queue drain has already removed)
		_ = sim.AdjacentTo(target)
		return 0, ""
	case 9:
		_ = sim.IsValid(target)
		_ = sim.IsAlive(target)
		_ = sim.IsCharacter(target)
		_ = sim.IsEnemy(target)
		return 0, ""
	case 0:
		err = sim.SetHP(d)
	case 1:
		err = sim.ModifyHPByRatio(info.ModifyHPByRatio{Key: "verif-probe", Target: target, Source: target,
			Ratio: amount / 100, RatioType: model.ModifyHPRatioType_MAX_HP, Floor: 1})
	case 2:
		err = sim.ModifyStance(d)
	case 3:
		err = sim.ModifyEnergy(d)
	case 4:
		err = sim.ModifyEnergyFixed(d)
	case 5:
		err = sim.SetGauge(d)
	case 6:
		d.Amount = amount / 100
		err = sim.ModifyGaugeNormalized(d)
	default:
		err = sim.ModifyGaugeAV(d)
	}
	if err != nil {
		return 1, err.Error()
	}
	return 0, ""
}

func apiRun(in term.T) term.T {
	a := term.TupleItems(in)
	spec := decodeSpec(a[0])
	list, err := parseScript(spec.script)
	if err != nil {
		return term.C("ApiOut", obsTerm(runObs{status: 4, msg: err.Error()}), term.I(0), term.L())
	}
	rec := newRecLogger(false, sweepEventLimit)
	logging.InitLoggers(rec)
	sim := simulation.NewSimulation(spec.cfg, eval.New(context.Background(), list.Program), spec.seed)
	obs := func() (o runObs) {
		defer func() {
			if r := recover(); r != nil {
				o = runObs{status: 2, msg: fmt.Sprint(r) + " @ " + panicSite(string(debug.Stack()))}
			}
		}()
		res, err := sim.Run()
		if err != nil {
			return runObs{status: 1, msg: err.Error()}
		}
		return runObs{status: 0, resHash: resultHash(res)}
	}()
	obs.n, obs.logHash, obs.last = rec.n, rec.sum(), rec.lastName
	units := len(sim.Targets)
	out := []term.T{}
	for _, pt := range term.List(a[1]) {
		_, p := term.Ctor(pt)
		st, m := apiCall(sim, int(term.Int(p[0])), key.TargetID(term.Int(p[1])), float64(term.Int(p[2])))
		if st == 2 {
			println("probe panicked:", m)
		}
		out = append(out, term.I(int64(st)))
	}
	logging.InitLoggers()
	return term.C("ApiOut", obsTerm(obs), term.I(int64(units)), term.L(out...))
}

func apiKinds(in term.T) map[string]int {
	a := term.TupleItems(in)
	out := map[string]int{}
	for _, pt := range term.List(a[1]) {
		_, p := term.Ctor(pt)
		out[fmt.Sprintf("probe-kind-%d", term.Int(p[0]))]++
	}
	return out
}

func init() {
	register("engineapi", component{gen: apiGen, run: apiRun, kinds: apiKinds,
		hung: func(term.T) term.T {
			// the run (or a probe) did not return within the per-case time limit: status 3 of the run, no probes
			return term.C("ApiOut", obsTerm(runObs{status: 3, msg: "the run did not return within the per-case time limit (it fails to stop)"}), term.I(0), term.L())
		}})
}
