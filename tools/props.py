"""Per-property configuration of tools/check.py: one file per property in tools/props.d/Cxx.py,
each defining CONFIG (a dict, see props.d/C18.py for the keys)."""
import glob, importlib.util, os

# Axioms a property theorem may depend on: only ones declared by the Coq standard library
# (primitive floats / Uint63, classical reals used by Flocq and Reals, functional extensionality).
ALLOWED_AXIOMS = [
    r"(Coq\.Floats\.)?FloatAxioms\.[\w.]+", r"Uint63Axioms\.\w+", r"(\w+\.)*Uint63\.\w+",
    r"ClassicalDedekindReals\.sig_forall_dec", r"ClassicalDedekindReals\.sig_not_dec",
    r"FunctionalExtensionality\.functional_extensionality_dep",
    r"Classical_Prop\.classic", r"Eqdep\.Eq_rect_eq\.eq_rect_eq", r"JMeq\.JMeq_eq",
    r"ProofIrrelevance\.proof_irrelevance",
    r"ClassicalEpsilon\.constructive_indefinite_description",
    # primitive types / operations are listed by Print Assumptions too; they are not axioms
    r"float", r"int", r"PrimInt63\.\w+", r"PrimFloat\.[\w.]+", r"Uint63\.\w+", r"FloatOps\.\w+",
]

PROPS = {}
_d = os.path.join(os.path.dirname(os.path.abspath(__file__)), "props.d")
for _f in sorted(glob.glob(os.path.join(_d, "C*.py"))):
    _spec = importlib.util.spec_from_file_location("propcfg_" + os.path.basename(_f)[:-3], _f)
    _m = importlib.util.module_from_spec(_spec)
    _spec.loader.exec_module(_m)
    PROPS[_m.CONFIG["id"]] = _m.CONFIG
