From Coq Require Import List ZArith Bool Lia Sorting.Sorted Permutation.
From SR Require Import Model.Events.
Import ListNotations.
Open Scope Z_scope.

(* ------------------------------------------------------------------ *)
(* Specification of one emission frame                                  *)
(* ------------------------------------------------------------------ *)

Definition canceller (k : hkind) (c : call) : bool :=
  kind_eqb k KCancel && r_cancel (call_r c).

Definition local_ok (hs : list handler) (fr : frame) : Prop :=
  match fr with
  | Frame h vin calls vout c =>
      exists hd, nth_error hs h = Some hd /\
        let k := h_kind hd in
        (* not cancelled: every subscribed listener, once, in the handler's order *)
        (c = false -> map call_l calls = h_ls hd /\ Forall (fun cl => canceller k cl = false) calls) /\
        (* cancelled: only a cancelable handler; the listeners called are the prefix of the
           handler's order up to and including the first one that cancels *)
        (c = true -> k = KCancel /\
           exists pre lst post, calls = pre ++ [lst] /\ h_ls hd = map call_l calls ++ post /\
             r_cancel (call_r lst) = true /\ Forall (fun cl => canceller k cl = false) pre) /\
        (* the value each listener sees / the value logged and returned *)
        threaded k vin calls vout
  end.

Fixpoint all_frames (fr : frame) : list frame :=
  fr :: match fr with
        | Frame _ _ calls _ _ => flat_map all_frames_call calls
        end
with all_frames_call (c : call) : list frame :=
  match c with Call _ _ _ subs => flat_map all_frames subs end.

Definition subs_ok (hs : list handler) (cl : call) : Prop :=
  Forall (fun fr => Forall (local_ok hs) (all_frames fr)) (call_subs cl).

Definition good_emitter (E : emitter) : Prop :=
  forall w h v w' c v' fr, E w h v = Some (w', c, v', fr) ->
    hs w' = hs w /\ loggers w' = loggers w /\ next_id w' = next_id w /\
    trace w' = trace w ++ flatten (loggers w) fr /\
    Forall (local_ok (hs w)) (all_frames fr).

Lemma good_emit0 : good_emitter (emit 0).
Proof. intros w h v w' c v' fr H; discriminate. Qed.

Lemma nested_spec E (GE : good_emitter E) : forall ns w w' frs,
  nested E w ns = Some (w', frs) ->
  hs w' = hs w /\ loggers w' = loggers w /\ next_id w' = next_id w /\
  trace w' = trace w ++ flat_map (flatten (loggers w)) frs /\
  Forall (fun fr => Forall (local_ok (hs w)) (all_frames fr)) frs.
Proof.
  induction ns as [|[h v] ns IH]; intros w w' frs H; cbn [nested] in H.
  - inversion H; subst. cbn. rewrite app_nil_r. auto.
  - destruct (E w h v) as [[[[w1 c1] v1] fr]|] eqn:HE; [|discriminate].
    destruct (nested E w1 ns) as [[w2 frs2]|] eqn:HN; [|discriminate].
    inversion H; subst; clear H.
    apply GE in HE. destruct HE as (Hh & Hl & Hn & Ht & Hf).
    apply IH in HN. destruct HN as (Hh2 & Hl2 & Hn2 & Ht2 & Hf2).
    repeat split; try congruence.
    + cbn [flat_map]. rewrite Ht2, Ht, Hl, app_assoc. reflexivity.
    + constructor; [exact Hf|]. rewrite Hh in Hf2. exact Hf2.
Qed.

Lemma pop_hs w rs : hs (set_reacts w rs) = hs w. Proof. reflexivity. Qed.

Lemma deliver_spec E (GE : good_emitter E) k h : forall ls w v w' c v' cls,
  deliver E k h w ls v = Some (w', c, v', cls) ->
  hs w' = hs w /\ loggers w' = loggers w /\ next_id w' = next_id w /\
  trace w' = trace w ++ flat_map (flatten_call (loggers w) h) cls /\
  threaded k v cls v' /\
  (c = false -> map call_l cls = ls /\ Forall (fun cl => canceller k cl = false) cls) /\
  (c = true -> k = KCancel /\
     exists pre lst post, cls = pre ++ [lst] /\ ls = map call_l cls ++ post /\
       r_cancel (call_r lst) = true /\ Forall (fun cl => canceller k cl = false) pre) /\
  Forall (subs_ok (hs w)) cls.
Proof.
  induction ls as [|l rest IH]; intros w v w' c v' cls H; cbn [deliver] in H.
  - inversion H; subst. cbn. rewrite app_nil_r.
    repeat split; auto; try discriminate.
  - destruct (pop (reacts (add_trace w [ICall (l_id l) h v])) (l_id l)) as [r rs'] eqn:HP.
    match type of H with context [nested E ?W ?N] =>
      destruct (nested E W N) as [[w3 subs]|] eqn:HN; [|discriminate] end.
    apply (nested_spec E GE) in HN. cbn [hs loggers next_id trace set_reacts add_trace] in HN.
    destruct HN as (Hh & Hl & Hn & Ht & Hf).
    destruct (kind_eqb k KCancel && r_cancel r) eqn:HC.
    + inversion H; subst; clear H.
      apply andb_prop in HC. destruct HC as [HK HR].
      assert (k = KCancel) by (destruct k; cbn in HK; congruence). subst k.
      split; [exact Hh|]. split; [exact Hl|]. split; [exact Hn|].
      split. { cbn [flat_map flatten_call]. rewrite Ht, app_nil_r, <- app_assoc. reflexivity. }
      split. { cbn. auto. }
      split. { discriminate. }
      split. { intros _. split; [reflexivity|].
               exists [], (Call l v r subs), rest. cbn. repeat split; auto. }
      constructor; [exact Hf|constructor].
    + destruct (deliver E k h w3 rest _) as [[[[w4 c4] v4] cls4]|] eqn:HD; [|discriminate].
      inversion H; subst; clear H.
      apply IH in HD. destruct HD as (Hh4 & Hl4 & Hn4 & Ht4 & Hth & Hnc & Hc & Hs).
      split; [congruence|]. split; [congruence|]. split; [congruence|].
      split. { cbn [flat_map flatten_call]. rewrite Ht4, Ht, Hl. rewrite <- !app_assoc. reflexivity. }
      split. { cbn [threaded call_v]. split; [reflexivity|]. exact Hth. }
      split. { intros Hcf. destruct (Hnc Hcf) as [E1 E2]. split; [cbn; f_equal; exact E1|].
               constructor; [exact HC|exact E2]. }
      split. { intros Hct. destruct (Hc Hct) as (Hk & pre & lst & post & E1 & E2 & E3 & E4).
               split; [exact Hk|].
               exists (Call l v r subs :: pre), lst, post. subst cls4. cbn.
               split; [reflexivity|]. split; [f_equal; exact E2|]. split; [exact E3|].
               constructor; [exact HC|exact E4]. }
      constructor; [exact Hf|]. rewrite Hh in Hs. exact Hs.
Qed.

Lemma flat_map_all_frames_subs hs0 cls :
  Forall (subs_ok hs0) cls -> Forall (local_ok hs0) (flat_map all_frames_call cls).
Proof.
  induction 1 as [|cl cls Hc _ IH]; cbn; [constructor|].
  apply Forall_app; split; [|exact IH].
  destruct cl as [l v r subs]. unfold subs_ok in Hc. cbn in *.
  induction Hc as [|fr frs Hfr _ IH2]; cbn; [constructor|].
  apply Forall_app; split; assumption.
Qed.

Lemma good_emit_step E : good_emitter E ->
  good_emitter (fun w h v =>
      match nth_error (hs w) h with
      | None => None
      | Some hd =>
          match deliver E (h_kind hd) h w (h_ls hd) v with
          | None => None
          | Some (w1, c, v', cls) =>
              Some (add_trace w1 (log_items (loggers w1) h v' c ++ [IRet h c v']), c, v',
                    Frame h v cls v' c)
          end
      end).
Proof.
  intros GE w h v w' c v' fr H.
  destruct (nth_error (hs w) h) as [hd|] eqn:Hnth; [|discriminate].
  destruct (deliver E (h_kind hd) h w (h_ls hd) v) as [[[[w1 c1] v1] cls]|] eqn:HD; [|discriminate].
  inversion H; subst; clear H.
  apply (deliver_spec E GE) in HD.
  destruct HD as (Hh & Hl & Hn & Ht & Hth & Hnc & Hc & Hs).
  cbn [hs loggers next_id trace add_trace].
  repeat split; auto.
  - cbn [flatten]. rewrite Ht, Hl, <- !app_assoc. reflexivity.
  - cbn [all_frames]. constructor.
    + cbn. exists hd. split; [exact Hnth|]. cbn. repeat split; auto.
      * apply Hnc; assumption.
      * apply Hnc; assumption.
      * apply Hc; assumption.
      * apply Hc; assumption.
    + apply flat_map_all_frames_subs. exact Hs.
Qed.

Theorem emit_good : forall fuel, good_emitter (emit fuel).
Proof.
  induction fuel as [|f IH]; [exact good_emit0|].
  cbn [emit]. apply good_emit_step. exact IH.
Qed.

(* ------------------------------------------------------------------ *)
(* Handler tables: what Subscribe maintains                             *)
(* ------------------------------------------------------------------ *)

Definition prio_sorted (ls : list listener) : Prop :=
  Sorted (fun a b => l_prio a <= l_prio b) ls.
Definition ids_increasing (ls : list listener) : Prop :=
  StronglySorted (fun a b => l_id a < l_id b) ls.

Definition handler_wf (bound : Z) (hd : handler) : Prop :=
  Forall (fun l => l_id l < bound) (h_ls hd) /\
  NoDup (map l_id (h_ls hd)) /\
  match h_kind hd with
  | KSimple => ids_increasing (h_ls hd)        (* = subscription order: ids are a counter *)
  | _ => prio_sorted (h_ls hd)
  end.

Lemma insert_prio_in l ls x : In x (insert_prio l ls) <-> x = l \/ In x ls.
Proof.
  induction ls as [|y ls IH]; cbn.
  - intuition.
  - destruct (l_prio l <? l_prio y); cbn; rewrite ?IH; intuition.
Qed.

Lemma insert_prio_perm l ls : Permutation (l :: ls) (insert_prio l ls).
Proof.
  induction ls as [|y ls IH]; cbn; [reflexivity|].
  destruct (l_prio l <? l_prio y); [reflexivity|].
  rewrite perm_swap. constructor. exact IH.
Qed.

Lemma insert_prio_sorted l ls : prio_sorted ls -> prio_sorted (insert_prio l ls).
Proof.
  unfold prio_sorted. induction ls as [|y ls IH]; intros H; cbn.
  - repeat constructor.
  - destruct (l_prio l <? l_prio y) eqn:E.
    + constructor; [exact H|]. constructor. apply Z.ltb_lt in E. lia.
    + apply Z.ltb_ge in E. inversion H as [|? ? Hs Hh]; subst.
      constructor; [apply IH; exact Hs|].
      destruct ls as [|z ls]; cbn.
      * constructor. exact E.
      * destruct (l_prio l <? l_prio z); constructor; [exact E|].
        inversion Hh; subst. assumption.
Qed.

(* stable insertion: the new listener goes after every listener of priority <= its own and
   the relative order of the old listeners is kept *)
Lemma insert_prio_split l ls : exists a b, ls = a ++ b /\ insert_prio l ls = a ++ l :: b /\
  Forall (fun x => l_prio x <= l_prio l) a /\
  match b with [] => True | y :: _ => l_prio l < l_prio y end.
Proof.
  induction ls as [|y ls IH]; cbn.
  - exists [], []. repeat split; constructor.
  - destruct (l_prio l <? l_prio y) eqn:E.
    + exists [], (y :: ls). apply Z.ltb_lt in E. repeat split; auto.
    + destruct IH as (a & b & E1 & E2 & E3 & E4). apply Z.ltb_ge in E.
      exists (y :: a), b. subst ls. cbn. rewrite E2. repeat split; auto.
Qed.

Lemma NoDup_app_local {A} (l : list A) x : NoDup l -> ~ In x l -> NoDup (l ++ [x]).
Proof.
  intros Hnd Hni. eapply Permutation_NoDup; [apply Permutation_cons_append|].
  constructor; assumption.
Qed.

Lemma handler_wf_mono b b' hd : b <= b' -> handler_wf b hd -> handler_wf b' hd.
Proof.
  intros Hle (Hb & Hr). split; [|exact Hr].
  eapply Forall_impl; [|exact Hb]. cbn; intros; lia.
Qed.

Lemma ids_increasing_snoc ls l :
  ids_increasing ls -> Forall (fun x => l_id x < l_id l) ls -> ids_increasing (ls ++ [l]).
Proof.
  unfold ids_increasing. induction ls as [|y ls IH]; intros Hs Hb; cbn.
  - repeat constructor.
  - inversion Hs; subst. inversion Hb; subst. constructor; [apply IH; assumption|].
    apply Forall_app; split; [assumption|]. constructor; [assumption|constructor].
Qed.

Lemma subscribe_wf b hd prio : handler_wf b hd -> handler_wf (b + 1) (subscribe_h hd (mkL b prio)).
Proof.
  intros (Hb & Hnd & Hk).
  assert (Hnotin : ~ In b (map l_id (h_ls hd))).
  { intros Hin. apply in_map_iff in Hin. destruct Hin as (x & Hx & Hin).
    rewrite Forall_forall in Hb. apply Hb in Hin. lia. }
  assert (Hb' : Forall (fun l => l_id l < b + 1) (h_ls hd)).
  { eapply Forall_impl; [|exact Hb]. cbn; intros; lia. }
  assert (HP : forall k, k <> KSimple -> h_kind hd = k ->
     handler_wf (b + 1) (mkH k (insert_prio (mkL b prio) (h_ls hd)))).
  { intros k Hne Hkd. unfold handler_wf. cbn [h_ls h_kind].
    pose proof (insert_prio_perm (mkL b prio) (h_ls hd)) as HPm.
    split; [|split].
    - eapply Permutation_Forall; [exact HPm|]. constructor; [cbn; lia|exact Hb'].
    - eapply Permutation_NoDup; [apply Permutation_map; exact HPm|].
      cbn. constructor; assumption.
    - rewrite Hkd in Hk. destruct k; try congruence; apply insert_prio_sorted; exact Hk. }
  unfold subscribe_h. destruct (h_kind hd) eqn:K.
  - unfold handler_wf; cbn [h_ls h_kind]. split; [|split].
    + apply Forall_app; split; [exact Hb'|]. constructor; [cbn; lia|constructor].
    + rewrite map_app. cbn. apply NoDup_app_local; auto.
    + apply ids_increasing_snoc; [exact Hk|exact Hb].
  - apply HP; [discriminate|reflexivity].
  - apply HP; [discriminate|reflexivity].
  - apply HP; [discriminate|reflexivity].
Qed.

Definition world_wf (w : world) : Prop := Forall (handler_wf (next_id w)) (hs w).

Lemma update_nth_Forall {A} (P Q : A -> Prop) f : (forall x, P x -> Q x) -> (forall x, P x -> Q (f x)) ->
  forall n l, Forall P l -> Forall Q (update_nth n f l).
Proof.
  intros HPQ Hf n l. revert n. induction l as [|x l IH]; intros n H; cbn.
  - destruct n; constructor.
  - inversion H; subst. destruct n; constructor; auto.
    eapply Forall_impl; [|eassumption]. exact HPQ.
Qed.

Lemma step_wf fuel w o w' fo : world_wf w -> step fuel w o = Some (w', fo) -> world_wf w'.
Proof.
  unfold world_wf. intros Hw H. destruct o as [h prio rs|h v|lgs]; cbn [step] in H.
  - inversion H; subst; clear H. cbn [hs next_id].
    eapply update_nth_Forall; [| |exact Hw].
    + intros hd. apply handler_wf_mono. lia.
    + intros hd. apply subscribe_wf.
  - destruct (emit fuel w h v) as [[[[w1 c] v1] fr]|] eqn:HE; [|discriminate].
    inversion H; subst; clear H.
    apply emit_good in HE. destruct HE as (Hh & _ & Hn & _). rewrite Hh, Hn. exact Hw.
  - inversion H; subst. exact Hw.
Qed.

Lemma init_wf kinds : world_wf (init kinds).
Proof.
  unfold world_wf, init. cbn. induction kinds as [|k ks IH]; cbn; constructor; [|exact IH].
  unfold handler_wf. cbn. repeat split; try constructor. destruct k; constructor.
Qed.

Definition frame_record_ok (x : list handler * list Z * frame) : Prop :=
  let '(hs0, lgs, fr) := x in
  (exists b, Forall (handler_wf b) hs0) /\ Forall (local_ok hs0) (all_frames fr).

Definition flatten_record (x : list handler * list Z * frame) : list item :=
  let '(_, lgs, fr) := x in flatten lgs fr.

Theorem run_spec fuel : forall ops w w' frs, world_wf w ->
  run fuel w ops = Some (w', frs) ->
  world_wf w' /\ trace w' = trace w ++ flat_map flatten_record frs /\ Forall frame_record_ok frs.
Proof.
  induction ops as [|o ops IH]; intros w w' frs Hw H; cbn [run] in H.
  - inversion H; subst. cbn. rewrite app_nil_r. auto.
  - destruct (step fuel w o) as [[w1 fo]|] eqn:HS; [|discriminate].
    destruct (run fuel w1 ops) as [[w2 frs2]|] eqn:HR; [|discriminate].
    inversion H; subst; clear H.
    pose proof (step_wf _ _ _ _ _ Hw HS) as Hw1.
    destruct (IH _ _ _ Hw1 HR) as (Hw2 & Ht & Hf).
    split; [exact Hw2|].
    destruct o as [h prio rs|h v|lgs]; cbn [step] in HS.
    + inversion HS; subst; clear HS. cbn [trace] in Ht. auto.
    + destruct (emit fuel w h v) as [[[[w1' c] v1] fr]|] eqn:HE; [|discriminate].
      inversion HS; subst; clear HS.
      apply emit_good in HE. destruct HE as (Hh & Hl & Hn & Htr & Hfr).
      split.
      * cbn [flat_map flatten_record]. rewrite Ht, Htr, <- app_assoc. reflexivity.
      * constructor; [|exact Hf]. cbn. split; [|exact Hfr]. exists (next_id w). exact Hw.
    + inversion HS; subst; clear HS. cbn [trace] in Ht. auto.
Qed.

(* ------------------------------------------------------------------ *)
(* Logs: every logger sees the completion order of the emission forest  *)
(* ------------------------------------------------------------------ *)

Section FrameInd.
  Variables (P : frame -> Prop) (Q : call -> Prop).
  Hypothesis HF : forall h vin calls vout c, Forall Q calls -> P (Frame h vin calls vout c).
  Hypothesis HC : forall l vs r subs, Forall P subs -> Q (Call l vs r subs).
  Fixpoint frame_ind2 (fr : frame) : P fr :=
    match fr with
    | Frame h vin calls vout c =>
        HF h vin calls vout c
           ((fix go (cs : list call) : Forall Q cs :=
               match cs with [] => Forall_nil _ | x :: r => Forall_cons _ (call_ind2 x) (go r) end) calls)
    end
  with call_ind2 (cl : call) : Q cl :=
    match cl with
    | Call l vs r subs =>
        HC l vs r subs
           ((fix go (fs : list frame) : Forall P fs :=
               match fs with [] => Forall_nil _ | x :: r => Forall_cons _ (frame_ind2 x) (go r) end) subs)
    end.
End FrameInd.

Lemma log_of_app lg a b : log_of lg (a ++ b) = log_of lg a ++ log_of lg b.
Proof. unfold log_of. apply flat_map_app. Qed.

Lemma log_of_log_items lg lgs h v c : NoDup lgs -> In lg lgs ->
  log_of lg (log_items lgs h v c) = [(h, v, c)].
Proof.
  induction lgs as [|x lgs IH]; intros Hnd Hin; [destruct Hin|].
  inversion Hnd as [|? ? Hni Hnd']; subst. cbn.
  destruct Hin as [->|Hin].
  - rewrite Z.eqb_refl. cbn. f_equal.
    assert (Hnone : forall l, ~ In lg l -> log_of lg (log_items l h v c) = []).
    { induction l as [|y l IHl]; cbn; intros Hn; [reflexivity|].
      destruct (y =? lg) eqn:E; [apply Z.eqb_eq in E; subst; exfalso; apply Hn; left; reflexivity|].
      cbn. apply IHl. intros Hi; apply Hn; right; exact Hi. }
    apply Hnone. exact Hni.
  - destruct (x =? lg) eqn:E; [apply Z.eqb_eq in E; subst; contradiction|].
    cbn. apply IH; assumption.
Qed.

Lemma log_of_log_items_absent lg lgs h v c : ~ In lg lgs -> log_of lg (log_items lgs h v c) = [].
Proof.
  induction lgs as [|y l IHl]; cbn; intros Hn; [reflexivity|].
  destruct (y =? lg) eqn:E; [apply Z.eqb_eq in E; subst; exfalso; apply Hn; left; reflexivity|].
  cbn. apply IHl. intros Hi; apply Hn; right; exact Hi.
Qed.

Lemma log_of_flat_map {A} lg (f : A -> list item) l :
  log_of lg (flat_map f l) = flat_map (fun x => log_of lg (f x)) l.
Proof.
  induction l as [|x l IH]; cbn [flat_map]; [reflexivity|].
  rewrite log_of_app, IH. reflexivity.
Qed.

Lemma flat_map_ext_Forall {A B} (f g : A -> list B) l :
  Forall (fun x => f x = g x) l -> flat_map f l = flat_map g l.
Proof. induction 1 as [|x l Hx _ IH]; cbn; [reflexivity|]. rewrite Hx, IH. reflexivity. Qed.

Lemma log_of_cons_call lg lid h v tl : log_of lg (ICall lid h v :: tl) = log_of lg tl.
Proof. reflexivity. Qed.

Theorem log_is_postorder lg lgs : NoDup lgs -> In lg lgs ->
  forall fr, log_of lg (flatten lgs fr) = postorder fr.
Proof.
  intros Hnd Hin.
  apply (frame_ind2 (fun fr => log_of lg (flatten lgs fr) = postorder fr)
                    (fun cl => forall h, log_of lg (flatten_call lgs h cl) = postorder_call cl)).
  - intros h vin calls vout c Hcs. cbn [flatten postorder].
    rewrite !log_of_app, log_of_log_items by assumption.
    rewrite log_of_flat_map. f_equal.
    apply flat_map_ext_Forall. eapply Forall_impl; [|exact Hcs]. intros cl Hcl. apply Hcl.
  - intros l vs r subs Hs h. cbn [flatten_call postorder_call].
    rewrite log_of_cons_call, log_of_flat_map.
    apply flat_map_ext_Forall. exact Hs.
Qed.

Lemma flat_map_nil_Forall {A B} (f : A -> list B) l :
  Forall (fun x => f x = []) l -> flat_map f l = [].
Proof. induction 1 as [|x l Hx _ IH]; cbn; [reflexivity|]. rewrite Hx, IH. reflexivity. Qed.

Theorem unregistered_logger_sees_nothing lg lgs : ~ In lg lgs ->
  forall fr, log_of lg (flatten lgs fr) = [].
Proof.
  intros Hni.
  apply (frame_ind2 (fun fr => log_of lg (flatten lgs fr) = [])
                    (fun cl => forall h, log_of lg (flatten_call lgs h cl) = [])).
  - intros h vin calls vout c Hcs. cbn [flatten].
    rewrite !log_of_app, log_of_log_items_absent by assumption.
    rewrite log_of_flat_map, flat_map_nil_Forall; [reflexivity|].
    eapply Forall_impl; [|exact Hcs]. intros cl Hcl. apply Hcl.
  - intros l vs r subs Hs h. cbn [flatten_call].
    rewrite log_of_cons_call, log_of_flat_map. apply flat_map_nil_Forall. exact Hs.
Qed.

(* fuel: an emission consumes at most one reaction per listener invocation; nothing is
   proved from it here except that running out of fuel is reported as [None], never as a
   normal-looking result (all theorems above are conditional on [Some]). *)

(* ------------------------------------------------------------------ *)
(* Property-level statements (C18)                                      *)
(* ------------------------------------------------------------------ *)

Definition C18_statement : Prop :=
  forall fuel kinds ops w frs,
    run fuel (init kinds) ops = Some (w, frs) ->
    (* (1) the observable trace is exactly the flattening of the emission forest: listeners
           of a frame run first (with their nested emissions inside), then every registered
           logger is called exactly once, then Emit returns *)
    trace w = flat_map flatten_record frs /\
    forall hs0 lgs top, In (hs0, lgs, top) frs ->
      (* (2) every logger registered during the emission logs the completion order *)
      (NoDup lgs -> forall lg, In lg lgs -> log_of lg (flatten lgs top) = postorder top) /\
      forall h vin calls vout c, In (Frame h vin calls vout c) (all_frames top) ->
        exists hd, nth_error hs0 h = Some hd /\
          (* (3) subscription table: unique listeners; simple handlers keep subscription
                 order, the others ascending priority *)
          NoDup (map l_id (h_ls hd)) /\
          (h_kind hd = KSimple -> ids_increasing (h_ls hd)) /\
          (h_kind hd <> KSimple -> prio_sorted (h_ls hd)) /\
          (* (4) delivery: everyone exactly once in that order unless cancelled *)
          (c = false -> map call_l calls = h_ls hd) /\
          (* (5) cancellation: only cancelable handlers, reported iff some listener cancels,
                 listeners called = prefix up to the first canceller *)
          (c = true -> h_kind hd = KCancel /\
             exists pre lst post, calls = pre ++ [lst] /\ h_ls hd = map call_l calls ++ post /\
               r_cancel (call_r lst) = true /\
               Forall (fun cl => r_cancel (call_r cl) = false) pre) /\
          (c = false -> h_kind hd = KCancel -> Forall (fun cl => r_cancel (call_r cl) = false) calls) /\
          (* (6) mutable handlers thread the value; all others pass the emitted value *)
          threaded (h_kind hd) vin calls vout.

Lemma canceller_cancel cl : canceller KCancel cl = false -> r_cancel (call_r cl) = false.
Proof. unfold canceller. cbn. auto. Qed.

Theorem C18_holds : C18_statement.
Proof.
  intros fuel kinds ops w frs HR.
  destruct (run_spec fuel ops _ _ _ (init_wf kinds) HR) as (_ & Ht & Hf).
  split; [exact Ht|].
  intros hs0 lgs top Hin. split.
  - intros Hnd lg Hlg. apply log_is_postorder; assumption.
  - intros h vin calls vout c Hfr.
    rewrite Forall_forall in Hf. specialize (Hf _ Hin). cbn in Hf.
    destruct Hf as ((b & Hwf) & Hloc).
    rewrite Forall_forall in Hloc. specialize (Hloc _ Hfr). cbn in Hloc.
    destruct Hloc as (hd & Hnth & Hnc & Hc & Hth).
    exists hd. split; [exact Hnth|].
    rewrite Forall_forall in Hwf. pose proof (Hwf hd (nth_error_In _ _ Hnth)) as (Hb & Hnd & Hk).
    split; [exact Hnd|].
    split; [intros K; rewrite K in Hk; exact Hk|].
    split; [intros K; destruct (h_kind hd); try exact Hk; congruence|].
    split; [intros Hcf; apply Hnc; exact Hcf|].
    split.
    { intros Hct. destruct (Hc Hct) as (HK & pre & lst & post & E1 & E2 & E3 & E4).
      split; [exact HK|]. exists pre, lst, post. repeat split; auto.
      rewrite HK in E4. eapply Forall_impl; [|exact E4]. apply canceller_cancel. }
    split; [|exact Hth].
    intros Hcf HK. destruct (Hnc Hcf) as [_ Hall]. rewrite HK in Hall.
    eapply Forall_impl; [|exact Hall]. apply canceller_cancel.
Qed.

(* mutable threading, spelled out: the logged value is the fold of the transformers *)
Lemma threaded_mutable_fold vin calls vout : threaded KMutable vin calls vout ->
  vout = fold_left (fun v cl => apply_x (r_x (call_r cl)) v) calls vin /\
  forall pre cl post, calls = pre ++ cl :: post ->
    call_v cl = fold_left (fun v c0 => apply_x (r_x (call_r c0)) v) pre vin.
Proof.
  revert vin. induction calls as [|c0 cs IH]; intros vin H; cbn in H.
  - subst. split; [reflexivity|]. intros pre cl post E. destruct pre; discriminate.
  - destruct H as [Hv Hth]. unfold after_call in Hth. cbn in Hth.
    destruct (IH _ Hth) as [E1 E2]. split.
    + cbn. rewrite <- Hv. exact E1.
    + intros pre cl post E. destruct pre as [|p pre]; cbn in E.
      * inversion E; subst. cbn. reflexivity.
      * inversion E; subst. cbn. eapply E2. reflexivity.
Qed.

Lemma threaded_const k vin calls vout : k <> KMutable -> threaded k vin calls vout ->
  vout = vin /\ Forall (fun cl => call_v cl = vin) calls.
Proof.
  intros Hk. revert vin. induction calls as [|c0 cs IH]; intros vin H; cbn in H.
  - subst; split; [reflexivity|constructor].
  - destruct H as [Hv Hth]. unfold after_call in Hth.
    assert (kind_eqb k KMutable = false) as Hf by (destruct k; cbn; congruence).
    rewrite Hf, Hv in Hth. destruct (IH _ Hth) as [E1 E2].
    split; [exact E1|]. constructor; assumption.
Qed.

(* non-vacuity: a run with nested emissions, a mutable chain and a cancellation completes *)
Definition demo_ops : list op :=
  [ OInit [100; 101];
    OSub 2 5 [mkR (XMul 3) false []];
    OSub 2 (-1) [mkR (XAdd 4) false [(3%nat, 7)]];
    OSub 3 0 [mkR (XAdd 0) false []; mkR (XAdd 0) true [(0%nat, 1)]];
    OSub 3 0 [mkR (XAdd 0) true []];
    OSub 0 0 [];
    OEmit 2 10; OEmit 3 9 ].
Definition demo_kinds := [KSimple; KPriority; KMutable; KCancel].

Example demo_runs : exists w frs, run 10 (init demo_kinds) demo_ops = Some (w, frs) /\
  length frs = 2%nat /\ length (trace w) = 18%nat.
Proof. eexists. eexists. vm_compute. repeat split. Qed.
