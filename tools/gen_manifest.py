#!/usr/bin/env python3
"""Writes MANIFEST.json from tools/props.d (claimed properties) and tools/not_applicable.json."""
import json, os, sys
V = os.path.dirname(os.path.dirname(os.path.abspath(__file__)))
sys.path.insert(0, os.path.join(V, "tools"))
from props import PROPS
hooks = json.load(open(os.path.join(V, "tools", "hooks.json")))
na = json.load(open(os.path.join(V, "tools", "not_applicable.json")))
checks = []
for pid in sorted(PROPS):
    m = PROPS[pid]["manifest"]
    checks.append({
        "property_id": pid,
        "quick_cmd": "python3 tools/check.py %s --tier quick" % pid,
        "thorough_cmd": "python3 tools/check.py %s --tier thorough" % pid,
        "evidence_file": "evidence/%s.json" % pid,
        "replay_cmd_template": "python3 tools/check.py %s --replay {path}" % pid,
        "engine": "coq-proof",
        "level_claimed": {"category": m.get("category", "proof"), "text": m["level_text"], "design_ref": m.get("design_ref", "DESIGN.md section 7")},
        "level_note": m["level_note"],
        "technique": m["technique"],
    })
man = {
    "version": 1,
    "setup_cmd": "sh tools/setup.sh",
    "hooks": hooks,
    "engines": [{"name": "coq-proof", "path": "coq", "serves_properties": sorted(PROPS),
                 "kind_free_text": "Coq 8.16 executable models + kernel-checked theorems (coq/), tied to /repo on every run by a "
                                   "correspondence harness (harness/cmd/corr, driving the real Go packages) and a translator "
                                   "(harness/cmd/go2coq -> coq/Gen); orchestrated by tools/check.py"}],
    "checks": checks,
    "not_applicable": [e for e in na if e["property_id"] not in PROPS],
    "notes": "See DESIGN.md. Every check rebuilds the harness against /repo's working tree, regenerates coq/Gen, rebuilds the "
             "Coq development, re-checks hygiene and Print Assumptions, then runs corpus + fresh correspondence cases.",
}
json.dump(man, open(os.path.join(V, "MANIFEST.json"), "w"), indent=1)
print("MANIFEST.json: %d checks, %d not_applicable" % (len(checks), len(man["not_applicable"])))
