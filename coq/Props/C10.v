(* C10 — Queued inserts run in priority order, first-in first-out, at most once.
   Only statements, [exact] and [Print Assumptions] live here. *)
From Coq Require Import List ZArith Permutation.
From SR Require Import Model.Queue Model.QueueHeap Proofs.QueueProofs Proofs.QueueHeapProofs Proofs.QueueFuel.
From SR Require Gen.FormulasQueue Proofs.FormulasQueueProofs.
Import ListNotations.
Open Scope Z_scope.

(* the whole property (Proofs/QueueProofs.v, Part E) *)
Theorem C10_queue : C10_statement.
Proof. exact C10_holds. Qed.
Print Assumptions C10_queue.

(* Pop takes the pending task with the smallest priority, the oldest among equals — from any
   queue whose pending ids are distinct, hence after any interleaving of inserts and pops *)
Theorem C10_pop_is_min_then_oldest :
  forall q m q', qinv q -> pop_min q = Some (m, q') ->
    In m (q_pending q) /\
    (forall t, In t (q_pending q) -> less t m = false) /\
    (forall t, In t (q_pending q) -> t <> m -> less m t = true) /\
    Permutation (q_pending q) (m :: q_pending q') /\
    ~ In (t_id m) (ids (q_pending q')) /\
    q_counter q' = q_counter q /\ qinv q'.
Proof. exact pop_min_spec. Qed.
Print Assumptions C10_pop_is_min_then_oldest.

Theorem C10_invariant_after_any_interleaving :
  forall ops, qinv (fst (arun q_empty ops)) /\
              q_counter (fst (arun q_empty ops)) = count_ins ops /\
              NoDup (ids (snd (arun q_empty ops))).
Proof.
  intros ops. split; [apply arun_qinv, qinv_empty|].
  split; [rewrite arun_counter; reflexivity|apply arun_popped, qinv_empty].
Qed.
Print Assumptions C10_invariant_after_any_interleaving.

Theorem C10_dropped_iff :
  forall s t,
    (fate_of s t = DroppedDead <-> life_of s (t_src t) = LDead) /\
    (fate_of s t = DroppedOffField <-> life_of s (t_src t) <> LDead /\ on_field s (t_src t) = false) /\
    (fate_of s t = DroppedFlag <->
       life_of s (t_src t) <> LDead /\ on_field s (t_src t) = true /\ has_flag s (t_src t) (t_flags t) = true) /\
    (fate_of s t = ActionNotAlive <->
       life_of s (t_src t) <> LDead /\ on_field s (t_src t) = true /\ has_flag s (t_src t) (t_flags t) = false /\
       exists u, t_body t = BAction u /\ life_of s u <> LAlive) /\
    (fate_of s t = Executed <->
       life_of s (t_src t) <> LDead /\ on_field s (t_src t) = true /\ has_flag s (t_src t) (t_flags t) = false /\
       match t_body t with BAction u => life_of s u = LAlive | BAbility _ => True end).
Proof. exact dropped_iff. Qed.
Print Assumptions C10_dropped_iff.

(* when a side has been wiped out the drain takes nothing more and ends the battle; otherwise it
   takes the least pending task and treats it as its source's state dictates *)
Theorem C10_drain_iteration :
  forall s s' stopped, J s -> iter s = Some (s', stopped) ->
    (exists r, exit_reason s = Some r /\ q_pending (s_q s) <> [] /\
               s' = emit s [TTermination r] /\ stopped = true) \/
    (exit_reason s = None /\
     exists t q', pop_min (s_q s) = Some (t, q') /\
      In t (q_pending (s_q s)) /\ (forall t', In t' (q_pending (s_q s)) -> less t' t = false) /\
      s_log s' = s_log s ++ [mkE t (fate_of s t)] /\
      ((fate_of s t = DroppedDead \/ fate_of s t = DroppedOffField \/ fate_of s t = DroppedFlag) ->
         s' = record (with_q s q') (mkE t (fate_of s t)) /\ stopped = false) /\
      (fate_of s t = ActionNotAlive ->
         s_q s' = q' /\ s_life s' = s_life s /\ s_flags s' = s_flags s /\ s_acts s' = s_acts s) /\
      J s').
Proof. exact iter_spec. Qed.
Print Assumptions C10_drain_iteration.

Theorem C10_off_field_means_in_no_side_list :
  forall s u, on_field s u = true <-> In u (s_chars s) \/ In u (s_enemies s).
Proof. exact on_field_iff. Qed.
Print Assumptions C10_off_field_means_in_no_side_list.

Theorem C10_taken_and_executed_at_most_once :
  forall units acts fuel ops s, top_run fuel (sim_init units acts) ops = Some s ->
    J s /\ NoDup (taken s) /\ NoDup (texecs (s_trace s)).
Proof. exact taken_at_most_once. Qed.
Print Assumptions C10_taken_and_executed_at_most_once.

(* the array heap actually used (container/heap's up/down loops over queue.go's Less and Swap)
   pops exactly the tasks the abstract pop-min pops, after any interleaving of inserts and pops,
   and keeps the heap order, the same pending tasks and distinct ids *)
Theorem C10_array_heap_refines_pop_min :
  forall ops, snd (hrun h_empty ops) = snd (arun q_empty ops) /\
              R (fst (arun q_empty ops)) (fst (hrun h_empty ops)).
Proof. intros ops. apply heap_refines_queue. apply R_empty. Qed.
Print Assumptions C10_array_heap_refines_pop_min.

(* the fuel of the drain model is a proof device only: one unit more than the pending work
   (tasks plus the inserts their scripts can still issue) always suffices *)
Theorem C10_drain_never_runs_out_of_fuel :
  forall fuel s, J s -> (mu s < fuel)%nat -> drain fuel s <> None.
Proof. exact drain_has_enough_fuel. Qed.
Print Assumptions C10_drain_never_runs_out_of_fuel.

(* The translator tie: the queue order (priority, then insertion id), the priorities of inserted
   actions and their abort flags are EQUAL to the definitions go2coq generates from queue/queue.go,
   info/queue.go and pkg/model (Gen/FormulasQueue.v). *)
Theorem C10_model_formulas_are_the_source :
  (forall a b, FormulasQueue.queue_less a b = less a b) /\
  char_insert_action = FormulasQueue.InsertPriority_CharInsertAction /\
  enemy_insert_action = FormulasQueue.InsertPriority_EnemyInsertAction /\
  action_abort_flags = [FormulasQueue.BehaviorFlag_STAT_CTRL; FormulasQueue.BehaviorFlag_DISABLE_ACTION].
Proof. exact FormulasQueueProofs.C10_formulas_hold. Qed.
Print Assumptions C10_model_formulas_are_the_source.

Theorem C10_nonvacuous : exists s,
  top_run 50 (sim_init demo_units []) demo_ops = Some s /\
  map (fun e => (t_id (e_task e), e_fate e)) (s_log s) =
    [(4, DroppedOffField); (1, DroppedFlag); (2, Executed); (0, Executed); (5, Executed); (3, DroppedDead)] /\
  texecs (s_trace s) = [2; 0; 5].
Proof. exact demo_runs. Qed.

From SR Require Model.SimSkeleton Model.SimSkeletonInterp Gen.RunSkeleton Proofs.RunSkeletonProofs Proofs.RunSkeletonInterpProofs.

(* WHERE the queue is drained, as the source says it.  `go2coq RunSkeleton` translates run.go, action.go and death.go
   into a first-order table of steps (Gen/RunSkeleton.v, regenerated on every run).  The table equals the pinned
   table Model/SimSkeleton.v - executeQueue is called exactly by engage (info.BattleStart), phase1
   (info.InsertAbilityPhase1, before Phase1End) and phase2 (info.InsertAbilityPhase2, between Phase2Start and the
   ModifierPhase2 tick; none after Phase2End or in endTurn); startBattle does not touch sim.Queue; the body of
   executeQueue (ult check, guard with the constant values of the phases, pop, the three drop tests, execute, death
   check, exit check, ult check) is pinned step by step - and the interpretation of the generated state functions
   over the model's own execute_queue is Sim.one_turn / the battle-start drain of Sim.start. *)
Theorem C10_run_skeleton_is_the_source : Proofs.RunSkeletonInterpProofs.run_skeleton_tie.
Proof. exact Proofs.RunSkeletonInterpProofs.run_skeleton_is_the_source. Qed.
Print Assumptions C10_run_skeleton_is_the_source.
