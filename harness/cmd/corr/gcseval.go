package main

// C12 - correspondence of the gcs evaluator (pkg/logic/gcs/eval) with the Coq models
// Model/GcsEval.v (implementation model) and Model/GcsSem.v (reference semantics).
//
// A case input is   (program, engine, draws, calls):
//   program : the syntax tree (GcsAst.v `block`) produced by the REAL parser from generated
//             source text; `run` rebuilds the Go tree from the term (termToBlock), so replay
//             and shrinking work from the term alone;
//   engine  : the state the condition builtins can see (a stub engine.Engine serves it);
//   draws   : the 63-bit values the engine's random source will return, in order;
//   calls   : the callback invocations made after Init (NextAction / UltCheck / DefaultAction).
// The observed output is the chronological trace of everything the property names: every
// print (exported values through the `verif` hook, never decimal text), every call the stub
// engine received, the outcome of Init and of every callback invocation.

import (
	"context"
	"encoding/hex"
	"errors"
	"io"
	"math"
	"math/rand"
	"os"
	"strconv"
	"strings"
	"sync"
	"time"

	"github.com/simimpact/srsim/pkg/engine"
	"github.com/simimpact/srsim/pkg/engine/info"
	"github.com/simimpact/srsim/pkg/engine/target/evaltarget"
	"github.com/simimpact/srsim/pkg/key"
	"github.com/simimpact/srsim/pkg/logic"
	"github.com/simimpact/srsim/pkg/logic/gcs/ast"
	"github.com/simimpact/srsim/pkg/logic/gcs/eval"
	"github.com/simimpact/srsim/pkg/model"

	"verif/harness/term"
)

func init() {
	register("gcseval", component{gen: gcsevalGen, run: gcsevalRun, kinds: gcsevalKinds})
}

// ------------------------------------------------------------------------------------------
// term -> Go syntax tree (inverse of gcsast.go)
// ------------------------------------------------------------------------------------------

func termStr(t term.T) string {
	if s, ok := t.(string); ok {
		return s
	}
	name, a := term.Ctor(t)
	if name != "hx" {
		panic("gcseval: bad string term " + name)
	}
	b, err := hex.DecodeString(term.Str(a[0]))
	if err != nil {
		panic(err)
	}
	return string(b)
}

var tokTypeByName = func() map[string]ast.TokenType {
	m := map[string]ast.TokenType{}
	for i, n := range tokTypeNames {
		m[n] = ast.TokenType(i)
	}
	return m
}()

func termTok(t term.T) ast.Token {
	_, a := term.Ctor(t)
	tn, _ := term.Ctor(a[0])
	typ, ok := tokTypeByName[tn]
	if !ok {
		panic("gcseval: bad token type " + tn)
	}
	return ast.Token{Typ: typ, Val: termStr(a[1])}
}

func termIdents(t term.T) []*ast.Ident {
	var out []*ast.Ident
	for _, x := range term.List(t) {
		out = append(out, &ast.Ident{Value: termStr(x)})
	}
	return out
}

func termExpr(t term.T) ast.Expr {
	name, a := term.Ctor(t)
	switch name {
	case "ENil":
		return nil
	case "ENum":
		return &ast.NumberLit{IntVal: term.Int(a[0]), FloatVal: term.Float(a[1]), IsFloat: term.Bool(a[2])}
	case "EStr":
		return &ast.StringLit{Value: termStr(a[0])}
	case "EBool":
		return &ast.BoolLit{Value: term.Bool(a[0])}
	case "ENull":
		return &ast.NullLit{}
	case "EFuncLit":
		return &ast.FuncLit{Args: termIdents(a[0]), Body: termBlock(a[1])}
	case "EIdent":
		return &ast.Ident{Value: termStr(a[0])}
	case "ECall":
		c := &ast.CallExpr{Fun: termExpr(a[0])}
		for _, x := range term.List(a[1]) {
			c.Args = append(c.Args, termExpr(x))
		}
		return c
	case "EUnary":
		return &ast.UnaryExpr{Op: termTok(a[0]), Right: termExpr(a[1])}
	case "EBinary":
		return &ast.BinaryExpr{Left: termExpr(a[0]), Right: termExpr(a[1]), Op: termTok(a[2])}
	case "EMap":
		m := &ast.MapExpr{Array: make([]ast.Expr, 0), Fields: make(map[string]ast.Expr)}
		for _, x := range term.List(a[0]) {
			m.Array = append(m.Array, termExpr(x))
		}
		for _, kv := range term.List(a[1]) {
			it := term.TupleItems(kv)
			m.Fields[termStr(it[0])] = termExpr(it[1])
		}
		return m
	}
	panic("gcseval: bad expr term " + name)
}

func termBlock(t term.T) *ast.BlockStmt {
	name, a := term.Ctor(t)
	if name == "BNil" {
		return nil
	}
	b := &ast.BlockStmt{}
	for _, x := range term.List(a[0]) {
		b.List = append(b.List, termNode(x))
	}
	return b
}

func termCase(t term.T) *ast.CaseStmt {
	_, a := term.Ctor(t)
	return &ast.CaseStmt{Condition: termExpr(a[0]), Body: termBlock(a[1])}
}

func termStmt(t term.T) ast.Stmt {
	name, a := term.Ctor(t)
	switch name {
	case "SNil":
		return nil
	case "SBlock":
		b := termBlock(a[0])
		if b == nil {
			return (*ast.BlockStmt)(nil)
		}
		return b
	case "SAssign":
		return &ast.AssignStmt{Ident: termTok(a[0]), Val: termExpr(a[1])}
	case "SLet":
		return &ast.LetStmt{Ident: termTok(a[0]), Val: termExpr(a[1])}
	case "SReturn":
		return &ast.ReturnStmt{Val: termExpr(a[0])}
	case "SCtrl":
		n, _ := term.Ctor(a[0])
		typ := map[string]ast.CtrlTyp{"InvalidCtrl": ast.InvalidCtrl, "CtrlBreak": ast.CtrlBreak,
			"CtrlContinue": ast.CtrlContinue, "CtrlFallthrough": ast.CtrlFallthrough}[n]
		return &ast.CtrlStmt{Typ: typ}
	case "SIf":
		s := &ast.IfStmt{Condition: termExpr(a[0]), IfBlock: termBlock(a[1])}
		if e := termStmt(a[2]); e != nil {
			s.ElseBlock = e
		}
		return s
	case "SSwitch":
		s := &ast.SwitchStmt{Condition: termExpr(a[0]), Default: termBlock(a[2])}
		for _, c := range term.List(a[1]) {
			s.Cases = append(s.Cases, termCase(c))
		}
		return s
	case "SCase":
		return termCase(a[0])
	case "SFn":
		return &ast.FnStmt{FunVal: termTok(a[0]), Args: termIdents(a[1]), Body: termBlock(a[2])}
	case "SWhile":
		return &ast.WhileStmt{Condition: termExpr(a[0]), WhileBlock: termBlock(a[1])}
	case "SFor":
		s := &ast.ForStmt{Cond: termExpr(a[1]), Body: termBlock(a[3])}
		if i := termStmt(a[0]); i != nil {
			s.Init = i
		}
		if p := termStmt(a[2]); p != nil {
			s.Post = p
		}
		return s
	}
	panic("gcseval: bad stmt term " + name)
}

func termNode(t term.T) ast.Node {
	name, a := term.Ctor(t)
	switch name {
	case "NExpr":
		if e := termExpr(a[0]); e != nil {
			return e
		}
		return nil
	case "NStmt":
		if s := termStmt(a[0]); s != nil {
			return s
		}
		return nil
	}
	panic("gcseval: bad node term " + name)
}

// ------------------------------------------------------------------------------------------
// the stub engine
// ------------------------------------------------------------------------------------------

type stubTarget struct {
	valid, char, enemy, alive      bool
	energy, maxEnergy, energyRatio float64
	hpRatio, stance, maxStance     float64
	shielded                       bool
	shields, mods                  []string
	counts                         map[int64]int64
	weak                           map[int64]bool
	element                        *int64 // nil: CharacterInfo fails
	skill                          *bool  // nil: CanUseSkill fails
	adjacent                       []key.TargetID
}

type stubEngine struct {
	engine.Engine // nil: any method the evaluator is not expected to call panics
	targets       map[int64]*stubTarget
	sp            int64
	chars         []key.TargetID
	charNames     map[int64]string
	enemies       []key.TargetID
	rnd           *rand.Rand
	rec           *recorder
	ev            *eval.Eval
	tapped        bool
}

type scriptSource struct {
	draws []int64
	pos   int
}

func (s *scriptSource) Int63() int64 {
	if s.pos < len(s.draws) {
		v := s.draws[s.pos]
		s.pos++
		return v & math.MaxInt64
	}
	return 0
}
func (s *scriptSource) Seed(int64) {}

type recorder struct {
	mu    sync.Mutex
	trace []term.T
}

func (r *recorder) add(t term.T) {
	r.mu.Lock()
	r.trace = append(r.trace, t)
	r.mu.Unlock()
}

var defaultTarget = &stubTarget{}

func (e *stubEngine) t(id key.TargetID) *stubTarget {
	if t, ok := e.targets[int64(id)]; ok {
		return t
	}
	return defaultTarget
}

func (e *stubEngine) call(name string, id int64, extra term.T) {
	e.rec.add(term.C("TEng", term.S(name), term.I(id), extra))
}

var noExtra = term.C("XNone")

func (e *stubEngine) Rand() *rand.Rand { return e.rnd }
func (e *stubEngine) IsValid(id key.TargetID) bool {
	e.call("IsValid", int64(id), noExtra)
	return e.t(id).valid
}
func (e *stubEngine) IsAlive(id key.TargetID) bool {
	e.call("IsAlive", int64(id), noExtra)
	return e.t(id).alive
}
func (e *stubEngine) IsCharacter(id key.TargetID) bool {
	e.call("IsCharacter", int64(id), noExtra)
	return e.t(id).char
}
func (e *stubEngine) IsEnemy(id key.TargetID) bool {
	e.call("IsEnemy", int64(id), noExtra)
	return e.t(id).enemy
}
func (e *stubEngine) HasModifier(id key.TargetID, m key.Modifier) bool {
	e.call("HasModifier", int64(id), term.C("XS", gcsStr(string(m))))
	for _, x := range e.t(id).mods {
		if x == string(m) {
			return true
		}
	}
	return false
}
func (e *stubEngine) ModifierStatusCount(id key.TargetID, st model.StatusType) int {
	e.call("ModifierStatusCount", int64(id), term.C("XI", term.I(int64(st))))
	return int(e.t(id).counts[int64(st)])
}
func (e *stubEngine) EnergyRatio(id key.TargetID) float64 {
	e.call("EnergyRatio", int64(id), noExtra)
	return e.t(id).energyRatio
}
func (e *stubEngine) SP() int {
	e.call("SP", 0, noExtra)
	return int(e.sp)
}
func (e *stubEngine) Energy(id key.TargetID) float64 {
	e.call("Energy", int64(id), noExtra)
	return e.t(id).energy
}
func (e *stubEngine) MaxEnergy(id key.TargetID) float64 {
	e.call("MaxEnergy", int64(id), noExtra)
	return e.t(id).maxEnergy
}
func (e *stubEngine) HPRatio(id key.TargetID) float64 {
	e.call("HPRatio", int64(id), noExtra)
	return e.t(id).hpRatio
}
func (e *stubEngine) Stance(id key.TargetID) float64 {
	e.call("Stance", int64(id), noExtra)
	return e.t(id).stance
}
func (e *stubEngine) MaxStance(id key.TargetID) float64 {
	e.call("MaxStance", int64(id), noExtra)
	return e.t(id).maxStance
}
func (e *stubEngine) HasShield(id key.TargetID, s key.Shield) bool {
	e.call("HasShield", int64(id), term.C("XS", gcsStr(string(s))))
	for _, x := range e.t(id).shields {
		if x == string(s) {
			return true
		}
	}
	return false
}
func (e *stubEngine) IsShielded(id key.TargetID) bool {
	e.call("IsShielded", int64(id), noExtra)
	return e.t(id).shielded
}
func (e *stubEngine) CanUseSkill(id key.TargetID) (bool, error) {
	e.call("CanUseSkill", int64(id), noExtra)
	if s := e.t(id).skill; s != nil {
		return *s, nil
	}
	return false, errors.New("stub: skill information unavailable")
}
func (e *stubEngine) Stats(id key.TargetID) *info.Stats {
	e.call("Stats", int64(id), noExtra)
	w := info.NewWeaknessMap()
	for k, v := range e.t(id).weak {
		if v {
			w.Add(model.DamageType(k))
		}
	}
	attr := &info.Attributes{BaseStats: info.NewPropMap(), BaseDebuffRES: info.NewDebuffRESMap(), Weakness: w}
	mods := &info.ModifierState{Props: info.NewPropMap(), DebuffRES: info.NewDebuffRESMap(), Weakness: info.NewWeaknessMap(),
		Counts: map[model.StatusType]int{}}
	return info.NewStats(id, attr, mods)
}
func (e *stubEngine) CharacterInfo(id key.TargetID) (info.Character, error) {
	e.call("CharacterInfo", int64(id), noExtra)
	if el := e.t(id).element; el != nil {
		return info.Character{Key: key.Character(e.charNames[int64(id)]), Element: model.DamageType(*el)}, nil
	}
	return info.Character{}, errors.New("stub: no character information")
}
func (e *stubEngine) Characters() []key.TargetID {
	e.call("Characters", 0, noExtra)
	return e.chars
}
func (e *stubEngine) Enemies() []key.TargetID {
	e.call("Enemies", 0, noExtra)
	return e.enemies
}
func (e *stubEngine) AdjacentTo(id key.TargetID) []key.TargetID {
	e.call("AdjacentTo", int64(id), noExtra)
	return e.t(id).adjacent
}

func fbits(f float64) term.T { return term.F(f) }

func termIDs(t term.T) []key.TargetID {
	var out []key.TargetID
	for _, x := range term.List(t) {
		out = append(out, key.TargetID(term.Int(x)))
	}
	return out
}
func termStrs(t term.T) []string {
	var out []string
	for _, x := range term.List(t) {
		out = append(out, termStr(x))
	}
	return out
}

// engine term:  mkEng [(id, mkT ...)] sp [(id, "name")] [enemy ids] [(enumname, value)]
func termEngine(t term.T, draws []int64, rec *recorder) *stubEngine {
	_, a := term.Ctor(t)
	e := &stubEngine{targets: map[int64]*stubTarget{}, charNames: map[int64]string{}, rec: rec}
	for _, kv := range term.List(a[0]) {
		it := term.TupleItems(kv)
		_, f := term.Ctor(it[1])
		st := &stubTarget{
			valid: term.Bool(f[0]), char: term.Bool(f[1]), enemy: term.Bool(f[2]), alive: term.Bool(f[3]),
			energy: term.Float(f[4]), maxEnergy: term.Float(f[5]), energyRatio: term.Float(f[6]),
			hpRatio: term.Float(f[7]), stance: term.Float(f[8]), maxStance: term.Float(f[9]),
			shielded: term.Bool(f[10]), shields: termStrs(f[11]), mods: termStrs(f[12]),
			counts: map[int64]int64{}, weak: map[int64]bool{}, adjacent: termIDs(f[17]),
		}
		for _, c := range term.List(f[13]) {
			ci := term.TupleItems(c)
			if _, dup := st.counts[term.Int(ci[0])]; !dup {
				st.counts[term.Int(ci[0])] = term.Int(ci[1])
			}
		}
		for _, w := range term.List(f[14]) {
			st.weak[term.Int(w)] = true
		}
		if n, x := term.Ctor(f[15]); n == "Some" {
			v := term.Int(x[0])
			st.element = &v
		}
		if n, x := term.Ctor(f[16]); n == "Some" {
			v := term.Bool(x[0])
			st.skill = &v
		}
		if _, dup := e.targets[term.Int(it[0])]; !dup {
			e.targets[term.Int(it[0])] = st
		}
	}
	e.sp = term.Int(a[1])
	for _, kv := range term.List(a[2]) {
		it := term.TupleItems(kv)
		e.chars = append(e.chars, key.TargetID(term.Int(it[0])))
		e.charNames[term.Int(it[0])] = termStr(it[1])
	}
	e.enemies = termIDs(a[3])
	e.rnd = rand.New(&scriptSource{draws: draws})
	return e
}

// ------------------------------------------------------------------------------------------
// exported values -> terms; text rendering used to cross-check the real Inspect/print
// ------------------------------------------------------------------------------------------

func actTypeTerm(t logic.ActionType) term.T {
	switch t {
	case logic.InvalidAction:
		return term.C("AInvalid")
	case logic.ActionAttack:
		return term.C("AAttack")
	case logic.ActionSkill:
		return term.C("ASkill")
	case logic.ActionUlt:
		return term.C("AUlt")
	case logic.ActionUltAttack:
		return term.C("AUltAttack")
	case logic.ActionUltSkill:
		return term.C("AUltSkill")
	}
	return term.C("AOther")
}

func valTerm(v eval.VerifVal) term.T {
	switch v.Kind {
	case "null":
		return term.C("XNull")
	case "num":
		return term.C("XNum", term.I(v.I), term.F(v.F), term.B(v.IsFloat))
	case "str":
		return term.C("XStr", gcsStr(v.S))
	case "fun":
		return term.C("XFun")
	case "bif":
		return term.C("XBif")
	case "act":
		return term.C("XAct", actTypeTerm(v.Act.Type), term.I(int64(v.Act.TargetEvaluator)))
	case "map":
		arr := make([]term.T, 0, len(v.Arr))
		for _, x := range v.Arr {
			arr = append(arr, valTerm(x))
		}
		fs := make([]term.T, 0, len(v.Keys))
		for i, k := range v.Keys {
			fs = append(fs, term.Tup(gcsStr(k), valTerm(v.Fields[i])))
		}
		return term.C("XMap", term.L(arr...), term.L(fs...))
	}
	return term.C("XBad", term.S(v.Kind))
}

// inspectText re-renders an exported value the way obj.go's Inspect is documented to; ok is
// false when the text is not determined (a map with two or more fields prints them in Go's
// map order).
func inspectText(v eval.VerifVal) (string, bool) {
	switch v.Kind {
	case "null":
		return "null", true
	case "num":
		if v.IsFloat {
			return strconv.FormatFloat(v.F, 'f', -1, 64), true
		}
		return strconv.FormatInt(v.I, 10), true
	case "str":
		return v.S, true
	case "fun":
		return "function", true
	case "bif":
		return "built-in function", true
	case "act":
		var te string
		switch v.Act.TargetEvaluator {
		case evaltarget.First:
			te = "First"
		case evaltarget.LowestHP:
			te = "LowestHP"
		case evaltarget.LowestHPRatio:
			te = "LowestHPRatio"
		default:
			te = strconv.Itoa(int(v.Act.TargetEvaluator))
		}
		return string(v.Act.Type) + "(" + te + ")", true
	case "map":
		if len(v.Keys) > 1 {
			return "", false
		}
		parts := []string{}
		for _, x := range v.Arr {
			s, ok := inspectText(x)
			if !ok {
				return "", false
			}
			parts = append(parts, s)
		}
		for i, k := range v.Keys {
			s, ok := inspectText(v.Fields[i])
			if !ok {
				return "", false
			}
			parts = append(parts, k+" = "+s)
		}
		return "[" + strings.Join(parts, ", ") + "]", true
	}
	return "", false
}

// ------------------------------------------------------------------------------------------
// running the real evaluator
// ------------------------------------------------------------------------------------------

func errCat(err error) term.T {
	m := err.Error()
	has := func(s string) bool { return strings.Contains(m, s) }
	switch {
	case has("does not exist"):
		return term.C("EUnknownVar")
	case has("invalid function call"):
		return term.C("ENotCallable")
	case has("unmatched number of params"), has("invalid number of params"):
		return term.C("EArity")
	case has("does not evaluate to a number"), has("should evaluate to"):
		return term.C("EType")
	case has("cannot redeclare"):
		return term.C("ERedeclare")
	case has("returned an invalid type"):
		return term.C("EBadReturn")
	case has("must return a value"), has("must return the value"):
		return term.C("ENoReturn")
	case has("division by zero"):
		return term.C("EDivZero")
	case has("is invalid"), has("is not a character"), has("is not an enemy"), has("stub:"):
		return term.C("EEngine")
	case has("action should be an attack"), has("must be action or null"), has("wrong action type"),
		has("not found action callback"), has("not found default action"):
		return term.C("EAction")
	}
	return term.C("EOther", gcsStr(m))
}

func actTerm(a logic.Action) term.T {
	return term.Tup(actTypeTerm(a.Type), term.I(int64(a.Target)), term.I(int64(a.TargetEvaluator)))
}

var stdoutMu sync.Mutex

// captureStdout redirects os.Stdout (the print builtin writes there) while f runs.
func captureStdout(f func()) string {
	stdoutMu.Lock()
	defer stdoutMu.Unlock()
	r, w, err := os.Pipe()
	if err != nil {
		panic(err)
	}
	old := os.Stdout
	os.Stdout = w
	done := make(chan string)
	go func() {
		b, _ := io.ReadAll(r)
		done <- string(b)
	}()
	f()
	os.Stdout = old
	w.Close()
	s := <-done
	r.Close()
	return s
}

// set once an evaluation had to be abandoned: its goroutine keeps spinning in this process, so
// later cases are not run any more (they report the same outcome immediately)
var gcsevalPoisoned bool

func gcsevalRun(in term.T) term.T {
	if gcsevalPoisoned {
		return term.C("mkObs", term.L(term.C("TTimeout")), term.B(false))
	}
	it := term.TupleItems(in)
	prog := termBlock(it[0])
	var draws []int64
	for _, d := range term.List(it[2]) {
		draws = append(draws, term.Int(d))
	}
	rec := &recorder{}
	stub := termEngine(it[1], draws, rec)
	calls := term.List(it[3])

	var expected []string // expected stdout lines ("" + false when undetermined)
	var determined []bool
	sink := func(vals []eval.VerifVal) {
		ts := make([]term.T, 0, len(vals))
		var sb strings.Builder
		ok := true
		for _, v := range vals {
			ts = append(ts, valTerm(v))
			s, d := inspectText(v)
			ok = ok && d
			sb.WriteString(s)
		}
		rec.add(term.C("TPrint", term.L(ts...)))
		expected = append(expected, sb.String())
		determined = append(determined, ok)
	}

	finished := make(chan struct{})
	var text string
	go func() {
		defer close(finished)
		text = captureStdout(func() {
			ev := eval.New(context.Background(), prog)
			stub.ev = ev
			ok := func() (ok bool) {
				defer func() {
					if r := recover(); r != nil {
						rec.add(term.C("TInit", term.C("RPanicked")))
						ok = false
					}
				}()
				// Characters() is the stub's first call from Init, made after the system
				// functions are installed and before the program runs: the tap goes in there
				err := ev.Init(&tapEngine{stubEngine: stub, sink: sink})
				if err != nil {
					rec.add(term.C("TInit", term.C("RErr", errCat(err))))
					return false
				}
				rec.add(term.C("TInit", term.C("ROk")))
				return true
			}()
			if !ok {
				return
			}
			for _, c := range calls {
				name, a := term.Ctor(c)
				stop := func() (stop bool) {
					defer func() {
						if r := recover(); r != nil {
							rec.add(term.C("TCall", term.C("KPanicked")))
							stop = true
						}
					}()
					switch name {
					case "CNext":
						act, err := ev.NextAction(key.TargetID(term.Int(a[0])))
						if err != nil {
							rec.add(term.C("TCall", term.C("KErr", errCat(err))))
						} else {
							rec.add(term.C("TCall", term.C("KActs", term.L(actTerm(act)))))
						}
					case "CDefault":
						act, err := ev.DefaultAction(key.TargetID(term.Int(a[0])))
						if err != nil {
							rec.add(term.C("TCall", term.C("KErr", errCat(err))))
						} else {
							rec.add(term.C("TCall", term.C("KActs", term.L(actTerm(act)))))
						}
					case "CUlt":
						acts, err := ev.UltCheck()
						if err != nil {
							rec.add(term.C("TCall", term.C("KErr", errCat(err))))
						} else {
							ts := make([]term.T, 0, len(acts))
							for _, x := range acts {
								ts = append(ts, actTerm(x))
							}
							rec.add(term.C("TCall", term.C("KActs", term.L(ts...))))
						}
					default:
						panic("gcseval: bad call " + name)
					}
					return false
				}()
				if stop {
					return
				}
			}
		})
	}()
	select {
	case <-finished:
	case <-time.After(5 * time.Second):
		gcsevalPoisoned = true
		// a runaway evaluation cannot be stopped; report it and leave the goroutine behind
		rec.mu.Lock()
		tr := append([]term.T{}, rec.trace...)
		rec.mu.Unlock()
		if len(tr) > 200 {
			tr = tr[:200]
		}
		return term.C("mkObs", term.L(append(tr, term.C("TTimeout"))...), term.B(false))
	}
	// the text the real print wrote must be the rendering of the values it was given
	textOK := true
	lines := strings.Split(text, "\n")
	if len(lines) > 0 && lines[len(lines)-1] == "" {
		lines = lines[:len(lines)-1]
	}
	got := strings.Join(lines, "\n")
	if allTrue(determined) {
		textOK = got == strings.Join(expected, "\n")
	} else {
		// compare line by line where determined (printed strings contain no newline in generated programs)
		if len(lines) != len(expected) {
			textOK = false
		} else {
			for i := range lines {
				if determined[i] && lines[i] != expected[i] {
					textOK = false
				}
			}
		}
	}
	return term.C("mkObs", term.L(rec.trace...), term.B(textOK))
}

func allTrue(bs []bool) bool {
	for _, b := range bs {
		if !b {
			return false
		}
	}
	return true
}

// tapEngine installs the print tap on the first Characters() call (made by Init between the
// registration of the builtins and the evaluation of the program).
type tapEngine struct {
	*stubEngine
	sink func([]eval.VerifVal)
}

func (t *tapEngine) Characters() []key.TargetID {
	if !t.tapped {
		if !t.ev.VerifTapPrint(t.sink) {
			panic("gcseval: print builtin not registered when Init reads the character list")
		}
		t.tapped = true
	}
	return t.stubEngine.Characters()
}
