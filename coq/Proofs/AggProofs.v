(* Proofs about Model/Agg.v (property C19).

   Part 1  generic (any NumOps whose comparison is a strict total order on the "ordinary"
           values): sorting, min/max, reports depend only on the multiset of results; flushes
           in between change nothing; histograms add up; per-cycle samples are the increments
           of exactly the iterations that reached the cycle; degenerate samples take the
           single-bin path.
   Part 2  binary64 instance: the order hypotheses hold for floats that are neither NaN nor -0.
   Part 3  real-number instance: Welford = two-pass mean / variance, whole-report
           order independence.
   Part 4  the property statement. *)
From Coq Require Import List ZArith Bool Floats SpecFloat Lia Permutation Sorted Reals Lra.
From SR Require Import Base.CaseLib Model.Agg.
Import ListNotations.
Open Scope Z_scope.

(* ======================================================================================== *)
(* Part 1: generic                                                                          *)
(* ======================================================================================== *)

Fixpoint diffs {T} (NO : NumOps T) (vs : list T) (last : T) : list T :=
  match vs with
  | [] => []
  | v :: r => n_sub T NO v last :: diffs NO r v
  end.

Definition opt_list {A} (o : option A) : list A := match o with Some a => [a] | None => [] end.

(* the increments contributed to cycle i: one per iteration whose series reaches cycle i *)
Definition cycle_sample {T} (NO : NumOps T) (series : @result T -> list T) (i : nat) (rs : list (@result T)) : list T :=
  flat_map (fun r => opt_list (nth_error (diffs NO (series r) (n_zero T NO)) i)) rs.

Definition reaching {T} (series : @result T -> list T) (i : nat) (rs : list (@result T)) : list (@result T) :=
  filter (fun r => Nat.ltb i (length (series r))) rs.

Definition zsum (l : list Z) : Z := fold_right Z.add 0 l.

Definition res_map {A B} (f : A -> B) (r : res A) : res B :=
  match r with
  | ROk a => ROk (f a)
  | RConvUndefined => RConvUndefined
  | RPanic => RPanic
  | RNoPow => RNoPow
  end.

Section Generic.
Context {T : Type} (NO : NumOps T).

Notation lt := (n_lt T NO).
Notation gl := (go_less NO).

(* the state after adding rs to a fresh aggregator, and what Flush then reports *)
Definition state_of (cyc : nat) (rs : list (@result T)) : @st T := fold_left (a_add NO) rs (a_init NO cyc).
Definition report_of (cyc : nat) (rs : list (@result T)) : res (@report T) := a_report NO (state_of cyc rs).

(* what the k-th flush of an op list must report: the statistics of everything added so far *)
Fixpoint spec_run (cyc : nat) (added : list (@result T)) (ops : list (@op T)) : list (res (@report T)) :=
  match ops with
  | [] => []
  | OAdd r :: rest => spec_run cyc (added ++ [r]) rest
  | OFlush :: rest =>
      match report_of cyc added with
      | ROk rep => ROk rep :: spec_run cyc added rest
      | bad => [bad]
      end
  end.

Definition added_by (ops : list (@op T)) : list (@result T) :=
  flat_map (fun o => match o with OAdd r => [r] | OFlush => [] end) ops.

(* ---------------------------------------------------------------------------------------- *)
(* histograms add up (no hypothesis on the arithmetic)                                      *)

Lemma zsum_app : forall a b, zsum (a ++ b) = zsum a + zsum b.
Proof. induction a; intros; simpl; [reflexivity | rewrite IHa; lia]. Qed.

Lemma zsum_repeat0 : forall n, zsum (repeat 0 n) = 0.
Proof. induction n; simpl; lia. Qed.

Lemma incr_length : forall bins k, length (incr bins k) = length bins.
Proof. induction bins; destruct k; simpl; auto. Qed.

Lemma incr_sum : forall bins k, (k < length bins)%nat -> zsum (incr bins k) = zsum bins + 1.
Proof.
  induction bins; intros k Hk; simpl in *; [lia|].
  destruct k; simpl; [lia|]. rewrite IHbins by lia. lia.
Qed.

Lemma incr_nonneg : forall bins k, Forall (fun c => 0 <= c) bins -> Forall (fun c => 0 <= c) (incr bins k).
Proof.
  induction bins; intros k H; destruct k; simpl; auto; inversion H; subst; constructor; auto; lia.
Qed.

Definition h_total (h : lhist) : Z := h_low h + zsum (h_bins h) + h_high h.
Definition h_nonneg (h : lhist) : Prop :=
  0 <= h_low h /\ 0 <= h_high h /\ Forall (fun c => 0 <= c) (h_bins h).

Lemma h_add_inv : forall h b,
  h_total (h_add h b) = h_total h + 1 /\ length (h_bins (h_add h b)) = length (h_bins h) /\
  (h_nonneg h -> h_nonneg (h_add h b)).
Proof.
  intros h b. unfold h_add, h_total, h_nonneg, zlen.
  destruct (b <? 0) eqn:E1; simpl.
  - repeat split; try lia; tauto.
  - destruct (Z.of_nat (length (h_bins h)) <=? b) eqn:E2; simpl.
    + repeat split; try lia; tauto.
    + apply Z.ltb_ge in E1. apply Z.leb_gt in E2.
      rewrite incr_length, incr_sum by lia.
      split; [lia|]. split; [reflexivity|].
      intros (A & B & C). repeat split; auto using incr_nonneg.
Qed.

Lemma h_fold_inv : forall bs h,
  h_total (fold_left h_add bs h) = h_total h + zlen bs /\
  length (h_bins (fold_left h_add bs h)) = length (h_bins h) /\
  (h_nonneg h -> h_nonneg (fold_left h_add bs h)).
Proof.
  induction bs; intros h; simpl.
  - unfold zlen; simpl. split; [lia|]. split; [reflexivity|]. auto.
  - destruct (h_add_inv h a) as (A & B & C).
    destruct (IHbs (h_add h a)) as (A' & B' & C').
    unfold zlen in *; simpl length. rewrite A', B', A, B.
    split; [lia|]. split; [reflexivity|]. auto.
Qed.

Lemma add_last_sum : forall bins v, bins <> [] -> zsum (add_last v bins) = zsum bins + v.
Proof.
  induction bins as [|b r IH]; intros v H; [congruence|].
  destruct r as [|b' r']; [simpl; lia|].
  change (add_last v (b :: b' :: r')) with (b :: add_last v (b' :: r')).
  change (zsum (b :: add_last v (b' :: r'))) with (b + zsum (add_last v (b' :: r'))).
  rewrite IH by congruence. simpl. lia.
Qed.

Lemma add_last_length : forall bins v, length (add_last v bins) = length bins.
Proof.
  induction bins as [|b r IH]; intros v; [reflexivity|].
  destruct r as [|b' r']; [reflexivity|].
  change (add_last v (b :: b' :: r')) with (b :: add_last v (b' :: r')).
  simpl. f_equal. apply IH.
Qed.

Lemma add_last_nonneg : forall bins v, 0 <= v -> Forall (fun c => 0 <= c) bins ->
  Forall (fun c => 0 <= c) (add_last v bins).
Proof.
  induction bins as [|b r IH]; intros v Hv H; [constructor|].
  destruct r as [|b' r'].
  - simpl. inversion H; subst. constructor; [lia|constructor].
  - change (add_last v (b :: b' :: r')) with (b :: add_last v (b' :: r')).
    inversion H; subst. constructor; auto.
Qed.

Lemma h_counts_inv : forall h, h_bins h <> [] ->
  zsum (h_counts h) = h_total h /\ length (h_counts h) = length (h_bins h) /\
  (h_nonneg h -> Forall (fun c => 0 <= c) (h_counts h)).
Proof.
  intros h Hne. unfold h_counts, h_total, h_nonneg.
  destruct (h_bins h) as [|b r] eqn:E; [congruence|]. simpl add_first.
  rewrite add_last_sum by congruence. rewrite add_last_length.
  split; [simpl; lia|]. split; [reflexivity|].
  intros (A & B & C). apply add_last_nonneg; auto. inversion C; subst. constructor; auto; lia.
Qed.

Lemma bins_of_length : forall delta mn xs bs, bins_of NO delta mn xs = ROk bs -> length bs = length xs.
Proof.
  induction xs; intros bs H; simpl in H.
  - inversion H; reflexivity.
  - unfold conv in H. destruct (n_trunc T NO _); [|discriminate].
    destruct (bins_of NO delta mn xs) eqn:E; simpl in H; try discriminate.
    inversion H; subst. simpl. f_equal. apply IHxs. reflexivity.
Qed.

Definition hist_ok (hist : list Z) (cnt : Z) : Prop :=
  zsum hist = cnt /\ 1 <= zlen hist /\ Forall (fun c => 0 <= c) hist.

Lemma linear_hist_ok : forall mn mx nbins xs hist,
  linear_hist NO mn mx nbins xs = ROk hist -> hist_ok hist (zlen xs) /\ zlen hist = nbins.
Proof.
  intros mn mx nbins xs hist H. unfold linear_hist in H.
  destruct ((nbins <? 0) || (max_bins <=? nbins)) eqn:E; [discriminate|].
  apply orb_false_iff in E. destruct E as [E1 E2]. apply Z.ltb_ge in E1.
  destruct (bins_of NO _ mn xs) as [bs| | |] eqn:B; simpl in H; try discriminate.
  destruct (nbins =? 0) eqn:E3; [discriminate|]. apply Z.eqb_neq in E3.
  inversion H; subst hist; clear H.
  set (h0 := mkH 0 (repeat 0 (Z.to_nat nbins)) 0).
  destruct (h_fold_inv bs h0) as (A & Bn & C).
  assert (Hlen : length (h_bins (fold_left h_add bs h0)) = Z.to_nat nbins).
  { rewrite Bn. unfold h0; simpl. apply repeat_length. }
  assert (Hne : h_bins (fold_left h_add bs h0) <> []).
  { intro Hnil. rewrite Hnil in Hlen. simpl in Hlen. lia. }
  destruct (h_counts_inv _ Hne) as (S1 & S2 & S3).
  assert (Hn0 : h_nonneg h0).
  { unfold h_nonneg, h0; simpl. repeat split; try lia. clear. induction (Z.to_nat nbins); simpl; constructor; auto; lia. }
  unfold hist_ok, zlen in *. rewrite S1, S2, A, Hlen.
  unfold h_total, h0; simpl. rewrite zsum_repeat0.
  rewrite (bins_of_length _ _ _ _ B).
  repeat split; auto; lia.
Qed.

Lemma overview_sorted_hist : forall xs o, overview_sorted NO xs = ROk o -> hist_ok (o_hist o) (zlen xs).
Proof.
  intros xs o H. unfold overview_sorted in H.
  destruct (bounds_sorted NO xs) as [mn mx].
  destruct (quantile NO xs _) as [q1| | |]; simpl in H; try discriminate.
  destruct (quantile NO xs _) as [q2| | |]; simpl in H; try discriminate.
  destruct (quantile NO xs _) as [q3| | |]; simpl in H; try discriminate.
  destruct (n_cbrt T NO (zlen xs)) as [p|]; [|discriminate].
  match type of H with (if ?c then _ else _) = _ => destruct c eqn:Ec end.
  - inversion H; subst; simpl. unfold hist_ok, zlen; simpl. repeat split; try lia.
    constructor; [lia|constructor].
  - unfold conv in H. destruct (n_trunc T NO _) as [nbins|]; [|discriminate].
    destruct (linear_hist NO mn mx nbins xs) as [hist| | |] eqn:L; simpl in H; try discriminate.
    inversion H; subst; simpl. apply linear_hist_ok in L. tauto.
Qed.

(* ---------------------------------------------------------------------------------------- *)
(* sorting: permutation, no hypothesis                                                      *)

Lemma insert_perm : forall x l, Permutation (insert NO x l) (x :: l).
Proof.
  induction l; simpl; [reflexivity|].
  destruct (gl x a); [reflexivity|].
  rewrite IHl. apply perm_swap.
Qed.

Lemma isort_perm : forall l, Permutation (isort NO l) l.
Proof.
  induction l; simpl; [reflexivity|]. unfold isort in *; simpl.
  rewrite insert_perm. constructor. exact IHl.
Qed.

Lemma isort_length : forall l, zlen (isort NO l) = zlen l.
Proof. intros. unfold zlen. rewrite (Permutation_length (isort_perm l)). reflexivity. Qed.

Lemma overview_hist : forall xs o, overview NO xs = ROk o -> hist_ok (o_hist o) (zlen xs).
Proof. intros xs o H. apply overview_sorted_hist in H. rewrite isort_length in H. exact H. Qed.

(* ---------------------------------------------------------------------------------------- *)
(* per-cycle samples                                                                        *)

Lemma diffs_length : forall vs last, length (diffs NO vs last) = length vs.
Proof. induction vs; intros; simpl; auto. Qed.

Lemma add_series_length : forall vs ss last,
  length (add_series NO ss vs last) = Nat.max (length ss) (length vs).
Proof.
  induction vs; intros ss last; simpl.
  - rewrite Nat.max_0_r. reflexivity.
  - destruct ss; simpl; rewrite IHvs; simpl; reflexivity.
Qed.

Lemma add_series_nth : forall vs ss last i,
  nth i (add_series NO ss vs last) [] = nth i ss [] ++ opt_list (nth_error (diffs NO vs last) i).
Proof.
  induction vs; intros ss last i; simpl.
  - destruct i; simpl; rewrite app_nil_r; reflexivity.
  - destruct ss as [|s ss']; destruct i; simpl; try reflexivity.
    + rewrite IHvs. destruct i; reflexivity.
    + apply IHvs.
Qed.

Lemma nth_repeat_nil : forall (A : Type) n i, nth i (repeat (@nil A) n) [] = [].
Proof. induction n; destruct i; simpl; auto. Qed.

Definition max_len (series : @result T -> list T) (rs : list (@result T)) : nat :=
  fold_right (fun r m => Nat.max (length (series r)) m) O rs.

Lemma state_of_snoc : forall cyc rs r, state_of cyc (rs ++ [r]) = a_add NO (state_of cyc rs) r.
Proof. intros. unfold state_of. rewrite fold_left_app. reflexivity. Qed.

Lemma max_len_snoc : forall series rs r,
  max_len series (rs ++ [r]) = Nat.max (max_len series rs) (length (series r)).
Proof.
  induction rs; intros; simpl.
  - lia.
  - rewrite IHrs. lia.
Qed.

Lemma cycle_sample_snoc : forall series i rs r,
  cycle_sample NO series i (rs ++ [r]) =
  cycle_sample NO series i rs ++ opt_list (nth_error (diffs NO (series r) (n_zero T NO)) i).
Proof.
  intros. unfold cycle_sample. rewrite flat_map_app. simpl. rewrite app_nil_r. reflexivity.
Qed.

Lemma state_samples : forall cyc rs,
  let a := state_of cyc rs in
  a_iters a = zlen rs /\
  a_dpc a = map (dpc_of NO) rs /\
  length (a_cd a) = Nat.max cyc (max_len (@i_cd T) rs) /\
  length (a_ct a) = Nat.max cyc (max_len (@i_ct T) rs) /\
  (forall i, nth i (a_cd a) [] = cycle_sample NO (@i_cd T) i rs) /\
  (forall i, nth i (a_ct a) [] = cycle_sample NO (@i_ct T) i rs).
Proof.
  intros cyc rs. induction rs as [|r rs IH] using rev_ind.
  - unfold state_of; simpl. rewrite !repeat_length, !Nat.max_0_r.
    repeat split; auto; intros; apply nth_repeat_nil.
  - rewrite state_of_snoc. destruct IH as (I1 & I2 & I3 & I4 & I5 & I6).
    unfold a_add; simpl.
    rewrite !add_series_length, I3, I4, !max_len_snoc, I1, I2.
    repeat split.
    + unfold zlen. rewrite app_length. simpl. lia.
    + rewrite map_app. reflexivity.
    + lia.
    + lia.
    + intros i. rewrite add_series_nth, I5, cycle_sample_snoc. reflexivity.
    + intros i. rewrite add_series_nth, I6, cycle_sample_snoc. reflexivity.
Qed.

Lemma cycle_sample_length : forall series i rs,
  zlen (cycle_sample NO series i rs) = zlen (reaching series i rs).
Proof.
  intros. unfold zlen. f_equal. induction rs as [|r rs IH]; simpl; [reflexivity|].
  rewrite app_length, IH.
  destruct (nth_error (diffs NO (series r) (n_zero T NO)) i) eqn:E.
  - assert (Nat.ltb i (length (series r)) = true).
    { apply Nat.ltb_lt. rewrite <- (diffs_length (series r) (n_zero T NO)).
      apply nth_error_Some. congruence. }
    rewrite H. reflexivity.
  - assert (Nat.ltb i (length (series r)) = false).
    { apply Nat.ltb_ge. rewrite <- (diffs_length (series r) (n_zero T NO)).
      apply nth_error_None. exact E. }
    rewrite H. reflexivity.
Qed.

Lemma overviews_ok : forall ss os, overviews NO ss = ROk os ->
  length os = length ss /\
  forall i o, nth_error os i = Some o -> overview NO (nth i ss []) = ROk o.
Proof.
  induction ss as [|s ss IH]; intros os H; simpl in H.
  - inversion H; subst. split; [reflexivity|]. intros [|i] o; discriminate.
  - destruct (overview NO s) as [o1| | |] eqn:E; simpl in H; try discriminate.
    destruct (overviews NO ss) as [os'| | |] eqn:E'; simpl in H; try discriminate.
    inversion H; subst. destruct (IH os' eq_refl) as [L N].
    split; [simpl; congruence|].
    intros [|i] o Hn; simpl in *; [congruence|]. apply N. exact Hn.
Qed.

(* what a returned report says, in terms of the batch only *)
Definition report_describes (cyc : nat) (rs : list (@result T)) (rep : @report T) : Prop :=
  r_iters rep = zlen rs mod 2 ^ 32 /\
  overview NO (map (dpc_of NO) rs) = ROk (r_dpc rep) /\
  hist_ok (o_hist (r_dpc rep)) (zlen rs) /\
  length (r_cd rep) = Nat.max cyc (max_len (@i_cd T) rs) /\
  length (r_ct rep) = Nat.max cyc (max_len (@i_ct T) rs) /\
  (forall i o, nth_error (r_cd rep) i = Some o ->
     overview NO (cycle_sample NO (@i_cd T) i rs) = ROk o /\
     hist_ok (o_hist o) (zlen (reaching (@i_cd T) i rs))) /\
  (forall i o, nth_error (r_ct rep) i = Some o ->
     overview NO (cycle_sample NO (@i_ct T) i rs) = ROk o /\
     hist_ok (o_hist o) (zlen (reaching (@i_ct T) i rs))).

Theorem report_of_describes : forall cyc rs rep,
  report_of cyc rs = ROk rep -> report_describes cyc rs rep.
Proof.
  intros cyc rs rep H. unfold report_of, a_report in H.
  destruct (state_samples cyc rs) as (I1 & I2 & I3 & I4 & I5 & I6).
  destruct (overview NO (a_dpc (state_of cyc rs))) as [dpc| | |] eqn:E1; simpl in H; try discriminate.
  destruct (overviews NO (a_cd (state_of cyc rs))) as [cd| | |] eqn:E2; simpl in H; try discriminate.
  destruct (overviews NO (a_ct (state_of cyc rs))) as [ct| | |] eqn:E3; simpl in H; try discriminate.
  inversion H; subst rep; clear H. unfold report_describes; simpl.
  destruct (overviews_ok _ _ E2) as [L2 N2]. destruct (overviews_ok _ _ E3) as [L3 N3].
  rewrite I2 in E1.
  repeat split.
  - rewrite I1. reflexivity.
  - exact E1.
  - apply overview_hist in E1. unfold zlen in *. rewrite map_length in E1. apply E1.
  - apply overview_hist in E1. unfold zlen in *. rewrite map_length in E1. apply E1.
  - apply overview_hist in E1. apply E1.
  - congruence.
  - congruence.
  - apply N2 in H. rewrite I5 in H. exact H.
  - apply N2 in H. rewrite I5 in H. apply overview_hist in H. rewrite cycle_sample_length in H. apply H.
  - apply N2 in H. rewrite I5 in H. apply overview_hist in H. rewrite cycle_sample_length in H. apply H.
  - apply N2 in H. rewrite I5 in H. apply overview_hist in H. rewrite cycle_sample_length in H. apply H.
  - apply N3 in H. rewrite I6 in H. exact H.
  - apply N3 in H. rewrite I6 in H. apply overview_hist in H. rewrite cycle_sample_length in H. apply H.
  - apply N3 in H. rewrite I6 in H. apply overview_hist in H. rewrite cycle_sample_length in H. apply H.
  - apply N3 in H. rewrite I6 in H. apply overview_hist in H. rewrite cycle_sample_length in H. apply H.
Qed.

End Generic.

(* ======================================================================================== *)
(* order-dependent part: the comparison is a strict total order on "ordinary" values        *)
(* ======================================================================================== *)
Section Ordered.
Context {T : Type} (NO : NumOps T).
Variable ok : T -> Prop.

Notation lt := (n_lt T NO).
Notation gl := (go_less NO).

Hypothesis lt_irrefl : forall x, ok x -> lt x x = false.
Hypothesis lt_trans : forall x y z, ok x -> ok y -> ok z -> lt x y = true -> lt y z = true -> lt x z = true.
Hypothesis lt_tricho : forall x y, ok x -> ok y -> lt x y = false -> lt y x = false -> x = y.
Hypothesis ok_notnan : forall x, ok x -> n_isnan T NO x = false.

Lemma gl_lt : forall a b, ok a -> ok b -> gl a b = lt a b.
Proof. intros a b Ha Hb. unfold go_less. rewrite (ok_notnan a Ha). simpl. apply orb_false_r. Qed.

Lemma lt_asym : forall x y, ok x -> ok y -> lt x y = true -> lt y x = false.
Proof.
  intros x y Hx Hy H. destruct (lt y x) eqn:E; [|reflexivity].
  rewrite <- (lt_irrefl x Hx). symmetry. apply (lt_trans x y x); auto.
Qed.

Lemma insert_comm : forall l x y, ok x -> ok y -> Forall ok l ->
  insert NO x (insert NO y l) = insert NO y (insert NO x l).
Proof.
  induction l as [|h t IH]; intros x y Hx Hy Hl.
  - simpl. rewrite !gl_lt by auto.
    destruct (lt x y) eqn:E1, (lt y x) eqn:E2; try reflexivity.
    + rewrite (lt_asym x y Hx Hy E1) in E2. discriminate.
    + rewrite (lt_tricho x y Hx Hy E1 E2). reflexivity.
  - inversion Hl as [|h' t' Hh Ht]; subst. simpl.
    rewrite !(gl_lt x h), !(gl_lt y h) by auto.
    destruct (lt x h) eqn:Exh, (lt y h) eqn:Eyh; simpl;
      rewrite ?(gl_lt x y), ?(gl_lt y x), ?(gl_lt x h), ?(gl_lt y h) by auto; rewrite ?Exh, ?Eyh.
    + destruct (lt x y) eqn:E1, (lt y x) eqn:E2; try reflexivity.
      * rewrite (lt_asym x y Hx Hy E1) in E2. discriminate.
      * rewrite (lt_tricho x y Hx Hy E1 E2). reflexivity.
    + (* x < h, not y < h: y is not below x *)
      destruct (lt y x) eqn:E2.
      * rewrite (lt_trans y x h Hy Hx Hh E2 Exh) in Eyh. discriminate.
      * reflexivity.
    + destruct (lt x y) eqn:E1.
      * rewrite (lt_trans x y h Hx Hy Hh E1 Eyh) in Exh. discriminate.
      * reflexivity.
    + f_equal. apply IH; auto.
Qed.

Lemma isort_ok : forall l, Forall ok l -> Forall ok (isort NO l).
Proof. intros l H. eapply Permutation_Forall; [symmetry; apply isort_perm|exact H]. Qed.

(* a list of ordinary values has one sorted arrangement: sorting forgets the arrival order *)
Theorem isort_permutation_invariant : forall l l', Permutation l l' -> Forall ok l -> isort NO l = isort NO l'.
Proof.
  intros l l' P. induction P; intros H.
  - reflexivity.
  - inversion H; subst. unfold isort in *; simpl. f_equal. apply IHP; auto.
  - inversion H as [|? ? Hy H']; subst. inversion H' as [|? ? Hx Hl]; subst.
    unfold isort; simpl. apply insert_comm; auto. apply isort_ok; auto.
  - rewrite IHP1 by auto. apply IHP2. eapply Permutation_Forall; eauto.
Qed.

Corollary overview_permutation_invariant : forall l l', Permutation l l' -> Forall ok l ->
  overview NO l = overview NO l'.
Proof. intros. unfold overview. rewrite (isort_permutation_invariant l l'); auto. Qed.

Corollary overview_isort : forall l, Forall ok l -> overview NO (isort NO l) = overview NO l.
Proof.
  intros. apply overview_permutation_invariant; [apply isort_perm|apply isort_ok; auto].
Qed.

(* ---- streaming min / max ---- *)
Definition stream_of (l : list T) : @stream T := fold_left (s_add NO) l (s_init NO).

Definition least (m : T) (l : list T) : Prop := In m l /\ forall y, In y l -> lt y m = false.
Definition greatest (m : T) (l : list T) : Prop := In m l /\ forall y, In y l -> lt m y = false.

Lemma least_unique : forall l m m', Forall ok l -> least m l -> least m' l -> m = m'.
Proof.
  intros l m m' Hok [I1 L1] [I2 L2]. rewrite Forall_forall in Hok.
  apply lt_tricho; auto.
Qed.
Lemma greatest_unique : forall l m m', Forall ok l -> greatest m l -> greatest m' l -> m = m'.
Proof.
  intros l m m' Hok [I1 L1] [I2 L2]. rewrite Forall_forall in Hok.
  apply lt_tricho; auto.
Qed.

Lemma stream_fold_inv : forall l s pre,
  Forall ok (pre ++ l) -> pre <> [] -> s_count s = zlen pre -> least (s_min s) pre -> greatest (s_max s) pre ->
  let s' := fold_left (s_add NO) l s in
  s_count s' = zlen (pre ++ l) /\ least (s_min s') (pre ++ l) /\ greatest (s_max s') (pre ++ l).
Proof.
  induction l as [|x l IH]; intros s pre Hok Hne Hc Hmin Hmax; simpl.
  - rewrite app_nil_r. auto.
  - assert (E : pre ++ x :: l = (pre ++ [x]) ++ l) by (rewrite <- app_assoc; reflexivity).
    rewrite E in *. apply IH; auto.
    + destruct pre; simpl; congruence.
    + unfold s_add; simpl. rewrite Hc. unfold zlen. rewrite app_length. simpl. lia.
    + (* min *)
      assert (Hokx : ok x).
      { rewrite Forall_forall in Hok. apply Hok. apply in_or_app. left. apply in_or_app. right. left. reflexivity. }
      assert (Hokp : forall y, In y pre -> ok y).
      { intros y Hy. rewrite Forall_forall in Hok. apply Hok. apply in_or_app. left. apply in_or_app. left. exact Hy. }
      unfold s_add; simpl.
      assert (Hz : s_count s =? 0 = false).
      { apply Z.eqb_neq. rewrite Hc. unfold zlen. destruct pre; [congruence|simpl; lia]. }
      rewrite Hz. destruct Hmin as [Im Lm].
      destruct (lt x (s_min s)) eqn:Ex.
      * split; [apply in_or_app; right; left; reflexivity|].
        intros y Hy. apply in_app_or in Hy. destruct Hy as [Hy|[Hy|[]]].
        -- destruct (lt y x) eqn:Eyx; [|reflexivity].
           assert (Hc2 : lt y (s_min s) = true) by (apply (lt_trans y x (s_min s)); auto).
           rewrite (Lm y Hy) in Hc2. discriminate.
        -- subst. apply lt_irrefl; auto.
      * split; [apply in_or_app; left; exact Im|].
        intros y Hy. apply in_app_or in Hy. destruct Hy as [Hy|[Hy|[]]]; [auto|subst; exact Ex].
    + (* max *)
      assert (Hokx : ok x).
      { rewrite Forall_forall in Hok. apply Hok. apply in_or_app. left. apply in_or_app. right. left. reflexivity. }
      assert (Hokp : forall y, In y pre -> ok y).
      { intros y Hy. rewrite Forall_forall in Hok. apply Hok. apply in_or_app. left. apply in_or_app. left. exact Hy. }
      unfold s_add; simpl.
      assert (Hz : s_count s =? 0 = false).
      { apply Z.eqb_neq. rewrite Hc. unfold zlen. destruct pre; [congruence|simpl; lia]. }
      rewrite Hz. destruct Hmax as [Im Lm].
      destruct (lt (s_max s) x) eqn:Ex.
      * split; [apply in_or_app; right; left; reflexivity|].
        intros y Hy. apply in_app_or in Hy. destruct Hy as [Hy|[Hy|[]]].
        -- destruct (lt x y) eqn:Exy; [|reflexivity].
           assert (Hc2 : lt (s_max s) y = true) by (apply (lt_trans (s_max s) x y); auto).
           rewrite (Lm y Hy) in Hc2. discriminate.
        -- subst. apply lt_irrefl; auto.
      * split; [apply in_or_app; left; exact Im|].
        intros y Hy. apply in_app_or in Hy. destruct Hy as [Hy|[Hy|[]]]; [auto|subst; exact Ex].
Qed.

(* count, min and max of a stream are the number, the least and the greatest of the values *)
Theorem stream_min_max : forall l, Forall ok l -> l <> [] ->
  s_count (stream_of l) = zlen l /\ least (s_min (stream_of l)) l /\ greatest (s_max (stream_of l)) l.
Proof.
  intros [|x l] Hok Hne; [congruence|].
  assert (Hx : ok x) by (inversion Hok; auto).
  unfold stream_of. simpl fold_left.
  change (x :: l) with ([x] ++ l). apply stream_fold_inv; auto.
  - discriminate.
  - unfold least. simpl. split; [auto|]. intros y [Hy|[]]; subst. apply lt_irrefl; auto.
  - unfold greatest. simpl. split; [auto|]. intros y [Hy|[]]; subst. apply lt_irrefl; auto.
Qed.

Lemma least_perm : forall l l' m, Permutation l l' -> least m l -> least m l'.
Proof.
  intros l l' m P [I L]. split; [eapply Permutation_in; eauto|].
  intros y Hy. apply L. eapply Permutation_in; [symmetry; eauto|auto].
Qed.
Lemma greatest_perm : forall l l' m, Permutation l l' -> greatest m l -> greatest m l'.
Proof.
  intros l l' m P [I L]. split; [eapply Permutation_in; eauto|].
  intros y Hy. apply L. eapply Permutation_in; [symmetry; eauto|auto].
Qed.

Theorem stream_permutation_invariant : forall l l', Permutation l l' -> Forall ok l ->
  s_count (stream_of l) = s_count (stream_of l') /\
  s_min (stream_of l) = s_min (stream_of l') /\ s_max (stream_of l) = s_max (stream_of l').
Proof.
  intros l l' P Hok.
  destruct l as [|x l0].
  - apply Permutation_nil in P. subst. auto.
  - assert (Hne' : l' <> []).
    { intro; subst. apply Permutation_sym, Permutation_nil in P. discriminate. }
    assert (Hok' : Forall ok l') by (eapply Permutation_Forall; eauto).
    destruct (stream_min_max (x :: l0) Hok ltac:(discriminate)) as (C1 & M1 & X1).
    destruct (stream_min_max l' Hok' Hne') as (C2 & M2 & X2).
    split; [|split].
    + rewrite C1, C2. unfold zlen. rewrite (Permutation_length P). reflexivity.
    + apply (least_unique l'); auto. eapply least_perm; eauto.
    + apply (greatest_unique l'); auto. eapply greatest_perm; eauto.
Qed.

(* ---- states that differ only in the arrangement of their samples ---- *)
Definition result_ok (r : @result T) : Prop :=
  ok (i_dealt r) /\ ok (i_taken r) /\ ok (i_av r) /\ ok (dpc_of NO r) /\
  Forall ok (diffs NO (i_cd r) (n_zero T NO)) /\ Forall ok (diffs NO (i_ct r) (n_zero T NO)).

Definition st_equiv (a b : @st T) : Prop :=
  a_iters a = a_iters b /\ a_dealt a = a_dealt b /\ a_taken a = a_taken b /\ a_av a = a_av b /\
  Permutation (a_dpc a) (a_dpc b) /\
  Forall2 (@Permutation T) (a_cd a) (a_cd b) /\ Forall2 (@Permutation T) (a_ct a) (a_ct b).

Definition st_ok (a : @st T) : Prop :=
  Forall ok (a_dpc a) /\ Forall (Forall ok) (a_cd a) /\ Forall (Forall ok) (a_ct a).

Lemma Forall2_perm_refl : forall ss : list (list T), Forall2 (@Permutation T) ss ss.
Proof. induction ss; constructor; auto. Qed.

Lemma Forall2_perm_trans : forall a b c : list (list T),
  Forall2 (@Permutation T) a b -> Forall2 (@Permutation T) b c -> Forall2 (@Permutation T) a c.
Proof.
  intros a b c H. revert c. induction H; intros c H2; inversion H2; subst; constructor.
  - etransitivity; eauto.
  - auto.
Qed.

Lemma st_equiv_refl : forall a, st_equiv a a.
Proof. intros. unfold st_equiv. repeat split; auto using Forall2_perm_refl. Qed.

Lemma st_equiv_trans : forall a b c, st_equiv a b -> st_equiv b c -> st_equiv a c.
Proof.
  intros a b c (A1 & A2 & A3 & A4 & A5 & A6 & A7) (B1 & B2 & B3 & B4 & B5 & B6 & B7).
  unfold st_equiv. repeat split; try congruence.
  - etransitivity; eauto.
  - eapply Forall2_perm_trans; eauto.
  - eapply Forall2_perm_trans; eauto.
Qed.

Lemma map_isort_perm : forall ss, Forall2 (@Permutation T) (map (isort NO) ss) ss.
Proof. induction ss; simpl; constructor; auto. apply isort_perm. Qed.

Lemma a_sorted_equiv : forall a, st_equiv (a_sorted NO a) a.
Proof.
  intros. unfold st_equiv, a_sorted; simpl.
  repeat split; auto using map_isort_perm. apply isort_perm.
Qed.

Lemma add_series_equiv : forall vs ss ss' last, Forall2 (@Permutation T) ss ss' ->
  Forall2 (@Permutation T) (add_series NO ss vs last) (add_series NO ss' vs last).
Proof.
  induction vs; intros ss ss' last H; simpl; [exact H|].
  inversion H; subst.
  - constructor; [reflexivity|]. apply IHvs. constructor.
  - constructor; [apply Permutation_app_tail; auto|]. apply IHvs. auto.
Qed.

Lemma a_add_equiv : forall a b r, st_equiv a b -> st_equiv (a_add NO a r) (a_add NO b r).
Proof.
  intros a b r (A1 & A2 & A3 & A4 & A5 & A6 & A7). unfold st_equiv, a_add; simpl.
  rewrite A1, A2, A3, A4. repeat split; auto using add_series_equiv.
  apply Permutation_app_tail. exact A5.
Qed.

Lemma overviews_equiv : forall ss ss', Forall2 (@Permutation T) ss ss' -> Forall (Forall ok) ss' ->
  overviews NO ss = overviews NO ss'.
Proof.
  intros ss ss' H. induction H; intros Hok; simpl; [reflexivity|].
  inversion Hok; subst.
  rewrite IHForall2 by auto.
  rewrite (overview_permutation_invariant y x); auto. symmetry. exact H.
Qed.

Lemma equiv_report : forall a b, st_equiv a b -> st_ok b -> a_report NO a = a_report NO b.
Proof.
  intros a b (A1 & A2 & A3 & A4 & A5 & A6 & A7) (O1 & O2 & O3). unfold a_report.
  rewrite (overview_permutation_invariant (a_dpc b) (a_dpc a)) by (auto; symmetry; auto).
  rewrite (overviews_equiv _ _ A6 O2), (overviews_equiv _ _ A7 O3), A1, A2, A3, A4.
  reflexivity.
Qed.

Lemma cycle_sample_ok : forall series i rs,
  (forall r, In r rs -> Forall ok (diffs NO (series r) (n_zero T NO))) ->
  Forall ok (cycle_sample NO series i rs).
Proof.
  intros series i rs H. unfold cycle_sample. rewrite Forall_forall. intros x Hx.
  apply in_flat_map in Hx. destruct Hx as (r & Hr & Hx).
  destruct (nth_error (diffs NO (series r) (n_zero T NO)) i) eqn:E; simpl in Hx; [|contradiction].
  destruct Hx as [Hx|[]]; subst. specialize (H r Hr). rewrite Forall_forall in H.
  apply H. eapply nth_error_In; eauto.
Qed.

Lemma all_nth_ok : forall ss : list (list T), (forall i, Forall ok (nth i ss [])) -> Forall (Forall ok) ss.
Proof.
  intros ss H. rewrite Forall_forall. intros s Hs.
  destruct (In_nth ss s [] Hs) as (n & _ & Hn). rewrite <- Hn. apply H.
Qed.

Lemma state_ok : forall cyc rs, Forall result_ok rs -> st_ok (state_of NO cyc rs).
Proof.
  intros cyc rs H. destruct (state_samples NO cyc rs) as (I1 & I2 & I3 & I4 & I5 & I6).
  rewrite Forall_forall in H. unfold st_ok. repeat split.
  - rewrite I2. rewrite Forall_forall. intros x Hx. apply in_map_iff in Hx.
    destruct Hx as (r & <- & Hr). apply (H r Hr).
  - apply all_nth_ok. intros i. rewrite I5. apply cycle_sample_ok. intros r Hr. apply (H r Hr).
  - apply all_nth_ok. intros i. rewrite I6. apply cycle_sample_ok. intros r Hr. apply (H r Hr).
Qed.

(* every flush reports the statistics of all results added so far, however many flushes
   (each of which re-sorts the samples in place) came before *)
Theorem run_is_spec_run : forall cyc ops a added,
  st_equiv a (state_of NO cyc added) -> Forall result_ok added -> Forall result_ok (added_by ops) ->
  run NO a ops = spec_run NO cyc added ops.
Proof.
  intros cyc. induction ops as [|o ops IH]; intros a added He Hadd Hops; [reflexivity|].
  destruct o as [r|]; simpl in *.
  - inversion Hops; subst. apply IH; auto.
    + rewrite state_of_snoc. apply a_add_equiv. exact He.
    + apply Forall_app. split; auto.
  - unfold report_of. rewrite (equiv_report a (state_of NO cyc added) He (state_ok cyc added Hadd)).
    destruct (a_report NO (state_of NO cyc added)); try reflexivity.
    f_equal. apply IH; auto.
    eapply st_equiv_trans; [apply a_sorted_equiv|exact He].
Qed.

(* ---- the report of a batch does not depend on the arrival order (exact part) ---- *)
Definition exact_part (rep : @report T) :=
  (r_iters rep, (d_min (r_dealt rep), d_max (r_dealt rep)), (d_min (r_taken rep), d_max (r_taken rep)),
   (d_min (r_av rep), d_max (r_av rep)), r_dpc rep, r_cd rep, r_ct rep).

Lemma stream_fold_map : forall (f : @result T -> T) (g : @st T -> @stream T),
  (forall a r, g (a_add NO a r) = s_add NO (g a) (f r)) ->
  forall rs a, g (fold_left (a_add NO) rs a) = fold_left (s_add NO) (map f rs) (g a).
Proof. intros f g H. induction rs as [|r rs IH]; intros a; simpl; [reflexivity|]. rewrite IH, H. reflexivity. Qed.

Lemma state_streams : forall cyc rs,
  a_dealt (state_of NO cyc rs) = stream_of (map (@i_dealt T) rs) /\
  a_taken (state_of NO cyc rs) = stream_of (map (@i_taken T) rs) /\
  a_av (state_of NO cyc rs) = stream_of (map (@i_av T) rs).
Proof.
  intros. unfold state_of, stream_of. repeat split.
  - apply (stream_fold_map (@i_dealt T) (@a_dealt T)). reflexivity.
  - apply (stream_fold_map (@i_taken T) (@a_taken T)). reflexivity.
  - apply (stream_fold_map (@i_av T) (@a_av T)). reflexivity.
Qed.

Lemma max_len_perm : forall series (rs rs' : list (@result T)), Permutation rs rs' ->
  max_len series rs = max_len series rs'.
Proof. intros series rs rs' P. induction P; simpl; try lia. Qed.

Lemma nthwise_perm : forall l l' : list (list T), length l = length l' ->
  (forall i, Permutation (nth i l []) (nth i l' [])) -> Forall2 (@Permutation T) l l'.
Proof.
  induction l; intros l' HL H; destruct l'; simpl in HL; try discriminate; constructor.
  - apply (H O).
  - apply IHl; [lia|]. intros i. apply (H (S i)).
Qed.

Lemma state_perm_samples : forall cyc rs rs', Permutation rs rs' ->
  Permutation (a_dpc (state_of NO cyc rs)) (a_dpc (state_of NO cyc rs')) /\
  Forall2 (@Permutation T) (a_cd (state_of NO cyc rs)) (a_cd (state_of NO cyc rs')) /\
  Forall2 (@Permutation T) (a_ct (state_of NO cyc rs)) (a_ct (state_of NO cyc rs')).
Proof.
  intros cyc rs rs' P.
  destruct (state_samples NO cyc rs) as (I1 & I2 & I3 & I4 & I5 & I6).
  destruct (state_samples NO cyc rs') as (J1 & J2 & J3 & J4 & J5 & J6).
  repeat split.
  - rewrite I2, J2. apply Permutation_map. exact P.
  - apply nthwise_perm.
    + rewrite I3, J3, (max_len_perm _ _ _ P). reflexivity.
    + intros i. rewrite I5, J5. unfold cycle_sample. apply Permutation_flat_map. exact P.
  - apply nthwise_perm.
    + rewrite I4, J4, (max_len_perm _ _ _ P). reflexivity.
    + intros i. rewrite I6, J6. unfold cycle_sample. apply Permutation_flat_map. exact P.
Qed.

Lemma result_ok_fields : forall rs, Forall result_ok rs ->
  Forall ok (map (@i_dealt T) rs) /\ Forall ok (map (@i_taken T) rs) /\ Forall ok (map (@i_av T) rs).
Proof.
  intros rs H. rewrite Forall_forall in H.
  repeat split; rewrite Forall_forall; intros x Hx; apply in_map_iff in Hx;
    destruct Hx as (r & <- & Hr); apply (H r Hr).
Qed.

Theorem report_permutation_invariant : forall cyc rs rs', Permutation rs rs' -> Forall result_ok rs ->
  res_map exact_part (report_of NO cyc rs) = res_map exact_part (report_of NO cyc rs').
Proof.
  intros cyc rs rs' P Hok.
  assert (Hok' : Forall result_ok rs') by (eapply Permutation_Forall; eauto).
  destruct (state_perm_samples cyc rs rs' P) as (P1 & P2 & P3).
  destruct (state_ok cyc rs' Hok') as (O1 & O2 & O3).
  destruct (state_streams cyc rs) as (S1 & S2 & S3).
  destruct (state_streams cyc rs') as (S1' & S2' & S3').
  destruct (result_ok_fields rs Hok) as (F1 & F2 & F3).
  destruct (stream_permutation_invariant _ _ (Permutation_map (@i_dealt T) P) F1) as (_ & D1 & D2).
  destruct (stream_permutation_invariant _ _ (Permutation_map (@i_taken T) P) F2) as (_ & T1 & T2).
  destruct (stream_permutation_invariant _ _ (Permutation_map (@i_av T) P) F3) as (_ & V1 & V2).
  destruct (state_samples NO cyc rs) as (I1 & _). destruct (state_samples NO cyc rs') as (J1 & _).
  unfold report_of, a_report.
  rewrite (overview_permutation_invariant (a_dpc (state_of NO cyc rs')) (a_dpc (state_of NO cyc rs)))
    by (auto; symmetry; auto).
  rewrite (overviews_equiv _ _ P2 O2), (overviews_equiv _ _ P3 O3).
  destruct (overview NO (a_dpc (state_of NO cyc rs))); simpl; try reflexivity.
  destruct (overviews NO (a_cd (state_of NO cyc rs'))); simpl; try reflexivity.
  destruct (overviews NO (a_ct (state_of NO cyc rs'))); simpl; try reflexivity.
  unfold exact_part; simpl.
  rewrite I1, J1, S1, S2, S3, S1', S2', S3', D1, D2, T1, T2, V1, V2.
  unfold zlen. rewrite (Permutation_length P). reflexivity.
Qed.

(* ---- the sorted sample: its first / last element is the least / greatest value ---- *)
Definition nondecr : T -> T -> Prop := fun a b => lt b a = false.

Lemma insert_sorted : forall x l, ok x -> Forall ok l ->
  StronglySorted nondecr l -> StronglySorted nondecr (insert NO x l).
Proof.
  intros x l Hx. induction l as [|h t IH]; intros Hok Hs; simpl.
  - constructor; constructor.
  - inversion Hok as [|? ? Hh Ht]; subst. inversion Hs as [|? ? Hst Hall]; subst.
    rewrite gl_lt by auto. destruct (lt x h) eqn:E.
    + constructor; [exact Hs|]. constructor.
      * unfold nondecr. apply lt_asym; auto.
      * rewrite Forall_forall in *. intros b Hb. unfold nondecr.
        destruct (lt b x) eqn:Eb; [|reflexivity].
        assert (Hc : lt b h = true) by (apply (lt_trans b x h); auto).
        specialize (Hall b Hb). unfold nondecr in Hall. congruence.
    + constructor; [apply IH; auto|].
      eapply Permutation_Forall; [symmetry; apply insert_perm|].
      constructor; [exact E|exact Hall].
Qed.

Lemma isort_sorted : forall l, Forall ok l -> StronglySorted nondecr (isort NO l).
Proof.
  induction l as [|x l IH]; intros H; [constructor|].
  inversion H; subst. unfold isort in *. simpl. apply insert_sorted; auto.
  apply isort_ok. auto.
Qed.

Lemma sorted_first_least : forall x l, ok x -> StronglySorted nondecr (x :: l) -> least x (x :: l).
Proof.
  intros x l Hx Hs. inversion Hs as [|? ? _ Hall]; subst. split; [left; reflexivity|].
  intros y [Hy|Hy]; [subst; apply lt_irrefl; auto|].
  rewrite Forall_forall in Hall. apply (Hall y Hy).
Qed.

Lemma sorted_last_greatest : forall l d, l <> [] -> Forall ok l -> StronglySorted nondecr l ->
  greatest (last l d) l.
Proof.
  induction l as [|x l IH]; intros d Hne Hok Hs; [congruence|].
  inversion Hok; subst. inversion Hs as [|? ? Hst Hall]; subst.
  destruct l as [|y l'].
  - simpl. split; [left; reflexivity|]. intros z [Hz|[]]; subst. apply lt_irrefl; auto.
  - destruct (IH d ltac:(discriminate) ltac:(auto) Hst) as [I G].
    change (last (x :: y :: l') d) with (last (y :: l') d).
    split; [right; exact I|].
    intros z [Hz|Hz]; [subst|apply G; exact Hz].
    rewrite Forall_forall in Hall. apply (Hall _ I).
Qed.

Lemma nth_last : forall (l : list T) d, l <> [] -> nth (length l - 1) l d = last l d.
Proof.
  induction l as [|x l IH]; intros d H; [congruence|].
  destruct l as [|y l']; [reflexivity|].
  change (last (x :: y :: l') d) with (last (y :: l') d). rewrite <- IH by discriminate.
  simpl. rewrite Nat.sub_0_r. reflexivity.
Qed.

(* Sample.Bounds of the sorted sample *)
Lemma bounds_isort : forall l, l <> [] -> Forall ok l ->
  least (fst (bounds_sorted NO (isort NO l))) l /\ greatest (snd (bounds_sorted NO (isort NO l))) l.
Proof.
  intros l Hne Hok.
  pose proof (isort_perm NO l) as P. pose proof (isort_sorted l Hok) as Hs.
  pose proof (isort_ok l Hok) as Hok'.
  unfold bounds_sorted. destruct (isort NO l) as [|x s] eqn:E.
  { apply Permutation_nil in P. congruence. }
  cbn [fst snd]. split.
  - apply (least_perm (x :: s)); [exact P|]. unfold nth_z. simpl.
    apply sorted_first_least; auto. inversion Hok'; auto.
  - apply (greatest_perm (x :: s)); [exact P|]. unfold nth_z, zlen.
    replace (Z.to_nat (Z.of_nat (length (x :: s)) - 1)) with (length (x :: s) - 1)%nat by lia.
    rewrite nth_last by discriminate. apply sorted_last_greatest; auto. discriminate.
Qed.

(* OverviewStats.Min / Max are the least / greatest value of the sample *)
Theorem overview_min_max : forall l o, l <> [] -> Forall ok l -> overview NO l = ROk o ->
  least (o_min o) l /\ greatest (o_max o) l.
Proof.
  intros l o Hne Hok H.
  assert (Hb : bounds_sorted NO (isort NO l) = (o_min o, o_max o)).
  { unfold overview, overview_sorted in H.
    destruct (bounds_sorted NO (isort NO l)) as [mn mx].
    destruct (quantile NO (isort NO l) _); simpl in H; try discriminate.
    destruct (quantile NO (isort NO l) _); simpl in H; try discriminate.
    destruct (quantile NO (isort NO l) _); simpl in H; try discriminate.
    destruct (n_cbrt T NO _); [|discriminate].
    match type of H with (if ?c then _ else _) = _ => destruct c end.
    - inversion H; reflexivity.
    - unfold conv in H. destruct (n_trunc T NO _); [|discriminate].
      destruct (linear_hist NO mn mx z (isort NO l)); simpl in H; try discriminate.
      inversion H; reflexivity. }
  pose proof (bounds_isort l Hne Hok) as HB. rewrite Hb in HB. exact HB.
Qed.

End Ordered.

(* ======================================================================================== *)
(* degenerate samples take the single-bin path (no bin-count / bin-index conversion)        *)
(* ======================================================================================== *)
Section Degenerate.
Context {T : Type} (NO : NumOps T).

(* the R8 index 1/3 + q (N + 1/3) whose integer part Quantile converts with int() *)
Definition qindex (len : Z) (q : T) : T :=
  let third := n_div T NO (n_ofZ T NO 1) (n_ofZ T NO 3) in
  n_add T NO third (n_mul T NO q (n_add T NO (n_ofZ T NO len) third)).

Definition quantiles_defined (len : Z) : Prop :=
  n_trunc T NO (qindex len (q14 NO)) <> None /\
  n_trunc T NO (qindex len (q24 NO)) <> None /\
  n_trunc T NO (qindex len (q34 NO)) <> None.

Lemma quantile_defined : forall xs q, n_trunc T NO (qindex (zlen xs) q) <> None ->
  exists v, quantile NO xs q = ROk v.
Proof.
  intros xs q H. unfold quantile. destruct xs as [|x xs]; [eexists; reflexivity|].
  unfold qindex in H. cbv zeta. destruct (n_trunc T NO _) as [k|]; [|congruence].
  unfold conv. destruct (k <=? 0); [eexists; reflexivity|].
  destruct (zlen (x :: xs) <=? k); eexists; reflexivity.
Qed.

(* no value at all: a cycle no iteration reached, or no iterations *)
Theorem overview_empty : forall p, n_cbrt T NO 0 = Some p ->
  exists o, overview NO [] = ROk o /\ o_hist o = [0].
Proof.
  intros p Hp. unfold overview, isort; simpl. unfold overview_sorted; simpl.
  unfold zlen; simpl. rewrite Hp. simpl. eexists. split; reflexivity.
Qed.

Lemma insert_repeat : forall x k, n_lt T NO x x = false -> insert NO x (repeat x k) = repeat x (S k).
Proof.
  intros x k Hx. induction k; simpl; [reflexivity|].
  unfold go_less. rewrite Hx. simpl. rewrite andb_negb_r. rewrite IHk. reflexivity.
Qed.

Lemma isort_repeat : forall x k, n_lt T NO x x = false -> isort NO (repeat x k) = repeat x k.
Proof.
  intros x k Hx. induction k; [reflexivity|].
  unfold isort in *. simpl. rewrite IHk. apply insert_repeat. exact Hx.
Qed.

Lemma nth_repeat_in : forall (x d : T) k i, (i < k)%nat -> nth i (repeat x k) d = x.
Proof. induction k; intros i H; [lia|]. destruct i; simpl; [reflexivity|apply IHk; lia]. Qed.

(* n >= 1 equal values (a single result, identical results, all-zero damage): min = max, so
   the histogram is the single bin [n]; neither int(Ceil(..)) nor bin() is evaluated *)
Theorem overview_identical : forall x n p,
  (1 <= n)%nat -> n_lt T NO x x = false -> n_eq T NO x x = true ->
  n_cbrt T NO (Z.of_nat n) = Some p -> quantiles_defined (Z.of_nat n) ->
  exists o, overview NO (repeat x n) = ROk o /\ o_hist o = [Z.of_nat n] /\ o_min o = x /\ o_max o = x.
Proof.
  intros x n p Hn Hlt Heq Hp (Q1 & Q2 & Q3).
  unfold overview. rewrite isort_repeat by auto.
  assert (Hlen : zlen (repeat x n) = Z.of_nat n) by (unfold zlen; rewrite repeat_length; reflexivity).
  rewrite <- Hlen in Q1, Q2, Q3, Hp.
  destruct (quantile_defined _ _ Q1) as [v1 E1].
  destruct (quantile_defined _ _ Q2) as [v2 E2].
  destruct (quantile_defined _ _ Q3) as [v3 E3].
  unfold overview_sorted.
  assert (Hb : bounds_sorted NO (repeat x n) = (x, x)).
  { unfold bounds_sorted. destruct n as [|n']; [lia|]. simpl repeat at 1.
    cbv iota beta. unfold nth_z. rewrite Hlen.
    rewrite !nth_repeat_in by lia. reflexivity. }
  rewrite Hb, E1, E2, E3. simpl bind. rewrite Hp. rewrite Heq, orb_true_r.
  eexists. rewrite Hlen. repeat split; reflexivity.
Qed.

End Degenerate.

(* ======================================================================================== *)
(* Part 2: binary64                                                                         *)
(* ======================================================================================== *)

Definition sf_ordb (f : spec_float) : bool :=
  match f with S754_nan => false | S754_zero true => false | _ => true end.
(* an "ordinary" float: neither NaN nor -0 (these are the values on which < is a strict total
   order whose equivalence is equality of bit patterns) *)
Definition ford (x : float) : Prop := sf_ordb (Prim2SF x) = true.

Ltac cmp_cases :=
  repeat match goal with
  | H : context [Pos.compare_cont Eq ?a ?b] |- _ => change (Pos.compare_cont Eq a b) with (Pos.compare a b) in H
  | |- context [Pos.compare_cont Eq ?a ?b] => change (Pos.compare_cont Eq a b) with (Pos.compare a b)
  end;
  repeat match goal with
  | H : context [Z.compare ?a ?b] |- _ => destruct (Z.compare_spec a b); simpl in H
  | |- context [Z.compare ?a ?b] => destruct (Z.compare_spec a b); simpl
  | H : context [Pos.compare ?a ?b] |- _ => destruct (Pos.compare_spec a b); simpl in H
  | |- context [Pos.compare ?a ?b] => destruct (Pos.compare_spec a b); simpl
  end.

Lemma SFltb_irrefl : forall f, SFltb f f = false.
Proof.
  intros [s|s| |s m e]; unfold SFltb; simpl; try reflexivity.
  - destruct s; reflexivity.
  - destruct s; cmp_cases; subst; try reflexivity; try lia.
Qed.

Lemma SFltb_trans : forall f g h, SFltb f g = true -> SFltb g h = true -> SFltb f h = true.
Proof.
  intros [s1|s1| |s1 m1 e1] [s2|s2| |s2 m2 e2] [s3|s3| |s3 m3 e3]; unfold SFltb; simpl;
    try discriminate; try reflexivity;
    try destruct s1; try destruct s2; try destruct s3; simpl; try discriminate; try reflexivity;
    intros H1 H2; cmp_cases; subst; try discriminate; try reflexivity; try lia.
Qed.

Lemma SFltb_tricho : forall f g, sf_ordb f = true -> sf_ordb g = true ->
  SFltb f g = false -> SFltb g f = false -> f = g.
Proof.
  intros [s1|s1| |s1 m1 e1] [s2|s2| |s2 m2 e2]; unfold SFltb; simpl;
    try destruct s1; try destruct s2; simpl; try discriminate; try reflexivity;
    intros _ _ H1 H2; cmp_cases; subst; try discriminate; try reflexivity; try lia.
Qed.

Lemma SFeqb_refl : forall f, f <> S754_nan -> SFeqb f f = true.
Proof.
  intros [s|s| |s m e] H; unfold SFeqb; simpl; try reflexivity; try congruence.
  - destruct s; reflexivity.
  - destruct s; cmp_cases; subst; try reflexivity; try lia.
Qed.

Lemma ford_not_nan : forall x, ford x -> PrimFloat.is_nan x = false.
Proof.
  intros x H. unfold PrimFloat.is_nan. rewrite eqb_spec, SFeqb_refl; [reflexivity|].
  unfold ford in H. destruct (Prim2SF x); try discriminate; congruence.
Qed.

Lemma ford_eqb_refl : forall x, ford x -> PrimFloat.eqb x x = true.
Proof.
  intros x H. rewrite eqb_spec, SFeqb_refl; [reflexivity|].
  unfold ford in H. destruct (Prim2SF x); try discriminate; congruence.
Qed.

Lemma fltb_irrefl : forall x, PrimFloat.ltb x x = false.
Proof. intros. rewrite ltb_spec. apply SFltb_irrefl. Qed.

Lemma fltb_trans : forall x y z, PrimFloat.ltb x y = true -> PrimFloat.ltb y z = true -> PrimFloat.ltb x z = true.
Proof. intros x y z. rewrite !ltb_spec. apply SFltb_trans. Qed.

Lemma fltb_tricho : forall x y, ford x -> ford y ->
  PrimFloat.ltb x y = false -> PrimFloat.ltb y x = false -> x = y.
Proof.
  intros x y Hx Hy. rewrite !ltb_spec. intros H1 H2.
  rewrite <- (SF2Prim_Prim2SF x), <- (SF2Prim_Prim2SF y). f_equal.
  apply SFltb_tricho; auto.
Qed.

Definition fordb (x : float) : bool := sf_ordb (Prim2SF x).

Section FloatInstance.
Variable pows : list (Z * float).
Let F := fops pows.

Definition fresult_ok : @result float -> Prop := result_ok F ford.

(* executable form of the guard, for concrete batches and for the monitor *)
Definition fresult_okb (r : @result float) : bool :=
  fordb (i_dealt r) && fordb (i_taken r) && fordb (i_av r) && fordb (dpc_of F r) &&
  forallb fordb (diffs F (i_cd r) (n_zero float F)) && forallb fordb (diffs F (i_ct r) (n_zero float F)).

Lemma fresult_okb_sound : forall r, fresult_okb r = true -> fresult_ok r.
Proof.
  intros r H. unfold fresult_okb in H. repeat (apply andb_true_iff in H; destruct H as [H ?]).
  unfold fresult_ok, result_ok, ford. repeat split; auto; apply Forall_forall; intros x Hx.
  - rewrite forallb_forall in H1. apply H1. exact Hx.
  - rewrite forallb_forall in H0. apply H0. exact Hx.
Qed.

Theorem F_isort_permutation_invariant : forall l l', Permutation l l' -> Forall ford l ->
  isort F l = isort F l'.
Proof.
  apply (isort_permutation_invariant F ford).
  - intros x _. apply fltb_irrefl.
  - intros x y z _ _ _. apply fltb_trans.
  - apply fltb_tricho.
  - apply ford_not_nan.
Qed.

Theorem F_run_is_spec_run : forall cyc ops, Forall fresult_ok (added_by ops) ->
  run F (a_init F cyc) ops = spec_run F cyc [] ops.
Proof.
  intros cyc ops H.
  apply (run_is_spec_run F ford
           (fun x _ => fltb_irrefl x) (fun x y z _ _ _ => fltb_trans x y z) fltb_tricho ford_not_nan).
  - apply st_equiv_refl.
  - constructor.
  - exact H.
Qed.

Theorem F_report_permutation_invariant : forall cyc rs rs', Permutation rs rs' -> Forall fresult_ok rs ->
  res_map exact_part (report_of F cyc rs) = res_map exact_part (report_of F cyc rs').
Proof.
  apply (report_permutation_invariant F ford
           (fun x _ => fltb_irrefl x) (fun x y z _ _ _ => fltb_trans x y z) fltb_tricho ford_not_nan).
Qed.

Theorem F_stream_min_max : forall l, Forall ford l -> l <> [] ->
  s_count (stream_of F l) = zlen l /\
  least F (s_min (stream_of F l)) l /\ greatest F (s_max (stream_of F l)) l.
Proof.
  intros l H1 H2.
  apply (stream_min_max F ford (fun x _ => fltb_irrefl x) (fun x y z _ _ _ => fltb_trans x y z)); auto.
  apply fltb_tricho.
Qed.

Theorem F_overview_identical : forall x n p,
  (1 <= n)%nat -> PrimFloat.is_nan x = false ->
  lookup_pow pows (Z.of_nat n) = Some p -> quantiles_defined F (Z.of_nat n) ->
  exists o, overview F (repeat x n) = ROk o /\ o_hist o = [Z.of_nat n] /\ o_min o = x /\ o_max o = x.
Proof.
  intros x n p Hn Hx Hp Hq. apply (overview_identical F x n p); auto.
  - apply fltb_irrefl.
  - unfold PrimFloat.is_nan in Hx. simpl. destruct (PrimFloat.eqb x x); [reflexivity|discriminate].
Qed.

End FloatInstance.

(* ======================================================================================== *)
(* Part 3: the same definitions at the real numbers                                         *)
(* ======================================================================================== *)
Open Scope R_scope.

Definition Rltb (x y : R) : bool := if Rlt_dec x y then true else false.
Definition Reqb (x y : R) : bool := if Req_EM_T x y then true else false.
Definition rtrunc (x : R) : Z := if Rle_dec 0 x then Int_part x else (- Int_part (- x))%Z.
Definition rceil (x : R) : R := IZR (- Int_part (- x)).

Definition rops (cbrt : Z -> R) : NumOps R :=
  mkOps R 0 0 Rplus Rminus Rmult Rdiv sqrt Rltb Reqb (fun _ => false) IZR
        (fun x => Some (rtrunc x)) rceil (fun n => Some (cbrt n)).

Definition rsum (l : list R) : R := fold_right Rplus 0 l.
Definition rsumsq (l : list R) : R := rsum (map (fun x => x * x) l).

Lemma rsum_app : forall a b, rsum (a ++ b) = rsum a + rsum b.
Proof. induction a; intros; simpl; [lra|]. rewrite IHa. lra. Qed.

Lemma rsum_perm : forall l l', Permutation l l' -> rsum l = rsum l'.
Proof. intros l l' P. induction P; simpl; lra. Qed.

Lemma rsumsq_perm : forall l l', Permutation l l' -> rsumsq l = rsumsq l'.
Proof. intros. unfold rsumsq. apply rsum_perm. apply Permutation_map. auto. Qed.

Section RealInstance.
Variable cbrt : Z -> R.
Let RO := rops cbrt.

Definition rok (x : R) : Prop := True.

Lemma Rltb_irrefl : forall x, Rltb x x = false.
Proof. intros. unfold Rltb. destruct (Rlt_dec x x); [lra|reflexivity]. Qed.
Lemma Rltb_trans : forall x y z, Rltb x y = true -> Rltb y z = true -> Rltb x z = true.
Proof.
  intros x y z. unfold Rltb.
  destruct (Rlt_dec x y), (Rlt_dec y z), (Rlt_dec x z); try discriminate; try reflexivity; lra.
Qed.
Lemma Rltb_tricho : forall x y, Rltb x y = false -> Rltb y x = false -> x = y.
Proof.
  intros x y. unfold Rltb. destruct (Rlt_dec x y), (Rlt_dec y x); try discriminate; intros; lra.
Qed.

(* Welford's recurrences keep: count * mean = sum, M2 = sum of squares - sum^2 / count *)
Definition winv (s : @stream R) (S Q : R) : Prop :=
  (0 <= s_count s)%Z /\ IZR (s_count s) * s_mean s = S /\
  ((1 <= s_count s)%Z -> s_m2 s = Q - S * S / IZR (s_count s)) /\
  (s_count s = 0%Z -> S = 0 /\ Q = 0 /\ s_mean s = 0 /\ s_m2 s = 0).

Lemma winv_step : forall s S Q x, winv s S Q -> winv (s_add RO s x) (S + x) (Q + x * x).
Proof.
  intros s S Q x (Hc & Hm & H1 & H0). unfold winv, s_add; simpl.
  rewrite plus_IZR. set (c := IZR (s_count s)) in *.
  assert (Hc0 : 0 <= c) by (unfold c; apply IZR_le; lia).
  split; [lia|]. split; [|split].
  - field_simplify; [|lra]. rewrite <- Hm. field.
  - intros _. destruct (Z.eq_dec (s_count s) 0) as [E|E].
    + destruct (H0 E) as (-> & -> & Em & E2). rewrite Em, E2. unfold c. rewrite E. simpl. field.
    + assert (Hc1 : 1 <= c) by (unfold c; apply IZR_le; lia).
      rewrite H1 by lia. assert (Emean : s_mean s = S / c) by (rewrite <- Hm; field; lra).
      rewrite Emean. field. lra.
  - intros E. lia.
Qed.

Lemma winv_fold : forall l s S Q, winv s S Q ->
  winv (fold_left (s_add RO) l s) (S + rsum l) (Q + rsumsq l).
Proof.
  induction l as [|x l IH]; intros s S Q H; simpl.
  - unfold rsumsq; simpl. rewrite !Rplus_0_r. exact H.
  - unfold rsumsq in *; simpl.
    replace (S + (x + rsum l)) with ((S + x) + rsum l) by lra.
    replace (Q + (x * x + rsum (map (fun x0 => x0 * x0) l))) with ((Q + x * x) + rsum (map (fun x0 => x0 * x0) l)) by lra.
    apply IH. apply winv_step. exact H.
Qed.

Lemma winv_init : winv (s_init RO) 0 0.
Proof. unfold winv, s_init; simpl. repeat split; try lra; try lia. Qed.

Lemma stream_count : forall l s, s_count (fold_left (s_add RO) l s) = (s_count s + zlen l)%Z.
Proof.
  induction l; intros s; simpl; [unfold zlen; simpl; lia|].
  rewrite IHl. unfold zlen; simpl length. unfold s_add; simpl s_count. lia.
Qed.

(* closed forms of the streaming mean and M2 *)
Theorem welford_closed_form : forall l, l <> [] ->
  let s := stream_of RO l in
  let n := IZR (zlen l) in
  s_mean s = rsum l / n /\ s_m2 s = rsumsq l - rsum l * rsum l / n.
Proof.
  intros l Hne s n. pose proof (winv_fold l _ _ _ winv_init) as (Hc & Hm & H1 & _).
  fold (stream_of RO l) in *. fold s in Hc, Hm, H1.
  assert (Ec : s_count s = zlen l).
  { unfold s, stream_of. rewrite stream_count. simpl. lia. }
  rewrite Ec in *. rewrite !Rplus_0_l in *. fold n in Hm, H1.
  assert (Hn : 1 <= n).
  { unfold n. apply IZR_le. unfold zlen. destruct l; [congruence|simpl; lia]. }
  split.
  - rewrite <- Hm. field. lra.
  - apply H1. unfold zlen. destruct l; [congruence|simpl; lia].
Qed.

(* sum of squared deviations from any centre *)
Lemma sqdev_expand : forall l c,
  rsum (map (fun x => (x - c) * (x - c)) l) = rsumsq l - 2 * c * rsum l + IZR (zlen l) * c * c.
Proof.
  induction l as [|x l IH]; intros c; unfold rsumsq, zlen in *; simpl length; simpl map; simpl rsum.
  - simpl. lra.
  - rewrite IH. rewrite Nat2Z.inj_succ, succ_IZR. lra.
Qed.

(* Welford = two-pass: mean is sum / n, M2 is the sum of squared deviations from that mean *)
Theorem welford_is_two_pass : forall l, l <> [] ->
  let s := stream_of RO l in
  let mu := rsum l / IZR (zlen l) in
  s_mean s = mu /\ s_m2 s = rsum (map (fun x => (x - mu) * (x - mu)) l).
Proof.
  intros l Hne s mu. destruct (welford_closed_form l Hne) as [Em E2].
  fold s in Em, E2. split; [exact Em|].
  rewrite E2, sqdev_expand. unfold mu.
  assert (Hn : 1 <= IZR (zlen l)).
  { apply IZR_le. unfold zlen. destruct l; [congruence|simpl; lia]. }
  field. lra.
Qed.

(* what ToDescriptiveStats reports at the reals: the mean and the sample standard deviation *)
Theorem R_desc_two_pass : forall l, (2 <= zlen l < 2 ^ 64)%Z ->
  let d := to_desc RO (stream_of RO l) in
  let mu := rsum l / IZR (zlen l) in
  d_mean d = mu /\
  d_sd d = sqrt (rsum (map (fun x => (x - mu) * (x - mu)) l) / IZR (zlen l - 1)).
Proof.
  intros l Hn d mu.
  assert (Hne : l <> []) by (intro; subst; unfold zlen in Hn; simpl in Hn; lia).
  destruct (welford_is_two_pass l Hne) as [Em E2]. fold mu in Em, E2.
  unfold d, to_desc; simpl. split; [exact Em|].
  rewrite E2. unfold stream_of. rewrite stream_count. simpl s_count.
  rewrite Z.mod_small by lia. replace (0 + zlen l - 1)%Z with (zlen l - 1)%Z by lia. reflexivity.
Qed.

Theorem R_stream_permutation_invariant : forall l l', Permutation l l' ->
  stream_of RO l = stream_of RO l'.
Proof.
  intros l l' P.
  destruct (stream_permutation_invariant RO rok
              (fun x _ => Rltb_irrefl x) (fun x y z _ _ _ => Rltb_trans x y z)
              (fun x y _ _ => Rltb_tricho x y) l l' P) as (C & Mn & Mx).
  { apply Forall_forall. intros; exact I. }
  destruct l as [|x l0].
  - apply Permutation_nil in P. subst. reflexivity.
  - assert (Hne' : l' <> []).
    { intro; subst. apply Permutation_sym, Permutation_nil in P. discriminate. }
    destruct (welford_closed_form (x :: l0) ltac:(discriminate)) as [E1 E2].
    destruct (welford_closed_form l' Hne') as [E1' E2'].
    cbv zeta in *.
    assert (EL : zlen (x :: l0) = zlen l') by (unfold zlen; rewrite (Permutation_length P); reflexivity).
    rewrite (rsum_perm _ _ P), EL in E1.
    rewrite (rsum_perm _ _ P), (rsumsq_perm _ _ P), EL in E2.
    destruct (stream_of RO (x :: l0)), (stream_of RO l'). simpl in *. congruence.
Qed.

(* at the reals the whole report, streaming mean and SD included, is a function of the multiset *)
Theorem R_report_permutation_invariant : forall cyc rs rs', Permutation rs rs' ->
  report_of RO cyc rs = report_of RO cyc rs'.
Proof.
  intros cyc rs rs' P.
  pose proof (fun x (_ : rok x) => Rltb_irrefl x) as Hi.
  pose proof (fun x y z (_ : rok x) (_ : rok y) (_ : rok z) => Rltb_trans x y z) as Ht.
  pose proof (fun x y (_ : rok x) (_ : rok y) => Rltb_tricho x y) as Hc.
  assert (Hn : forall x, rok x -> n_isnan R RO x = false) by reflexivity.
  unfold report_of. apply (equiv_report RO rok Hi Ht Hc Hn).
  - destruct (state_perm_samples RO cyc rs rs' P) as (P1 & P2 & P3).
    destruct (state_streams RO cyc rs) as (S1 & S2 & S3).
    destruct (state_streams RO cyc rs') as (S1' & S2' & S3').
    destruct (state_samples RO cyc rs) as (I1 & _). destruct (state_samples RO cyc rs') as (J1 & _).
    unfold st_equiv. rewrite I1, J1, S1, S2, S3, S1', S2', S3'.
    repeat split; auto.
    + unfold zlen. rewrite (Permutation_length P). reflexivity.
    + apply R_stream_permutation_invariant. apply Permutation_map. exact P.
    + apply R_stream_permutation_invariant. apply Permutation_map. exact P.
    + apply R_stream_permutation_invariant. apply Permutation_map. exact P.
  - apply state_ok. apply Forall_forall. intros r _. unfold result_ok, rok.
    repeat split; auto; apply Forall_forall; intros; exact I.
Qed.

End RealInstance.

(* ======================================================================================== *)
(* Sample.Mean / Sample.Variance run the same recurrences as StreamStats.Add                *)
(* ======================================================================================== *)
Close Scope R_scope.
Section SampleIsStream.
Context {T : Type} (NO : NumOps T).

Lemma var_fold_stream : forall xs s,
  fold_left (var_step NO) xs (s_mean s, s_m2 s, s_count s) =
  let s' := fold_left (s_add NO) xs s in (s_mean s', s_m2 s', s_count s').
Proof.
  induction xs as [|x xs IH]; intros s; simpl; [reflexivity|].
  rewrite <- IH. reflexivity.
Qed.

Lemma mean_fold_stream : forall xs s,
  fold_left (mean_step NO) xs (s_mean s, s_count s) =
  let s' := fold_left (s_add NO) xs s in (s_mean s', s_count s').
Proof.
  induction xs as [|x xs IH]; intros s; simpl; [reflexivity|].
  rewrite <- IH. reflexivity.
Qed.

Lemma mean_go_stream : forall xs, xs <> [] -> mean_go NO xs = s_mean (stream_of NO xs).
Proof.
  intros xs H. unfold mean_go, stream_of. destruct xs as [|x xs']; [congruence|].
  change (n_zero T NO, 0) with (s_mean (s_init NO), s_count (s_init NO)).
  rewrite mean_fold_stream. reflexivity.
Qed.

Lemma variance_go_stream : forall xs, (2 <= length xs)%nat ->
  variance_go NO xs = n_div T NO (s_m2 (stream_of NO xs)) (n_ofZ T NO (zlen xs - 1)).
Proof.
  intros xs H. unfold variance_go, stream_of. destruct xs as [|x [|y xs']]; simpl in H; try lia.
  change (n_zero T NO, n_zero T NO, 0) with (s_mean (s_init NO), s_m2 (s_init NO), s_count (s_init NO)).
  rewrite var_fold_stream. reflexivity.
Qed.

End SampleIsStream.

Open Scope R_scope.
Section RealOverview.
Variable cbrt : Z -> R.
Let RO := rops cbrt.

(* at the reals OverviewStats.Mean / SD are the mean and the sample standard deviation of the
   values of the sample, whatever their arrival order *)
Theorem R_overview_mean_sd : forall l o, (2 <= zlen l)%Z -> overview RO l = ROk o ->
  let mu := rsum l / IZR (zlen l) in
  o_mean o = mu /\ o_sd o = sqrt (rsum (map (fun x => (x - mu) * (x - mu)) l) / IZR (zlen l - 1)).
Proof.
  intros l o Hn H mu.
  pose proof (isort_perm RO l) as P.
  assert (EL : zlen (isort RO l) = zlen l) by apply isort_length.
  assert (Hmean : mean_go RO (isort RO l) = mu /\
                  stddev_go RO (isort RO l) = sqrt (rsum (map (fun x => (x - mu) * (x - mu)) l) / IZR (zlen l - 1))).
  { assert (Hne : isort RO l <> []).
    { intro E. rewrite E in EL. unfold zlen in EL, Hn. simpl in EL. lia. }
    destruct (welford_is_two_pass cbrt (isort RO l) Hne) as [Em E2]. fold RO in Em, E2.
    rewrite EL, (rsum_perm _ _ P) in Em. fold mu in Em.
    rewrite EL, (rsum_perm _ _ P) in E2. fold mu in E2.
    rewrite (rsum_perm _ _ (Permutation_map (fun x => (x - mu) * (x - mu)) P)) in E2.
    split.
    - rewrite mean_go_stream by auto. exact Em.
    - unfold stddev_go. rewrite variance_go_stream by (unfold zlen in *; lia).
      rewrite E2, EL. reflexivity. }
  destruct Hmean as [Hm Hs].
  unfold overview, overview_sorted in H. cbv zeta in H.
  destruct (bounds_sorted RO (isort RO l)) as [mn mx].
  rewrite Hm, Hs in H.
  destruct (quantile RO (isort RO l) _); simpl in H; try discriminate.
  destruct (quantile RO (isort RO l) _); simpl in H; try discriminate.
  destruct (quantile RO (isort RO l) _); simpl in H; try discriminate.
  match type of H with (if ?c then _ else _) = _ => destruct c end.
  - inversion H; subst; simpl. auto.
  - unfold conv in H.
    match type of H with bind ?x _ = _ => destruct x end; simpl in H; try discriminate.
    inversion H; subst; simpl. auto.
Qed.

End RealOverview.
Close Scope R_scope.

(* ======================================================================================== *)
(* at the reals Flush never meets an undefined conversion, a zero or negative bin count      *)
(* ======================================================================================== *)
Open Scope R_scope.
Section RealTotal.
Variable cbrt : Z -> R.
Hypothesis cbrt_pos : forall n, (1 <= n)%Z -> 0 < cbrt n.
Let RO := rops cbrt.

Lemma Int_part_IZR : forall k, Int_part (IZR k) = k.
Proof.
  intros k. unfold Int_part.
  assert (H : (k + 1)%Z = up (IZR k)).
  { apply tech_up; rewrite plus_IZR; lra. }
  rewrite <- H. lia.
Qed.

Lemma rtrunc_IZR : forall k, (0 <= k)%Z -> rtrunc (IZR k) = k.
Proof.
  intros k Hk. unfold rtrunc. destruct (Rle_dec 0 (IZR k)) as [_|Hn].
  - apply Int_part_IZR.
  - exfalso. apply Hn. apply IZR_le. exact Hk.
Qed.

Lemma ceil_pos : forall y, 0 < y -> (1 <= - Int_part (- y))%Z.
Proof.
  intros y Hy. destruct (base_Int_part (- y)) as [H1 H2].
  assert (H : IZR (Int_part (- y)) < 0) by lra.
  apply lt_IZR in H. lia.
Qed.

Lemma R_quantile_ok : forall xs q, exists v, quantile RO xs q = ROk v.
Proof.
  intros xs q. unfold quantile. destruct xs as [|x xs]; [eexists; reflexivity|].
  cbv zeta. unfold conv. simpl n_trunc. cbv iota beta.
  match goal with |- context [if ?c then _ else _] => destruct c end; [eexists; reflexivity|].
  match goal with |- context [if ?c then _ else _] => destruct c end; eexists; reflexivity.
Qed.

Lemma R_bins_of_ok : forall d mn xs, exists bs, bins_of RO d mn xs = ROk bs.
Proof.
  intros d mn. induction xs as [|x xs [bs IH]]; simpl; [eexists; reflexivity|].
  rewrite IH. simpl. eexists; reflexivity.
Qed.

(* the Scott bin count of a sorted sample *)
Definition scott_bins (xs : list R) : Z :=
  let '(mn, mx) := bounds_sorted RO xs in
  rtrunc (rceil ((mx - mn) / (c349 RO * stddev_go RO xs / cbrt (zlen xs)))).

Theorem R_overview_total : forall l,
  match overview RO l with
  | ROk _ => True
  | RPanic => (max_bins <= scott_bins (isort RO l))%Z
  | _ => False
  end.
Proof.
  intros l. unfold overview, overview_sorted, scott_bins.
  pose proof (fun x (_ : rok x) => Rltb_irrefl x) as Hi.
  pose proof (fun x y z (_ : rok x) (_ : rok y) (_ : rok z) => Rltb_trans x y z) as Ht.
  assert (Hn : forall x, rok x -> n_isnan R RO x = false) by reflexivity.
  assert (Hallok : Forall rok l) by (apply Forall_forall; intros; exact I).
  pose proof (bounds_isort RO rok Hi Ht Hn l) as HB.
  pose proof (isort_length RO l) as EL.
  set (xs := isort RO l) in *.
  destruct (bounds_sorted RO xs) as [mn mx]. cbn [fst snd] in HB.
  destruct (R_quantile_ok xs (q14 RO)) as [v1 E1]. destruct (R_quantile_ok xs (q24 RO)) as [v2 E2].
  destruct (R_quantile_ok xs (q34 RO)) as [v3 E3]. rewrite E1, E2, E3. simpl bind.
  simpl n_cbrt. cbv iota.
  simpl n_isnan. cbv iota.
  match goal with |- context [if ?c then _ else _] => destruct c eqn:Ec end; [exact I|].
  apply orb_false_iff in Ec. destruct Ec as [Ec Emm]. apply orb_false_iff in Ec. destruct Ec as [Elen Eh].
  apply Z.eqb_neq in Elen.
  assert (Hne : l <> []).
  { intro; subst. apply Elen. rewrite EL. reflexivity. }
  destruct (HB Hne Hallok) as [[Imn Lmn] [Imx Gmx]].
  assert (Hmm : mn < mx).
  { change (Reqb mx mn = false) in Emm. unfold Reqb in Emm. destruct (Req_EM_T mx mn); [discriminate|].
    specialize (Gmx mn Imn). change (Rltb mx mn = false) in Gmx. unfold Rltb in Gmx. destruct (Rlt_dec mx mn); [discriminate|]. lra. }
  set (h := n_div R RO (n_mul R RO (c349 RO) (stddev_go RO xs)) (cbrt (zlen xs))) in *.
  assert (Hh : 0 < h).
  { assert (Hh0 : h <> 0).
    { change (Reqb h 0 = false) in Eh. unfold Reqb in Eh. destruct (Req_EM_T h 0); [discriminate|auto]. }
    assert (Hp : 0 < cbrt (zlen xs)).
    { apply cbrt_pos. rewrite EL. unfold zlen in *. destruct l; [congruence|simpl; lia]. }
    assert (Hs : 0 <= stddev_go RO xs) by (unfold stddev_go; simpl; apply sqrt_pos).
    assert (Hc : 0 < c349 RO) by (unfold c349; simpl; lra).
    assert (Hge : 0 <= h).
    { unfold h. change (0 <= c349 RO * stddev_go RO xs / cbrt (zlen xs)). unfold Rdiv.
      apply Rmult_le_pos; [apply Rmult_le_pos; lra|].
      apply Rlt_le. apply Rinv_0_lt_compat. exact Hp. }
    lra. }
  assert (Hq : 0 < (mx - mn) / h).
  { apply Rdiv_lt_0_compat; lra. }
  unfold conv.
  change (match bind (linear_hist RO mn mx (rtrunc (rceil ((mx - mn) / h))) xs)
                     (fun hist => ROk (mkOv mn mx (mean_go RO xs) (sqrt (variance_go RO xs)) v1 v2 v3 hist))
          with ROk _ => True | RPanic => (max_bins <= rtrunc (rceil ((mx - mn) / h)))%Z | _ => False end).
  unfold rceil. pose proof (ceil_pos _ Hq) as Hk.
  set (k := (- Int_part (- ((mx - mn) / h)))%Z) in *.
  rewrite rtrunc_IZR by lia.
  unfold linear_hist.
  assert (Hk0 : (k <? 0)%Z = false) by (apply Z.ltb_ge; lia).
  rewrite Hk0. simpl orb.
  destruct (max_bins <=? k)%Z eqn:Emax.
  - simpl. apply Z.leb_le in Emax. exact Emax.
  - destruct (R_bins_of_ok (n_div R RO (n_ofZ R RO k) (n_sub R RO mx mn)) mn xs) as [bs Ebs].
    rewrite Ebs. simpl bind.
    assert (Hk1 : (k =? 0)%Z = false) by (apply Z.eqb_neq; lia).
    rewrite Hk1. simpl. exact I.
Qed.

Lemma R_overviews_total : forall ss,
  match overviews RO ss with ROk _ => True | RPanic => True | _ => False end.
Proof.
  induction ss as [|s ss IH]; simpl; [exact I|].
  pose proof (R_overview_total s) as H.
  destruct (overview RO s); simpl; auto.
  destruct (overviews RO ss); simpl; auto.
Qed.

(* Flush at the reals: a report, or a refused allocation of at least 2^31 bins; never an
   undefined conversion, a division by zero in the bin computation, or a zero bin count *)
Theorem R_report_total : forall cyc rs,
  match report_of RO cyc rs with ROk _ => True | RPanic => True | _ => False end.
Proof.
  intros. unfold report_of, a_report.
  pose proof (R_overview_total (a_dpc (state_of RO cyc rs))) as H1.
  pose proof (R_overviews_total (a_cd (state_of RO cyc rs))) as H2.
  pose proof (R_overviews_total (a_ct (state_of RO cyc rs))) as H3.
  destruct (overview RO _); simpl; auto.
  destruct (overviews RO (a_cd _)); simpl; auto.
  destruct (overviews RO (a_ct _)); simpl; auto.
Qed.

End RealTotal.
Close Scope R_scope.

(* ======================================================================================== *)
(* degenerate batches                                                                       *)
(* ======================================================================================== *)
Section DegenerateBatches.
Context {T : Type} (NO : NumOps T).

Definition single_bin (o : @ov T) : Prop := exists c, o_hist o = [c].

Lemma overviews_all : forall (P : @ov T -> Prop) ss,
  (forall s, In s ss -> exists o, overview NO s = ROk o /\ P o) ->
  exists os, overviews NO ss = ROk os /\ Forall P os.
Proof.
  intros P. induction ss as [|s ss IH]; intros H; simpl.
  - exists []. split; [reflexivity|constructor].
  - destruct (H s (or_introl eq_refl)) as (o & Eo & Po).
    destruct IH as (os & Eos & Pos); [intros; apply H; right; auto|].
    rewrite Eo, Eos. simpl. exists (o :: os). split; [reflexivity|constructor; auto].
Qed.

(* no iteration at all: Flush returns, every histogram is the single empty bin *)
Theorem empty_batch_reports : forall cyc p, n_cbrt T NO 0 = Some p ->
  exists rep, report_of NO cyc [] = ROk rep /\ r_iters rep = 0 /\
    o_hist (r_dpc rep) = [0] /\
    Forall (fun o => o_hist o = [0]) (r_cd rep) /\ Forall (fun o => o_hist o = [0]) (r_ct rep).
Proof.
  intros cyc p Hp. unfold report_of, state_of, a_report; simpl.
  destruct (overview_empty NO p Hp) as (o0 & E0 & H0).
  rewrite E0. simpl.
  destruct (overviews_all (fun o => o_hist o = [0]) (repeat [] cyc)) as (os & Eos & Pos).
  { intros s Hs. apply repeat_spec in Hs. subst. eauto. }
  rewrite Eos. simpl. eexists. split; [reflexivity|]. simpl. auto.
Qed.

Lemma flat_map_repeat : forall (A B : Type) (f : A -> list B) (a : A) n,
  flat_map f (repeat a n) = concat (repeat (f a) n).
Proof. induction n; simpl; [reflexivity|]. rewrite IHn. reflexivity. Qed.

Lemma concat_repeat_single : forall (B : Type) (b : B) n, concat (repeat [b] n) = repeat b n.
Proof. induction n; simpl; [reflexivity|]. rewrite IHn. reflexivity. Qed.

Lemma concat_repeat_nil : forall (B : Type) n, concat (repeat (@nil B) n) = [].
Proof. induction n; simpl; auto. Qed.

Lemma map_repeat' : forall (A B : Type) (f : A -> B) (a : A) n, map f (repeat a n) = repeat (f a) n.
Proof. induction n; simpl; [reflexivity|]. rewrite IHn. reflexivity. Qed.

(* a value that compares like an ordinary number: not below itself, equal to itself *)
Definition selfeq (x : T) : Prop := n_lt T NO x x = false /\ n_eq T NO x x = true.

(* n >= 1 identical results (a single result, identical results, all-zero damage, whatever the
   lengths of the series): Flush returns and every histogram has a single bin; the bin-count
   and bin-index conversions are never evaluated *)
Theorem identical_batch_reports : forall cyc r n p p0,
  (1 <= n)%nat ->
  selfeq (dpc_of NO r) ->
  Forall selfeq (diffs NO (i_cd r) (n_zero T NO)) -> Forall selfeq (diffs NO (i_ct r) (n_zero T NO)) ->
  n_cbrt T NO (Z.of_nat n) = Some p -> n_cbrt T NO 0 = Some p0 ->
  quantiles_defined NO (Z.of_nat n) ->
  exists rep, report_of NO cyc (repeat r n) = ROk rep /\
    o_hist (r_dpc rep) = [Z.of_nat n] /\ Forall single_bin (r_cd rep) /\ Forall single_bin (r_ct rep).
Proof.
  intros cyc r n p p0 Hn Hd Hcd Hct Hp Hp0 Hq.
  destruct (state_samples NO cyc (repeat r n)) as (I1 & I2 & I3 & I4 & I5 & I6).
  unfold report_of, a_report. rewrite I2, map_repeat'.
  destruct Hd as [Hd1 Hd2].
  destruct (overview_identical NO _ n p Hn Hd1 Hd2 Hp Hq) as (o & Eo & Ho & _).
  rewrite Eo. simpl.
  assert (Hser : forall series ss,
            Forall selfeq (diffs NO (series r) (n_zero T NO)) ->
            (forall i, nth i ss [] = cycle_sample NO series i (repeat r n)) ->
            exists os, overviews NO ss = ROk os /\ Forall single_bin os).
  { intros series ss Hs Hnth. apply overviews_all. intros s Hin.
    destruct (In_nth ss s [] Hin) as (i & _ & Ei). rewrite Hnth in Ei. subst s.
    unfold cycle_sample. rewrite flat_map_repeat.
    destruct (nth_error (diffs NO (series r) (n_zero T NO)) i) as [d|] eqn:E; simpl.
    - rewrite concat_repeat_single.
      rewrite Forall_forall in Hs. destruct (Hs d (nth_error_In _ _ E)) as [Hl He].
      destruct (overview_identical NO d n p Hn Hl He Hp Hq) as (o' & Eo' & Ho' & _).
      exists o'. split; [exact Eo'|]. exists (Z.of_nat n). exact Ho'.
    - rewrite concat_repeat_nil. destruct (overview_empty NO p0 Hp0) as (o' & Eo' & Ho').
      exists o'. split; [exact Eo'|]. exists 0. exact Ho'. }
  destruct (Hser (@i_cd T) _ Hcd I5) as (cd & Ecd & Pcd).
  destruct (Hser (@i_ct T) _ Hct I6) as (ct & Ect & Pct).
  rewrite Ecd, Ect. simpl. eexists. split; [reflexivity|]. simpl. auto.
Qed.

End DegenerateBatches.

(* ======================================================================================== *)
(* binary64: the quantile index conversion is defined for every sample size up to 8192       *)
(* (checked by computation; at the reals it is defined for every size)                      *)
(* ======================================================================================== *)
Definition qdefb (n : Z) : bool :=
  match ftrunc (qindex (fops []) n (q14 (fops []))), ftrunc (qindex (fops []) n (q24 (fops []))),
        ftrunc (qindex (fops []) n (q34 (fops []))) with
  | Some _, Some _, Some _ => true
  | _, _, _ => false
  end.

Fixpoint all_from (f : Z -> bool) (fuel : nat) (k : Z) : bool :=
  match fuel with O => true | S fuel' => f k && all_from f fuel' (k + 1) end.

Lemma all_from_sound : forall f fuel k, all_from f fuel k = true ->
  forall z, k <= z < k + Z.of_nat fuel -> f z = true.
Proof.
  intros f. induction fuel as [|fuel IH]; intros k H z Hz; [lia|].
  simpl in H. apply andb_true_iff in H. destruct H as [H1 H2].
  destruct (Z.eq_dec z k) as [->|Hne]; [exact H1|].
  apply (IH (k + 1) H2). lia.
Qed.

Definition qbound : nat := Z.to_nat 8192.
Lemma qbound_Z : Z.of_nat qbound = 8192.
Proof. reflexivity. Qed.

Lemma qdefb_8192 : all_from qdefb qbound 1 = true.
Proof. vm_compute. reflexivity. Qed.

Theorem F_quantiles_defined_small : forall pows n, 1 <= n <= 8192 -> quantiles_defined (fops pows) n.
Proof.
  intros pows n Hn.
  assert (H : qdefb n = true) by (apply (all_from_sound qdefb qbound 1 qdefb_8192); rewrite qbound_Z; lia).
  unfold qdefb in H. unfold quantiles_defined.
  change (qindex (fops pows) n (q14 (fops pows))) with (qindex (fops []) n (q14 (fops []))).
  change (qindex (fops pows) n (q24 (fops pows))) with (qindex (fops []) n (q24 (fops []))).
  change (qindex (fops pows) n (q34 (fops pows))) with (qindex (fops []) n (q34 (fops []))).
  change (n_trunc float (fops pows)) with ftrunc.
  destruct (ftrunc (qindex (fops []) n (q14 (fops [])))); [|discriminate].
  destruct (ftrunc (qindex (fops []) n (q24 (fops [])))); [|discriminate].
  destruct (ftrunc (qindex (fops []) n (q34 (fops [])))); [|discriminate].
  repeat split; discriminate.
Qed.

(* binary64, up to 8192 identical results: Flush returns, single-bin histograms *)
Theorem F_identical_batch_reports : forall pows cyc r n p p0,
  (1 <= n)%nat -> Z.of_nat n <= 8192 ->
  PrimFloat.is_nan (dpc_of (fops pows) r) = false ->
  forallb (fun x => negb (PrimFloat.is_nan x)) (diffs (fops pows) (i_cd r) 0%float) = true ->
  forallb (fun x => negb (PrimFloat.is_nan x)) (diffs (fops pows) (i_ct r) 0%float) = true ->
  lookup_pow pows (Z.of_nat n) = Some p -> lookup_pow pows 0 = Some p0 ->
  exists rep, report_of (fops pows) cyc (repeat r n) = ROk rep /\
    o_hist (r_dpc rep) = [Z.of_nat n] /\
    Forall (single_bin) (r_cd rep) /\ Forall (single_bin) (r_ct rep).
Proof.
  intros pows cyc r n p p0 Hn Hn' Hd Hcd Hct Hp Hp0.
  assert (Hself : forall x, PrimFloat.is_nan x = false -> selfeq (fops pows) x).
  { intros x Hx. split; [apply fltb_irrefl|].
    unfold PrimFloat.is_nan in Hx. simpl. destruct (PrimFloat.eqb x x); [reflexivity|discriminate]. }
  assert (Hall : forall l, forallb (fun x => negb (PrimFloat.is_nan x)) l = true -> Forall (selfeq (fops pows)) l).
  { intros l H. apply Forall_forall. intros x Hx. rewrite forallb_forall in H.
    apply Hself. specialize (H x Hx). destruct (PrimFloat.is_nan x); [discriminate|reflexivity]. }
  apply (identical_batch_reports (fops pows) cyc r n p p0); auto.
  apply F_quantiles_defined_small. lia.
Qed.

(* ======================================================================================== *)
(* Part 4: the property                                                                     *)
(* ======================================================================================== *)

Theorem F_overview_min_max : forall pows l o, l <> [] -> Forall ford l -> overview (fops pows) l = ROk o ->
  least (fops pows) (o_min o) l /\ greatest (fops pows) (o_max o) l.
Proof.
  intros pows.
  apply (overview_min_max (fops pows) ford
           (fun x _ => fltb_irrefl x) (fun x y z _ _ _ => fltb_trans x y z) ford_not_nan).
Qed.

(* the three DescriptiveStats of a report are ToDescriptiveStats of the streams of the totals *)
Lemma report_totals : forall T (NO : NumOps T) cyc rs rep, report_of NO cyc rs = ROk rep ->
  r_dealt rep = to_desc NO (stream_of NO (map (@i_dealt T) rs)) /\
  r_taken rep = to_desc NO (stream_of NO (map (@i_taken T) rs)) /\
  r_av rep = to_desc NO (stream_of NO (map (@i_av T) rs)).
Proof.
  intros T NO cyc rs rep H. unfold report_of, a_report in H.
  destruct (state_streams NO cyc rs) as (S1 & S2 & S3).
  destruct (overview NO _); simpl in H; try discriminate.
  destruct (overviews NO _); simpl in H; try discriminate.
  destruct (overviews NO _); simpl in H; try discriminate.
  inversion H; subst; simpl. rewrite S1, S2, S3. auto.
Qed.

Definition C19_statement : Prop :=
  (* (a) binary64, any interleaving of adds and flushes: the k-th flush reports exactly the
         statistics of the results added before it (earlier flushes, which re-sort the samples
         in place, change nothing) *)
  (forall pows cyc ops, Forall (fresult_ok pows) (added_by ops) ->
     run (fops pows) (a_init (fops pows) cyc) ops = spec_run (fops pows) cyc [] ops) /\
  (* (b) any arithmetic: a returned report counts the results added; its damage-per-cycle figure
         is the overview of one value per result; the figure of cycle i is the overview of the
         increments of exactly the results whose series reaches cycle i; every histogram has at
         least one bin, no negative count and sums to the number of values it summarises; the
         three totals are the streaming statistics of the totals *)
  (forall T (NO : NumOps T) cyc rs rep, report_of NO cyc rs = ROk rep ->
     report_describes NO cyc rs rep /\
     r_dealt rep = to_desc NO (stream_of NO (map (@i_dealt T) rs)) /\
     r_taken rep = to_desc NO (stream_of NO (map (@i_taken T) rs)) /\
     r_av rep = to_desc NO (stream_of NO (map (@i_av T) rs))) /\
  (* (c) binary64: count, min, max of the totals and every OverviewStats field (min, max, mean,
         SD, quartiles, histogram) of two arrival orders of the same multiset are bit-identical *)
  (forall pows cyc rs rs', Permutation rs rs' -> Forall (fresult_ok pows) rs ->
     res_map exact_part (report_of (fops pows) cyc rs) =
     res_map exact_part (report_of (fops pows) cyc rs')) /\
  (* (d) binary64: the reported minimum / maximum are the least / greatest value *)
  (forall pows l, Forall ford l -> l <> [] ->
     s_count (stream_of (fops pows) l) = zlen l /\
     least (fops pows) (s_min (stream_of (fops pows) l)) l /\
     greatest (fops pows) (s_max (stream_of (fops pows) l)) l) /\
  (forall pows l o, l <> [] -> Forall ford l -> overview (fops pows) l = ROk o ->
     least (fops pows) (o_min o) l /\ greatest (fops pows) (o_max o) l) /\
  (* (e) real numbers: the whole report (streaming mean and SD included) depends only on the
         multiset; mean = sum / n, SD = sqrt (sum of squared deviations / (n - 1)) *)
  (forall cbrt cyc rs rs', Permutation rs rs' ->
     report_of (rops cbrt) cyc rs = report_of (rops cbrt) cyc rs') /\
  (forall cbrt l, (2 <= zlen l < 2 ^ 64) ->
     let d := to_desc (rops cbrt) (stream_of (rops cbrt) l) in
     let mu := (rsum l / IZR (zlen l))%R in
     d_mean d = mu /\
     d_sd d = sqrt (rsum (map (fun x => (x - mu) * (x - mu))%R l) / IZR (zlen l - 1))) /\
  (forall cbrt l o, 2 <= zlen l -> overview (rops cbrt) l = ROk o ->
     let mu := (rsum l / IZR (zlen l))%R in
     o_mean o = mu /\
     o_sd o = sqrt (rsum (map (fun x => (x - mu) * (x - mu))%R l) / IZR (zlen l - 1))) /\
  (* (f) degenerate batches, any arithmetic: no result at all, and n >= 1 identical results
         (a single result, zero damage, series of any lengths, cycles nobody reached): Flush
         returns and every histogram is a single bin; the bin-count and bin-index conversions
         are not evaluated *)
  (forall T (NO : NumOps T) cyc p, n_cbrt T NO 0 = Some p ->
     exists rep, report_of NO cyc [] = ROk rep /\ r_iters rep = 0 /\ o_hist (r_dpc rep) = [0] /\
       Forall (fun o => o_hist o = [0]) (r_cd rep) /\ Forall (fun o => o_hist o = [0]) (r_ct rep)) /\
  (forall T (NO : NumOps T) cyc r n p p0, (1 <= n)%nat ->
     selfeq NO (dpc_of NO r) ->
     Forall (selfeq NO) (diffs NO (i_cd r) (n_zero T NO)) ->
     Forall (selfeq NO) (diffs NO (i_ct r) (n_zero T NO)) ->
     n_cbrt T NO (Z.of_nat n) = Some p -> n_cbrt T NO 0 = Some p0 ->
     quantiles_defined NO (Z.of_nat n) ->
     exists rep, report_of NO cyc (repeat r n) = ROk rep /\
       o_hist (r_dpc rep) = [Z.of_nat n] /\
       Forall (single_bin) (r_cd rep) /\ Forall (single_bin) (r_ct rep)) /\
  (* (f') binary64, 1 .. 8192 identical results without NaN: the same, with no hypothesis on the
          quantile index conversion (checked by computation for these sizes) *)
  (forall pows cyc r n p p0, (1 <= n)%nat -> Z.of_nat n <= 8192 ->
     PrimFloat.is_nan (dpc_of (fops pows) r) = false ->
     forallb (fun x => negb (PrimFloat.is_nan x)) (diffs (fops pows) (i_cd r) 0%float) = true ->
     forallb (fun x => negb (PrimFloat.is_nan x)) (diffs (fops pows) (i_ct r) 0%float) = true ->
     lookup_pow pows (Z.of_nat n) = Some p -> lookup_pow pows 0 = Some p0 ->
     exists rep, report_of (fops pows) cyc (repeat r n) = ROk rep /\
       o_hist (r_dpc rep) = [Z.of_nat n] /\
       Forall (single_bin) (r_cd rep) /\ Forall (single_bin) (r_ct rep)) /\
  (* (g) real numbers, every batch: with a positive cube root, Flush never evaluates an undefined
         conversion, never divides the range by a zero bin width and never asks for fewer than
         one bin; the only refusal is an allocation of 2^31 or more bins *)
  (forall cbrt, (forall n, 1 <= n -> (0 < cbrt n)%R) ->
     (forall l, match overview (rops cbrt) l with
                | ROk _ => True
                | RPanic => max_bins <= scott_bins cbrt (isort (rops cbrt) l)
                | _ => False
                end) /\
     (forall cyc rs, match report_of (rops cbrt) cyc rs with
                     | ROk _ => True | RPanic => True | _ => False end)).

Theorem C19_holds : C19_statement.
Proof.
  unfold C19_statement. repeat apply conj.
  - exact F_run_is_spec_run.
  - intros T NO cyc rs rep H. split; [apply report_of_describes; exact H|].
    apply (report_totals T NO cyc rs rep H).
  - exact F_report_permutation_invariant.
  - exact F_stream_min_max.
  - exact F_overview_min_max.
  - exact R_report_permutation_invariant.
  - exact R_desc_two_pass.
  - exact R_overview_mean_sd.
  - intros T NO. exact (empty_batch_reports NO).
  - intros T NO. exact (identical_batch_reports NO).
  - exact F_identical_batch_reports.
  - intros cbrt Hc. split.
    + exact (R_overview_total cbrt Hc).
    + exact (R_report_total cbrt Hc).
Qed.

(* ---- a concrete batch (non-vacuity): 8 results, series of lengths 1..3, cycle limit 4 ---- *)
Definition demo_pows : list (Z * float) :=
  [(0, f64 0); (1, f64 4607182418800017408); (2, f64 4608352999143469706); (3, f64 4609174133800058615);
   (4, f64 4609827837958778428); (5, f64 4610379866208912595); (6, f64 4610862402797412991);
   (7, f64 4611293895334566045); (8, f64 4611686018427387903)].
Definition demo_rs : list (@result float) :=
  [mkRes 100 5 250 [10; 60; 100] [1; 5; 5]; mkRes 140 7 150 [70; 140] [3; 7]; mkRes 0 0 100 [0] [0];
   mkRes 100 5 250 [10; 60; 100] [1; 5; 5]; mkRes 900 0 100 [900] [0]; mkRes 20 1 300 [5; 5; 20] [0; 0; 1];
   mkRes 55 2 120 [55] [2]; mkRes 300 9 110 [100; 300] [4; 9]]%float.

Lemma demo_ok : Forall (fresult_ok demo_pows) demo_rs.
Proof.
  apply Forall_forall. intros r Hr. apply fresult_okb_sound.
  assert (H : forallb (fresult_okb demo_pows) demo_rs = true) by (vm_compute; reflexivity).
  rewrite forallb_forall in H. apply H. exact Hr.
Qed.

Lemma list_eqb_Z_eq : forall a b, list_eqb Z.eqb a b = true -> a = b.
Proof.
  induction a; destruct b; simpl; intros Hab; try discriminate Hab; [reflexivity|].
  apply andb_true_iff in Hab. destruct Hab as [H1 H2]. apply Z.eqb_eq in H1. f_equal; auto.
Qed.
Lemma list_eqb_ZZ_eq : forall a b, list_eqb (list_eqb Z.eqb) a b = true -> a = b.
Proof.
  induction a; destruct b; simpl; intros Hab; try discriminate Hab; [reflexivity|].
  apply andb_true_iff in Hab. destruct Hab as [H1 H2]. f_equal; auto using list_eqb_Z_eq.
Qed.

Lemma demo_reports : exists rep,
  report_of (fops demo_pows) 4 demo_rs = ROk rep /\ r_iters rep = 8 /\
  o_hist (r_dpc rep) = [7; 1] /\
  map (@o_hist float) (r_cd rep) = [[7; 1]; [4; 1]; [3]; [0]] /\
  map (@o_hist float) (r_ct rep) = [[5; 3]; [1; 4]; [3]; [0]] /\
  res_map exact_part (report_of (fops demo_pows) 4 (rev demo_rs)) = ROk (exact_part rep).
Proof.
  assert (Hok : match report_of (fops demo_pows) 4 demo_rs with ROk _ => true | _ => false end = true)
    by (vm_compute; reflexivity).
  destruct (report_of (fops demo_pows) 4 demo_rs) as [rep| | |] eqn:E; try discriminate Hok.
  exists rep. split; [reflexivity|].
  assert (H : match report_of (fops demo_pows) 4 demo_rs with
              | ROk rep => (r_iters rep =? 8) &&
                           list_eqb Z.eqb (o_hist (r_dpc rep)) [7; 1] &&
                           list_eqb (list_eqb Z.eqb) (map (@o_hist float) (r_cd rep)) [[7; 1]; [4; 1]; [3]; [0]] &&
                           list_eqb (list_eqb Z.eqb) (map (@o_hist float) (r_ct rep)) [[5; 3]; [1; 4]; [3]; [0]]
              | _ => false end = true) by (vm_compute; reflexivity).
  rewrite E in H.
  repeat (apply andb_true_iff in H; destruct H as [H ?]).
  split; [apply Z.eqb_eq; assumption|].
  split; [apply list_eqb_Z_eq; assumption|]. split; [apply list_eqb_ZZ_eq; assumption|]. split; [apply list_eqb_ZZ_eq; assumption|].
  rewrite <- (F_report_permutation_invariant demo_pows 4 demo_rs (rev demo_rs)
                (Permutation_rev demo_rs) demo_ok).
  rewrite E. reflexivity.
Qed.
