package main

import (
	"fmt"
	"sync"

	"github.com/simimpact/srsim/pkg/engine"
	"github.com/simimpact/srsim/pkg/engine/event"
	"github.com/simimpact/srsim/pkg/engine/info"
	"github.com/simimpact/srsim/pkg/engine/modifier"
	"github.com/simimpact/srsim/pkg/engine/prop"
	"github.com/simimpact/srsim/pkg/engine/queue"
	"github.com/simimpact/srsim/pkg/engine/target/enemy"
	"github.com/simimpact/srsim/pkg/key"
	"github.com/simimpact/srsim/pkg/logic"
	"github.com/simimpact/srsim/pkg/model"
	"github.com/simimpact/srsim/pkg/simulation"

	"verif/harness/term"
)

// =====================================================================================
// component "queue": the real queue.Handler through its exported API
// =====================================================================================

type rqWorld struct {
	h     *queue.Handler
	n     int64 // harness numbering of inserted tasks = insertion order
	probe bool  // Execute only reports which task it belongs to
	cur   int64
}

func flagsOf(t term.T) []model.BehaviorFlag {
	out := []model.BehaviorFlag{}
	for _, f := range term.List(t) {
		out = append(out, model.BehaviorFlag(term.Int(f)))
	}
	return out
}

func flagsBack(fs []model.BehaviorFlag) term.T {
	out := []term.T{}
	for _, f := range fs {
		out = append(out, term.I(int64(f)))
	}
	return term.L(out...)
}

func (w *rqWorld) insert(r term.T) {
	_, a := term.Ctor(r) // RIns prio src flags script
	id := w.n
	w.n++
	script := term.List(a[3])
	w.h.Insert(queue.Task{
		Priority:   info.InsertPriority(term.Int(a[0])),
		Source:     key.TargetID(term.Int(a[1])),
		AbortFlags: flagsOf(a[2]),
		Execute: func() {
			if w.probe {
				w.cur = id
				return
			}
			for _, sub := range script {
				w.insert(sub)
			}
		},
	})
}

func (w *rqWorld) pop(ex bool) (out term.T) {
	defer func() {
		if r := recover(); r != nil {
			out = term.C("QPanic")
		}
	}()
	t := w.h.Pop()
	w.probe, w.cur = true, -1
	t.Execute()
	w.probe = false
	if ex {
		t.Execute()
	}
	return term.C("QPopped", term.I(w.cur), term.I(int64(t.Priority)), term.I(int64(t.Source)),
		flagsBack(t.AbortFlags), term.B(w.h.IsEmpty()))
}

func runQueue(in term.T) term.T {
	w := &rqWorld{h: queue.New()}
	out := []term.T{}
	for _, o := range term.List(in) {
		name, a := term.Ctor(o)
		switch name {
		case "QInsert":
			w.insert(a[0])
			out = append(out, term.C("QInserted", term.B(w.h.IsEmpty())))
		case "QPop":
			out = append(out, w.pop(term.Bool(a[0])))
		default:
			panic("unknown op " + name)
		}
	}
	return term.C("Ok", term.L(out...))
}

var qPrios = []int64{
	int64(info.CharReviveSelf), int64(info.CharHealSelf), int64(info.CharBuffSelf),
	int64(info.CharInsertAttackSelf), int64(info.CharInsertAttackSelf), int64(info.CharInsertAttackOthers),
	int64(info.EnemyInsertAttackSelf), int64(info.CharInsertAction), int64(info.CharInsertAction),
	int64(info.EnemyInsertAction), 0, -1, 75, 76, 1 << 40,
}

func genRIns(r *term.Rng, depth int, budget *int) term.T {
	script := []term.T{}
	if depth < 2 && r.Chance(1, 3) {
		for k := r.Range(1, 3); k > 0 && *budget > 0; k-- {
			*budget--
			script = append(script, genRIns(r, depth+1, budget))
		}
	}
	fl := []term.T{}
	for k := r.Intn(3); k > 0; k-- {
		fl = append(fl, term.I(term.Pick(r, []int64{1, 100, 101, 103})))
	}
	return term.C("RIns", term.I(term.Pick(r, qPrios)), term.I(int64(r.Intn(4))), term.L(fl...), term.L(script...))
}

func genQueue(r *term.Rng, idx int) term.T {
	ops := []term.T{}
	nops := r.Range(8, 70)
	pending := 0 // approximate (ignores inserts made by executed tasks)
	budget := 60
	// a few cases use one priority only (pure first-in first-out), a few very few priorities
	mono := r.Chance(1, 8)
	for len(ops) < nops {
		wantInsert := pending < 3 || (pending < 30 && r.Chance(3, 5))
		if r.Chance(1, 25) {
			wantInsert = false // now and then pop towards (and past) empty
		}
		if wantInsert {
			t := genRIns(r, 0, &budget)
			if mono {
				_, a := term.Ctor(t)
				a[0] = term.I(75)
			}
			ops = append(ops, term.C("QInsert", t))
			pending++
		} else {
			ops = append(ops, term.C("QPop", term.B(r.Chance(2, 3))))
			if pending > 0 {
				pending--
			}
		}
	}
	// drain to empty and once past it
	if r.Chance(1, 3) {
		for i := 0; i < pending+2 && i < 40; i++ {
			ops = append(ops, term.C("QPop", term.B(false)))
		}
	}
	return term.L(ops...)
}

func kindsQueue(in term.T) map[string]int {
	m := map[string]int{}
	for _, o := range term.List(in) {
		n, a := term.Ctor(o)
		m[n]++
		if n == "QInsert" {
			_, ra := term.Ctor(a[0])
			if len(term.List(ra[3])) > 0 {
				m["insert_whose_execute_inserts"]++
			}
		}
	}
	return m
}

// =====================================================================================
// component "drain": the real simulation.executeQueue (verif hook) on a real Simulation
// =====================================================================================

var drainFlagPool = []int64{1, 2, 100, 101, 103}

type drainEval struct{}

func (drainEval) Init(engine.Engine) error { return nil }
func (drainEval) NextAction(key.TargetID) (logic.Action, error) {
	return logic.Action{Type: logic.ActionAttack}, nil
}
func (drainEval) DefaultAction(key.TargetID) (logic.Action, error) {
	return logic.Action{Type: logic.ActionAttack}, nil
}
func (drainEval) UltCheck() ([]logic.Action, error) { return nil, nil }

type drainWorld struct {
	sim   *simulation.Simulation
	n     int64
	limbo bool
	acts  map[int64][]term.T // per unit: scripts of its next action callbacks
	trace []term.T
}

var (
	drainOnce sync.Once
	drainCur  *drainWorld
)

type drainEnemy struct{ id key.TargetID }

func (e *drainEnemy) Action(target key.TargetID, state info.ActionState) {
	w := drainCur
	u := int64(e.id)
	w.trace = append(w.trace, term.C("TAct", term.I(u)))
	q := w.acts[u]
	if len(q) == 0 {
		return
	}
	w.acts[u] = q[1:]
	w.script(term.List(q[0]))
}

func drainFlagName(f int64) key.Modifier { return key.Modifier(fmt.Sprintf("verif-flag-%d", f)) }

func drainRegister() {
	enemy.Register("verif-enemy", enemy.Config{
		Create: func(engine engine.Engine, id key.TargetID, info info.Enemy) info.EnemyInstance {
			return &drainEnemy{id: id}
		},
		Curve: enemy.Curve1,
		Rank:  model.EnemyRank_MINION,
		Base:  enemy.BaseStats{ATK: 10, DEF: 10, HP: 1000, SPD: 100, Stance: 30},
	})
	for _, f := range drainFlagPool {
		modifier.Register(drainFlagName(f), modifier.Config{
			Stacking:      modifier.Replace,
			BehaviorFlags: []model.BehaviorFlag{model.BehaviorFlag(f)},
		})
	}
}

func (w *drainWorld) script(effs []term.T) {
	for _, e := range effs {
		w.eff(e)
	}
}

func (w *drainWorld) eff(e term.T) {
	name, a := term.Ctor(e)
	switch name {
	case "EAbility":
		id := w.n
		w.n++
		sc := term.List(a[3])
		w.sim.InsertAbility(info.Insert{
			Key:        key.Insert(fmt.Sprintf("i%d", id)),
			Source:     key.TargetID(term.Int(a[1])),
			Priority:   info.InsertPriority(term.Int(a[0])),
			AbortFlags: flagsOf(a[2]),
			Execute: func() {
				w.trace = append(w.trace, term.C("TExec", term.I(id)))
				w.script(sc)
			},
		})
	case "EAction":
		w.n++
		w.sim.InsertAction(key.TargetID(term.Int(a[0])))
	case "EKill":
		u := key.TargetID(term.Int(a[0]))
		w.limbo = term.Bool(a[1])
		_ = w.sim.Attr.SetHP(info.ModifyAttribute{Key: "verif", Target: u, Source: u, Amount: 0}, true)
		w.limbo = false
	case "ERevive":
		u := key.TargetID(term.Int(a[0]))
		_ = w.sim.Attr.SetHP(info.ModifyAttribute{Key: "verif", Target: u, Source: u, Amount: 50}, false)
	case "EFlag":
		u, f := key.TargetID(term.Int(a[0])), term.Int(a[1])
		known := false
		for _, p := range drainFlagPool {
			known = known || p == f
		}
		if !known {
			panic("flag outside the registered pool")
		}
		if term.Bool(a[2]) {
			_, _ = w.sim.Modifier.AddModifier(u, info.Modifier{Name: drainFlagName(f), Source: u})
		} else {
			w.sim.Modifier.RemoveModifier(u, drainFlagName(f))
		}
	default:
		panic("unknown effect " + name)
	}
}

func insKeyNum(k key.Insert) int64 {
	var n int64
	if _, err := fmt.Sscanf(string(k), "i%d", &n); err != nil {
		panic("unexpected insert key " + string(k))
	}
	return n
}

func runDrain(in term.T) term.T {
	drainOnce.Do(drainRegister)
	it := term.TupleItems(in)
	cfg := &model.SimConfig{Settings: &model.SimulatorSettings{CycleLimit: 1000, Iterations: 1}}
	sim := simulation.NewSimulation(cfg, drainEval{}, 1)
	w := &drainWorld{sim: sim, acts: map[int64][]term.T{}}
	drainCur = w
	defer func() { drainCur = nil }()

	var chars, enemies []key.TargetID
	for _, uc := range term.List(it[0]) {
		p := term.TupleItems(uc)
		id := key.TargetID(term.Int(p[0]))
		cn, _ := term.Ctor(p[1])
		switch cn {
		case "CChar":
			sim.Targets[id] = info.ClassCharacter
			bs := info.NewPropMap()
			bs[prop.HPBase] = 100
			if err := sim.Attr.AddTarget(id, info.Attributes{
				Level: 1, BaseStats: bs, BaseDebuffRES: info.NewDebuffRESMap(), Weakness: info.NewWeaknessMap(),
				HPRatio: 1, Energy: 0, MaxEnergy: 100, Stance: 0, MaxStance: 0,
			}); err != nil {
				panic(err)
			}
			chars = append(chars, id)
		case "CEnemy":
			sim.Targets[id] = info.ClassEnemy
			if err := sim.Enemy.AddEnemy(id, &model.Enemy{Key: "verif-enemy", Level: 1}); err != nil {
				panic(err)
			}
			enemies = append(enemies, id)
		default:
			panic("unknown class " + cn)
		}
		if !(sim.Attr.Stats(id).MaxHP() > 0) {
			panic("unit without max HP")
		}
	}
	sim.VerifSetSides(chars, enemies)
	for _, ua := range term.List(it[1]) {
		p := term.TupleItems(ua)
		w.acts[term.Int(p[0])] = term.List(p[1])
	}

	ev := sim.Event
	ev.LimboWaitHeal.Subscribe(func(e event.LimboWaitHeal) bool { return w.limbo }, 1)
	ev.InsertStart.Subscribe(func(e event.InsertStart) {
		w.trace = append(w.trace, term.C("TInsertStart", term.I(insKeyNum(e.Key)), term.I(int64(e.Owner)), term.I(int64(e.Priority))))
	})
	ev.InsertEnd.Subscribe(func(e event.InsertEnd) {
		w.trace = append(w.trace, term.C("TInsertEnd", term.I(insKeyNum(e.Key)), term.I(int64(e.Owner)), term.I(int64(e.Priority))))
	})
	ev.ActionStart.Subscribe(func(e event.ActionStart) {
		if !e.IsInsert {
			panic("ActionStart without IsInsert from an inserted action")
		}
		w.trace = append(w.trace, term.C("TActionStart", term.I(int64(e.Owner))))
	})
	ev.ActionEnd.Subscribe(func(e event.ActionEnd) {
		w.trace = append(w.trace, term.C("TActionEnd", term.I(int64(e.Owner))))
	})
	ev.TargetDeath.Subscribe(func(e event.TargetDeath) {
		w.trace = append(w.trace, term.C("TDeath", term.I(int64(e.Target))))
	})
	ev.Termination.Subscribe(func(e event.Termination) {
		w.trace = append(w.trace, term.C("TTermination", term.I(int64(e.Reason))))
	})

	for _, o := range term.List(it[2]) {
		name, a := term.Ctor(o)
		switch name {
		case "TEff":
			w.eff(a[0])
		case "TLeave":
			u := key.TargetID(term.Int(a[0]))
			keep := func(l []key.TargetID) []key.TargetID {
				out := []key.TargetID{}
				for _, x := range l {
					if x != u {
						out = append(out, x)
					}
				}
				return out
			}
			sim.VerifSetSides(keep(sim.Characters()), keep(sim.Enemies()))
		case "TDrain":
			stopped, err := sim.VerifExecuteQueue(info.ActionEnd)
			if err != nil {
				panic(err)
			}
			w.trace = append(w.trace, term.C("TDrained", term.B(stopped), term.B(sim.Queue.IsEmpty())))
			if stopped {
				return term.C("Ok", term.L(w.trace...))
			}
		default:
			panic("unknown top op " + name)
		}
	}
	return term.C("Ok", term.L(w.trace...))
}

// ---- generator ----
// units: 1,2 characters; 3,4 enemies; 9 is never registered

func genEff(r *term.Rng, depth int, budget *int) term.T {
	units := []int64{1, 2, 3, 4, 9}
	switch c := r.Intn(20); {
	case c < 8 && *budget > 0:
		*budget--
		sc := []term.T{}
		if depth < 2 && r.Chance(1, 2) {
			for k := r.Range(1, 3); k > 0; k-- {
				sc = append(sc, genEff(r, depth+1, budget))
			}
		}
		fl := []term.T{}
		for k := r.Intn(3); k > 0; k-- {
			fl = append(fl, term.I(term.Pick(r, drainFlagPool)))
		}
		return term.C("EAbility", term.I(term.Pick(r, qPrios)), term.I(term.Pick(r, units)), term.L(fl...), term.L(sc...))
	case c < 11 && *budget > 0:
		*budget--
		return term.C("EAction", term.I(term.Pick(r, []int64{3, 4, 3, 4, 9})))
	case c < 14:
		return term.C("EKill", term.I(term.Pick(r, units)), term.B(r.Chance(1, 3)))
	case c < 16:
		return term.C("ERevive", term.I(term.Pick(r, units)))
	default:
		return term.C("EFlag", term.I(term.Pick(r, units)), term.I(term.Pick(r, []int64{1, 100, 101, 103, 100, 1})), term.B(r.Chance(3, 5)))
	}
}

func genDrain(r *term.Rng, idx int) term.T {
	units := term.L(
		term.Tup(term.I(1), term.C("CChar")), term.Tup(term.I(2), term.C("CChar")),
		term.Tup(term.I(3), term.C("CEnemy")), term.Tup(term.I(4), term.C("CEnemy")))
	budget := 40
	acts := []term.T{}
	for _, u := range []int64{3, 4} {
		scs := []term.T{}
		for k := r.Intn(4); k > 0; k-- {
			sc := []term.T{}
			for j := r.Intn(3); j > 0; j-- {
				sc = append(sc, genEff(r, 1, &budget))
			}
			scs = append(scs, term.L(sc...))
		}
		acts = append(acts, term.Tup(term.I(u), term.L(scs...)))
	}
	ops := []term.T{}
	nops := r.Range(4, 30)
	for len(ops) < nops {
		if r.Chance(1, 7) {
			ops = append(ops, term.C("TDrain"))
		} else if r.Chance(1, 10) {
			// a unit leaves the field without dying (turn-end death check of a unit in limbo)
			ops = append(ops, term.C("TLeave", term.I(term.Pick(r, []int64{1, 2, 3, 4, 3, 4, 9}))))
		} else {
			ops = append(ops, term.C("TEff", genEff(r, 0, &budget)))
		}
	}
	ops = append(ops, term.C("TDrain"))
	return term.Tup(units, term.L(acts...), term.L(ops...))
}

func countEff(e term.T, m map[string]int) {
	n, a := term.Ctor(e)
	m[n]++
	if n == "EAbility" {
		for _, s := range term.List(a[3]) {
			m["nested_effect"]++
			countEff(s, m)
		}
	}
}

func kindsDrain(in term.T) map[string]int {
	m := map[string]int{}
	for _, o := range term.List(term.TupleItems(in)[2]) {
		n, a := term.Ctor(o)
		m[n]++
		if n == "TEff" {
			countEff(a[0], m)
		}
	}
	return m
}

func init() {
	register("queue", component{gen: genQueue, run: runQueue, kinds: kindsQueue})
	register("drain", component{gen: genDrain, run: runDrain, kinds: kindsDrain})
}
