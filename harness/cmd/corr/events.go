package main

import (
	"github.com/simimpact/srsim/pkg/engine/event/handler"
	"github.com/simimpact/srsim/pkg/engine/logging"
	"math"

	"verif/harness/term"
)

// ---- the real generic handlers, instantiated on a small event type ----

type ev struct {
	H int
	V int64
	C bool
}

func (e ev) Cancelled() handler.CancellableEvent { e.C = true; return e }

type evWorld struct {
	kinds  []string
	simple map[int]*handler.EventHandler[ev]
	prio   map[int]*handler.PriorityEventHandler[ev]
	mut    map[int]*handler.MutableEventHandler[ev]
	cancel map[int]*handler.CancelableEventHandler[ev]
	reacts map[int64][]term.T
	nextID int64
	trace  []term.T
}

type evLogger struct {
	id int64
	w  *evWorld
}

func (l *evLogger) Log(e any) {
	var x ev
	switch v := e.(type) {
	case ev:
		x = v
	case *ev:
		x = *v
	case handler.CancellableEvent:
		x = v.(ev)
	default:
		panic("unexpected event type")
	}
	l.w.trace = append(l.w.trace, term.C("ILog", term.I(l.id), term.Nat(x.H), term.I(x.V), term.B(x.C)))
}

func (w *evWorld) pop(lid int64) (x term.T, cancel bool, nested []term.T) {
	q := w.reacts[lid]
	if len(q) == 0 {
		return term.C("XAdd", term.I(0)), false, nil
	}
	w.reacts[lid] = q[1:]
	_, a := term.Ctor(q[0]) // mkR x cancel nested
	return a[0], term.Bool(a[1]), term.List(a[2])
}

func applyX(x term.T, v int64) int64 {
	n, a := term.Ctor(x)
	k := term.Int(a[0])
	switch n {
	case "XAdd":
		return v + k
	case "XMul":
		return v * k
	case "XSet":
		return k
	}
	panic("bad xform")
}

func (w *evWorld) emit(h int, v int64) {
	if h < 0 || h >= len(w.kinds) {
		panic("emit on unknown handler")
	}
	switch w.kinds[h] {
	case "KSimple":
		w.simple[h].Emit(ev{H: h, V: v})
		w.trace = append(w.trace, term.C("IRet", term.Nat(h), term.B(false), term.I(v)))
	case "KPriority":
		w.prio[h].Emit(ev{H: h, V: v})
		w.trace = append(w.trace, term.C("IRet", term.Nat(h), term.B(false), term.I(v)))
	case "KMutable":
		e := ev{H: h, V: v}
		w.mut[h].Emit(&e)
		w.trace = append(w.trace, term.C("IRet", term.Nat(h), term.B(false), term.I(e.V)))
	case "KCancel":
		c := w.cancel[h].Emit(ev{H: h, V: v})
		w.trace = append(w.trace, term.C("IRet", term.Nat(h), term.B(c), term.I(v)))
	}
}

// body of every listener: record the call, run the nested emissions, then react
func (w *evWorld) react(lid int64, h int, v int64) (int64, bool) {
	w.trace = append(w.trace, term.C("ICall", term.I(lid), term.Nat(h), term.I(v)))
	x, cancel, nested := w.pop(lid)
	for _, n := range nested {
		it := term.TupleItems(n)
		w.emit(int(term.Int(it[0])), term.Int(it[1]))
	}
	return applyX(x, v), cancel
}

func (w *evWorld) subscribe(h int, prio int64, rs []term.T) {
	lid := w.nextID
	w.nextID++
	w.reacts[lid] = rs
	if h < 0 || h >= len(w.kinds) {
		return
	}
	switch w.kinds[h] {
	case "KSimple":
		w.simple[h].Subscribe(func(e ev) { w.react(lid, h, e.V) })
	case "KPriority":
		w.prio[h].Subscribe(func(e ev) { w.react(lid, h, e.V) }, int(prio))
	case "KMutable":
		w.mut[h].Subscribe(func(e *ev) { e.V, _ = w.react(lid, h, e.V) }, int(prio))
	case "KCancel":
		w.cancel[h].Subscribe(func(e ev) bool { _, c := w.react(lid, h, e.V); return c }, int(prio))
	}
}

func runEvents(in term.T) term.T {
	it := term.TupleItems(in)
	w := &evWorld{
		simple: map[int]*handler.EventHandler[ev]{},
		prio:   map[int]*handler.PriorityEventHandler[ev]{},
		mut:    map[int]*handler.MutableEventHandler[ev]{},
		cancel: map[int]*handler.CancelableEventHandler[ev]{},
		reacts: map[int64][]term.T{},
	}
	for i, k := range term.List(it[0]) {
		name, _ := term.Ctor(k)
		w.kinds = append(w.kinds, name)
		switch name {
		case "KSimple":
			w.simple[i] = &handler.EventHandler[ev]{}
		case "KPriority":
			w.prio[i] = &handler.PriorityEventHandler[ev]{}
		case "KMutable":
			w.mut[i] = &handler.MutableEventHandler[ev]{}
		case "KCancel":
			w.cancel[i] = &handler.CancelableEventHandler[ev]{}
		}
	}
	logging.InitLoggers()
	defer logging.InitLoggers()
	for _, o := range term.List(it[1]) {
		name, a := term.Ctor(o)
		switch name {
		case "OSub":
			w.subscribe(int(term.Int(a[0])), term.Int(a[1]), term.List(a[2]))
		case "OEmit":
			w.emit(int(term.Int(a[0])), term.Int(a[1]))
		case "OInit":
			ls := []logging.Logger{}
			for _, id := range term.List(a[0]) {
				ls = append(ls, &evLogger{id: term.Int(id), w: w})
			}
			logging.InitLoggers(ls...)
		}
	}
	return term.L(w.trace...)
}

// ---- generator ----

func genReaction(r *term.Rng, nh int, depth int) term.T {
	var x term.T
	switch r.Intn(4) {
	case 0:
		x = term.C("XAdd", term.I(int64(r.Range(-3, 3))))
	case 1:
		x = term.C("XMul", term.I(int64(r.Range(-2, 3))))
	case 2:
		x = term.C("XSet", term.I(int64(r.Range(-5, 5))))
	default:
		x = term.C("XAdd", term.I(0))
	}
	nested := []term.T{}
	if r.Chance(1, 4) {
		for k := r.Range(1, 2); k > 0; k-- {
			nested = append(nested, term.Tup(term.Nat(r.Intn(nh)), term.I(int64(r.Range(-9, 9)))))
		}
	}
	return term.C("mkR", x, term.B(r.Chance(1, 4)), term.L(nested...))
}

func genEvents(r *term.Rng, idx int) term.T {
	allKinds := []string{"KSimple", "KPriority", "KMutable", "KCancel"}
	nh := r.Range(2, 6)
	kinds := []term.T{}
	for i := 0; i < nh; i++ {
		if i < 4 && nh >= 4 {
			kinds = append(kinds, term.C(allKinds[i]))
		} else {
			kinds = append(kinds, term.C(term.Pick(r, allKinds)))
		}
	}
	nops := r.Range(3, 40)
	ops := []term.T{}
	subs := make([]int, nh)
	// a small priority pool makes equal and negative priorities the norm
	prios := []int64{-2, -1, 0, 0, 1, 5}
	if r.Chance(1, 5) {
		// extreme but valid priorities ("always first" / "always last" sentinels): differences that do
		// not fit an int must still compare correctly
		prios = []int64{math.MinInt64, math.MinInt64 + 1, -100, -1, 0, 1, 100, math.MaxInt64 - 1, math.MaxInt64}
	}
	// big mode: more listeners on a handler than sort.Sort's insertion-sort bound (12) and than any small
	// fixed buffer, all with pairwise distinct priorities (so every correct sort gives the same order)
	bigMode := r.Chance(1, 6)
	nextDistinct := map[int]int64{}
	if bigMode {
		nops = r.Range(30, 70)
	}
	totalReacts := 0
	if r.Chance(9, 10) {
		ops = append(ops, term.C("OInit", term.L(term.I(100), term.I(101))))
	}
	for len(ops) < nops {
		switch {
		case r.Chance(1, 2):
			h := r.Intn(nh)
			if bigMode && r.Chance(2, 3) {
				h = 0
				if nh >= 4 {
					h = 3 - r.Intn(3) // one of the priority / mutable / cancelable handlers
				}
			}
			if subs[h] >= 12 && !bigMode { // sort.Sort is only insertion sort (stable) up to 12 elements
				continue
			}
			if subs[h] >= 40 {
				continue
			}
			subs[h]++
			if bigMode {
				// distinct priorities per handler, arriving out of order: 7*k mod 41 walks 0..40 without repeats
				k := nextDistinct[h]
				nextDistinct[h]++
				pr := (7*k)%41 - 20
				rs := []term.T{}
				if r.Chance(1, 3) && totalReacts < 60 {
					rs = append(rs, genReaction(r, nh, 0))
					totalReacts++
				}
				ops = append(ops, term.C("OSub", term.Nat(h), term.I(pr), term.L(rs...)))
				continue
			}
			rs := []term.T{}
			for k := r.Intn(4); k > 0 && totalReacts < 60; k-- {
				rs = append(rs, genReaction(r, nh, 0))
				totalReacts++
			}
			ops = append(ops, term.C("OSub", term.Nat(h), term.I(term.Pick(r, prios)), term.L(rs...)))
		case r.Chance(1, 12):
			ls := []term.T{}
			for k := r.Intn(4); k > 0; k-- {
				ls = append(ls, term.I(int64(100+len(ls))))
			}
			ops = append(ops, term.C("OInit", term.L(ls...)))
		default:
			ops = append(ops, term.C("OEmit", term.Nat(r.Intn(nh)), term.I(int64(r.Range(-9, 9)))))
		}
	}
	return term.Tup(term.L(kinds...), term.L(ops...))
}

func kindsEvents(in term.T) map[string]int {
	m := map[string]int{}
	it := term.TupleItems(in)
	for _, o := range term.List(it[1]) {
		n, a := term.Ctor(o)
		m[n]++
		if n == "OSub" {
			for _, rr := range term.List(a[2]) {
				_, ra := term.Ctor(rr)
				if len(term.List(ra[2])) > 0 {
					m["reaction_with_nested_emit"]++
				}
				if term.Bool(ra[1]) {
					m["reaction_cancel"]++
				}
			}
		}
	}
	return m
}

func init() {
	register("events", component{gen: genEvents, run: runEvents, kinds: kindsEvents})
}
