(* C15 -- proofs about Model/Runs.v. *)
From Coq Require Import List ZArith Bool Arith Lia.
From SR Require Import Model.Runs.
Import ListNotations.

Section Frame.
  Variables P G RO : Type.
  Variable sys : system P G.
  Variable ro : G -> RO.            (* the part of the globals that steps may read *)

  (* Frame condition.
     reads_only_ro : what a step computes for its own private state depends on the globals
                     only through [ro];
     never_writes_ro : no step of any run changes [ro] of the globals.
     Steps may write the rest of the globals freely (write-only state), and of course their
     own private state. *)
  Definition reads_only_ro : Prop :=
    forall i p g g', ro g = ro g' -> fst (s_step sys i p g) = fst (s_step sys i p g').
  Definition never_writes_ro : Prop :=
    forall i p g, ro (snd (s_step sys i p g)) = ro g.

  Hypothesis Hread : reads_only_ro.
  Hypothesis Hwrite : never_writes_ro.

  Lemma upd_same (f : nat -> P) i p : upd P f i p i = p.
  Proof. unfold upd. now rewrite Nat.eqb_refl. Qed.

  Lemma upd_other (f : nat -> P) i j p : j <> i -> upd P f i p j = f j.
  Proof. intro H. unfold upd. destruct (Nat.eqb j i) eqn:E; auto. apply Nat.eqb_eq in E. contradiction. Qed.

  Lemma exec_snoc g0 sched i :
    exec sys g0 (sched ++ [i]) = exec_step P G sys (exec sys g0 sched) i.
  Proof. unfold exec. now rewrite fold_left_app. Qed.

  Lemma steps_of_snoc_same sched i : steps_of i (sched ++ [i]) = S (steps_of i sched).
  Proof.
    unfold steps_of. rewrite count_occ_app. cbn. destruct (Nat.eq_dec i i); [lia | contradiction].
  Qed.

  Lemma steps_of_snoc_other sched i j : j <> i -> steps_of j (sched ++ [i]) = steps_of j sched.
  Proof.
    intro H. unfold steps_of. rewrite count_occ_app. cbn.
    destruct (Nat.eq_dec i j); [subst; contradiction | lia].
  Qed.

  (* the invariant carried along any schedule *)
  Lemma exec_invariant g0 sched :
    ro (snd (exec sys g0 sched)) = ro g0 /\
    forall i, fst (exec sys g0 sched) i = alone sys g0 i (steps_of i sched).
  Proof.
    induction sched as [| j sched IH] using rev_ind.
    - split; [reflexivity | intro i; reflexivity].
    - destruct IH as [IHg IHp].
      rewrite exec_snoc.
      destruct (exec sys g0 sched) as [ps g] eqn:E. cbn [fst snd] in *.
      unfold exec_step. destruct (s_step sys j (ps j) g) as [p' g'] eqn:Es. cbn [fst snd].
      split.
      + pose proof (Hwrite j (ps j) g) as Hw. rewrite Es in Hw. cbn in Hw. congruence.
      + intro i. destruct (Nat.eq_dec i j) as [-> | Hne].
        * rewrite upd_same, steps_of_snoc_same. cbn [alone].
          rewrite <- IHp.
          pose proof (Hread j (ps j) g g0 IHg) as Hr. rewrite Es in Hr. cbn in Hr. exact Hr.
        * rewrite upd_other by exact Hne. rewrite steps_of_snoc_other by exact Hne. apply IHp.
  Qed.

  (* Interleaving invariance: under the frame condition, for EVERY schedule (any number of
     runs, any order, any interleaving, any length) the private state of every run -- hence its
     result and its event log, which are functions of it -- is the one it reaches alone, from the
     initial globals, after the same number of its own steps. *)
  Theorem interleaving_invariance_sec :
    forall g0 sched i, priv_after sys g0 sched i = alone sys g0 i (steps_of i sched).
  Proof. intros g0 sched i. unfold priv_after. apply (proj2 (exec_invariant g0 sched)). Qed.

  (* what a run reads never changes *)
  Theorem read_part_constant_sec :
    forall g0 sched, ro (snd (exec sys g0 sched)) = ro g0.
  Proof. intros. apply (proj1 (exec_invariant g0 sched)). Qed.

  (* "alone" really is the run executing alone in a process, threading its own globals *)
  Lemma alone_is_threaded g0 i n :
    fst (alone_threaded sys g0 i n) = alone sys g0 i n /\ ro (snd (alone_threaded sys g0 i n)) = ro g0.
  Proof.
    induction n as [| n [IHp IHg]]; [split; reflexivity |].
    cbn [alone_threaded alone].
    destruct (alone_threaded sys g0 i n) as [p g] eqn:E. cbn [fst snd] in *. subst p.
    split.
    - apply Hread. exact IHg.
    - rewrite Hwrite. exact IHg.
  Qed.

  (* two schedules that give a run the same number of steps give it the same state *)
  Corollary schedule_independence_sec :
    forall g0 s1 s2 i, steps_of i s1 = steps_of i s2 ->
      priv_after sys g0 s1 i = priv_after sys g0 s2 i.
  Proof. intros. rewrite !interleaving_invariance_sec. congruence. Qed.
End Frame.

Definition C15_statement : Prop :=
  forall (P G RO : Type) (sys : system P G) (ro : G -> RO),
    reads_only_ro P G RO sys ro -> never_writes_ro P G RO sys ro ->
    forall (g0 : G) (sched : list nat) (i : nat),
      (* every run, in every schedule with any set of other runs, ends where it ends alone *)
      priv_after sys g0 sched i = alone sys g0 i (steps_of i sched) /\
      priv_after sys g0 sched i = fst (alone_threaded sys g0 i (steps_of i sched)) /\
      (* and the globals it can read are still the initial ones *)
      ro (snd (exec sys g0 sched)) = ro g0.

Theorem C15_holds : C15_statement.
Proof.
  intros P G RO sys ro Hr Hw g0 sched i. split; [| split].
  - apply (interleaving_invariance_sec P G RO sys ro Hr Hw).
  - rewrite (proj1 (alone_is_threaded P G RO sys ro Hr Hw g0 i _)).
    apply (interleaving_invariance_sec P G RO sys ro Hr Hw).
  - apply (read_part_constant_sec P G RO sys ro Hr Hw).
Qed.

Theorem interleaving_invariance :
  forall (P G RO : Type) (sys : system P G) (ro : G -> RO),
    reads_only_ro P G RO sys ro -> never_writes_ro P G RO sys ro ->
    forall g0 sched i, priv_after sys g0 sched i = alone sys g0 i (steps_of i sched).
Proof. intros. now apply (interleaving_invariance_sec P G RO sys ro). Qed.

Theorem schedule_independence :
  forall (P G RO : Type) (sys : system P G) (ro : G -> RO),
    reads_only_ro P G RO sys ro -> never_writes_ro P G RO sys ro ->
    forall g0 s1 s2 i, steps_of i s1 = steps_of i s2 ->
      priv_after sys g0 s1 i = priv_after sys g0 s2 i.
Proof. intros. now apply (schedule_independence_sec P G RO sys ro). Qed.

(* ---- the converse: a step that writes what another run reads (logging.loggers) ---- *)

(* the two schedules give both runs all of their four steps *)
Lemma witness_same_steps :
  steps_of 0 sched_sequential = steps_of 0 sched_interleaved /\
  steps_of 1 sched_sequential = steps_of 1 sched_interleaved.
Proof. split; reflexivity. Qed.

(* ... and yet the log that run 0's own logger collected differs: complete when the runs
   follow each other, EMPTY when run 1 installed its logger in between (run 1 got the events) *)
Theorem shared_logger_list_breaks_isolation :
  exists s1 s2,
    steps_of 0 s1 = steps_of 0 s2 /\ steps_of 1 s1 = steps_of 1 s2 /\
    logger_result s1 0%nat = [(0%nat, 1%Z); (0%nat, 2%Z)] /\
    logger_result s2 0%nat = [] /\
    logger_result s2 1%nat = [(0%nat, 1%Z); (0%nat, 2%Z); (1%nat, 1%Z); (1%nat, 2%Z)] /\
    priv_after logger_sys logger_g0 s1 0%nat <> priv_after logger_sys logger_g0 s2 0%nat.
Proof.
  exists sched_sequential, sched_interleaved.
  repeat split; try (vm_compute; reflexivity).
  vm_compute. discriminate.
Qed.

(* the logger system indeed violates the frame condition for the projection "installed
   logger list": a step of run 1 writes it *)
Lemma logger_sys_writes_what_is_read :
  ~ never_writes_ro lpriv lglobals nat logger_sys installed.
Proof.
  intro H. specialize (H 1%nat (0%Z, []) logger_g0). vm_compute in H. discriminate.
Qed.

(* non-vacuity of the frame theorem: a two-run system that satisfies the frame condition with
   a non-trivial read part (runs read a constant table, keep counters privately, and write a
   write-only scratch global) *)
Definition demo_sys : system Z (Z * Z) :=
  mkSys (fun i => Z.of_nat i)
        (fun i p g => ((p + fst g)%Z, (fst g, (snd g + p)%Z))).

Lemma demo_frame : reads_only_ro Z (Z * Z) Z demo_sys fst /\ never_writes_ro Z (Z * Z) Z demo_sys fst.
Proof.
  split.
  - intros i p g g' H. cbn. now rewrite H.
  - intros i p g. reflexivity.
Qed.

Example demo_invariant :
  priv_after demo_sys (10%Z, 0%Z) [0; 1; 1; 0; 1]%nat 1%nat = alone demo_sys (10%Z, 0%Z) 1%nat 3 /\
  alone demo_sys (10%Z, 0%Z) 1%nat 3 = 31%Z.
Proof. split; reflexivity. Qed.

Lemma demo_nonvacuous :
  (reads_only_ro Z (Z * Z) Z demo_sys fst /\ never_writes_ro Z (Z * Z) Z demo_sys fst) /\
  priv_after demo_sys (10%Z, 0%Z) [0; 1; 1; 0; 1]%nat 1%nat = 31%Z.
Proof. split; [exact demo_frame | reflexivity]. Qed.
