CONFIG = {
    "id": "C07",
    "coq_targets": ["Props/C07.v", "Model/AttrCheck.v"],
    "prop_files": ["Props/C07.v"],
    "gen": [],
    "components": [{
        "name": "attr", "modules": ["Model.Attr", "Model.AttrCheck"],
        "check": "check_case", "monitor": "monitor_case", "model_out": "model_out",
        "case_type": "case",
        "ops_path": [],             # the input term is the op list itself
        "n_quick": 1200, "n_thorough": 20000, "shard": 100,
    }],
    "rule": "op lists of 3-33 calls on the real attribute.New service (real event.System, scripted modifier.Eval): "
            "AddTarget (1-3 units from the id pool {1,2,3}, late and duplicate registrations, id 4 never registered), "
            "SetHP / ModifyHPByAmount / ModifyHPByRatio (both ratio types and invalid ones, floors 0, 1, fractions and "
            "multiples of max HP, negative and huge floors), SetEnergy / ModifyEnergy / ModifyEnergyFixed, SetStance / "
            "ModifyStance, ModifySP (incl. int64 extremes); amounts half from boundary values (0, -0, exactly max, one ulp "
            "above/below, -max, 2*max, MaxFloat64, 5e-324) and half small round numbers whose sums hit the bounds exactly; "
            "per-call max HP / energy regen for the target and different ones for every other unit, one stance bonus for all "
            "units (whose bonus scales ModifyStance is C04); a "
            "LimboWaitHeal listener that cancels in a third of the calls; most cases focus on one quantity so that "
            "consecutive calls chain; everything derives from one splitmix64 state; a case is non-trivial when distinct "
            "as an input term",
    "trusted": ["what the service reads from the rest of the engine (Stats(target).MaxHP(), EnergyRegen(), "
                "AllStanceDMGPercent) is an input of every call: the harness serves it through a scripted modifier.Eval "
                "(HPBase = max HP, no percent/flat part), the modifier side itself is property C06",
                "key.Reason is represented by small integers printed as decimal strings"],
    "assumptions": ["units are registered (AddTarget) with attributes in range: HP ratio <= 1 (non-positive becomes 1), "
                    "0 <= energy, 0 <= finite max energy, 0 <= stance <= finite max stance; AddTarget itself does not validate",
                    "amounts, ratios, floors, energy regen and stance damage bonus are finite; max HP is finite and positive",
                    "listeners do not call the attribute service from inside its events (calls are sequential)",
                    "the chain property compares values with float64 == (a stored +0 may be reported as -0 and vice versa)"],
    "manifest": {
        "level_text": "Kernel-checked theorems at the binary64 level (Flocq facts about primitive floats) over an "
                      "executable Gallina model of the attribute service: ranges as an invariant of all call sequences, "
                      "exactly-one-event-iff-changed with old/new = before/after for every call, event chains, break/reset "
                      "announcements; tied to the Go code by exact (bit-level) correspondence of events, errors and getters "
                      "on generated histories plus an independent monitor of the property on the implementation's output.",
        "level_note": "Coq kernel; hand-written model Model/Attr.v of the repaired code (two fix: commits in "
                      "ModifyHPByRatio); stats of the target are per-call inputs.",
        "technique": "Coq proof (invariant + per-call specification, induction over op lists) + model/implementation "
                     "correspondence + runtime monitor",
        "design_ref": "DESIGN.md section 7, C07",
    },
}
