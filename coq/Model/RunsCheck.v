(* Checker for the harness component `isolation` (C15, harness/cmd/corr/isolation.go).

   The model (Model/Runs.v, theorem interleaving_invariance) predicts: whatever the order and
   the interleaving, a run's observation equals the one it produces ALONE.  So for the job at
   position j of the order, running run number i = order[j]:
        seq[j] = alone[i]      (the k-th run in one process after other runs)
        conc[j] = alone[i]     (one of several runs in a worker pool)
   A run whose two alone executions in two fresh processes already differ is not a function of
   (configuration, script, seed) at all -- that is property C01's subject -- and is skipped
   (counted by the harness in `kinds`). *)
From Coq Require Import List ZArith Bool String.
From SR Require Import Base.CaseLib Base.GlobalTypes Model.RunSpec.
Import ListNotations.
Open Scope Z_scope.

Inductive iso_in := IsoIn (runs : list runspec) (order : list nat) (workers : nat) (mode : Z).
Inductive iso_out := IsoOut (alone1 alone2 seq conc : list obs).

Definition case := (iso_in * iso_out)%type.

Definition dummy_obs : obs := Obs (-1) (-1) 0 0 "" "".

Definition deterministic (a1 a2 : list obs) (i : nat) : bool :=
  obs_eqb (nth i a1 dummy_obs) (nth i a2 dummy_obs).

(* the model's prediction for the job list: the alone observation of the run each job runs
   (None for a run that is not deterministic alone) *)
Definition expected (a1 a2 : list obs) (order : list nat) : list (option obs) :=
  map (fun i => if deterministic a1 a2 i then Some (nth i a1 dummy_obs) else None) order.

Fixpoint agree (exp : list (option obs)) (got : list obs) : bool :=
  match exp, got with
  | [], [] => true
  | None :: e', _ :: g' => agree e' g'
  | Some o :: e', g :: g' => obs_eqb o g && agree e' g'
  | _, _ => false
  end.

Definition model_out (c : case) : list (option obs) :=
  let '(IsoIn runs order _ _, IsoOut a1 a2 _ _) := c in expected a1 a2 order.

Definition check_case (c : case) : bool :=
  let '(IsoIn runs order _ _, IsoOut a1 a2 sq cc) := c in
  (Nat.eqb (List.length a1) (List.length runs)) && (Nat.eqb (List.length a2) (List.length runs)) &&
  forallb (fun i => Nat.ltb i (List.length runs)) order &&
  agree (expected a1 a2 order) sq && agree (expected a1 a2 order) cc.

(* Monitor: the property's own clauses on what the implementation did, without the alone
   executions: (1) jobs that run the same run agree with each other, sequentially and
   concurrently, whenever the run is deterministic; (2) nothing panicked or was aborted by the
   watchdog because of an earlier run (a panic that also happens alone belongs to C20). *)
Fixpoint first_with (i : nat) (order : list nat) (os : list obs) : option obs :=
  match order, os with
  | j :: order', o :: os' => if Nat.eqb i j then Some o else first_with i order' os'
  | _, _ => None
  end.

Fixpoint consistent (a1 a2 : list obs) (all_order : list nat) (all_os : list obs)
         (order : list nat) (os : list obs) : bool :=
  match order, os with
  | i :: order', o :: os' =>
      (if deterministic a1 a2 i
       then match first_with i all_order all_os with Some o0 => obs_eqb o0 o | None => false end
       else true) && consistent a1 a2 all_order all_os order' os'
  | [], [] => true
  | _, _ => false
  end.

Definition crashed (o : obs) : bool := (ob_status o =? 2) || (ob_status o =? 3).

Fixpoint no_new_crash (a1 : list obs) (order : list nat) (os : list obs) : bool :=
  match order, os with
  | i :: order', o :: os' =>
      (negb (crashed o) || crashed (nth i a1 dummy_obs)) && no_new_crash a1 order' os'
  | _, _ => true
  end.

Definition monitor_case (c : case) : bool :=
  let '(IsoIn runs order _ _, IsoOut a1 a2 sq cc) := c in
  consistent a1 a2 order sq order sq && consistent a1 a2 order sq order cc &&
  no_new_crash a1 order sq && no_new_crash a1 order cc.
