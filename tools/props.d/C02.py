CONFIG = {
    "id": "C02",
    "coq_targets": ["Props/C02.v", "Model/TurnCheck.v"],
    "prop_files": ["Props/C02.v"],
    "gen": [],
    "components": [{
        "name": "turn", "modules": ["Base.NumOps", "Model.Turn", "Model.TurnCheck"],
        "check": "check_case", "monitor": "monitor_case", "model_out": "model_out",
        "case_type": "case", "ops_path": [],
        "n_quick": 900, "n_thorough": 30000, "shard": 300,
    }],
    "rule": "histories of 5-60 turn-manager operations (add/remove units, start turn, end of action, set/advance/"
            "delay gauge by gauge, by normalized amount and by AV, set/modify gauge cost incl. fractional and "
            "negative, speed changes between operations) over 2-10 units with speeds from a pool containing equal "
            "speeds; amounts half from boundary values (0, exactly base gauge, negative, fractional, larger than the "
            "remaining gauge); also protocol violations (double start, reset without a turn, absent ids); "
            "distinct = distinct input term",
    "trusted": ["sort.Stable is modelled by stable insertion sort (the stable sorted permutation of a strict weak order is unique)",
                "arithmetic clauses (gauges never negative after a turn start, elapsed AV >= 0, proportional shrink) are proved "
                "for the model instantiated at the real numbers; the binary64 instance is executed and compared bit-exactly with "
                "the Go code and the float-level monitor checks the same clauses on every implementation output"],
    "assumptions": ["speeds are positive and finite; unit ids are unique in the turn order"],
    "manifest": {
        "level_text": "Kernel-checked theorems over an executable Gallina model of the turn manager (all histories of "
                      "operations and speed changes), binary64 instance compared bit-exactly with the real turn.Manager on "
                      "generated histories; a float-level monitor re-checks the property's clauses on the implementation's outputs.",
        "level_note": "Coq kernel + stdlib real-number axioms for the R instance; sort.Stable contract; IEEE rounding gap between "
                      "the float and real instances is named in the evidence.",
        "technique": "Coq proof (invariants over operation histories; NumOps model at float and R) + correspondence",
        "design_ref": "DESIGN.md section 7, C02",
    },
}
