(* The run-loop skeleton of pkg/simulation: TYPES of the first-order description that `go2coq RunSkeleton`
   (harness/cmd/go2coq/runskel.go) prints into Gen/RunSkeleton.v, and the PINNED TABLE [expected]: what that
   description must be, written by hand from the source as it is now, one step per line, with the function of
   Model/Sim.v that models the step named next to it.  Proofs/RunSkeletonProofs.v proves
   [RunSkeleton.table = expected] (so any edit of the order of emits, ticks, death checks, queue drains, exit
   checks, guards or next states in run.go / action.go / death.go breaks a kernel-checked equation for all inputs)
   and, for the state functions of a turn, that the interpretation of the generated steps (Model/SimSkeletonInterp.v)
   is the model's one_turn / start.

   A step keeps every expression as normalised Go source text.  No statement of a translated function is left
   out: there is no "ignored" list on the translator's side; what the MODEL has no counterpart for is said here,
   per step ("no counterpart"), and in SimSkeletonInterp.denote where the interpreter maps it to the identity.
   No proofs here. *)
From Coq Require Import List ZArith String.
Import ListNotations.
Open Scope Z_scope.
Open Scope string_scope.

Inductive step :=
| SkEmit (ev : string) (payload : list string)                        (* sim.Event.<ev>.Emit(event.<ev>{payload}) *)
| SkCall (f : string) (args : list string)                            (* f(args) as a statement *)
| SkBind (lhs : list string) (tok : string) (f : string) (args : list string)   (* lhs := f(args) / lhs = f(args) *)
| SkAssign (lhs : list string) (tok : string) (rhs : list string)     (* any other assignment; x++ is tok "++" *)
| SkVar (x ty : string)                                               (* var x ty *)
| SkIf (init : list step) (cond : string) (thn els : list step)
| SkFor (init : list step) (cond : string) (post body : list step)
| SkRange (kv : list string) (tok : string) (over : string) (body : list step)
| SkSwitch (tag : string) (cases : list (list string * list step))    (* default = ["default"] *)
| SkContinue | SkBreak
| SkReturnCall (f : string) (args : list string)                      (* return f(args): a tail call *)
| SkReturn (vals : list string).

Record fn := mkFn {
  fn_file : string; fn_name : string; fn_recv : string;
  fn_params : list string; fn_results : list string; fn_body : list step }.

Fixpoint find_fn (t : list fn) (name : string) : option fn :=
  match t with
  | [] => None
  | f :: r => if String.eqb (fn_name f) name then Some f else find_fn r name
  end.
Definition body_of (t : list fn) (name : string) : list step :=
  match find_fn t name with Some f => fn_body f | None => [] end.

Fixpoint const_of (t : list (string * Z)) (name : string) : option Z :=
  match t with
  | [] => None
  | (k, v) :: r => if String.eqb k name then Some v else const_of r name
  end.

(* ---- run.go: func Run ---- *)
Definition e_Run : fn :=
  mkFn "run.go" "Run" "sim *Simulation" [] ["*model.IterationResult"; "error"]
    [ SkVar "err" "error";   (* no counterpart (Go error plumbing) *)
      SkFor [SkAssign ["state"] ":=" ["initialize"]] "state != nil" []   (* Sim.start / Sim.turns: the chain of state functions; a nil state = outcome Stop, an error = Err *)
        [ SkBind ["state"; "err"] "=" "state" ["sim"];   (* one state function; Sim.turns threads the outcome *)
          SkIf [] "err != nil"
            [SkReturn ["nil"; "err"]]
            [] ];
      SkBind ["sim.res.TotalAv"] "=" "sim.Turn.TotalAV" [];   (* result total AV = Sim.total_av of the final state (SimCheck compares it) *)
      SkReturn ["sim.res"; "nil"] ].   (* the result record Sim.res *)

(* ---- run.go: func initialize ---- *)
Definition e_initialize : fn :=
  mkFn "run.go" "initialize" "" ["sim *Simulation"] ["stateFn"; "error"]
    [ SkBind ["hooks"] ":=" "hook.StartupHooks" [];   (* startup hooks: no counterpart except the energy-on-kill hook inside Sim.announce *)
      SkBind ["hookKeys"] ":=" "make" ["[]string"; "0"; "len(hooks)"];
      SkRange ["k"] ":=" "hooks"
        [SkBind ["hookKeys"] "=" "append" ["hookKeys"; "k"]];
      SkCall "sort.Strings" ["hookKeys"];
      SkRange ["_"; "k"] ":=" "hookKeys"
        [ SkIf [SkBind ["err"] ":=" "hooks[k]" ["sim"]] "err != nil"
            [SkReturn ["nil"; "fmt.Errorf(""error executing hook %v"", k)"]]
            [] ];
      SkCall "sim.initStatCollection" [];   (* Sim.start: mkRes 0 0 [0] [0]; the HitEnd subscriber is Sim.record_hit *)
      SkEmit "Initialize" ["Config: sim.cfg"; "Seed: sim.seed"];   (* Sim.start: VInitialize (first event of the initial trace) *)
      SkRange ["_"; "char"] ":=" "sim.cfg.Characters"   (* Sim.start: mk_units, cs = ids of the characters (ids 1..n in config order) *)
        [ SkBind ["id"] ":=" "sim.IDGen.New" [];
          SkAssign ["sim.Targets[id]"] "=" ["info.ClassCharacter"];
          SkBind ["sim.characters"] "=" "append" ["sim.characters"; "id"];
          SkIf [SkBind ["err"] ":=" "sim.Char.AddCharacter" ["id"; "char"]] "err != nil"
            [SkReturn ["nil"; "fmt.Errorf(""error initializing character %w"", err)"]]
            [] ];
      SkBind ["chars"] ":=" "make" ["[]event.CharInfo"; "0"; "len(sim.characters)"];
      SkRange ["_"; "id"] ":=" "sim.characters"
        [ SkBind ["info"; "_"] ":=" "sim.Char.Info" ["id"];
          SkBind ["chars"] "=" "append" ["chars"; "event.CharInfo{ ID: id, Info: &info, }"] ];
      SkEmit "CharactersAdded" ["Characters: chars"];   (* Sim.start: VCharactersAdded cs *)
      SkIf [SkBind ["err"] ":=" "sim.eval.Init" ["sim"]] "err != nil"   (* no counterpart (the decision source is data: c_next / c_ults) *)
        [SkReturn ["nil"; "err"]]
        [];
      SkReturn ["startBattle"; "nil"] ].   (* Sim.start continues with the enemies *)

(* ---- run.go: func startBattle ---- *)
Definition e_startBattle : fn :=
  mkFn "run.go" "startBattle" "" ["sim *Simulation"] ["stateFn"; "error"]
    [ SkRange ["_"; "enemy"] ":=" "sim.cfg.Enemies"   (* Sim.start: mk_units, es = ids of the enemies (after the characters) *)
        [ SkBind ["id"] ":=" "sim.IDGen.New" [];
          SkAssign ["sim.Targets[id]"] "=" ["info.ClassEnemy"];
          SkBind ["sim.enemies"] "=" "append" ["sim.enemies"; "id"];
          SkIf [SkBind ["err"] ":=" "sim.Enemy.AddEnemy" ["id"; "enemy"]] "err != nil"
            [SkReturn ["nil"; "fmt.Errorf(""error initializing enemy %w"", err)"]]
            [] ];
      SkBind ["enemies"] ":=" "make" ["[]event.EnemyInfo"; "0"; "len(sim.enemies)"];
      SkRange ["_"; "id"] ":=" "sim.enemies"
        [ SkBind ["info"; "_"] ":=" "sim.Enemy.Info" ["id"];
          SkBind ["enemies"] "=" "append" ["enemies"; "event.EnemyInfo{ ID: id, Info: &info, }"] ];
      SkEmit "EnemiesAdded" ["Enemies: enemies"];   (* Sim.start: VEnemiesAdded es *)
      SkBind ["all"] ":=" "make" ["[]key.TargetID"; "len(sim.characters) + len(sim.enemies) + len(sim.neutrals)"];
      SkCall "copy" ["all"; "sim.characters"];
      SkCall "copy" ["all[len(sim.characters):]"; "sim.neutrals"];
      SkCall "copy" ["all[len(sim.characters)+len(sim.neutrals):]"; "sim.enemies"];
      SkCall "sim.Turn.AddTargets" ["all..."];   (* Sim.start: Turn.step (Turn.init) (OAdd (cs ++ es)); VTurnTargetsAdded *)
      SkBind ["snap"] ":=" "sim.createSnapshot" [];   (* no counterpart (payload) *)
      SkEmit "BattleStart" ["CharInfo: sim.Char.Characters()"; "EnemyInfo: sim.Enemy.Enemies()"; "CharStats: snap.characters"; "EnemyStats: snap.enemies"; "NeutralStats: snap.neutrals"];   (* Sim.start: run_slot LBattle (the content listener), then VBattleStart *)
      SkReturn ["engage"; "nil"] ].   (* Sim.start: execute_queue follows directly; the queue built before the battle is kept (no reset here) *)

(* ---- run.go: func engage ---- *)
Definition e_engage : fn :=
  mkFn "run.go" "engage" "" ["sim *Simulation"] ["stateFn"; "error"]
    [SkReturnCall "sim.executeQueue" ["info.BattleStart"; "beginTurn"]].   (* Sim.start: execute_queue fuel (..) true, Ok -> Sim.turns *)

(* ---- run.go: func beginTurn ---- *)
Definition e_beginTurn : fn :=
  mkFn "run.go" "beginTurn" "" ["sim *Simulation"] ["stateFn"; "error"]
    [ SkBind ["next"; "av"; "turnOrder"; "err"] ":=" "sim.Turn.StartTurn" [];   (* Sim.one_turn: Turn.step F (turn s) OStart, outs = [EStart id av st tot] *)
      SkIf [] "!sim.IsValid(next) || err != nil"   (* Sim.one_turn: any other outs, or get_unit id = None -> Err *)
        [ SkReturn ["nil"; "fmt.Errorf( ""unexpected: turn manager returned an invalid target for next turn %w"", err)"] ]
        [];
      SkAssign ["sim.Active"] "=" ["next"];   (* Sim.one_turn: set_active .. id *)
      SkEmit "TurnStart" ["Active: next"; "TargetType: sim.Targets[next]"; "DeltaAV: av"; "TotalAV: sim.Turn.TotalAV()"; "TurnOrder: turnOrder"];   (* Sim.one_turn: VTurnStart id av tot order *)
      SkCall "sim.Modifier.Tick" ["sim.Active"; "info.TurnStart"];   (* no counterpart (harness content has no TurnStart tick listener) *)
      SkReturn ["phase1"; "nil"] ].   (* Sim.one_turn continues with phase 1 *)

(* ---- run.go: func phase1 ---- *)
Definition e_phase1 : fn :=
  mkFn "run.go" "phase1" "" ["sim *Simulation"] ["stateFn"; "error"]
    [ SkEmit "Phase1Start" [];   (* Sim.one_turn: emit s1 [VPhase1Start] *)
      SkCall "sim.Modifier.Tick" ["sim.Active"; "info.ModifierPhase1"];   (* Sim.one_turn: run_slot fuel .. LPhase1 id id, right after Phase1Start *)
      SkCall "sim.deathCheck" ["false"];   (* Sim.one_turn: death_check fuel s2 false, BEFORE the two skips *)
      SkIf [] "sim.HasBehaviorFlag(sim.Active, model.BehaviorFlag_DISABLE_ACTION)"   (* Sim.one_turn: has_flag s3 id [FLAG_DISABLE_ACTION] -> Sim.phase2 (never straight to endTurn) *)
        [SkReturn ["phase2"; "nil"]]
        [];
      SkIf [] "sim.IsEnemy(sim.Active) && sim.HasBehaviorFlag(sim.Active, model.BehaviorFlag_BREAK_EXTEND)"   (* Sim.one_turn: is_enemy && has_flag [FLAG_BREAK_EXTEND] -> VBreakExtend, Sim.phase2 *)
        [ SkEmit "BreakExtend" ["Key: ""break-extend"""; "Target: sim.Active"];
          SkReturn ["phase2"; "nil"] ]
        [];
      SkIf [] "sim.IsEnemy(sim.Active) && sim.Attr.Stance(sim.Active) <= 0"   (* no counterpart (harness enemies have no stance; the stance reset is C07) *)
        [ SkIf [ SkBind ["err"] ":=" "sim.Attr.SetStance" ["info.ModifyAttribute{ Key: ""turn-stance-reset"", Target: sim.Active, Source: sim.Active, Amount: sim.Attr.MaxStance(sim.Active), }"] ] "err != nil"
            [SkReturn ["nil"; "fmt.Errorf(""error when reseting target stance %w"", err)"]]
            [] ]
        [];
      SkBind ["next"; "err"] ":=" "sim.executeQueue" ["info.InsertAbilityPhase1"; "action"];   (* Sim.one_turn: execute_queue fuel s3 true *)
      SkIf [] "err == nil && next != nil"   (* Sim.one_turn: VPhase1End only on Ok (not after Termination) *)
        [SkEmit "Phase1End" []]
        [];
      SkReturn ["next"; "err"] ].   (* Sim.one_turn: Ok -> the action; Stop / Err returned as they are *)

(* ---- run.go: func action ---- *)
Definition e_action : fn :=
  mkFn "run.go" "action" "" ["sim *Simulation"] ["stateFn"; "error"]
    [ SkIf [SkBind ["err"] ":=" "sim.executeAction" ["sim.Active"; "false"]] "err != nil"   (* Sim.one_turn: execute_action fuel s4' id false; AErr / ACrash -> Err *)
        [SkReturn ["nil"; "fmt.Errorf(""unknown error executing action %w"", err)"]]
        [];
      SkCall "sim.deathCheck" ["false"];   (* Sim.one_turn: death_check fuel s5 false *)
      SkReturn ["phase2"; "nil"] ].   (* Sim.one_turn: Sim.phase2 fuel s5' *)

(* ---- run.go: func phase2 ---- *)
Definition e_phase2 : fn :=
  mkFn "run.go" "phase2" "" ["sim *Simulation"] ["stateFn"; "error"]
    [ SkCall "sim.Turn.ResetTurn" [];   (* Sim.phase2: Turn.step F (turn s) OReset, reset_events (VTurnReset) *)
      SkCall "sim.Modifier.Tick" ["sim.Active"; "info.ActionEnd"];   (* no counterpart (harness content has no ActionEnd tick listener) *)
      SkEmit "Phase2Start" [];   (* Sim.phase2: VPhase2Start *)
      SkIf [SkBind ["next"; "err"] ":=" "sim.executeQueue" ["info.InsertAbilityPhase2"; "endTurn"]] "next == nil || err != nil"   (* Sim.phase2: execute_queue fuel s' false; anything but Ok ends the turn there *)
        [SkReturn ["nil"; "err"]]
        [];
      SkCall "sim.Modifier.Tick" ["sim.Active"; "info.ModifierPhase2"];   (* Sim.phase2: run_slot fuel s6 LPhase2 *)
      SkEmit "Phase2End" [];   (* Sim.phase2: VPhase2End *)
      SkReturn ["endTurn"; "nil"] ].   (* Sim.phase2 continues with the end of the turn (no drain after Phase2End) *)

(* ---- run.go: func endTurn ---- *)
Definition e_endTurn : fn :=
  mkFn "run.go" "endTurn" "" ["sim *Simulation"] ["stateFn"; "error"]
    [ SkCall "sim.deathCheck" ["true"];   (* Sim.phase2: death_check fuel s7 true (limbo counts as dead) *)
      SkBind ["snap"] ":=" "sim.createSnapshot" [];   (* no counterpart (payload; the model logs the living lists) *)
      SkEmit "TurnEnd" ["Characters: snap.characters"; "Enemies: snap.enemies"; "Neutrals: snap.neutrals"];   (* Sim.phase2: VTurnEnd (chars s8) (enemies s8) *)
      SkReturnCall "sim.exitCheck" ["beginTurn"] ].   (* Sim.phase2: exit_check; Ok -> Sim.turns runs the next one_turn *)

(* ---- run.go: func exitCheck ---- *)
Definition e_exitCheck : fn :=
  mkFn "run.go" "exitCheck" "sim *Simulation" ["next stateFn"] ["stateFn"; "error"]
    [ SkVar "reason" "model.TerminationReason";   (* Sim.exit_check: reason, 0 = none *)
      SkSwitch ""   (* Sim.exit_check: chars = [] -> 1, enemies = [] -> 2, cycle limit <= trunc(total AV / 100) -> 3, in this order *)
        [ (["len(sim.characters) == 0"],
            [SkAssign ["reason"] "=" ["model.TerminationReason_BATTLE_LOSS"]]);
          (["len(sim.enemies) == 0"],
            [SkAssign ["reason"] "=" ["model.TerminationReason_BATTLE_WIN"]]);
          (["int(sim.Turn.TotalAV()/100) >= int(sim.cfg.GetSettings().GetCycleLimit())"],
            [SkAssign ["reason"] "=" ["model.TerminationReason_TIMEOUT"]]) ];
      SkIf [] "reason != model.TerminationReason_INVALID_TERMINATION"   (* Sim.exit_check: reason <> 0 -> Stop (emit s [VTermination reason total_av]) *)
        [ SkEmit "Termination" ["TotalAV: sim.Turn.TotalAV()"; "Reason: reason"];
          SkReturn ["nil"; "nil"] ]
        [];
      SkReturn ["next"; "nil"] ].   (* Sim.exit_check: Ok s *)

(* ---- action.go: func InsertAction ---- *)
Definition e_InsertAction : fn :=
  mkFn "action.go" "InsertAction" "sim *Simulation" ["target key.TargetID"] []
    [ SkVar "priority" "info.InsertPriority";
      SkSwitch "sim.Targets[target]"   (* Sim.exec_op SInsertAction: PRIO_ENEMY_ACTION for an enemy, else PRIO_CHAR_ACTION *)
        [ (["info.ClassEnemy"],
            [SkAssign ["priority"] "=" ["info.EnemyInsertAction"]]);
          (["default"],
            [SkAssign ["priority"] "=" ["info.CharInsertAction"]]) ];
      SkCall "sim.Queue.Insert" ["queue.Task{ Source: target, Priority: priority, AbortFlags: []model.BehaviorFlag{ model.BehaviorFlag_STAT_CTRL, model.BehaviorFlag_DISABLE_ACTION, }, Execute: func() { sim.executeAction(target, true) }, }"] ].   (* Sim.exec_op SInsertAction: enqueue .. [FLAG_STAT_CTRL; FLAG_DISABLE_ACTION] KAction; Sim.execute_task KAction = execute_action .. true, error dropped *)

(* ---- action.go: func InsertAbility ---- *)
Definition e_InsertAbility : fn :=
  mkFn "action.go" "InsertAbility" "sim *Simulation" ["i info.Insert"] []
    [ SkCall "sim.Queue.Insert" ["queue.Task{ Source: i.Source, Priority: i.Priority, AbortFlags: i.AbortFlags, Execute: func() { sim.executeInsert(i) }, }"] ].   (* Sim.exec_op SInsertAbility: enqueue .. (KAbility ..); Sim.execute_task KAbility *)

(* ---- action.go: func InsertUlt ---- *)
Definition e_InsertUlt : fn :=
  mkFn "action.go" "InsertUlt" "sim *Simulation" ["ult logic.Action"] []
    [ SkCall "sim.Queue.Insert" ["queue.Task{ Source: ult.Target, Priority: info.CharInsertAction, AbortFlags: []model.BehaviorFlag{ model.BehaviorFlag_STAT_CTRL, model.BehaviorFlag_DISABLE_ACTION, }, Execute: func() { sim.executeUlt(ult) }, }"] ].   (* Sim.ult_reqs: enqueue s PRIO_CHAR_ACTION target [FLAG_STAT_CTRL; FLAG_DISABLE_ACTION] (KUlt r); Sim.execute_task KUlt *)

(* ---- action.go: func ultCheck ---- *)
Definition e_ultCheck : fn :=
  mkFn "action.go" "ultCheck" "sim *Simulation" [] ["error"]
    [ SkBind ["ults"; "err"] ":=" "sim.eval.UltCheck" [];   (* Sim.ult_check: pops ults_q, VUltCheck (recorded by the decision wrapper) *)
      SkIf [] "err != nil"
        [SkReturn ["err"]]
        [];
      SkRange ["_"; "act"] ":=" "ults"   (* Sim.ult_reqs, one request after the other *)
        [ SkBind ["canuse"; "err"] ":=" "sim.CanUseUlt" ["act.Target"];   (* Sim.ult_reqs: unknown target or an enemy -> Err; Sim.can_ult *)
          SkIf [] "err != nil"
            [SkReturn ["err"]]
            [];
          SkIf [] "canuse"
            [ SkCall "sim.InsertUlt" ["act"];   (* Sim.ult_reqs: enqueue (KUlt r) BEFORE the energy is zeroed *)
              SkCall "sim.Attr.SetEnergy" ["info.ModifyAttribute{ Key: ""ult"", Target: act.Target, Source: act.Target, Amount: 0, }"] ]   (* Sim.ult_reqs: set_energy s1 target 0 *)
            [] ];
      SkReturn ["nil"] ].   (* Sim.ult_reqs: Ok *)

(* ---- action.go: func executeQueue ---- *)
Definition e_executeQueue : fn :=
  mkFn "action.go" "executeQueue" "sim *Simulation" ["phase info.BattlePhase"; "next stateFn"] ["stateFn"; "error"]
    [ SkIf [SkBind ["err"] ":=" "sim.ultCheck" []] "err != nil"   (* Sim.execute_queue: ult_check first, always *)
        [SkReturn ["nil"; "err"]]
        [];
      SkIf [] "phase < info.ActionEnd && !sim.IsCharacter(sim.Active)"   (* Sim.execute_queue: before_action_end && negb (is_char s1 (active_id s1)) -> exit_check, no drain *)
        [SkReturnCall "sim.exitCheck" ["next"]]
        [];
      SkFor [] "!sim.Queue.IsEmpty()" []   (* Sim.drain: pop s = None -> Ok s *)
        [ SkIf [] "len(sim.characters) == 0 || len(sim.enemies) == 0"   (* Sim.drain: a side is empty -> exit_check s (the popped task stays queued) *)
            [SkReturnCall "sim.exitCheck" ["next"]]
            [];
          SkBind ["insert"] ":=" "sim.Queue.Pop" [];   (* Sim.drain / Sim.pop: the (priority, id) minimum *)
          SkIf [] "sim.Attr.State(insert.Source) == info.Dead"   (* Sim.drain: source Dead -> dropped *)
            [SkContinue]
            [];
          SkIf [] "!sim.onField(insert.Source)"   (* Sim.drain: source not in chars ++ enemies -> dropped *)
            [SkContinue]
            [];
          SkIf [] "sim.HasBehaviorFlag(insert.Source, insert.AbortFlags...)"   (* Sim.drain: has_flag s1 source abort -> dropped *)
            [SkContinue]
            [];
          SkCall "insert.Execute" [];   (* Sim.drain: execute_task f s1 t *)
          SkCall "sim.deathCheck" ["false"];   (* Sim.drain: death_check f s2 false after every executed task *)
          SkIf [SkBind ["next"; "err"] ":=" "sim.exitCheck" ["next"]] "next == nil || err != nil"   (* Sim.drain: exit_check s3, Stop ends the drain *)
            [SkReturn ["next"; "err"]]
            [];
          SkIf [SkBind ["err"] ":=" "sim.ultCheck" []] "err != nil"   (* Sim.drain: ult_check s4, then the next round *)
            [SkReturn ["nil"; "err"]]
            [] ];
      SkReturn ["next"; "nil"] ].   (* Sim.drain: Ok s (queue empty) *)

(* ---- action.go: func executeAction ---- *)
Definition e_executeAction : fn :=
  mkFn "action.go" "executeAction" "sim *Simulation" ["id key.TargetID"; "isInsert bool"] ["error"]
    [ SkVar "executable" "target.ExecutableAction";
      SkVar "err" "error";
      SkIf [] "sim.Attr.State(id) != info.Alive"   (* Sim.execute_action: not Alive -> AOk s (skipped) *)
        [SkReturn ["nil"]]
        [];
      SkSwitch "sim.Targets[id]"   (* Sim.execute_action: uchar u -> decision, evaluate (AErr on no target); enemy -> ACrash on an empty character list *)
        [ (["info.ClassCharacter"],
            [ SkBind ["executable"; "err"] "=" "sim.Char.ExecuteAction" ["id"; "isInsert"];
              SkIf [] "err != nil"
                [SkReturn ["fmt.Errorf(""error building char executable action %w"", err)"]]
                [] ]);
          (["info.ClassEnemy"],
            [ SkBind ["executable"; "err"] "=" "sim.Enemy.ExecuteAction" ["id"; "isInsert"];
              SkIf [] "err != nil"
                [SkReturn ["fmt.Errorf(""error building enemy executable action %w"", err)"]]
                [] ]);
          (["info.ClassNeutral"],
            []);
          (["default"],
            [SkReturn ["fmt.Errorf(""unsupported target type: %v"", sim.Targets[id])"]]) ];
      SkCall "sim.ModifySP" ["info.ModifySP{ Key: key.Reason(strings.ToLower(executable.AttackType.String())), Source: id, Amount: executable.SPDelta, }"];   (* Sim.execute_action: mod_sp s2 delta *)
      SkCall "sim.clearActionTargets" [];   (* no counterpart (payload bookkeeping) *)
      SkEmit "ActionStart" ["Owner: id"; "AttackType: executable.AttackType"; "IsInsert: isInsert"];   (* Sim.execute_action: VActionStart id atype ins *)
      SkCall "executable.Execute" [];   (* Sim.run_body: exec_ops fuel false .. (the content script) *)
      SkCall "sim.Combat.EndAttack" [];   (* Sim.run_body: end_attack s1 *)
      SkEmit "ActionEnd" ["Owner: id"; "Targets: sim.ActionTargets"; "AttackType: executable.AttackType"; "IsInsert: isInsert"];   (* Sim.run_body: run_slot LActionEnd (the content listener), then VActionEnd *)
      SkReturn ["nil"] ].

(* ---- action.go: func executeUlt ---- *)
Definition e_executeUlt : fn :=
  mkFn "action.go" "executeUlt" "sim *Simulation" ["act logic.Action"] ["error"]
    [ SkVar "executable" "target.ExecutableUlt";
      SkVar "err" "error";
      SkAssign ["id"] ":=" ["act.Target"];
      SkSwitch "sim.Targets[id]"   (* Sim.execute_ult: not a character / wrong action key / no target -> AOk s (error swallowed by the closure) *)
        [ (["info.ClassCharacter"],
            [ SkBind ["executable"; "err"] "=" "sim.Char.ExecuteUlt" ["act"];
              SkIf [] "err != nil"
                [SkReturn ["fmt.Errorf(""error building char executable ult %w"", err)"]]
                [] ]);
          (["default"],
            [SkReturn ["fmt.Errorf(""unsupported target type: %v"", sim.Targets[id])"]]) ];
      SkCall "sim.clearActionTargets" [];   (* no counterpart (payload bookkeeping) *)
      SkEmit "ActionStart" ["Owner: id"; "AttackType: model.AttackType_ULT"; "IsInsert: true"];   (* Sim.execute_ult: VActionStart id ATYPE_ULT true *)
      SkCall "executable.Execute" [];   (* Sim.run_body: exec_ops *)
      SkCall "sim.Combat.EndAttack" [];   (* Sim.run_body: end_attack *)
      SkEmit "ActionEnd" ["Owner: id"; "Targets: sim.ActionTargets"; "AttackType: model.AttackType_ULT"; "IsInsert: true"];   (* Sim.run_body: run_slot LActionEnd, VActionEnd id ATYPE_ULT true *)
      SkReturn ["nil"] ].

(* ---- action.go: func executeInsert ---- *)
Definition e_executeInsert : fn :=
  mkFn "action.go" "executeInsert" "sim *Simulation" ["i info.Insert"] []
    [ SkCall "sim.clearActionTargets" [];   (* no counterpart (payload bookkeeping) *)
      SkEmit "InsertStart" ["Key: i.Key"; "Owner: i.Source"; "AbortFlags: i.AbortFlags"; "Priority: i.Priority"];   (* Sim.execute_task KAbility: VInsertStart key src prio *)
      SkCall "i.Execute" [];   (* Sim.run_body: exec_ops (the insert body script) *)
      SkCall "sim.Combat.EndAttack" [];   (* Sim.run_body: end_attack *)
      SkEmit "InsertEnd" ["Key: i.Key"; "Owner: i.Source"; "Targets: sim.ActionTargets"; "AbortFlags: i.AbortFlags"; "Priority: i.Priority"] ].   (* Sim.run_body with no slot: VInsertEnd key src prio *)

(* ---- action.go: func clearActionTargets ---- *)
Definition e_clearActionTargets : fn :=
  mkFn "action.go" "clearActionTargets" "sim *Simulation" [] []
    [ SkRange ["k"] ":=" "sim.ActionTargets"   (* no counterpart (payload bookkeeping) *)
        [SkCall "delete" ["sim.ActionTargets"; "k"]] ].

(* ---- death.go: func deathCheck ---- *)
Definition e_deathCheck : fn :=
  mkFn "death.go" "deathCheck" "sim *Simulation" ["killLimbo bool"] []
    [ SkBind ["toKill"] ":=" "make" ["[]key.TargetID"; "0"; "10"];
      SkAssign ["charIdx"] ":=" ["0"];
      SkRange ["_"; "target"] ":=" "sim.characters"   (* Sim.death_check: kc = filter should_kill (chars s); the survivors keep their order *)
        [ SkIf [] "sim.kill(target, killLimbo)"
            [SkBind ["toKill"] "=" "append" ["toKill"; "target"]]
            [ SkAssign ["sim.characters[charIdx]"] "=" ["target"];
              SkAssign ["charIdx"] "++" [] ] ];
      SkAssign ["sim.characters"] "=" ["sim.characters[:charIdx]"];   (* Sim.death_check: set_lists .. (filter (negb should_kill) (chars s)) *)
      SkAssign ["enemyIdx"] ":=" ["0"];
      SkRange ["_"; "target"] ":=" "sim.enemies"   (* Sim.death_check: ke = filter should_kill (enemies s) *)
        [ SkIf [] "sim.kill(target, killLimbo)"
            [SkBind ["toKill"] "=" "append" ["toKill"; "target"]]
            [ SkAssign ["sim.enemies[enemyIdx]"] "=" ["target"];
              SkAssign ["enemyIdx"] "++" [] ] ];
      SkAssign ["sim.enemies"] "=" ["sim.enemies[:enemyIdx]"];   (* Sim.death_check: set_lists .. (filter (negb should_kill) (enemies s)) *)
      SkRange ["_"; "target"] ":=" "toKill"   (* Sim.announce fuel s1 (kc ++ ke): BOTH lists are cut before the first announcement *)
        [ SkCall "sim.Turn.RemoveTarget" ["target"];   (* Sim.announce: Turn.step (ORemove id) *)
          SkCall "sim.deathEvent" ["target"] ] ].   (* Sim.announce: energy-on-kill hook, VDeathSeen, run_slot LDeath, VTargetDeath id killer *)

(* ---- death.go: func kill ---- *)
Definition e_kill : fn :=
  mkFn "death.go" "kill" "sim *Simulation" ["target key.TargetID"; "killLimbo bool"] ["bool"]
    [ SkSwitch "sim.Attr.State(target)"   (* Sim.should_kill: Dead -> true, Alive -> false, Limbo -> kill_limbo, unknown -> true *)
        [ (["info.Dead"],
            [SkReturn ["true"]]);
          (["info.Alive"],
            [SkReturn ["false"]]);
          (["info.Limbo"],
            [SkReturn ["killLimbo"]]);
          (["default"],
            [SkReturn ["true"]]) ] ].

(* ---- death.go: func deathEvent ---- *)
Definition e_deathEvent : fn :=
  mkFn "death.go" "deathEvent" "sim *Simulation" ["target key.TargetID"] []
    [SkEmit "TargetDeath" ["Target: target"; "Killer: sim.Attr.LastAttacker(target)"]].   (* Sim.announce: killer = ulast u; VTargetDeath id killer *)

Definition expected : list fn :=
  [e_Run; e_initialize; e_startBattle; e_engage; e_beginTurn; e_phase1; e_action; e_phase2; e_endTurn; e_exitCheck; e_InsertAction; e_InsertAbility; e_InsertUlt; e_ultCheck; e_executeQueue; e_executeAction; e_executeUlt; e_executeInsert; e_clearActionTargets; e_deathCheck; e_kill; e_deathEvent].

(* the integer constants the three files name, with the values they have in the CURRENT source *)
Definition expected_consts : list (string * Z) :=
  [("info.ActionEnd", (6));
   ("info.Alive", (3));
   ("info.BattleStart", (1));
   ("info.CharInsertAction", (500));
   ("info.Dead", (1));
   ("info.EnemyInsertAction", (1000));
   ("info.InsertAbilityPhase1", (4));
   ("info.InsertAbilityPhase2", (7));
   ("info.Limbo", (2));
   ("info.ModifierPhase1", (3));
   ("info.ModifierPhase2", (8));
   ("info.TurnStart", (2));
   ("model.AttackType_ULT", (3));
   ("model.BehaviorFlag_BREAK_EXTEND", (3));
   ("model.BehaviorFlag_DISABLE_ACTION", (1));
   ("model.BehaviorFlag_STAT_CTRL", (100));
   ("model.TerminationReason_BATTLE_LOSS", (1));
   ("model.TerminationReason_BATTLE_WIN", (2));
   ("model.TerminationReason_INVALID_TERMINATION", (0));
   ("model.TerminationReason_TIMEOUT", (3))].
