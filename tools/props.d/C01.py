CONFIG = {
    "id": "C01",
    "coq_targets": ["Props/C01.v", "Model/DeterminismCheck.v", "Proofs/GlobalsProofs.v"],
    "prop_files": ["Props/C01.v"],
    # Gen/Sites.v: every map-iteration site (with its schema classification) and every use of ambient
    # randomness / clock / environment / goroutines (with reachability from simulation.Run), regenerated
    # from the Go source by harness/cmd/go2coq on every run
    "gen": ["Sites", "Globals"],   # Globals: no reachable run-time write of a package-level variable (cross-run state breaks "same process or a fresh one")
    "components": [{
        "name": "determinism", "modules": ["Model.Determinism", "Model.DeterminismCheck"],
        "check": "check_case", "monitor": "monitor_case", "model_out": "model_out",
        "case_type": "case",
        "ops_path": [0],            # shrinking drops characters from the team
        "n_quick": 240, "n_thorough": 4000, "shard": 30,
    }],
    "rule": "each case = one configuration + gcs script + seed run by the REAL simulation.Run three times in one process "
            "and once in each of two fresh processes; compared: iteration result (bit patterns), the whole event log "
            "line by line as serialised by the repository's JSON logging (logging.Wrap + encoding/json = "
            "logging.DefaultLogger), the script's print output and the rendered AST, and the error/panic status. "
            "Generator: team of 1-4 distinct registered characters (3/4 of the cases >= 2) in random party order, "
            "biased to carriers of a team-wide light cone (chorus, fine_fruit, day_one_of_my_new_life, we_are_wildfire "
            "on the matching path, 2/3 of the cases), silverwolf, march7th/gepard/seele, hunt characters with "
            "return_to_darkness and 100% crit rate, and the harness character det_probe whose attack/heal/shield use "
            "3-4 formula terms; per character a path-matching light cone, 0-3 relic sets of which 3/5 of the cases "
            "two or three sets with effect callbacks (4 cavern + 2 planar or 2+2+2), random main stats, traces, "
            "eidolon, level, start energy/HP; 1-5 dummy enemies (level, attack pattern, hit count, damage, element, "
            "weaknesses, optional tiny HP so that they die); script: per character a default action, a skill "
            "callback (always / if skill_points() >= k / if rand() < 0.5) and usually an ult callback, half of the "
            "scripts first build and print maps with named fields incl. rand() fields; seed < 2^30, cycle limit 1-4; "
            "probes (1/2): three harness startup hooks with observable BattleStart listeners and a dispellable buff "
            "on every enemy. Of up to six candidates the first that runs to completion is kept (1 in 8 kept "
            "regardless). Cases are distinct non-trivial when distinct as input terms; a trivial case would be one "
            "whose run fails before the first event - the status histogram is in op_kinds. Characters whose content "
            "breaks the SECOND run in a process (serval, danhengimbibitorlunae, herta, kafka: isolation defects owned by "
            "C15/C20) are excluded by the switch detExcludeIsolationDefects in harness/cmd/corr/determinism.go.",
    "trusted": [
        "harness/cmd/go2coq Sites: golang.org/x/tools/go/packages + go/types find every range statement over a map "
        "type and every maps.Keys/Values/All call in the non-test files under pkg/, internal/, cmd/ that are part of "
        "the build, and a syntactic matcher assigns each loop body to a schema or to Unclassified (fails closed: "
        "single-statement bodies only; calls are allowed only as conversions, pure builtins, methods on the iterated "
        "value, and per-key methods whose bodies the tool checks to touch only the entry named by their first "
        "parameter). That a matched body really is an instance of the Coq schema is the translator's reading, not a "
        "Coq theorem.",
        "reachability from simulation.Run is an over-approximated call graph: references to module functions "
        "(calls, method values, function values), interface method calls resolved to every module type implementing "
        "the interface; roots = simulation.Run, (*Simulation).Run, every init() and package-level initialiser of the "
        "import closure of pkg/simulation, and every method of those packages whose name is a method of an "
        "interface declared outside the module (reflection / stdlib callbacks).",
        "the Go runtime's map iteration is modelled as: any permutation of the entries, chosen afresh at every "
        "range statement; sort.Slice/sort.Strings/slices.Sorted are modelled as sorting by a total order on "
        "elements with distinct keys (range_collect_sorted)",
        "binary64: the two-term fact is proved from FloatAxioms.add_spec for Coq's single NaN (NaN payloads are "
        "not modelled)",
    ],
    "assumptions": [
        "equality between a run in this process and a run in a fresh process, and the determinism of Go code that "
        "touches no map iteration, no ambient randomness, clock, environment or goroutine, are covered by the "
        "repeated-run search only, not by a Coq theorem",
        "statements are about one run at a time; runs sharing a process are C15's subject (four characters are "
        "excluded from the generated teams until the isolation fixes are merged)",
    ],
    "manifest": {
        "level_text": "Kernel-checked schema library for Go map iteration under an explicit order oracle (all "
                      "permutations), with order-dependence witnesses; proof obligations, closed by computation over "
                      "site tables regenerated from the Go source on every run, that every map iteration is an "
                      "instance of a proved schema and that nothing reachable from simulation.Run uses ambient "
                      "randomness/clock/environment; repeated-run search on the real simulator (same process and "
                      "fresh processes, result + full JSON event log).",
        "level_note": "Coq kernel; translator harness/cmd/go2coq (go/types) for the site tables; partial: the Go "
                      "runtime's randomisation is modelled as any permutation, fresh-process equality and the "
                      "translator's schema matching are covered by the search / trusted.",
        "technique": "Coq proof (Permutation-indexed schema library, reflection over generated site tables) + "
                     "repeated-run differential search on the implementation",
        "design_ref": "DESIGN.md section 7, C01 and Appendix A",
    },
}
