CONFIG = {
    "id": "C08",
    "coq_targets": ["Props/C08.v", "Model/SimCheck.v", "Model/DispatchCheck.v"],
    "prop_files": ["Props/C08.v"],
    "gen": [],
    "components": [{
        "name": "sim", "modules": ["Base.NumOps", "Model.Turn", "Model.Sim", "Model.SimCheck"],
        "check": "check_case", "monitor": "monitor_c08", "model_out": "monitor_detail",
        "case_type": "case", "ops_path": None, "mismatch_is_violation": False,
        "n_quick": 900, "n_thorough": 12000, "shard": 150,
    }, {
        # the modifier manager's listener dispatch for the death path: HPChange, LimboWaitHeal (the walk ends with
        # the FIRST callback answering true, the verdict is the disjunction), TargetDeath (Model/Dispatch.v, shared
        # with C04: tools/props.d/C04.py describes the component)
        "name": "dispatch_hit",
        "modules": ["Model.Dispatch", "Model.DispatchSpec", "Model.DispatchCheck"],
        "check": "check_case", "monitor": "monitor_case", "model_out": "model_out",
        "case_type": "case", "ops_path": [3],
        "n_quick": 300, "n_thorough": 8000, "shard": 100,
    }],
    "rule": "scripted battles on the REAL simulation.Simulation: 1-4 registered harness characters (6 kinds: speeds, SP "
            "costs, target types, a Skill.CanUse / Ult.CanUse check of their own), 1-5 harness enemies (HP 50-400, speeds incl. ties), 5-14 content scripts of engine calls "
            "(attacks qualified/unqualified with lethal and scratch damage on any unit incl. dead and unknown ids, SetHP, "
            "insert abilities with real priorities and abort flags, extra actions, energy, SP, flag modifiers, gauge "
            "changes, revive switches, samples of Characters()/Enemies()/turn order), per-unit action queues, listener "
            "slots (BattleStart, ActionEnd, HitEnd, TargetDeath, HPChange, AttackStart, the OnPhase1 / OnPhase2 modifier "
            "ticks, LimboWaitHeal verdict), decision sequences of the "
            "script callbacks incl. invalid targets and ult requests, cycle limit 0-4, insert budget 0-12; distinct = "
            "distinct input term",
    "trusted": ["hits of harness content are 'plain' (no DEF/RES/stance/shield/crit), so a hit's total is its flat damage; the "
                "damage formula itself is C04",
                "listener scripts never open or close an attack bracket (legal use of the API, enforced by the model as a "
                "distinct outcome and respected by the generator); they may add hits to an attack that is open",
                "the turn manager part is Model/Turn.v at binary64 (property C02)"],
    "assumptions": ["content uses the engine API legally: an attack bracket is opened (first qualified attack) and closed (EndAttack) only from action / ult / insert bodies"],
    "manifest": {
        "level_text": 'Kernel-checked theorems about the executable whole-simulation model: what a death check kills (dead always, limbo only at turn end), that the living lists lose exactly the killed units and that no content script or listener can change them, that no HP change revives or re-limbos a dead unit, that an action starts only for an Alive unit and that queued inserts of dead / removed / flagged sources are dropped without any event. The trace-level statement is proved as one theorem over whole runs (C08_trace_level: for every configuration, content and fuel, the trace of every run that ends satisfies death_ok: announced at most once, afterwards absent from every turn order snapshot, sample, turn-end snapshot, never the acting unit, starts no action or insert), by a frame principle over all scripts (Proofs/SimFrame.v) and a per-function relation composed over the loop (Proofs/SimDeathTrace.v). The same boolean predicate, and the killer clause (killer = attacker of the last damaging hit, killer_ok_from, monitor only: not proved as a whole-run theorem), are evaluated on every real simulator trace.',
        "level_note": "Coq kernel; hand-written model Model/Sim.v tied by whole-trace correspondence; content is scripted harness "
                      "content registered through the exported Register functions; internal/* content is not modelled.",
        "technique": 'Coq proofs (frame and absorption lemmas over all scripts) + whole-trace correspondence + trace monitor',
        "design_ref": "DESIGN.md section 7, C08",
    },
}
